#!/bin/bash
# Runs the repository's pinned baseline suite with the verif guard OFF and checks
# that every stable_pass test of /root/.vp/BASELINE.json passes.
cd /repo || exit 2
export GOFLAGS=-mod=mod GOPROXY=off GOSUMDB=off GOTOOLCHAIN=local
out=$(mktemp)
go test -mod=mod -json -vet=off -count=1 -timeout 25m ./... > "$out" 2>&1
python3 - "$out" <<'PY'
import json,sys
base=set(json.load(open('/root/.vp/BASELINE.json'))['stable_pass'])
res={}
for l in open(sys.argv[1]):
    try: e=json.loads(l)
    except Exception: continue
    if e.get('Test') and e.get('Action') in ('pass','fail'):
        res[e['Package']+'::'+e['Test']]=e['Action']
bad=[t for t in sorted(base) if res.get(t)!='pass']
print("baseline (guard off): %d of %d stable tests pass"%(len(base)-len(bad),len(base)))
for t in bad: print("NOT PASSING:",t)
sys.exit(1 if bad else 0)
PY
rc=$?
rm -f "$out"
exit $rc
