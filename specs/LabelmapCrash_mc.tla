-------------------------- MODULE LabelmapCrash_mc --------------------------
EXTENDS LabelmapCrash, LabelGeom, Json

Key == [sv |-> sv, mp |-> mp, nxt |-> nxt]
\* one line per acknowledged operation: source and target state, the operation with the shape of
\* its write program (groups of writes in order: kind and number of writes) and the bodies it names
AckEmit == Ack /\ PrintT(ToJson([s |-> Key, l |-> last', t |-> Key', c |-> cur, touched |-> touched, ing |-> ingested',
                                   mapw |-> [x \in {y \in LabelU : pre.map[y] # post.map[y]} |-> post.map[x]]]))
CNextEmit == Begin \/ Step \/ AckEmit \/ Crash \/ Recover
CSpecEmit == CInit /\ [][CNextEmit]_cvars
\* one line per distinct quiescent state: the expected observation
EmitObs == (mode = "idle" /\ ingested = NB) => PrintT(ToJson([k |-> Key, d |-> depth, obs |-> Obs]))
\* depth and last are output-only
CView == <<sv, mp, nxt, st, pre, post, prog, cur, touched, mode, ingested, crashes>>
=============================================================================
