----------------------------- MODULE InstanceIso -----------------------------
(***************************************************************************)
(* Data instances over one ordered byte-keyed store (property C06, second   *)
(* sentence): no operation on one data instance - including deleting it -   *)
(* changes what another instance returns, and a newly created instance is   *)
(* empty even after older instances were deleted.                           *)
(*                                                                         *)
(* The store is a function from storage keys (byte strings laid out by      *)
(* KeyLayout) to values.  An instance's content is read back two ways: by   *)
(* point reads of its data and by the scan between the instance's bounds;   *)
(* deleting an instance removes what lies between its bounds.  Instance ids *)
(* are 32-bit and handed out sequentially from IdStart (server setting      *)
(* instance_id_start), so with IdStart near 2^32-1 a history runs over the  *)
(* ids 2^32-2, 2^32-1, 0, 1, ...                                            *)
(*                                                                         *)
(* hist is the sequence of operations performed (part of the state): every  *)
(* state is one history, printed by Emit with the expected content of every *)
(* instance; the checker replays the histories through the HTTP API and     *)
(* compares after every step.                                               *)
(***************************************************************************)
EXTENDS KeyLayout, TLC, Json

CONSTANTS NNames,      \* instance names are 1..NNames
          NKeys,       \* data are 1..NKeys (key strings "a", "ab", "b": prefix-related)
          MaxLen,      \* length of a history
          MaxRestarts, \* restarts per history
          IdStart,     \* <<hi, lo>>: first instance id
          WrapMaxBug   \* TRUE: an instance's bounds end at prefix(id + 1 with wrap-around)

VARIABLES live,    \* name -> id of the live instance of that name, or None
          store,   \* storage key -> value (the step that wrote it)
          nextId,  \* next instance id
          hist     \* sequence of [op, n, k]

vars == <<live, store, nextId, hist>>

None == <<-1, -1>>
Names == 1..NNames
DKeys == 1..NKeys
KeyStrings == << <<97>>, <<97, 98>>, <<98>> >>
TK(k) == KVTKey(KeyStrings[k])
Ver == <<0, 1>>            \* the root version of the repo (unversioned view: one version)

DataKey(id, k) == Key(id, TK(k), Ver, Zero32, MarkData)
TombKey(id, k) == Key(id, TK(k), Ver, Zero32, MarkTomb)
IMax(id) == IF WrapMaxBug THEN InstanceMaxWrap(id) ELSE InstanceMax(id)
InInstance(s, id) == InRange(s, InstanceMin(id), IMax(id))

\* ---- what an instance returns ----
\* point reads: datum -> value, for the data that are found
PointViewOf(st, id) == [k \in {j \in DKeys : DataKey(id, j) \in DOMAIN st} |-> st[DataKey(id, k)]]
PointView(id) == PointViewOf(store, id)
\* listing: the data entries met by the scan between the instance's bounds
ScanKeysOf(st, id) == {s \in DOMAIN st : InInstance(s, id) /\ MarkerOf(s) = MarkData}
ScanKeys(id) == ScanKeysOf(store, id)
ViewOf(lv, st, n) == IF lv[n] = None THEN None ELSE PointViewOf(st, lv[n])
View(n) == ViewOf(live, store, n)

\* ---- operations ----
Step == Len(hist) + 1
Log(op, n, k) == hist' = Append(hist, [op |-> op, n |-> n, k |-> k])
Restrict(f, S) == [x \in S |-> f[x]]

Create(n) ==
    /\ live[n] = None
    /\ live' = [live EXCEPT ![n] = nextId]
    /\ nextId' = Succ32(nextId)
    /\ UNCHANGED store
    /\ Log("create", n, 0)

Write(n, k) ==
    /\ live[n] # None
    /\ LET id == live[n]
           dom == ((DOMAIN store) \ {TombKey(id, k)}) \cup {DataKey(id, k)} IN
       store' = [s \in dom |-> IF s = DataKey(id, k) THEN Step ELSE store[s]]
    /\ UNCHANGED <<live, nextId>>
    /\ Log("write", n, k)

DelKey(n, k) ==
    /\ live[n] # None
    /\ DataKey(live[n], k) \in DOMAIN store
    /\ LET id == live[n]
           dom == ((DOMAIN store) \ {DataKey(id, k)}) \cup {TombKey(id, k)} IN
       store' = [s \in dom |-> IF s = TombKey(id, k) THEN 0 ELSE store[s]]
    /\ UNCHANGED <<live, nextId>>
    /\ Log("delkey", n, k)

Delete(n) ==
    /\ live[n] # None
    /\ store' = Restrict(store, {s \in DOMAIN store : ~InInstance(s, live[n])})
    /\ live' = [live EXCEPT ![n] = None]
    /\ UNCHANGED nextId
    /\ Log("delete", n, 0)

\* a server restart changes nothing (ids are persisted before use)
Restart ==
    /\ Cardinality({i \in 1..Len(hist) : hist[i].op = "restart"}) < MaxRestarts
    /\ Len(hist) > 0 /\ hist[Len(hist)].op # "restart"
    /\ UNCHANGED <<live, store, nextId>>
    /\ Log("restart", 0, 0)

Init == /\ live = [n \in Names |-> None]
        /\ store = <<>>
        /\ nextId = IdStart
        /\ hist = <<>>

Next == /\ Len(hist) < MaxLen
        /\ \/ \E n \in Names : Create(n) \/ Delete(n)
           \/ \E n \in Names, k \in DKeys : Write(n, k) \/ DelKey(n, k)
           \/ Restart

Spec == Init /\ [][Next]_vars

\* ---- the claims ----
LiveIds == {live[n] : n \in {m \in Names : live[m] # None}}

\* two live instances never share an id
Inv_C06_DistinctIds == \A a, b \in Names : a # b /\ live[a] # None => live[a] # live[b]

\* the scan over a live instance meets exactly that instance's entries, and they are the
\* ones the point reads find
Inv_C06_ScanIsOwn ==
    \A n \in Names : live[n] # None =>
        ScanKeys(live[n]) = {DataKey(live[n], k) : k \in DOMAIN PointView(live[n])}

\* every entry of the store belongs to a live instance (deletion leaves nothing behind)
Inv_C06_NoResidue == \A s \in DOMAIN store : InstOf(s) \in LiveIds

\* a step on one instance leaves the content of every other instance unchanged ...
Act_C06_Isolation ==
    [][\A m \in Names : m # hist'[Len(hist')].n => ViewOf(live', store', m) = View(m)]_vars
\* ... and a newly created instance is empty
Act_C06_FreshEmpty ==
    [][\A n \in Names : live[n] = None /\ live'[n] # None =>
            /\ ScanKeysOf(store', live'[n]) = {}
            /\ PointViewOf(store', live'[n]) = <<>>
            /\ \A s \in DOMAIN store : InstOf(s) # live'[n]]_vars

\* ---- expected results for the replay ----
ViewJson(n) == IF live[n] = None THEN [live |-> FALSE, id |-> None, kv |-> [k \in DKeys |-> 0]]
               ELSE [live |-> TRUE, id |-> live[n],
                     kv |-> [k \in DKeys |-> IF k \in DOMAIN PointView(live[n]) THEN PointView(live[n])[k] ELSE 0]]
Emit == PrintT(ToJson([hist |-> hist, views |-> [n \in Names |-> ViewJson(n)], skeys |-> DOMAIN store]))
=============================================================================
