SPECIFICATION Spec
CONSTANTS
  NNames = 3
  NKeys = 2
  MaxLen = 4
  MaxRestarts = 0
  IdStart <- IdStartHigh
  WrapMaxBug = FALSE
INVARIANTS Inv_C06_DistinctIds Inv_C06_ScanIsOwn Inv_C06_NoResidue
PROPERTIES Act_C06_Isolation Act_C06_FreshEmpty
CHECK_DEADLOCK FALSE
