---------------------------- MODULE KeyLayout_mc ----------------------------
(***************************************************************************)
(* Exhaustive check of the KeyLayout claims over a case table, and the      *)
(* expected results for the replay (property C06).                          *)
(*                                                                         *)
(* The generated module KeyLayoutCases supplies                             *)
(*   IdList   instance ids (the boundary ids 0, 1, 2, 2^31, 2^32-2, 2^32-1  *)
(*            plus seeded ones), each <<hi, lo>>                            *)
(*   TKSpecs  datum keys, as the arguments of the datatype's constructor    *)
(*   VerList, CliList  version and client ids                               *)
(* A datum is a pair (instance id, TKey); a state of this specification is  *)
(* a pair of data (d1 <= d2); the invariants check every pair of keys of the *)
(* two data.                                                                *)
(***************************************************************************)
EXTENDS KeyLayout, KeyLayoutCases, TLC, Json

CONSTANT WrapMaxBug   \* TRUE: instance ranges end at prefix(id + 1 with wrap-around), as storage.DataContext.KeyRange did

VARIABLES d1, d2

TKeyFor(s) ==
    CASE s.cls = "kv"       -> KVTKey(s.s)
      [] s.cls = "nj"       -> NJTKey(s.s)
      [] s.cls = "anntag"   -> AnnTagTKey(s.s)
      [] s.cls = "annlabel" -> AnnLabelTKey(s.l)
      [] s.cls = "annblock" -> AnnBlockTKey(s.p)
      [] s.cls = "imgblock" -> ImgBlockTKey(s.p)
      [] s.cls = "lmblock"  -> LMBlockTKey(s.sc, s.p)
      [] s.cls = "lmindex"  -> LMIndexTKey(s.l)
      [] s.cls = "szsl"     -> SzSizeLabelTKey(s.c, s.u, s.l)
      [] s.cls = "sztl"     -> SzLabelTKey(s.c, s.l)
      [] s.cls = "roi"      -> ROITKey(s.p, s.u)
      [] s.cls = "tile"     -> TileTKey(s.a, s.sc, s.p)
      [] s.cls = "tarsv"    -> TarSVTKey(s.s, s.e)
      [] s.cls = "lmaff"    -> LMAffinitiesTKey(s.l)
      [] s.cls = "lmmut"    -> LMMutcacheTKey(s.l, s.m)
      [] s.cls = "plain"    -> PayloadlessTKey(s.c)
      [] s.cls = "mintk"    -> MinTKey(s.c)
      [] s.cls = "maxtk"    -> MaxTKey(s.c)

NI == Len(IdList)
NT == Len(TKSpecs)
NV == Len(VerList)
NC == Len(CliList)
ND == NI * NT                   \* data
NJ == NV * NC * 2               \* keys per datum
MarkList == <<MarkData, MarkTomb>>

TKs == [t \in 1..NT |-> TKeyFor(TKSpecs[t])]
DatumInst(d) == IdList[((d - 1) \div NT) + 1]
DatumTK(d)   == TKs[((d - 1) % NT) + 1]
\* key j of a datum: j = ((vi-1) * NC + (ci-1)) * 2 + mi
JV(j) == VerList[((j - 1) \div (NC * 2)) + 1]
JC(j) == CliList[(((j - 1) \div 2) % NC) + 1]
JM(j) == MarkList[((j - 1) % 2) + 1]

AllKeys == [d \in 1..ND |-> [j \in 1..NJ |-> Key(DatumInst(d), DatumTK(d), JV(j), JC(j), JM(j))]]
MinV == [d \in 1..ND |-> MinVersionKey(DatumInst(d), DatumTK(d))]
MaxV == [d \in 1..ND |-> MaxVersionKey(DatumInst(d), DatumTK(d))]
IMin == [ii \in 1..NI |-> InstanceMin(IdList[ii])]
IMax == [ii \in 1..NI |-> IF WrapMaxBug THEN InstanceMaxWrap(IdList[ii]) ELSE InstanceMax(IdList[ii])]
InstIdx(d) == ((d - 1) \div NT) + 1

\* ---- preconditions of the claims (the TKey contract of storage/keyvalue.go) ----
ASSUME /\ \A t \in 1..NT : IsBytes(TKs[t])
       /\ PrefixFree({TKs[t] : t \in 1..NT})
       /\ \A a, b \in 1..NT : a # b => TKs[a] # TKs[b]
       /\ \A a, b \in 1..NI : a # b => IdList[a] # IdList[b]

\* Without the terminator the claims are false: "a" and a key that continues "a" with
\* bytes that look like a version id interleave.  (Kept so that the precondition above is
\* known to matter.)
ASSUME LET t1 == NewTKey(177, <<97>>)
           t2 == NewTKey(177, <<97, 0, 0>>)
           k1 == Key(<<0, 1>>, t1, <<1, 0>>, Zero32, MarkData)
           k2 == Key(<<0, 1>>, t2, Zero32, Zero32, MarkData)
       IN  LexLess(t1, t2) /\ LexLess(k2, k1) /\ InRange(k2, MinVersionKey(<<0, 1>>, t1), MaxVersionKey(<<0, 1>>, t1))

\* The same for a string key that holds the terminator byte itself (gap C06-4): the stored form of
\* "a" is a prefix of the stored form of "a\0b", an entry of "a\0b" lies between the version bounds
\* of "a" and under its unversioned prefix, so such keys are outside the contract and the
\* constructors must refuse them (keyvalue.NewTKey, annotation.NewTagTKey).
ASSUME LET t1 == KVTKey(<<97>>)
           t2 == KVTKey(<<97, 0, 98>>)
           k2 == Key(<<0, 1>>, t2, <<0, 7>>, Zero32, MarkData)
       IN  /\ IsPrefix(t1, t2) /\ ~PrefixFree({t1, t2})
           /\ InRange(k2, MinVersionKey(<<0, 1>>, t1), MaxVersionKey(<<0, 1>>, t1))
           /\ IsPrefix(InstPrefix(<<0, 1>>) \o t1, k2)

\* ---- the claims, on the pair of data (a, b) ----
Inv_C06_Injective == d2 # 0 =>
    LET K == AllKeys IN
    \A j1, j2 \in 1..NJ : K[d1][j1] = K[d2][j2] <=> (d1 = d2 /\ j1 = j2)

Inv_C06_Decode == d2 # 0 =>
    LET K == AllKeys IN
    \A j \in 1..NJ :
        LET k == K[d1][j] IN
        /\ IsBytes(k)
        /\ k[1] = DataPrefix
        /\ InstOf(k) = DatumInst(d1) /\ TKeyOf(k) = DatumTK(d1)
        /\ VersionOf(k) = JV(j) /\ ClientOf(k) = JC(j) /\ MarkerOf(k) = JM(j)
        \* re-addressing a key (copy, push) keeps datum key and marker
        /\ \A j2 \in 1..NJ : Update(k, DatumInst(d2), JV(j2), JC(j2)) = Key(DatumInst(d2), DatumTK(d1), JV(j2), JC(j2), JM(j))

Inv_C06_Order == d2 # 0 =>
    LET K == AllKeys IN
    \A j1, j2 \in 1..NJ :
        LexLess(K[d1][j1], K[d2][j2]) <=>
            TupleLess(DatumInst(d1), DatumTK(d1), JV(j1), JC(j1), JM(j1),
                      DatumInst(d2), DatumTK(d2), JV(j2), JC(j2), JM(j2))

\* all versions of one datum lie between its bounds and nothing else does
Inv_C06_Contiguous == d2 # 0 =>
    LET K == AllKeys  lo == MinV  hi == MaxV IN
    /\ \A j \in 1..NJ : InRange(K[d1][j], lo[d1], hi[d1])
    /\ d1 # d2 => \A j \in 1..NJ : /\ ~InRange(K[d2][j], lo[d1], hi[d1])
                                   /\ ~InRange(K[d1][j], lo[d2], hi[d2])
    /\ d1 # d2 => ~InRange(lo[d2], lo[d1], hi[d1]) /\ ~InRange(hi[d2], lo[d1], hi[d1])

\* the scan over one instance covers its keys and the bounds of its data, and meets no
\* entry or bound of another instance
Inv_C06_InstanceRange == d2 # 0 =>
    LET K == AllKeys  lo == IMin  hi == IMax  a == InstIdx(d1)  b == InstIdx(d2) IN
    /\ \A j \in 1..NJ : InRange(K[d1][j], lo[a], hi[a])
    /\ InRange(MinV[d1], lo[a], hi[a]) /\ InRange(MaxV[d1], lo[a], hi[a])
    /\ a # b => /\ \A j \in 1..NJ : ~InRange(K[d2][j], lo[a], hi[a]) /\ ~InRange(K[d1][j], lo[b], hi[b])
                /\ ~InRange(MinV[d2], lo[a], hi[a]) /\ ~InRange(MaxV[d2], lo[a], hi[a])
    \* and never a metadata or blob key
    /\ ~InRange(<<MetaPrefix>>, lo[a], hi[a]) /\ ~InRange(<<BlobPrefix, 0>>, lo[a], hi[a])

\* ---- expected results for the replay, printed once ----
Flat(d, j) == (d - 1) * NJ + j
FlatKey(f) == AllKeys[((f - 1) \div NJ) + 1][((f - 1) % NJ) + 1]
Sorted == LET K == AllKeys IN
          SortSeq([f \in 1..(ND * NJ) |-> f],
                  LAMBDA f, g : LexLess(K[((f - 1) \div NJ) + 1][((f - 1) % NJ) + 1], K[((g - 1) \div NJ) + 1][((g - 1) % NJ) + 1]))
\* The expected content of the scan over one datum's bounds / one instance's bounds is
\* written down as "the keys of that datum / instance, in byte order": by
\* Inv_C06_Contiguous and Inv_C06_InstanceRange (checked on every pair of data) these
\* are exactly the keys of the table that lie between the bounds.
\* datum keys the checker looks for in a real store after requests that write them (classes
\* without an exported constructor): StoredSpecs of the generated module
Table ==
    LET K == AllKeys  S == Sorted IN
    [tkeys    |-> TKs,
     stored   |-> [i \in 1..Len(StoredSpecs) |-> TKeyFor(StoredSpecs[i])],
     keys     |-> K,
     minv     |-> MinV,
     maxv     |-> MaxV,
     order    |-> S,
     instscan |-> [ii \in 1..NI |-> SelectSeq(S, LAMBDA f : InstIdx(((f - 1) \div NJ) + 1) = ii)],
     datumscan |-> [d \in 1..ND |-> SelectSeq(S, LAMBDA f : ((f - 1) \div NJ) + 1 = d)]]

Emit == (d1 = 0 /\ d2 = 0) => PrintT(ToJson(Table))

\* (0,0) -> (a,0) -> (a,b): two levels, so that the pairs are spread over TLC's workers
Init == d1 = 0 /\ d2 = 0
Next == \/ d1 = 0 /\ d1' \in 1..ND /\ d2' = 0
        \/ d1 # 0 /\ d2 = 0 /\ d1' = d1 /\ d2' \in d1..ND
Spec == Init /\ [][Next]_<<d1, d2>>
=============================================================================
