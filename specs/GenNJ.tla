------------------------------- MODULE GenNJ -------------------------------
(* Constants of the scripted behaviours of NeuronJSON_script.  This file is   *)
(* the stand-alone example; the harness (cmd/vcheck/c16s.go) overwrites it in *)
(* its scratch copy with the seeded scripts of a run.                         *)
EXTENDS Integers, Sequences, TLC

GenFields == {"a", "b"}
GenUn == [f \in GenFields |-> -1]
GenNoSt == [f \in GenFields |-> 0]
GenOp(k) == [k |-> k, vsel |-> 0, psel |-> 0, id |-> 1, upd |-> GenUn, st |-> GenNoSt, id2 |-> 1, upd2 |-> GenUn,
             rep |-> FALSE, cond |-> {}, sk |-> "json_schema", sc |-> 1, clean |-> TRUE, br |-> 1, trk |-> {}, stat |-> {}]

\* abstract values: 1 = an integer, 2 = a string, 3 = the string spelling value 1, 4 = an integer list holding value 1
GenIntVals   == {1}
GenConvTo    == (3 :> 1)
GenAtomsOf   == <<{1}, {3}, {4}, {1, 2}>>
GenConstrain == [d \in 0..3 |-> IF d = 3 THEN 1 ELSE 0]
GenQueries   == << <<<<[f |-> "a", k |-> "any", at |-> {1}]>>>>,
                   <<<<[f |-> "a", k |-> "ex1", at |-> {}], [f |-> "b", k |-> "any", at |-> {3}]>>>>,
                   <<<<[f |-> "a", k |-> "any", at |-> {2}]>>, <<[f |-> "b", k |-> "ex0", at |-> {}]>>>> >>
GenProjs     == << [fs |-> {}, su |-> TRUE, st |-> TRUE], [fs |-> {"a"}, su |-> TRUE, st |-> FALSE] >>

GenScripts == <<
  [trk0 |-> {1},
   ops  |-> << [GenOp("post") EXCEPT !.upd = [GenUn EXCEPT !["a"] = 1]],
               GenOp("commit"),
               [GenOp("branch") EXCEPT !.br = 1],
               [GenOp("post") EXCEPT !.id = 2, !.upd = [GenUn EXCEPT !["b"] = 2]],
               GenOp("commit"),
               GenOp("newver"),
               [GenOp("post") EXCEPT !.id = 1, !.upd = [GenUn EXCEPT !["b"] = 4], !.st = [GenNoSt EXCEPT !["b"] = 3]],
               [GenOp("postschema") EXCEPT !.sc = 3],
               [GenOp("post") EXCEPT !.id = 2, !.upd = [GenUn EXCEPT !["a"] = 3]],
               [GenOp("post") EXCEPT !.id = 2, !.upd = [GenUn EXCEPT !["a"] = 2]],
               GenOp("commit"),
               GenOp("merge"),
               GenOp("commit"),
               GenOp("newver"),
               [GenOp("del") EXCEPT !.id = 1],
               [GenOp("restart") EXCEPT !.trk = {1}, !.stat = {0}] >>]
>>
=============================================================================
