--------------------------- MODULE LabelmapReads ---------------------------
(***************************************************************************)
(* Read options of the labelmap endpoints as a refinement of the state of   *)
(* Labelmap.tla (gaps C08-3, C08-5, C08-10, C18-1, C09-1 HTTP part).        *)
(*                                                                          *)
(* A read that names a body b (or, with supervoxels=true, a supervoxel s)   *)
(* is a read of the region set RegionsOf(b) (RegionsOfSV(s)).  The options  *)
(* only restrict that set geometrically:                                    *)
(*                                                                          *)
(*   Clip (minx..maxz, exact=true)   the voxels of those regions inside     *)
(*        the query box q, nothing else.  The generated geometry gives, per *)
(*        query box, BoxVoxDef[q][r] = number of voxels of region r inside  *)
(*        q (the same brute-force source of truth as NVox for blocks), so   *)
(*        the expected answer is the set of regions with a non-zero count   *)
(*        together with the total count: an answer that lies inside q,      *)
(*        inside those regions, has no voxel twice and has that many voxels *)
(*        is exactly the clipped set.                                       *)
(*   Loose clip (exact=false, format=blocks, HEAD, sparsevol-coarse)        *)
(*        block granular: BoxBlkDef[q] = the blocks whose extent meets q.   *)
(*        The answer must contain the exact clip and must stay inside the   *)
(*        regions and inside those blocks.                                  *)
(*   supervoxels=true   the same reads of RegionsOfSV(s); a supervoxel that *)
(*        is not in SVs any more (split away) has no voxels, size 0.        *)
(*                                                                          *)
(* Format (rles / srles / blocks), compression (lz4 / gzip) and the batch   *)
(* forms (sizes, indices, sparsevols-coarse, listlabels) do not change the  *)
(* abstract answer; the harness decodes them to voxel sets / numbers.       *)
(*                                                                          *)
(* Reads at a merge node (gap C08-6).  Labelmap.tla describes one version;  *)
(* a version created by POST repo/merge of two committed siblings holding   *)
(* the states A and B (reached from a common state S by transitions a and   *)
(* b) has, per datum (block, label index, mapping entry), the value of the  *)
(* parent that changed it -- KVRead's rule.  When a and b touch disjoint    *)
(* bodies every datum is changed by at most one of them, and the merge node *)
(* must read as the state M with S -a-> A -b-> M and S -b-> B -a-> M.  The   *)
(* harness takes M (and Obs, Reads of M) from TLC's state graph: it only    *)
(* merges pairs for which both paths exist in the graph and meet in M.      *)
(***************************************************************************)
EXTENDS Labelmap, LabelGeom

NQ == Len(BoxVoxDef)
Boxes == 1..NQ

ClipRegions(rs, q) == {r \in rs : BoxVoxDef[q][r] > 0}
ClipVoxels(rs, q) == SumOver(rs, BoxVoxDef[q])
\* blocks of the region set that meet the box
ClipBlocks(rs, q) == {k \in BoxBlkDef[q] : \E r \in rs : NVox[r][k] > 0}
\* upper bound of a block-granular answer: everything the region set has in those blocks
LooseVoxels(rs, q) == SumOver(rs, [r \in Regions |-> SumOver(BoxBlkDef[q], NVox[r])])

\* a clipped read never invents voxels and an unbounded box clips nothing (checked by TLC as an invariant)
Inv_Clip ==
    \A b \in Bodies : \A q \in Boxes :
        /\ ClipVoxels(RegionsOf(b), q) <= BodySize(b)
        /\ ClipVoxels(RegionsOf(b), q) <= LooseVoxels(RegionsOf(b), q)
        /\ LooseVoxels(RegionsOf(b), q) <= BodySize(b)
        /\ ClipRegions(RegionsOf(b), q) = {} <=> ClipVoxels(RegionsOf(b), q) = 0
        /\ (ClipVoxels(RegionsOf(b), q) > 0 => ClipBlocks(RegionsOf(b), q) # {})
\* clipped reads of the bodies partition the clipped volume like the bodies partition the volume
Inv_ClipConservation ==
    \A q \in Boxes :
        SumOver(Bodies, [b \in Bodies |-> ClipVoxels(RegionsOf(b), q)])
          = SumOver({r \in Regions : sv[r] # 0}, BoxVoxDef[q])

ClipOf(rs) ==
    [q \in Boxes |->
        [regions |-> SetToSeqAsc(ClipRegions(rs, q)),
         voxels |-> ClipVoxels(rs, q),
         blocks |-> SetToSeqAsc(ClipBlocks(rs, q)),
         loose |-> LooseVoxels(rs, q)]]

BlocksOfRegions(rs) == {k \in Blocks : \E r \in rs : NVox[r][k] > 0}

Reads ==
    [bodies |-> [i \in 1..Cardinality(Bodies) |->
                   LET b == SetToSeqAsc(Bodies)[i] IN
                   [label |-> b, clip |-> ClipOf(RegionsOf(b))]],
     svs |-> [i \in 1..Cardinality(SVs) |->
                   LET s == SetToSeqAsc(SVs)[i] IN
                   [sv |-> s, body |-> mp[s], size |-> SVSize(s),
                    regions |-> SetToSeqAsc(RegionsOfSV(s)),
                    blocks |-> SetToSeqAsc(BlocksOfRegions(RegionsOfSV(s))),
                    clip |-> ClipOf(RegionsOfSV(s))]]]
=============================================================================
