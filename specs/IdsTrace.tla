------------------------------ MODULE IdsTrace ------------------------------
(***************************************************************************)
(* Trace specification for server-issued identifiers (property C12).       *)
(* The trace (ndjson, one event per identifier handed out by the real      *)
(* server, in issue order, across restarts and crashes) is a behaviour of  *)
(* this specification iff                                                  *)
(*   - no mutation id, label, version id or instance id is issued twice,   *)
(*   - mutation ids and allocated labels strictly increase in issue order, *)
(*   - every allocated label exceeds every label present in the volume     *)
(*     (ingested or allocated earlier, or found in the stored voxels after *)
(*     a crash), unless the counter was repositioned                       *)
(* Restart / Crash events change nothing: identifiers survive them.        *)
(***************************************************************************)
EXTENDS Integers, Sequences, FiniteSets, TLC, Json

TraceLog == ndJsonDeserialize("ids_trace.ndjson")

VARIABLES l,        \* next trace line
          maxLabel, \* largest label present or allocated, per labelmap instance
          lastMut,  \* last mutation id issued, per repo
          versions, \* version ids issued
          insts     \* instance ids issued

vars == <<l, maxLabel, lastMut, versions, insts>>

Get(f, k) == IF k \in DOMAIN f THEN f[k] ELSE 0
Put(f, k, v) == [x \in (DOMAIN f) \cup {k} |-> IF x = k THEN v ELSE f[x]]

Init == l = 1 /\ maxLabel = <<>> /\ lastMut = <<>> /\ versions = {} /\ insts = {}

IsEvent(e) == l <= Len(TraceLog) /\ TraceLog[l].ev = e /\ l' = l + 1

\* labels seen in ingested voxels raise the bar for later allocations
EvIngest == /\ IsEvent("ingest")
            /\ LET t == TraceLog[l] IN
               maxLabel' = Put(maxLabel, t.inst, IF t.max > Get(maxLabel, t.inst) THEN t.max ELSE Get(maxLabel, t.inst))
            /\ UNCHANGED <<lastMut, versions, insts>>

\* after a crash the driver reads the stored voxels: the largest label found there is present,
\* whether or not the request that wrote it was ever acknowledged (the property speaks of
\* "every label already present in that label volume")
EvPresent == /\ IsEvent("present")
             /\ LET t == TraceLog[l] IN
                maxLabel' = Put(maxLabel, t.inst, IF t.max > Get(maxLabel, t.inst) THEN t.max ELSE Get(maxLabel, t.inst))
             /\ UNCHANGED <<lastMut, versions, insts>>

\* one label allocated (cleave, split-supervoxel: the split and the remainder supervoxel)
EvLabel == /\ IsEvent("label")
           /\ LET t == TraceLog[l] IN
              /\ t.id > Get(maxLabel, t.inst)
              /\ maxLabel' = Put(maxLabel, t.inst, t.id)
           /\ UNCHANGED <<lastMut, versions, insts>>

\* a range allocated by POST nextlabel/<n>
EvRange == /\ IsEvent("range")
           /\ LET t == TraceLog[l] IN
              /\ t.start > Get(maxLabel, t.inst) /\ t.end = t.start + t.n - 1
              /\ maxLabel' = Put(maxLabel, t.inst, t.end)
           /\ UNCHANGED <<lastMut, versions, insts>>

EvMut == /\ IsEvent("mut")
         /\ LET t == TraceLog[l] IN
            /\ t.id > Get(lastMut, t.repo)
            /\ lastMut' = Put(lastMut, t.repo, t.id)
         /\ UNCHANGED <<maxLabel, versions, insts>>

EvVersion == /\ IsEvent("version")
             /\ TraceLog[l].id \notin versions
             /\ versions' = versions \cup {TraceLog[l].id}
             /\ UNCHANGED <<maxLabel, lastMut, insts>>

EvInstance == /\ IsEvent("instance")
              /\ TraceLog[l].id \notin insts
              /\ insts' = insts \cup {TraceLog[l].id}
              /\ UNCHANGED <<maxLabel, lastMut, versions>>

\* restarts and crashes are stuttering steps for identifiers
EvRestart == (IsEvent("restart") \/ IsEvent("crash")) /\ UNCHANGED <<maxLabel, lastMut, versions, insts>>

\* several traces are concatenated: a reset starts from scratch
EvReset == IsEvent("reset") /\ maxLabel' = <<>> /\ lastMut' = <<>> /\ versions' = {} /\ insts' = {}

Next == EvIngest \/ EvPresent \/ EvLabel \/ EvRange \/ EvMut \/ EvVersion \/ EvInstance \/ EvRestart \/ EvReset
Spec == Init /\ [][Next]_vars

\* every line of the trace was explained (fully logged events: the search is linear)
TraceAccepted == TLCGet("stats").diameter - 1 = Len(TraceLog)
\* position of the first line the specification cannot explain (for diagnostics)
Progress == l
=============================================================================
