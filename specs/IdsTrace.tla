------------------------------ MODULE IdsTrace ------------------------------
(***************************************************************************)
(* Trace specification for server-issued identifiers (property C12).       *)
(* The trace (ndjson, one event per identifier handed out by the real      *)
(* server, in issue order, across restarts and crashes) is a behaviour of  *)
(* this specification iff                                                  *)
(*   - no mutation id, label, version id or instance id is issued twice,   *)
(*   - mutation ids and allocated labels strictly increase in issue order, *)
(*   - every allocated label exceeds every label present in the volume     *)
(*     (ingested or allocated earlier, or found in the stored voxels after *)
(*     a crash), unless the counter was repositioned                       *)
(*     ("reposition" event = POST set-nextlabel/<n> by an administrator:   *)
(*     from then on the instance hands out n+1, n+2, ... whatever labels   *)
(*     are present; only "greater than every label present" is waived,     *)
(*     allocations still strictly increase from the chosen position).      *)
(* Mutation ids are counted per repo ("repo" field), labels per labelmap   *)
(* instance ("inst" field); version and instance ids are server-wide.      *)
(* "present" events carry labels observed in the volume: stored voxels     *)
(* after a crash, or body labels a client chose through POST mappings.     *)
(* Restart / Crash events change nothing: identifiers survive them.        *)
(***************************************************************************)
EXTENDS Integers, Sequences, FiniteSets, TLC, Json

TraceLog == ndJsonDeserialize("ids_trace.ndjson")

VARIABLES l,        \* next trace line
          maxLabel, \* largest label present or allocated, per labelmap instance
          alloc,    \* last label allocated (or the position an administrator chose), per labelmap instance
          repos,    \* labelmap instances whose label counter was repositioned
          lastMut,  \* last mutation id issued, per repo
          versions, \* version ids issued
          insts     \* instance ids issued

vars == <<l, maxLabel, alloc, repos, lastMut, versions, insts>>

Get(f, k) == IF k \in DOMAIN f THEN f[k] ELSE 0
Put(f, k, v) == [x \in (DOMAIN f) \cup {k} |-> IF x = k THEN v ELSE f[x]]

Init == l = 1 /\ maxLabel = <<>> /\ alloc = <<>> /\ repos = {} /\ lastMut = <<>> /\ versions = {} /\ insts = {}

Max(a, b) == IF a > b THEN a ELSE b
\* an allocated label must exceed the previous allocation and, unless repositioned, every label present
Fresh(inst, id) == /\ id > Get(alloc, inst)
                   /\ inst \notin repos => id > Get(maxLabel, inst)

IsEvent(e) == l <= Len(TraceLog) /\ TraceLog[l].ev = e /\ l' = l + 1

\* labels seen in ingested voxels raise the bar for later allocations
EvIngest == /\ IsEvent("ingest")
            /\ LET t == TraceLog[l] IN
               maxLabel' = Put(maxLabel, t.inst, IF t.max > Get(maxLabel, t.inst) THEN t.max ELSE Get(maxLabel, t.inst))
            /\ UNCHANGED <<alloc, repos, lastMut, versions, insts>>

\* after a crash the driver reads the stored voxels: the largest label found there is present,
\* whether or not the request that wrote it was ever acknowledged (the property speaks of
\* "every label already present in that label volume")
EvPresent == /\ IsEvent("present")
             /\ LET t == TraceLog[l] IN
                maxLabel' = Put(maxLabel, t.inst, IF t.max > Get(maxLabel, t.inst) THEN t.max ELSE Get(maxLabel, t.inst))
             /\ UNCHANGED <<alloc, repos, lastMut, versions, insts>>

\* one label allocated (cleave, split-supervoxel: the split and the remainder supervoxel)
EvLabel == /\ IsEvent("label")
           /\ LET t == TraceLog[l] IN
              /\ Fresh(t.inst, t.id)
              /\ maxLabel' = Put(maxLabel, t.inst, Max(t.id, Get(maxLabel, t.inst)))
              /\ alloc' = Put(alloc, t.inst, t.id)
           /\ UNCHANGED <<repos, lastMut, versions, insts>>

\* a range allocated by POST nextlabel/<n>
EvRange == /\ IsEvent("range")
           /\ LET t == TraceLog[l] IN
              /\ Fresh(t.inst, t.start) /\ t.end = t.start + t.n - 1
              /\ maxLabel' = Put(maxLabel, t.inst, Max(t.end, Get(maxLabel, t.inst)))
              /\ alloc' = Put(alloc, t.inst, t.end)
           /\ UNCHANGED <<repos, lastMut, versions, insts>>

\* an administrator repositions the label counter of an instance: the next label is t.to + 1
EvReposition == /\ IsEvent("reposition")
                /\ LET t == TraceLog[l] IN
                   /\ alloc' = Put(alloc, t.inst, t.to)
                   /\ repos' = repos \cup {t.inst}
                /\ UNCHANGED <<maxLabel, lastMut, versions, insts>>

EvMut == /\ IsEvent("mut")
         /\ LET t == TraceLog[l] IN
            /\ t.id > Get(lastMut, t.repo)
            /\ lastMut' = Put(lastMut, t.repo, t.id)
         /\ UNCHANGED <<maxLabel, alloc, repos, versions, insts>>

EvVersion == /\ IsEvent("version")
             /\ TraceLog[l].id \notin versions
             /\ versions' = versions \cup {TraceLog[l].id}
             /\ UNCHANGED <<maxLabel, alloc, repos, lastMut, insts>>

EvInstance == /\ IsEvent("instance")
              /\ TraceLog[l].id \notin insts
              /\ insts' = insts \cup {TraceLog[l].id}
              /\ UNCHANGED <<maxLabel, alloc, repos, lastMut, versions>>

\* restarts and crashes are stuttering steps for identifiers
EvRestart == (IsEvent("restart") \/ IsEvent("crash")) /\ UNCHANGED <<maxLabel, alloc, repos, lastMut, versions, insts>>

\* several traces are concatenated: a reset starts from scratch
EvReset == IsEvent("reset") /\ maxLabel' = <<>> /\ alloc' = <<>> /\ repos' = {} /\ lastMut' = <<>> /\ versions' = {} /\ insts' = {}

Next == EvIngest \/ EvPresent \/ EvLabel \/ EvRange \/ EvReposition \/ EvMut \/ EvVersion \/ EvInstance \/ EvRestart \/ EvReset
Spec == Init /\ [][Next]_vars

\* every line of the trace was explained (fully logged events: the search is linear)
TraceAccepted == TLCGet("stats").diameter - 1 = Len(TraceLog)
\* position of the first line the specification cannot explain (for diagnostics)
Progress == l
=============================================================================
