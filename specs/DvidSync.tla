------------------------------ MODULE DvidSync ------------------------------
(***************************************************************************)
(* Sync settings of the data instances of one repo (property C07 growth:   *)
(* graph-neutral requests; C03: the settings survive a restart).           *)
(*                                                                         *)
(*   POST <instance>/sync {"sync": "a,b"}            add a, b to the syncs *)
(*   POST <instance>/sync?replace=true {"sync": ..}  set the syncs         *)
(*   repo <uuid> delete <instance>                   delete an instance    *)
(*                                                                         *)
(* An annotation instance can be synced with label instances, a labelsz    *)
(* instance with any instance (it is meant for annotation instances, but   *)
(* the server accepts every type), a keyvalue instance with nothing.       *)
(* A deleted instance stays listed in the syncs of the instances that were *)
(* synced with it (the server shows it as "undefined") until their syncs   *)
(* are replaced; while it is listed, adding syncs is refused.              *)
(***************************************************************************)
EXTENDS Integers, FiniteSets, TLC

CONSTANTS Labels, Annot, Sizes, Other, NoSuch

VARIABLES live,   \* instances that exist
          syn,    \* syn[i]: the instances i is synced with (may contain deleted ones)
          last

vars == <<live, syn, last>>
Insts == Labels \cup {Annot, Sizes, Other}
Syncable == {Annot, Sizes}
Compatible(i) == IF i = Annot THEN Labels ELSE IF i = Sizes THEN Insts ELSE {}

Init == /\ live = Insts
        /\ syn = [i \in Syncable |-> {}]
        /\ last = [op |-> "init", ok |-> TRUE]

\* what the request makes of the syncs of i
NewSyncs(i, S, replace) == IF replace THEN S ELSE S \cup syn[i]

G_SetSync(i, S, replace) ==
    /\ i \in live /\ i \in Syncable
    /\ S \subseteq live                               \* unknown names are refused
    /\ (S # {} => /\ NewSyncs(i, S, replace) \subseteq live      \* a listed deleted instance blocks additions
                  /\ NewSyncs(i, S, replace) \subseteq Compatible(i))

SetSync_Ok(i, S, replace) ==
    /\ G_SetSync(i, S, replace)
    /\ syn' = [syn EXCEPT ![i] = IF S = {} /\ ~replace THEN @ ELSE NewSyncs(i, S, replace)]
    /\ UNCHANGED live
    /\ last' = [op |-> "setsync", inst |-> i, names |-> S, replace |-> replace, ok |-> TRUE]

SetSync_Rej(i, S, replace) ==
    /\ i \in live /\ ~G_SetSync(i, S, replace)
    /\ UNCHANGED <<live, syn>>
    /\ last' = [op |-> "setsync", inst |-> i, names |-> S, replace |-> replace, ok |-> FALSE]

Delete_Ok(j) ==
    /\ j \in live
    /\ live' = live \ {j}
    /\ UNCHANGED syn
    /\ last' = [op |-> "delete", inst |-> j, ok |-> TRUE]

Restart == UNCHANGED <<live, syn>> /\ last' = [op |-> "restart", ok |-> TRUE]

AnnotArgs == {{}, {CHOOSE l \in Labels : TRUE}, Labels, {Other}, {NoSuch}} \cup {{l} : l \in Labels}
SizesArgs == {{}, {Annot}, {CHOOSE l \in Labels : TRUE}}
ArgsOf(i) == IF i = Annot THEN AnnotArgs ELSE IF i = Sizes THEN SizesArgs ELSE {{CHOOSE l \in Labels : TRUE}}

Next ==
    \/ \E i \in Syncable \cup {Other}, replace \in BOOLEAN : \E S \in ArgsOf(i) : SetSync_Ok(i, S, replace) \/ SetSync_Rej(i, S, replace)
    \/ \E j \in Labels \cup {Annot} : Delete_Ok(j)

Spec == Init /\ [][Next]_vars

\* what GET <instance>/info shows
Shown(i) == [names |-> syn[i] \cap live, undefined |-> Cardinality(syn[i] \ live)]

Inv_Typed == \A i \in Syncable : syn[i] \subseteq Compatible(i)
\* a live instance never gains a sync with an instance that does not exist
Act_NoNewDangling == [][\A i \in Syncable : (syn'[i] \ live') \subseteq (syn[i] \ live) \cup (live \ live')]_vars
Act_RejectIsStutter == [][last'.ok = FALSE => UNCHANGED <<live, syn>>]_vars
=============================================================================
