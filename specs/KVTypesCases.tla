---------------------------- MODULE KVTypesCases ----------------------------
(* Default shape list of KVTypes (the checker generates its own under the    *)
(* same name): the diamond and a 2-parent merge over a chain.                *)
TypeShapes == << << <<>>, <<1>>, <<1>>, <<2, 3>> >>, << <<>>, <<1>>, <<2>>, <<3, 1>> >> >>
=============================================================================
