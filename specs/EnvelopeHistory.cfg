SPECIFICATION Spec
CONSTANTS
  Comps = {"none", "snappy", "lz4", "gzip"}
  MaxCalls = 3
INVARIANTS Inv_C15_ResultsStable Inv_C15_AllHeld Emit
CHECK_DEADLOCK FALSE
