------------------------------- MODULE DvidKV -------------------------------
(***************************************************************************)
(* Versioned key-value data over the version DAG (properties C01, C02,     *)
(* C05): DvidDAG's repo-level requests plus point writes, deletions and    *)
(* reads of a keyvalue instance.  A write or deletion is accepted only at  *)
(* an uncommitted version (C02: committed versions are immutable); a read  *)
(* returns KVRead.Read over the ancestry (C01).                            *)
(***************************************************************************)
EXTENDS DvidDAG, KVRead

CONSTANTS Keys,
          AllowInnerMergeConflict   \* TRUE while the finding "inner-merge-conflict" is listed as known

VARIABLE ent       \* ent[k] : function from nodes to Tomb (0) or a value id > 0

kvvars == <<nn, par, kids, br, lk, kind, rp, uid, head, dead, last, ent>>

KVInit == Init /\ ent = [k \in Keys |-> <<>>]

Upd(f, n, v) == [x \in (DOMAIN f) \cup {n} |-> IF x = n THEN v ELSE f[x]]

G_Write(n) == n \in Nodes /\ ~lk[n]

Put_Ok(n, k, x) ==
    /\ G_Write(n) /\ x > 0
    /\ ent' = [ent EXCEPT ![k] = Upd(@, n, x)]
    /\ UNCHANGED dagvars
    /\ last' = [op |-> "put", ok |-> TRUE]

Del_Ok(n, k) ==
    /\ G_Write(n)
    /\ ent' = [ent EXCEPT ![k] = Upd(@, n, Tomb)]
    /\ UNCHANGED dagvars
    /\ last' = [op |-> "del", ok |-> TRUE]

\* a write or deletion at a committed (or unknown) version is refused and changes nothing
Write_Rej(n) ==
    /\ ~G_Write(n)
    /\ UNCHANGED <<dagvars, ent>>
    /\ last' = [op |-> "write", ok |-> FALSE]

\* reading key k at version n yields value id r (0 = not found, -1 = conflict: any failure)
Get(n, k, r) ==
    /\ n \in Nodes
    /\ LET want == Read(par, ent[k], n) IN
       \/ r = want
       \/ want = -1 /\ r <= 0          \* two unsuperseded live values: the read may fail in any way
    /\ UNCHANGED <<dagvars, ent>>
    /\ last' = [op |-> "get", ok |-> TRUE]

\* Named deviation (known finding, enabled only in trace validation): the implementation's
\* resolver reports "multiple kv" inside an inner merge although, at the queried version, a
\* deletion in another lineage leaves exactly one live value (or none).
Dev_InnerMergeConflict(n, k, r) ==
    /\ AllowInnerMergeConflict
    /\ n \in Nodes /\ r <= 0       \* the GET answers an error or, the error being swallowed, 404
    /\ Read(par, ent[k], n) >= 0
    /\ FindMatchNode(par, ent[k], n) = -1
    /\ PrintT("DEVIATION inner-merge-conflict")
    /\ UNCHANGED <<dagvars, ent>>
    /\ last' = [op |-> "get", ok |-> FALSE]

\* C02 at the level of the design: the content readable at a committed version never changes
Content(n) == [k \in Keys |-> Read(par, ent[k], n)]
Act_C02_Frozen == [][\A n \in Nodes : lk[n] => (lk'[n] /\ Content(n)' = Content(n))]_kvvars
=============================================================================
