---------------------------- MODULE DvidDAGG_mc ----------------------------
(* Model-checking / emission driver for the second-round (growth) actions of DvidDAG. *)
EXTENDS DvidDAG, Json

\* every accepted transition that changes the state, once (TLC expands each distinct state once)
NextEmitG == NextG /\ (IF last'.ok /\ dagvars' # dagvars THEN PrintT(ToJson([s |-> StateRec, l |-> last', t |-> StateRec'])) ELSE TRUE)
SpecEmitG == Init /\ [][NextEmitG]_vars

\* one line per distinct state: what the addresses of the state name, and the growth requests
\* that must be refused there / whose outcome is unspecified
EmitObs == PrintT(ToJson([s |-> StateRec, obs |-> ObsRec, rej |-> GrowthRejected, probe |-> GrowthProbes, noop |-> GrowthNoops]))

View == dagvars
=============================================================================
