------------------------------ MODULE Labelmap ------------------------------
(***************************************************************************)
(* Proofreading of a label volume over a region abstraction (properties    *)
(* C08, C12-labels, C14; the label side of C13).                           *)
(*                                                                         *)
(* The voxel volume is partitioned into regions 1..R (generated geometry:  *)
(* NVox[r][b] = number of voxels of region r in block b).  The state of    *)
(* one version is                                                          *)
(*    sv[r]  supervoxel id stored in the voxels of region r (0 background) *)
(*    mp[s]  body of supervoxel s (for every supervoxel present)           *)
(*    nxt    last label the server allocated                               *)
(* Operations only move voxels between bodies.  A child version starts     *)
(* from its parent's state; the harness realises the explored state graph  *)
(* as a tree of versions (every transition runs in a fresh child branch),  *)
(* so isolation from ancestors and siblings is observed on every edge.     *)
(***************************************************************************)
EXTENDS Integers, Sequences, FiniteSets, TLC

CONSTANTS R,          \* number of regions
          NB,         \* number of blocks
          NVox,       \* NVox[r][b] voxel counts (generated)
          InitSV,     \* initial supervoxel of each region (generated)
          InitMax,    \* largest label ingested
          MaxOps,     \* depth bound
          Classes1,   \* down-res: Classes1[c] = the 8 regions (0 = unwritten) under a level-1 voxel of class c
          Classes2,   \* Classes2[c] = the 8 level-1 classes (0 = unwritten) under a level-2 voxel of class c
          WithOverwrite, \* include mutating voxel writes in Next
          WithSplit      \* include body splits (server option allowLabelmapSplit) and re-ingest of indices/mappings

VARIABLES sv, mp, nxt, depth, last

vars == <<sv, mp, nxt, depth, last>>

Regions == 1..R
Blocks == 1..NB
SVs == {sv[r] : r \in Regions} \ {0}
RegionsOfSV(s) == {r \in Regions : sv[r] = s}
Body(r) == IF sv[r] = 0 THEN 0 ELSE mp[sv[r]]
Bodies == {mp[s] : s \in SVs}
SVsOf(b) == {s \in SVs : mp[s] = b}
RegionsOf(b) == {r \in Regions : sv[r] # 0 /\ mp[sv[r]] = b}

RECURSIVE SumOver(_, _)
SumOver(S, f) == IF S = {} THEN 0 ELSE LET x == CHOOSE y \in S : TRUE IN f[x] + SumOver(S \ {x}, f)
RECURSIVE SetToSeqAsc(_)
SetToSeqAsc(S) == IF S = {} THEN <<>> ELSE LET x == CHOOSE y \in S : \A z \in S : y <= z IN <<x>> \o SetToSeqAsc(S \ {x})
RegionSize(r) == SumOver(Blocks, NVox[r])
SVCountInBlock(s, b) == SumOver(RegionsOfSV(s), [r \in Regions |-> NVox[r][b]])
SVSize(s) == SumOver(RegionsOfSV(s), [r \in Regions |-> RegionSize(r)])
BodySize(b) == SumOver(RegionsOf(b), [r \in Regions |-> RegionSize(r)])
BlocksOfBody(b) == {k \in Blocks : \E r \in RegionsOf(b) : NVox[r][k] > 0}
TotalVoxels == SumOver(Regions, [r \in Regions |-> RegionSize(r)])

\* initial mapping: every supervoxel is its own body (a configuration may substitute another
\* initial agglomeration with  InitMap <- ...  ; the harness then builds it with POST merge)
InitMap == [s \in {InitSV[r] : r \in Regions} \ {0} |-> s]
Init ==
    /\ sv = InitSV
    /\ mp = InitMap
    /\ nxt = InitMax
    /\ depth = 0
    /\ last = [op |-> "init"]

(***************************************************************************)
(* POST merge [T, m1, m2, ...]                                             *)
(***************************************************************************)
Merge(T, M) ==
    /\ T \in Bodies /\ M # {} /\ M \subseteq Bodies \ {T}
    /\ mp' = [s \in DOMAIN mp |-> IF mp[s] \in M THEN T ELSE mp[s]]
    /\ UNCHANGED <<sv, nxt>>
    /\ last' = [op |-> "merge", target |-> T, merged |-> M]

(***************************************************************************)
(* POST cleave/<B> [s1, s2, ...]  -> new body nxt+1                        *)
(***************************************************************************)
Cleave(B, C) ==
    /\ B \in Bodies /\ C # {} /\ C \subseteq SVsOf(B) /\ C # SVsOf(B)
    /\ mp' = [s \in DOMAIN mp |-> IF s \in C THEN nxt + 1 ELSE mp[s]]
    /\ nxt' = nxt + 1
    /\ UNCHANGED sv
    /\ last' = [op |-> "cleave", body |-> B, svs |-> C, new |-> nxt + 1]

(***************************************************************************)
(* POST split-supervoxel/<s> (sparse volume of the regions in S)           *)
(*   -> split supervoxel nxt+1 (the posted voxels), remainder nxt+2        *)
(***************************************************************************)
SplitSV(s, S) ==
    /\ s \in SVs /\ S # {} /\ S \subseteq RegionsOfSV(s) /\ S # RegionsOfSV(s)
    /\ sv' = [r \in Regions |-> IF r \in S THEN nxt + 1 ELSE IF sv[r] = s THEN nxt + 2 ELSE sv[r]]
    /\ mp' = [x \in ((DOMAIN mp) \ {s}) \cup {nxt + 1, nxt + 2} |->
                 IF x \in {nxt + 1, nxt + 2} THEN mp[s] ELSE mp[x]]
    /\ nxt' = nxt + 2
    /\ last' = [op |-> "splitsv", sv |-> s, regions |-> S, split |-> nxt + 1, remain |-> nxt + 2]

(***************************************************************************)
(* POST split/<B> (sparse volume of the regions in S) -> new body nxt+1.   *)
(* Every supervoxel touched by S is split into a "split" supervoxel (its   *)
(* voxels inside S, mapped to the new body) and a "remain" supervoxel (its *)
(* voxels outside S, staying in B); both get new ids, the old id vanishes. *)
(* The server allocates those ids in an order the model does not fix; the  *)
(* model numbers them by ascending old id and the harness binds them from  *)
(* the stored voxels.                                                      *)
(***************************************************************************)
AffectedSeq(S) == SetToSeqAsc({sv[r] : r \in S})
RankOf(q, x) == CHOOSE i \in 1..Len(q) : q[i] = x
SplitIdOf(S, s) == nxt + 2 * RankOf(AffectedSeq(S), s)
RemainIdOf(S, s) == nxt + 2 * RankOf(AffectedSeq(S), s) + 1
Split(B, S) ==
    /\ B \in Bodies /\ S # {} /\ S \subseteq RegionsOf(B) /\ S # RegionsOf(B)
    /\ LET aff == {sv[r] : r \in S} IN
       /\ sv' = [r \in Regions |-> IF r \in S THEN SplitIdOf(S, sv[r])
                                    ELSE IF sv[r] \in aff THEN RemainIdOf(S, sv[r]) ELSE sv[r]]
       /\ mp' = [x \in ({sv'[r] : r \in Regions} \ {0}) |->
                   IF x \in DOMAIN mp THEN mp[x]
                   ELSE IF \E s \in aff : x = SplitIdOf(S, s) THEN nxt + 1 ELSE B]
       /\ nxt' = nxt + 1 + 2 * Cardinality(aff)
    /\ last' = [op |-> "split", body |-> B, regions |-> S, new |-> nxt + 1]

(***************************************************************************)
(* Re-ingest of consistent data: POST index/<b> with the body's current     *)
(* index, POST mappings with the current mapping.  Nothing may change.      *)
(***************************************************************************)
Reingest(kind, b) ==
    /\ b \in Bodies
    /\ UNCHANGED <<sv, mp, nxt>>
    /\ last' = [op |-> kind, body |-> b]

(***************************************************************************)
(* State-changing ingest of an agglomeration (gap C08-2).  A client that    *)
(* has computed "the bodies M join T" offline pushes the result through the *)
(* ingestion endpoints instead of POST merge:                               *)
(*    POST mappings   every supervoxel of a body in M  ->  T                *)
(*    POST index/T    T's index = the block-wise union of the indices       *)
(*    POST index/m    an empty index for every m in M (= delete)            *)
(* (how = "indices": the index part is one POST indices batch).  The claim  *)
(* is that the three ingests together are observably Merge(T, M): the       *)
(* successor below is Merge's, so every invariant and every read of Obs is  *)
(* demanded of the ingestion path too.  The record carries the posted       *)
(* mapping (svs); the posted indices are those of Obs in the target state.  *)
(***************************************************************************)
IngestAgglo(T, M, how) ==
    /\ T \in Bodies /\ M # {} /\ M \subseteq Bodies \ {T}
    /\ mp' = [s \in DOMAIN mp |-> IF mp[s] \in M THEN T ELSE mp[s]]
    /\ UNCHANGED <<sv, nxt>>
    /\ last' = [op |-> "agglo", target |-> T, merged |-> M, svs |-> {s \in SVs : mp[s] \in M}, how |-> how]

(***************************************************************************)
(* POST split-supervoxel/<s>?split=<a>&remain=<b>: the client names the two *)
(* new supervoxels itself (gap C08-12).  Same successor as SplitSV; the     *)
(* harness chooses two labels above everything present or allocated.        *)
(***************************************************************************)
SplitSVChosen(s, S) ==
    /\ s \in SVs /\ S # {} /\ S \subseteq RegionsOfSV(s) /\ S # RegionsOfSV(s)
    /\ sv' = [r \in Regions |-> IF r \in S THEN nxt + 1 ELSE IF sv[r] = s THEN nxt + 2 ELSE sv[r]]
    /\ mp' = [x \in ((DOMAIN mp) \ {s}) \cup {nxt + 1, nxt + 2} |->
                 IF x \in {nxt + 1, nxt + 2} THEN mp[s] ELSE mp[x]]
    /\ nxt' = nxt + 2
    /\ last' = [op |-> "splitsv", sv |-> s, regions |-> S, split |-> nxt + 1, remain |-> nxt + 2, chosen |-> TRUE]

(***************************************************************************)
(* POST renumber [new, old]: the body `old` becomes body `new`             *)
(***************************************************************************)
Renumber(old, new) ==
    /\ old \in Bodies /\ new \notin Bodies /\ new \notin SVs /\ new > 0
    /\ mp' = [s \in DOMAIN mp |-> IF mp[s] = old THEN new ELSE mp[s]]
    /\ nxt' = IF new > nxt THEN new ELSE nxt
    /\ UNCHANGED sv
    /\ last' = [op |-> "renumber", old |-> old, new |-> new]

(***************************************************************************)
(* POST raw?mutate=true: regions WR get supervoxel x (an ingest of labels) *)
(***************************************************************************)
Overwrite(WR, x) ==
    /\ WR # {} /\ x >= 0 /\ \E r \in WR : sv[r] # x
    /\ sv' = [r \in Regions |-> IF r \in WR THEN x ELSE sv[r]]
    /\ mp' = [s \in ({sv'[r] : r \in Regions} \ {0}) |-> IF s \in DOMAIN mp THEN mp[s] ELSE s]   \* a new label is its own body
    /\ nxt' = IF x > nxt THEN x ELSE nxt
    /\ last' = [op |-> "overwrite", regions |-> WR, label |-> x]

(***************************************************************************)
(* Documented down-sampling (property C14): a voxel at level n+1 is the     *)
(* most frequent non-zero label among the 2x2x2 voxels beneath it, ties to  *)
(* the smaller label, all zero gives zero.  Levels are derived, never       *)
(* stored: "always up to date" is definitional here; the harness compares   *)
(* the levels the server stores with these.                                 *)
(***************************************************************************)
Vote(q) ==
    LET nz == {q[i] : i \in 1..8} \ {0}
        cnt(l) == Cardinality({i \in 1..8 : q[i] = l})
    IN IF nz = {} THEN 0
       ELSE CHOOSE l \in nz : \A m \in nz : cnt(l) > cnt(m) \/ (cnt(l) = cnt(m) /\ l <= m)
SVAt(r) == IF r = 0 THEN 0 ELSE sv[r]
Level1(c) == Vote([i \in 1..8 |-> SVAt(Classes1[c][i])])
Level1At(c) == IF c = 0 THEN 0 ELSE Level1(c)
Level2(c) == Vote([i \in 1..8 |-> Level1At(Classes2[c][i])])
BodyOfSV(s) == IF s = 0 THEN 0 ELSE mp[s]

NonEmptyProperSubsets(S) == {T \in SUBSET S : T # {} /\ T # S}

Next ==
    /\ depth < MaxOps
    /\ depth' = depth + 1
    /\ \/ \E T \in Bodies : \E M \in (SUBSET (Bodies \ {T})) \ {{}} : Merge(T, M)
       \/ \E B \in Bodies : \E C \in NonEmptyProperSubsets(SVsOf(B)) : Cleave(B, C)
       \/ \E s \in SVs : \E S \in NonEmptyProperSubsets(RegionsOfSV(s)) : SplitSV(s, S)
       \/ \E old \in Bodies : Renumber(old, nxt + 5)
       \/ WithSplit /\ \E B \in Bodies : \E S \in NonEmptyProperSubsets(RegionsOf(B)) : Split(B, S)
       \/ WithSplit /\ \E b \in Bodies : \E k \in {"reindex", "remap"} : Reingest(k, b)
       \/ WithSplit /\ \E T \in Bodies : \E M \in (SUBSET (Bodies \ {T})) \ {{}} : \E h \in {"index", "indices"} : IngestAgglo(T, M, h)
       \/ WithSplit /\ \E s \in SVs : \E S \in NonEmptyProperSubsets(RegionsOfSV(s)) : SplitSVChosen(s, S)
       \* a region is overwritten with a fresh label, with a supervoxel already present, or erased
       \/ WithOverwrite /\ \E r \in Regions : \E x \in {0, nxt + 7} \cup SVs : Overwrite({r}, x)

Spec == Init /\ [][Next]_vars

(***************************************************************************)
(* Property C08 (conservation) and C12 (fresh labels)                      *)
(***************************************************************************)
\* every non-background region belongs to exactly one body that exists; sizes add up
Inv_C08_Conservation ==
    /\ \A r \in Regions : sv[r] # 0 => sv[r] \in DOMAIN mp /\ mp[sv[r]] \in Bodies
    /\ DOMAIN mp = SVs
    /\ SumOver(Bodies, [b \in Bodies |-> BodySize(b)]) + SumOver({r \in Regions : sv[r] = 0}, [r \in Regions |-> RegionSize(r)]) = TotalVoxels
    /\ \A b1, b2 \in Bodies : b1 # b2 => RegionsOf(b1) \cap RegionsOf(b2) = {}

\* operations only move voxels: the background never changes, and the partition into regions
\* carrying voxels is preserved
Act_C08_OnlyMoves == [][last'.op # "overwrite" => {r \in Regions : sv'[r] = 0} = {r \in Regions : sv[r] = 0}]_vars

\* allocated labels are larger than every label present
Inv_C12_NewLabelsFresh == \A s \in SVs : s <= nxt /\ \A b \in Bodies : b <= nxt
Act_C12_Increasing == [][nxt' >= nxt]_vars

(***************************************************************************)
(* What the harness compares after every transition                        *)
(***************************************************************************)
RECURSIVE SetToSeq(_)
SetToSeq(S) == IF S = {} THEN <<>> ELSE LET x == CHOOSE y \in S : \A z \in S : y <= z IN <<x>> \o SetToSeq(S \ {x})

Obs ==
    [sv |-> sv,
     body |-> [r \in Regions |-> Body(r)],
     nxt |-> nxt,
     bodies |-> [i \in 1..Cardinality(Bodies) |->
                   LET b == SetToSeq(Bodies)[i] IN
                   [label |-> b, size |-> BodySize(b), svs |-> SetToSeq(SVsOf(b)),
                    regions |-> SetToSeq(RegionsOf(b)), blocks |-> SetToSeq(BlocksOfBody(b)),
                    index |-> [k \in 1..Cardinality(BlocksOfBody(b)) |->
                                 LET blk == SetToSeq(BlocksOfBody(b))[k] IN
                                 [block |-> blk,
                                  counts |-> [j \in 1..Cardinality({s \in SVsOf(b) : SVCountInBlock(s, blk) > 0}) |->
                                                LET s == SetToSeq({x \in SVsOf(b) : SVCountInBlock(x, blk) > 0})[j] IN
                                                [sv |-> s, n |-> SVCountInBlock(s, blk)]]]]]],
     lvl1 |-> [c \in 1..Len(Classes1) |-> Level1(c)],
     lvl2 |-> [c \in 1..Len(Classes2) |-> Level2(c)],
     svsizes |-> [i \in 1..Cardinality(SVs) |-> [sv |-> SetToSeq(SVs)[i], size |-> SVSize(SetToSeq(SVs)[i])]]]
=============================================================================
