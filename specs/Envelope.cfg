SPECIFICATION Spec
INVARIANTS TypeOK Inv_C15_RoundTrip Inv_C15_RoundTripRaw Inv_C15_LossySameSize Inv_C15_ObjectRoundTrip Inv_C15_RepoDetected Inv_C15_IndexUndetected Inv_C15_Detect Inv_C15_GzipNeverWrong Inv_C15_Total Emit
CHECK_DEADLOCK FALSE
