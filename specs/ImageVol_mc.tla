---------------------------- MODULE ImageVol_mc ----------------------------
(* Exhaustive exploration of ImageVol: every sequence of at most MaxWrites   *)
(* writes (of them at most MaxLoads file loads), MaxRoiOps changes of a      *)
(* region of interest, MaxExtOps posted extents and at most MaxVersions      *)
(* versions.  The history is part of the state, so every state is one        *)
(* behaviour; behaviours that have used up all their writes, region changes  *)
(* and extents are printed (with the expected projection of the final        *)
(* state) for replay on the real code.                                       *)
EXTENDS ImageVol, ImageVolGen, Json

VARIABLES st, hist
vars == <<st, hist>>

Exhausted(s) == s.nw = MaxWrites /\ s.nr = MaxRoiOps /\ s.ne = MaxExtOps

Init == st = InitState /\ hist = <<>>
Next == \E o \in WriteOps(st) \cup VerOps(st) \cup (IF MaxLoads > 0 THEN LoadOps(st) ELSE {})
                 \cup (IF MaxRoiOps > 0 THEN RoiOps(st) ELSE {}) \cup (IF MaxExtOps > 0 THEN ExtOps(st) ELSE {}) :
            /\ Enabled(st, o)
            \* a version step with nothing left to do adds nothing
            /\ (o.op = "newver" => ~Exhausted(st))
            /\ st' = Step(st, o)
            /\ hist' = Append(hist, o)
Spec == Init /\ [][Next]_vars

Inv_C17_State == StateOK(st)
Inv_C17_RunAgrees == Run(hist) = st
Act_C17_Step == [][StepClaims(st, hist'[Len(hist')], st')]_vars

\* printed once: the read-geometry classes per axis
ASSUME PrintT(ToJson([classes |-> <<AxisClasses(1), AxisClasses(2), AxisClasses(3)>>]))

Emit == (Exhausted(st) /\ EmitOn) => PrintT(ToJson([hist |-> hist, fin |-> Project(st)]))
=============================================================================
