---------------------------- MODULE ImageVol_mc ----------------------------
(* Exhaustive exploration of ImageVol: every sequence of at most MaxWrites   *)
(* writes and at most MaxVersions versions.  The history is part of the      *)
(* state, so every state is one behaviour; behaviours that end with their    *)
(* MaxWrites-th write are printed (with the expected projection of the final *)
(* state) for replay on the real code.                                       *)
EXTENDS ImageVol, ImageVolGen, Json

VARIABLES st, hist
vars == <<st, hist>>

Init == st = InitState /\ hist = <<>>
Next == \E o \in WriteOps(st) \cup VerOps(st) :
            /\ Enabled(st, o)
            \* a version step with nothing left to write adds nothing
            /\ (o.op = "newver" => st.nw < MaxWrites)
            /\ st' = Step(st, o)
            /\ hist' = Append(hist, o)
Spec == Init /\ [][Next]_vars

Inv_C17_State == StateOK(st)
Inv_C17_RunAgrees == Run(hist) = st
Act_C17_Step == [][StepClaims(st, hist'[Len(hist')], st')]_vars

\* printed once: the read-geometry classes per axis
ASSUME PrintT(ToJson([classes |-> <<AxisClasses(1), AxisClasses(2), AxisClasses(3)>>]))

Emit == (st.nw = MaxWrites /\ EmitOn) => PrintT(ToJson([hist |-> hist, fin |-> Project(st)]))
=============================================================================
