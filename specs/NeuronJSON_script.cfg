SPECIFICATION ScriptSpec
CONSTANTS
  NumIds = 2
  Fields <- GenFields
  NumVals = 4
  ScalarVals = {1, 2}
  MaxSteps = 0
  Record = TRUE
  EmitReads = TRUE
  Seeds <- EmptySeeds
  UpdsAt <- AllUpdsAt
  Pick <- PickAll
  CondSets = {{"a"}}
  Kinds = {"post", "batch", "seed", "del", "postzero", "commit", "newver", "branch", "merge", "restart", "schema"}
  SchemaKinds = {"schema", "schema_batch", "json_schema"}
  NRand = 0
  MaxVers = 8
  Branches = {1, 2}
  TrkSets <- OnlyUntracked
  StatMax = 2
  StampSets <- AllSt
  NumDocs = 3
  Constrain <- GenConstrain
  CField = "a"
  IntVals <- GenIntVals
  ConvTo <- GenConvTo
  AtomsOf <- GenAtomsOf
  Queries <- GenQueries
  Projs <- GenProjs
  EmitAll = TRUE
  Scripts <- GenScripts
INVARIANTS Inv_C16_Coherent Inv_TypeOK Inv_StoreIsRead EmitScript
CHECK_DEADLOCK FALSE
