----------------------------- MODULE LabelBlockDense -----------------------------
(***************************************************************************)
(* "Dense" class table for property C09 (and the initial blocks of the     *)
(* rich-palette sequences of C10): EVERY sub-block of the block draws its   *)
(* own palette size, so that multi-bit sub-blocks of different index widths *)
(* follow one another (the running bit / index offsets of the views are     *)
(* sums over mixed widths) and the block's label table is large.            *)
(*                                                                         *)
(* A class c = [wa, wb, v]:                                                 *)
(*   the block has N = NumSB(dims) sub-blocks, one REGION per sub-block     *)
(*   (region q = sub-block q, 512 voxels);                                  *)
(*   sub-blocks p and p+1 (p depends on the class) have index widths wa and *)
(*   wb bits (0..9), the others a width drawn from the class;               *)
(*   the palette size of a sub-block of width w is the smallest (2^(w-1)+1) *)
(*   or the largest (2^w) size of that width, alternating;                  *)
(*   the palette of sub-block q is the label range Base(q) .. Base(q)+k-1   *)
(*   (ranges of different sub-blocks overlap: labels are shared), with      *)
(*   label 0 at one position of every third multi-label sub-block;          *)
(*   layouts (LabelBlock!PalIdx) rotate over the sub-blocks;                *)
(*   holes: sub-blocks that hold only label 0 and are stored with a label   *)
(*   count of 0 ("uninitialized", legal by the format) in a second replay.  *)
(* Covering claim (CoverOK): every ORDERED PAIR of widths occurs as a pair  *)
(* of adjacent sub-blocks in some class.                                    *)
(*                                                                         *)
(* TLC evaluates for every class: palettes, voxel count per label           *)
(* (NumLabels), foreground positions of four label sets, and for a few      *)
(* probe labels the count ReplaceLabel must return (getNumVoxels) and the   *)
(* labelling after the replacement; it checks the consistency claims of     *)
(* LabelBlock on the class.  Counting uses the range structure of the       *)
(* palettes (DCount); DCountOK ties it to the generic LabelBlock!Count.     *)
(***************************************************************************)
EXTENDS LabelBlock, TLC, Json

CONSTANTS DimSel,     \* 0: small shapes (8..16 sub-blocks), 1: + 32^3 / 64-voxel axes, 2: + ten classes at 64^3, 128^3, 16x1024x16, 32x64x32
          Variants,   \* number of variants per (wa, wb)
          VBase       \* first variant number (seeded)

VARIABLES cls, stage

KLo == <<1, 2, 3, 5, 9, 17, 33, 65, 129, 257>>     \* smallest palette of width 0..9
KHi == <<1, 2, 4, 8, 16, 32, 64, 128, 256, 512>>   \* largest

Dims0 == << <<16,16,16>>, <<32,16,16>>, <<16,32,16>>, <<16,16,32>> >>
Dims1 == Dims0 \o << <<32,32,16>>, <<16,32,32>>, <<32,32,32>>, <<64,16,16>>, <<16,16,64>> >>
Big == << <<64,64,64>>, <<16,1024,16>>, <<128,128,128>>, <<32,64,32>> >>    \* DimSel = 2: the ten classes wa = wb of the first variant
DimSeq == IF DimSel = 0 THEN Dims0 ELSE Dims1
LClasses == <<"small", "wide", "top", "mid32">>

Classes == {[wa |-> a, wb |-> b, v |-> x] : a \in 0..9, b \in 0..9, x \in VBase..(VBase + Variants - 1)}

Mix(c) == c.wa * 7 + c.wb * 3 + c.v * 11
DimOf(c) == IF DimSel = 2 /\ c.wa = c.wb /\ c.v = VBase THEN Big[(c.wa % Len(Big)) + 1]
            ELSE DimSeq[(Mix(c) % Len(DimSeq)) + 1]
LClassOf(c) == LClasses[((c.wa + c.wb + c.v) % Len(LClasses)) + 1]
NumSB(d) == (d[1] \div 8) * (d[2] \div 8) * (d[3] \div 8)
N(c) == NumSB(DimOf(c))

\* big blocks: beyond 64 sub-blocks only every StrideOf-th sub-block is multi-label with a
\* large palette, to keep the label table and the printed class bounded
PairPos(c) == 1 + ((c.v + c.wa * 3 + c.wb) % (N(c) - 1))
WidthOf(c, q) ==
    IF q = PairPos(c) THEN c.wa
    ELSE IF q = PairPos(c) + 1 THEN c.wb
    ELSE IF N(c) > 64 /\ q % 7 # 0 THEN (q * 3 + c.v) % 3
    ELSE (c.wa * 7 + c.wb * 3 + q * 7 + c.v) % 10
KOf(c, q) == LET w == WidthOf(c, q) IN IF (q + c.v) % 2 = 0 THEN KLo[w + 1] ELSE KHi[w + 1]
\* holes: single-label sub-blocks holding label 0
IsHole(c, q) == KOf(c, q) = 1 /\ (q + c.v) % 3 = 0
BaseOf(c, q) == 1 + ((q * 131 + c.v * 17) % 700)
ZPos(c, q) == IF KOf(c, q) > 1 /\ q % 3 = 0 THEN (q % KOf(c, q)) + 1 ELSE 0
LayOf(c, q) == IF KOf(c, q) = 1 THEN 0 ELSE (q + c.v) % 3
PalOf(c, q) ==
    IF IsHole(c, q) THEN <<0>>
    ELSE [i \in 1..KOf(c, q) |-> IF i = ZPos(c, q) THEN 0 ELSE BaseOf(c, q) + i - 1]

\* the class as a table, evaluated once: T[q] = [k, base, z, lay, hole, pal]
TableOf(c) == [q \in 1..N(c) |-> [k |-> KOf(c, q), base |-> BaseOf(c, q), z |-> ZPos(c, q), lay |-> LayOf(c, q),
                                   hole |-> IsHole(c, q), pal |-> PalOf(c, q)]]
BlockOfT(T) == [size |-> [q \in 1..Len(T) |-> 512], lay |-> [q \in 1..Len(T) |-> T[q].lay], pal |-> [q \in 1..Len(T) |-> T[q].pal]]
BlockOf(c) == BlockOfT(TableOf(c))
HolesT(T) == {q \in 1..Len(T) : T[q].hole}

\* ---- counting through the range structure of the palettes ----
\* voxels of sub-block q holding label l
DCountAt(T, q, l) ==
    LET e == T[q] IN
    IF e.hole THEN (IF l = 0 THEN 512 ELSE 0)
    ELSE IF l = 0 THEN (IF e.z = 0 THEN 0 ELSE Cnt(e.lay, 512, e.k, e.z))
    ELSE LET i == l - e.base + 1
         IN  IF i >= 1 /\ i <= e.k /\ i # e.z THEN Cnt(e.lay, 512, e.k, i) ELSE 0
DCount(T, l) == SumF([q \in 1..Len(T) |-> DCountAt(T, q, l)], Len(T))
MaxLabel == 700 + 512       \* BaseOf <= 700, palettes <= 512 labels
\* the count of every label, evaluated once per class: tbl[l + 1] = voxels holding l
CountTable(T) == [j \in 1..(MaxLabel + 1) |-> DCount(T, j - 1)]
TableLabels(t) == {l \in 1..MaxLabel : t[l + 1] > 0}
TableNumLabels(t) == {<<l, t[l + 1]>> : l \in TableLabels(t)}
DLabels(T) == UNION {Range(T[q].pal) : q \in 1..Len(T)}
\* labels held by at least two sub-blocks
SharedLabels(T, nz) == {l \in nz : Cardinality({q \in 1..Len(T) : DCountAt(T, q, l) > 0}) >= 2}

MinOfSet(S) == CHOOSE l \in S : \A m \in S : l <= m
MaxOfSet(S) == CHOOSE l \in S : \A m \in S : l >= m

\* label sets of the sparse views
LabelSets(nz, sh) ==
    << IF sh = {} THEN {MinOfSet(nz)} ELSE {MinOfSet(sh)},
       {l \in nz : l % 3 = 0},
       nz,
       {MaxOfSet(nz) + 7} >>

\* probe labels of ReplaceLabel: <<target, new label>>
Probes(T, nz, sh) ==
    LET fresh == MaxOfSet(nz) + 9
        lastNZ == {l \in Range(T[Len(T)].pal) : l # 0}
    IN  << <<IF sh = {} THEN MinOfSet(nz) ELSE MaxOfSet(sh), fresh>>,
           <<IF lastNZ = {} THEN MaxOfSet(nz) ELSE MaxOfSet(lastNZ), fresh>>,
           <<MinOfSet(nz), 0>>,
           <<fresh + 1, fresh>>,
           <<0, fresh>>,
           <<MaxOfSet(nz), MinOfSet(nz)>> >>

Init == cls \in Classes /\ stage = 0
Next == stage = 0 /\ stage' = 1 /\ UNCHANGED cls
Spec == Init /\ [][Next]_<<cls, stage>>

\* every ordered pair of widths is adjacent in the classes (of any one variant)
CoverOK == \A a \in 0..9 : \A b \in 0..9 : \E c \in Classes :
              \E q \in 1..(N(c) - 1) : WidthOf(c, q) = a /\ WidthOf(c, q + 1) = b

ASSUME CoverOK

ProbeClaims(b, t, n) ==
    LET r == Replace(b, t, n) IN t # n => (Count(r, t) = 0 /\ Count(r, n) = Count(b, n) + Count(b, t))

DCountOK(T, b, pr) ==
    \A l \in {0} \cup {p[1] : p \in Range(pr)} : DCount(T, l) = Count(b, l)

\* blocks with more than 512 sub-blocks (128^3): the table of all label counts is not evaluated
\* (labels x sub-blocks is out of TLC's reach within the time budget); the probes' counts, the
\* palettes and the foreground sets are
BigBlock(c) == N(c) > 512

ClaimsAndEmit ==
    stage = 1 =>
    LET T == TableOf(cls)
        b == BlockOfT(T)
        big == BigBlock(cls)
        tbl == IF big THEN <<>> ELSE CountTable(T)
        nz == DLabels(T) \ {0}
        sh == IF big THEN {} ELSE SharedLabels(T, nz)
        ls == LabelSets(nz, sh)
        pr == Probes(T, nz, sh)
    IN  /\ Volume(b) = DimOf(cls)[1] * DimOf(cls)[2] * DimOf(cls)[3]
        /\ \A r \in Regions(b) : Len(b.pal[r]) <= b.size[r]
        \* Cnt against PalIdx for the small palettes of the pair (LabelBlockCodec checks every palette size x layout)
        /\ \A r \in {PairPos(cls), PairPos(cls) + 1} : Len(b.pal[r]) <= 33 => CntConsistent(b.lay[r], 512, Len(b.pal[r]))
        /\ big \/ DCountOK(T, b, pr)
        /\ big \/ SumF(tbl, MaxLabel + 1) = Volume(b)           \* the per-label counts partition the volume
        /\ big \/ TableLabels(tbl) = nz                          \* exactly the labels of the palettes occur
        /\ big \/ \A i \in 1..Len(pr) : ProbeClaims(b, pr[i][1], pr[i][2])
        /\ PrintT(ToJson([name |-> "dense", dcls |-> cls, dims |-> DimOf(cls), lclass |-> LClassOf(cls),
                          size |-> b.size, lay |-> b.lay, pal |-> b.pal,
                          widths |-> [q \in 1..N(cls) |-> WidthOf(cls, q)],
                          holes |-> HolesT(T),
                          nocounts |-> big,
                          counts |-> IF big THEN {} ELSE TableNumLabels(tbl),
                          sets |-> [i \in 1..Len(ls) |-> [labels |-> ls[i], fg |-> Foreground(b, ls[i])]],
                          probes |-> [i \in 1..Len(pr) |-> [t |-> pr[i][1], n |-> pr[i][2], size |-> DCount(T, pr[i][1])]],
                          replaced |-> Replace(b, pr[1][1], pr[1][2]).pal,
                          weights |-> CornerWeights]))
=============================================================================
