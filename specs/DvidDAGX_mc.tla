---------------------------- MODULE DvidDAGX_mc ----------------------------
(* Model-checking / emission driver for the third-round (odd argument) actions of DvidDAG. *)
EXTENDS DvidDAG, Json

CONSTANTS SampleMod, SampleRes     \* lines are printed for the states whose hash is SampleRes modulo SampleMod

\* states with at most one odd identifier / branch are expanded
InX == OddCount <= 1

StateHash ==
    LET f[i \in 0..nn] == IF i = 0 THEN nn * 31
                          ELSE f[i-1] + i * (7 * Len(par[i]) + (IF lk[i] THEN 13 ELSE 0) + 3 * Len(kids[i]))
                               + (IF br[i] = "" THEN 0 ELSE 5 * i + 1) + (IF uid[i] = "auto" THEN 0 ELSE 11) + 17 * rp[i]
    IN f[nn] + 19 * Cardinality(dead)
Sampled == StateHash % SampleMod = SampleRes

IsOddOp(l) == \/ (l.op = "tag" /\ l.tag \in OddTagNames)
              \/ (l.op = "branch" /\ l.branch \in OddBranches)
\* every accepted odd request out of a sampled state without odd names, with the requests that must be
\* refused right after it
NextEmitX == NextX /\ (IF Sampled /\ OddCount = 0 /\ last'.ok /\ IsOddOp(last')
                       THEN PrintT(ToJson([s |-> StateRec, l |-> last', t |-> StateRec', f |-> RejectedFollow', pref |-> PrefObsX']))
                       ELSE TRUE)
SpecEmitX == Init /\ [][NextEmitX]_vars

\* one line per sampled state without odd names: one refused request per class, and what the
\* shortened identifiers name
EmitX == (Sampled /\ OddCount = 0) => PrintT(ToJson([s |-> StateRec, xrej |-> RejectedX, pref |-> PrefObsX]))

NoOdd == OddCount = 0
View == dagvars
=============================================================================
