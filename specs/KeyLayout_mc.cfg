SPECIFICATION Spec
CONSTANTS
  WrapMaxBug = FALSE
INVARIANTS Inv_C06_Injective Inv_C06_Decode Inv_C06_Order Inv_C06_Contiguous Inv_C06_InstanceRange
CHECK_DEADLOCK FALSE
