--------------------------- MODULE LabelmapCrash ---------------------------
(***************************************************************************)
(* Crash consistency of a label volume (property C04 on labelmap data,     *)
(* and the crash clause of C12 for labels).                                *)
(*                                                                         *)
(* Labelmap.tla describes an operation as one atomic step of the abstract  *)
(* state (sv, mp, nxt).  The server stores that state in four layers, each *)
(* made of single-key cells:                                               *)
(*    blk[b]   the voxels of block b (one key): supervoxel of every region *)
(*             that has voxels in b                                        *)
(*    idx[l]   the label index of body l (one key): {<<block, sv, count>>} *)
(*    map[s]   the body a supervoxel is mapped to (records of an append-   *)
(*             only log; a supervoxel without a record maps to itself, a   *)
(*             retired supervoxel maps to 0)                               *)
(*    ctr      the persisted label counter                                 *)
(* and executes an operation as a PROGRAM: a sequence of groups of writes; *)
(* the writes of one group may reach the store in any order, a group is    *)
(* started only when the previous one is complete.  One write changes one  *)
(* key (or appends one log record) and is atomic.                          *)
(*                                                                         *)
(* Crash can happen between any two writes: the stored layers are then a   *)
(* SUBSET-PREFIX of the program (all earlier groups, any subset of the     *)
(* current one).  There is no repair step: Recover keeps the layers.       *)
(*                                                                         *)
(* What the property claims, and what it exempts.  Every operation below   *)
(* (ingest of a block, merge, cleave, split-supervoxel, mutating voxel     *)
(* write) is MULTI-KEY, so the sentence "an interrupted repo-level or      *)
(* single-key operation is either entirely present or entirely absent"     *)
(* does not apply to the operation as a whole.  It applies to every cell:  *)
(*   Inv_C04_CellPreOrPost   each cell holds its value before the          *)
(*                           operation or the value the operation gives it *)
(* and acknowledged work must stay visible:                                *)
(*   Inv_C04_AckedVisible    when no operation is in flight the layers are *)
(*                           exactly the layers of the abstract state      *)
(*   Inv_C04_UntouchedIntact in every torn state every body the operation  *)
(*                           does not name reads exactly as before (index, *)
(*                           supervoxels, voxels)                          *)
(*   Inv_C12_CounterCovers   in every state, torn or not, the persisted    *)
(*                           counter is at least every label present in    *)
(*                           any layer (so an allocation after recovery is *)
(*                           fresh) - this is why the counter write is the *)
(*                           first group of every program                  *)
(* The harness replays Crash on the real server at every store write and   *)
(* log append of every operation and compares the recovered cells with the *)
(* two values this module allows (PrintT lines of LabelmapCrash_mc).       *)
(***************************************************************************)
EXTENDS Labelmap

CONSTANT MaxCrashes

VARIABLES st,        \* the stored layers
          pre,       \* the layers when the operation in flight began
          post,      \* the layers its complete program produces
          prog,      \* rest of its program: sequence of non-empty sets of writes
          cur,       \* the operation in flight (record as in `last`, plus program shape)
          touched,   \* labels of the bodies the operation in flight names or creates
          mode,      \* "idle" | "busy" | "down" (crashed) | "torn" (recovered into a partial state)
          ingested,  \* number of blocks ingested so far (blocks are ingested in order 1..NB)
          crashes

cvars == <<sv, mp, nxt, depth, last, st, pre, post, prog, cur, touched, mode, ingested, crashes>>

LabelU == 1..(InitMax + 7 * (MaxOps + MaxCrashes) + 2)   \* (an absent operation may have moved the counter)
Max2(a, b) == IF a > b THEN a ELSE b
RECURSIVE MaxOf(_)
MaxOf(S) == IF S = {} THEN 0 ELSE LET x == CHOOSE y \in S : TRUE IN Max2(x, MaxOf(S \ {x}))

(***************************************************************************)
(* Layers of the abstract state                                            *)
(***************************************************************************)
IdxOf(l) == {t \in {<<b, s, SVCountInBlock(s, b)>> : b \in Blocks, s \in SVsOf(l)} : t[3] > 0}
BlkOf(b) == [r \in Regions |-> IF NVox[r][b] > 0 THEN sv[r] ELSE 0]
EmptyBlk == [r \in Regions |-> 0]
RestrictIdx(I, k) == {t \in I : t[1] <= k}

\* the layers after the first k blocks were ingested (k = NB: the complete volume)
LayersUpTo(k) ==
    [blk |-> [b \in Blocks |-> IF b <= k THEN BlkOf(b) ELSE EmptyBlk],
     idx |-> [l \in LabelU |-> IF l \in Bodies THEN RestrictIdx(IdxOf(l), k) ELSE {}]]

(***************************************************************************)
(* Writes                                                                  *)
(***************************************************************************)
WCtr(v)    == [k |-> "ctr", v |-> v]
WBlk(b, v) == [k |-> "blk", b |-> b, v |-> v]
WIdx(l, v) == [k |-> "idx", l |-> l, v |-> v]
WMap(f)    == [k |-> "map", v |-> f]        \* one log record: f maps supervoxels to a body
WRec(n)    == [k |-> "rec", n |-> n]        \* a log record that changes no cell (merge / cleave / split record)

Apply(s, w) ==
    IF w.k = "ctr" THEN [s EXCEPT !.ctr = w.v]
    ELSE IF w.k = "blk" THEN [s EXCEPT !.blk[w.b] = w.v]
    ELSE IF w.k = "idx" THEN [s EXCEPT !.idx[w.l] = w.v]
    ELSE IF w.k = "map" THEN [s EXCEPT !.map = [x \in LabelU |-> IF x \in DOMAIN w.v THEN w.v[x] ELSE @[x]]]
    ELSE s

\* drop empty groups
RECURSIVE Compact(_)
Compact(p) == IF p = <<>> THEN <<>> ELSE IF Head(p) = {} THEN Compact(Tail(p)) ELSE <<Head(p)>> \o Compact(Tail(p))
RECURSIVE Shape(_)
KindsOf(G) == [n |-> Cardinality(G), k |-> (CHOOSE w \in G : TRUE).k]
Shape(p) == IF p = <<>> THEN <<>> ELSE <<KindsOf(Head(p))>> \o Shape(Tail(p))
RECURSIVE ApplyGroup(_, _)
ApplyGroup(s, G) == IF G = {} THEN s ELSE LET w == CHOOSE x \in G : TRUE IN ApplyGroup(Apply(s, w), G \ {w})
RECURSIVE ApplyAll(_, _)
ApplyAll(s, p) == IF p = <<>> THEN s ELSE ApplyAll(ApplyGroup(s, Head(p)), Tail(p))
RECURSIVE NWrites(_)
NWrites(p) == IF p = <<>> THEN 0 ELSE Cardinality(Head(p)) + NWrites(Tail(p))

(***************************************************************************)
(* Programs (the order the server uses, counter first)                     *)
(***************************************************************************)
BlocksOfSV(s) == {b \in Blocks : \E r \in RegionsOfSV(s) : NVox[r][b] > 0}
SumRegionsInBlock(S, b) == SumOver(S, [r \in Regions |-> NVox[r][b]])

MergeProg(T, M) ==
    LET svsM == UNION {SVsOf(m) : m \in M} IN
    << {WMap([s \in svsM |-> T])},
       {WIdx(T, IdxOf(T) \cup UNION {IdxOf(m) : m \in M})},
       {WIdx(m, {}) : m \in M},
       {WRec(1)} >>

CleaveProg(B, C) ==
    LET L == nxt + 1 IN
    << {WCtr(L)},
       {WIdx(L, {t \in IdxOf(B) : t[2] \in C}), WIdx(B, {t \in IdxOf(B) : t[2] \notin C})},
       {WMap([s \in C |-> L])},
       {WRec(1)} >>

SplitSVProg(s, S) ==
    LET p == nxt + 1
        q == nxt + 2
        B == mp[s]
        rest == RegionsOfSV(s) \ S
        newblk(b) == [r \in Regions |-> IF NVox[r][b] = 0 THEN 0 ELSE IF r \in S THEN p ELSE IF sv[r] = s THEN q ELSE sv[r]]
        newidx == {t \in IdxOf(B) : t[2] # s}
                  \cup {t \in {<<b, p, SumRegionsInBlock(S, b)>> : b \in Blocks} : t[3] > 0}
                  \cup {t \in {<<b, q, SumRegionsInBlock(rest, b)>> : b \in Blocks} : t[3] > 0}
    IN
    << {WCtr(p)}, {WCtr(q)},
       {WBlk(b, newblk(b)) : b \in BlocksOfSV(s)},
       {WRec(1)},
       {WMap([x \in {s} |-> 0])},
       {WMap([x \in {p, q} |-> B])},
       {WIdx(B, newidx)} >>

\* a mutating voxel write of region r, which lies in exactly one block
BlockOfRegion(r) == CHOOSE b \in Blocks : NVox[r][b] > 0
SingleBlock(r) == Cardinality({b \in Blocks : NVox[r][b] > 0}) = 1
OverwriteProg(r, x) ==
    LET b == BlockOfRegion(r)
        n == NVox[r][b]
        old == sv[r]
        Bo == IF old = 0 THEN 0 ELSE mp[old]
        Bx == IF x = 0 THEN 0 ELSE IF x \in DOMAIN mp THEN mp[x] ELSE x
        minus(I, s) == LET c == SVCountInBlock(s, b) IN
                       (I \ {<<b, s, c>>}) \cup (IF c > n THEN {<<b, s, c - n>>} ELSE {})
        plus(I, s) == LET hit == {t \in I : t[1] = b /\ t[2] = s} IN
                      (I \ hit) \cup {<<b, s, n + SumOver(hit, [t \in hit |-> t[3]])>>}
        cidx(l) == IF l \in Bodies THEN IdxOf(l) ELSE {}
    IN
    << IF x > nxt THEN {WCtr(x)} ELSE {},
       {WBlk(b, [BlkOf(b) EXCEPT ![r] = x])},
       IF Bo = Bx /\ Bo # 0 THEN {WIdx(Bo, plus(minus(cidx(Bo), old), x))}
       ELSE (IF Bo # 0 THEN {WIdx(Bo, minus(cidx(Bo), old))} ELSE {})
            \cup (IF Bx # 0 THEN {WIdx(Bx, plus(cidx(Bx), x))} ELSE {}) >>

LabelsInBlock(b) == {InitSV[r] : r \in {q \in Regions : NVox[q][b] > 0}} \ {0}
IngestProg(b) ==
    LET mx == MaxOf(LabelsInBlock(b)) IN
    << IF mx > st.ctr THEN {WCtr(mx)} ELSE {},
       {WBlk(b, [r \in Regions |-> IF NVox[r][b] > 0 THEN InitSV[r] ELSE 0])},
       {WIdx(l, st.idx[l] \cup {<<b, l, SumRegionsInBlock({r \in Regions : InitSV[r] = l}, b)>>}) : l \in LabelsInBlock(b)} >>

(***************************************************************************)
(* Behaviour                                                               *)
(***************************************************************************)
EmptyLayers ==
    [blk |-> [b \in Blocks |-> EmptyBlk], idx |-> [l \in LabelU |-> {}], map |-> [x \in LabelU |-> x], ctr |-> 0]

CInit ==
    /\ Init
    /\ st = EmptyLayers /\ pre = EmptyLayers /\ post = EmptyLayers /\ prog = <<>> /\ cur = [op |-> "none"] /\ touched = {}
    /\ mode = "idle" /\ ingested = 0 /\ crashes = 0

Start(c, p, tch) ==
    /\ cur' = [c EXCEPT !.shape = Shape(Compact(p)), !.nw = NWrites(p)]
    /\ prog' = Compact(p) /\ touched' = tch /\ pre' = st /\ post' = ApplyAll(st, p) /\ mode' = "busy"
    /\ UNCHANGED <<sv, mp, nxt, depth, last, st, ingested, crashes>>

Op(name) == [op |-> name, shape |-> <<>>, nw |-> 0]

Begin ==
    /\ mode = "idle"
    /\ \/ /\ ingested < NB
          /\ Start(Op("ingest") @@ [block |-> ingested + 1], IngestProg(ingested + 1), LabelsInBlock(ingested + 1))
       \/ /\ ingested = NB /\ depth < MaxOps
          /\ \/ \E T \in Bodies : \E M \in (SUBSET (Bodies \ {T})) \ {{}} :
                   Start(Op("merge") @@ [target |-> T, merged |-> M], MergeProg(T, M), {T} \cup M)
             \/ \E B \in Bodies : \E C \in NonEmptyProperSubsets(SVsOf(B)) :
                   Start(Op("cleave") @@ [body |-> B, svs |-> C], CleaveProg(B, C), {B, nxt + 1})
             \/ \E s \in SVs : \E S \in NonEmptyProperSubsets(RegionsOfSV(s)) :
                   Start(Op("splitsv") @@ [sv |-> s, regions |-> S], SplitSVProg(s, S), {mp[s], nxt + 1, nxt + 2})
             \/ /\ WithOverwrite
                /\ \E r \in {q \in Regions : SingleBlock(q)} : \E x \in ({0, nxt + 7} \cup SVs) \ {sv[r]} :
                   Start(Op("overwrite") @@ [regions |-> {r}, label |-> x], OverwriteProg(r, x),
                         {IF sv[r] = 0 THEN x ELSE mp[sv[r]], IF x \in DOMAIN mp THEN mp[x] ELSE x} \ {0})

\* one write of the current group reaches the store
Step ==
    /\ mode = "busy" /\ prog # <<>>
    /\ \E w \in Head(prog) :
          /\ st' = Apply(st, w)
          /\ prog' = IF Head(prog) = {w} THEN Tail(prog) ELSE <<Head(prog) \ {w}>> \o Tail(prog)
    /\ UNCHANGED <<sv, mp, nxt, depth, last, pre, post, cur, touched, mode, ingested, crashes>>

\* the abstract step of Labelmap.tla that the operation in flight stands for
Effect(c) ==
    \/ c.op = "ingest" /\ ingested' = ingested + 1 /\ UNCHANGED <<sv, mp, nxt, depth, last>>
    \/ c.op # "ingest" /\ UNCHANGED ingested /\ depth' = depth + 1
       /\ \/ c.op = "merge" /\ Merge(c.target, c.merged)
          \/ c.op = "cleave" /\ Cleave(c.body, c.svs)
          \/ c.op = "splitsv" /\ SplitSV(c.sv, c.regions)
          \/ c.op = "overwrite" /\ Overwrite(c.regions, c.label)

\* the request is acknowledged (its background work included)
Ack ==
    /\ mode = "busy" /\ prog = <<>>
    /\ Effect(cur)
    /\ mode' = "idle"
    /\ UNCHANGED <<st, pre, post, prog, cur, touched, crashes>>

Crash ==
    /\ mode = "busy" /\ crashes < MaxCrashes
    /\ mode' = "down" /\ crashes' = crashes + 1
    /\ UNCHANGED <<sv, mp, nxt, depth, last, st, pre, post, prog, cur, touched, ingested>>

\* start-up after a crash: nothing is repaired.  The operation is absent when only the counter
\* moved, present when the whole program ran, otherwise the version is left torn (terminal here:
\* the property makes no further claim about it beyond the invariants below)
OnlyCounterMoved == st.blk = pre.blk /\ st.idx = pre.idx /\ st.map = pre.map
Recover ==
    /\ mode = "down"
    /\ \/ /\ prog = <<>>
          /\ Effect(cur) /\ mode' = "idle"
       \/ /\ prog # <<>> /\ OnlyCounterMoved
          /\ mode' = "idle" /\ nxt' = Max2(nxt, st.ctr)
          /\ UNCHANGED <<sv, mp, depth, last, ingested>>
       \/ /\ prog # <<>> /\ ~OnlyCounterMoved
          /\ mode' = "torn"
          /\ UNCHANGED <<sv, mp, nxt, depth, last, ingested>>
    /\ UNCHANGED <<st, pre, post, prog, cur, touched, crashes>>

CNext == Begin \/ Step \/ Ack \/ Crash \/ Recover
CSpec == CInit /\ [][CNext]_cvars

(***************************************************************************)
(* Claims                                                                  *)
(***************************************************************************)
\* (an absent operation may leave the counter ahead of the abstract one)
Inv_C04_AckedVisible ==
    mode = "idle" =>
        /\ st.blk = LayersUpTo(ingested).blk
        /\ st.idx = LayersUpTo(ingested).idx
        /\ ingested = NB => \A s \in DOMAIN mp : st.map[s] = mp[s]
        /\ ingested = NB => st.ctr >= nxt

\* labels the log merely mentions as identity do not count
MappedLabels(s) == {s.map[x] : x \in {y \in LabelU : s.map[y] # y}} \ {0}
PresentLabels(s) ==
    ({s.blk[b][r] : b \in Blocks, r \in Regions}
     \cup {l \in LabelU : s.idx[l] # {}}
     \cup UNION {{t[2] : t \in s.idx[l]} : l \in LabelU}
     \cup MappedLabels(s)) \ {0}
Inv_C12_CounterCovers == \A l \in PresentLabels(st) : l <= st.ctr

\* what the reads of one body are derived from
BodyView(s, l) ==
    [idx |-> s.idx[l],
     cells |-> {c \in Blocks \X Regions : s.blk[c[1]][c[2]] # 0 /\ s.map[s.blk[c[1]][c[2]]] = l}]
Inv_C04_UntouchedIntact ==
    mode # "idle" => \A l \in LabelU \ touched : BodyView(st, l) = BodyView(pre, l)

\* every single-key cell holds the value from before the operation in flight or the value the
\* operation gives it (the counter, written once per allocated label, lies between the two)
Inv_C04_CellPreOrPost ==
    mode # "idle" =>
        /\ \A b \in Blocks : st.blk[b] \in {pre.blk[b], post.blk[b]}
        /\ \A l \in LabelU : st.idx[l] \in {pre.idx[l], post.idx[l]}
        /\ \A x \in LabelU : st.map[x] \in {pre.map[x], post.map[x]}
        /\ pre.ctr <= st.ctr /\ st.ctr <= post.ctr
\* the complete program yields the layers of the abstract state after the operation
\* (checked as Inv_C04_AckedVisible in the state after Ack)
=============================================================================
