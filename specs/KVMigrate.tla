------------------------------ MODULE KVMigrate ------------------------------
(***************************************************************************)
(* Migration of a data instance onto another store (property C19, the      *)
(* "repo <uuid> migrate <instance> <src store> <dst store> transmit=..."    *)
(* command = datastore.MigrateInstance), over the version DAGs enumerated   *)
(* by KVShapes.  The instance keeps its identity; after the restart that    *)
(* assigns it to the destination store, its reads are the reads of what     *)
(* the destination store holds.                                             *)
(*                                                                         *)
(* A datum of the source is ent: node -> Tomb | value.  Two families of     *)
(* placements are used:                                                     *)
(*   EntOf(p, N)   (KVShapes) every written value is different (tagged by   *)
(*                 its node)                                                *)
(*   EntC(q, N)    "coloured" placements, base 4: digit 0 nothing, 1 value  *)
(*                 of class 1, 2 tombstone, 3 value of class 2 -- values    *)
(*                 written at different versions can be equal, which is     *)
(*                 what the "unchanged value is not stored again" rule of   *)
(*                 the version-limited transfer looks at.                   *)
(*                                                                         *)
(* What the destination store holds, per mode:                             *)
(*   transmit=all          MigAll(ent)     = ent (every entry, values and   *)
(*                         tombstones, at its own version)                  *)
(*   transmit=flatten at V MigFlat(ent, V) = KVCopy.FlatCopy(ent, V)        *)
(*   transmit=u1,...,uk    MigList(ent, S), S = {u1 < ... < uk}: for every  *)
(*                         listed ui the LATEST entry on the history of uk  *)
(*                         made after u(i-1) and not after ui ("all         *)
(*                         previous versions to u1 are flattened into u1,   *)
(*                         the key-values after u(i-1) up to ui are         *)
(*                         flattened into ui"), stamped ui -- unless it     *)
(*                         equals (same kind, same value) the entry stored  *)
(*                         for the previous listed version that got one.    *)
(*                         Versions are numbered in creation order, so      *)
(*                         "latest" is the largest node number; the code    *)
(*                         (calcVersionPath / copyVersions) works with      *)
(*                         exactly that: version ids of the ancestors of    *)
(*                         the LAST listed version (FirstParentPath).       *)
(*                                                                         *)
(* Which lists the documented promise covers (server/rpc.go: "the first     *)
(* UUID must be oldest and will become the flattened root, and all other    *)
(* versions after that will accumulate deltas from versions that are not on *)
(* the list"; copy_local.go: "a list of UUIDs on a DAG path ... all         *)
(* versions on the path from root to ancestor"):  DocList(S) -- the history *)
(* of the last listed version is a path (no merge among its ancestors) and  *)
(* every listed version lies on it; the list is given oldest first.         *)
(* OUTSIDE the promise, and not claimed (see OutsideBreaks, which TLC       *)
(* evaluates to show the restriction is not vacuous caution):               *)
(*   - lists not given in ascending order, lists with versions that are not *)
(*     ancestors of the last one (only the ancestors of the last listed     *)
(*     version are transferred at all);                                     *)
(*   - a last version with a merge in its history: the code walks "the      *)
(*     path" from the last listed version to the root through FIRST parents *)
(*     only (datastore.getAncestry), so what the other parents of a merge   *)
(*     contribute is not transferred, although a read resolves it (this     *)
(*     includes a merge of a version with one of its own ancestors when the *)
(*     ancestor is named first).                                            *)
(***************************************************************************)
EXTENDS KVCopy

CONSTANTS QSeq,         \* sequence of the coloured placements whose destination content is printed
          SampleOnly,   \* TRUE: the claims range over the coloured placements of QSeq only (N = 5)
          CountOutside  \* TRUE: also evaluate OutsideBreaks (costly; small N only)

Pow4(k) == IF k = 0 THEN 1 ELSE IF k = 1 THEN 4 ELSE IF k = 2 THEN 16 ELSE IF k = 3 THEN 64
           ELSE IF k = 4 THEN 256 ELSE 1024
Digit4(q, k) == (q \div Pow4(k - 1)) % 4
EntC(q, n) == [k \in {j \in 1..n : Digit4(q, j) # 0} |->
                 IF Digit4(q, k) = 2 THEN Tomb ELSE IF Digit4(q, k) = 1 THEN 1 ELSE 2]
AllQ == [i \in 1..Pow4(N) |-> i - 1]
CPlacements == IF SampleOnly THEN {QSeq[i] : i \in 1..Len(QSeq)} ELSE 0..(Pow4(N) - 1)

MaxOf(S) == CHOOSE x \in S : \A y \in S : y <= x
Lists == (SUBSET (1..N)) \ {{}}
Prev(S, u) == LET B == {x \in S : x < u} IN IF B = {} THEN 0 ELSE MaxOf(B)

(***************************************************************************)
(* The destination content.                                                 *)
(***************************************************************************)
MigAll(ent) == ent
MigFlat(ent, V) == FlatCopy(ent, V)

\* the entries of the history hist of the last listed version made after the previous listed
\* version and not after u; the latest of them
Bucket(ent, S, hist, u) == {k \in (DOMAIN ent) \cap hist : k > Prev(S, u) /\ k <= u}
Pick(ent, S, hist, u) == LET B == Bucket(ent, S, hist, u) IN IF B = {} THEN 0 ELSE MaxOf(B)

\* listed version -> node of the source entry stored under it ("origin"); walk the list oldest
\* first, last = origin of the entry stored most recently (0 none yet)
RECURSIVE OriginsFrom(_, _, _, _, _)
OriginsFrom(ent, S, hist, prev, last) ==
    LET R == {x \in S : x > prev} IN
    IF R = {} THEN <<>>
    ELSE LET u == CHOOSE x \in R : \A y \in R : x <= y
             o == Pick(ent, S, hist, u) IN
         IF o # 0 /\ (last = 0 \/ ent[o] # ent[last])
         THEN (u :> o) @@ OriginsFrom(ent, S, hist, u, o)
         ELSE OriginsFrom(ent, S, hist, u, last)
\* "the path from the root to" v, as the code walks it (datastore.getAncestry): first parents only;
\* on a history without merges this is Anc(par, v)
RECURSIVE FirstParentPath(_)
FirstParentPath(v) == {v} \cup (IF Len(par[v]) = 0 THEN {} ELSE FirstParentPath(par[v][1]))
Origins(ent, S) == OriginsFrom(ent, S, FirstParentPath(MaxOf(S)), 0, 0)
MigList(ent, S) == LET org == Origins(ent, S) IN [u \in DOMAIN org |-> ent[org[u]]]
\* the same without the "unchanged entry is not stored again" rule
MigListNoSkip(ent, S) ==
    LET hist == FirstParentPath(MaxOf(S))
        U == {u \in S : Pick(ent, S, hist, u) # 0} IN [u \in U |-> ent[Pick(ent, S, hist, u)]]

(***************************************************************************)
(* The lists inside the documented promise.                                 *)
(***************************************************************************)
\* the history of v is a path: no version in it is a merge
PathHistory(v) == \A a \in Anc(par, v) : Len(par[a]) <= 1
OnHistory(S) == S \subseteq Anc(par, MaxOf(S))
DocList(S) == OnHistory(S) /\ PathHistory(MaxOf(S))
DocLists == {S \in Lists : DocList(S)}

(***************************************************************************)
(* Claims.                                                                  *)
(***************************************************************************)
Inv_C19_MigAll ==
    Complete => \A q \in CPlacements : \A w \in 1..N :
        Read(par, MigAll(EntC(q, N)), w) = Read(par, EntC(q, N), w)

Inv_C19_MigFlat ==
    Complete => \A q \in CPlacements : \A V \in 1..N :
        LET ent == EntC(q, N) IN
        Read(par, ent, V) # -1 =>
            \A w \in 1..N : Read(par, MigFlat(ent, V), w) = IF w \in Desc(V) THEN Read(par, ent, V) ELSE 0

\* the read at every LISTED version equals the source's read at that version
ListedReadsKept(ent, S) ==
    LET dst == MigList(ent, S) IN
    \A u \in S : Read(par, ent, u) # -1 => Read(par, dst, u) = Read(par, ent, u)

Inv_C19_MigList ==
    Complete => \A S \in DocLists :
        /\ \A q \in CPlacements : ListedReadsKept(EntC(q, N), S)
        /\ \A p \in Placements : ListedReadsKept(EntOf(p, N), S)

\* (on a path history no read at a listed version is a merge conflict: the premise above is
\*  never what makes the claim hold)
Inv_C19_MigListNoConflict ==
    Complete => \A S \in DocLists : \A q \in CPlacements : \A u \in S : Read(par, EntC(q, N), u) # -1

\* the destination holds entries at listed versions only, at most one per listed version, and
\* leaving out an unchanged entry changes no read at any listed version
Inv_C19_MigListShape ==
    Complete => \A S \in DocLists : \A q \in CPlacements :
        LET ent == EntC(q, N)
            org == Origins(ent, S)
            dst == [u \in DOMAIN org |-> ent[org[u]]]
            all == MigListNoSkip(ent, S) IN
        /\ DOMAIN org \subseteq S
        /\ \A u \in S : Read(par, dst, u) = Read(par, all, u)
        /\ \A u \in DOMAIN org : org[u] \in Anc(par, u)

\* a one-version list is the flattened copy at that version
Inv_C19_MigListSingle ==
    Complete => \A V \in 1..N : PathHistory(V) => \A q \in CPlacements :
        LET ent == EntC(q, N) IN
        \A w \in 1..N : Read(par, MigList(ent, {V}), w) = Read(par, MigFlat(ent, V), w)

\* Not a claim -- the measure of what lies outside the documented promise: the number of
\* (list on the history of its last version, coloured placement) pairs whose history has a
\* merge and for which some listed read of MigList differs from the source's.
OutsideBreaks ==
    Cardinality({sq \in {S \in Lists : OnHistory(S) /\ ~PathHistory(MaxOf(S))} \X CPlacements :
                    ~ListedReadsKept(EntC(sq[2], N), sq[1])})

(***************************************************************************)
(* What is printed for the replay on the real code, once per shape.         *)
(*   lists            the documented lists, each as an ascending sequence   *)
(*   cread[i][v]      value class read at v for coloured placement QSeq[i]  *)
(*                    (0 not found, -1 conflict)                            *)
(*   cnode[i][v]      node whose entry that read finds                      *)
(*   store[l][i][u]   origin (source node) of the entry the destination     *)
(*                    holds at version u after transmit=lists[l], 0 none    *)
(*   read/built/strict/desc as in KVCopy.EmitCopy                           *)
(* The expected reads of the destination are those of the source: all ->    *)
(* every version (Inv_C19_MigAll), flatten at V -> cread[i][V] at V and its *)
(* descendants, nothing elsewhere (Inv_C19_MigFlat), list -> the source's   *)
(* at every listed version (Inv_C19_MigList, for the coloured and for the   *)
(* all-different placements).                                               *)
(***************************************************************************)
SortedSeq(S) ==
    LET RECURSIVE F(_)
        F(T) == IF T = {} THEN <<>> ELSE LET m == CHOOSE x \in T : \A y \in T : x <= y IN <<m>> \o F(T \ {m})
    IN F(S)
ListSeq == LET RECURSIVE G(_)
               G(T) == IF T = {} THEN <<>>
                       ELSE LET s == CHOOSE x \in T : TRUE IN <<s>> \o G(T \ {s})
           IN G(DocLists)

OriginRow(ent, S) == LET org == Origins(ent, S) IN [u \in 1..N |-> IF u \in DOMAIN org THEN org[u] ELSE 0]

EmitMigrate ==
    Complete =>
        LET LS == ListSeq IN
        PrintT(ToJson([par  |-> par,
                       lists |-> [l \in 1..Len(LS) |-> SortedSeq(LS[l])],
                       cread |-> [i \in 1..Len(QSeq) |-> [v \in 1..N |-> Read(par, EntC(QSeq[i], N), v)]],
                       cnode |-> [i \in 1..Len(QSeq) |-> [v \in 1..N |-> ReadNode(par, EntC(QSeq[i], N), v)]],
                       store |-> [l \in 1..Len(LS) |-> [i \in 1..Len(QSeq) |-> OriginRow(EntC(QSeq[i], N), LS[l])]],
                       outside |-> IF CountOutside THEN OutsideBreaks ELSE -1,
                       read |-> [p \in 1..Pow3(N) |-> [v \in 1..N |-> Read(par, EntOf(p - 1, N), v)]],
                       built |-> [p \in 1..Pow3(N) |-> IF Built(p - 1) THEN 1 ELSE 0],
                       strict |-> [p \in 1..Pow3(N) |-> IF Strict(p - 1) THEN 1 ELSE 0],
                       desc |-> [V \in 1..N |-> [w \in 1..N |-> IF w \in Desc(V) THEN 1 ELSE 0]]]))
=============================================================================
