--------------------------- MODULE GeometryBounds ---------------------------
(***************************************************************************)
(* Optional bounds (dvid.OptionalBounds / dvid.Bounds) on the integer       *)
(* lattice: properties C18 (clipping to bounds) and C09 (bounded sparse     *)
(* views of a label block).                                                 *)
(*                                                                         *)
(* A box is <<minx, maxx, miny, maxy, minz, maxz>>; None = the bound is     *)
(* open.  The operators give the MEANING the code base documents:           *)
(*   InBox(p, box)         p satisfies every set bound                      *)
(*   Adjust(mn, mx, box)   the voxel extent [mn, mx] cut by the box         *)
(*   Outside(p, box)       not InBox                                        *)
(*   BeyondZ(p, box)       p is past the maximal z (sorted scans stop)      *)
(*   Divide(box, bs)       the box in BLOCK coordinates: a block passes the *)
(*                         block-level screen iff some voxel of it is in    *)
(*                         the voxel box - which needs FLOOR division       *)
(*   Parse(q)              the query-string parser minx .. maxz: a missing  *)
(*                         or empty parameter leaves the bound open, a      *)
(*                         parameter that is not a base-10 int32 is an      *)
(*                         error                                            *)
(* AxisClaims states, per axis, that the block-level screen followed by the *)
(* voxel-level cut is the intersection with the box; GeometryBoundsMC       *)
(* checks it on every (lo, hi, block size, block) of a small range.         *)
(***************************************************************************)
EXTENDS Integers, Sequences, FiniteSets

None == 1000000
Open(v) == v = None

FloorDiv(a, b) == IF a >= 0 THEN a \div b ELSE -((b - 1 - a) \div b)

Lo(box, d) == box[2 * d - 1]
Hi(box, d) == box[2 * d]

InAxis(v, lo, hi) == (Open(lo) \/ v >= lo) /\ (Open(hi) \/ v <= hi)
InBox(p, box) == \A d \in 1..3 : InAxis(p[d], Lo(box, d), Hi(box, d))

AdjustMin(m, lo) == IF ~Open(lo) /\ lo > m THEN lo ELSE m
AdjustMax(m, hi) == IF ~Open(hi) /\ hi < m THEN hi ELSE m
Adjust(mn, mx, box) == [min |-> [d \in 1..3 |-> AdjustMin(mn[d], Lo(box, d))],
                        max |-> [d \in 1..3 |-> AdjustMax(mx[d], Hi(box, d))]]

Outside(p, box) == ~InBox(p, box)
OutsideAxis(v, lo, hi) == ~InAxis(v, lo, hi)
BeyondZ(p, box) == ~Open(Hi(box, 3)) /\ p[3] > Hi(box, 3)

DivideBound(v, b) == IF Open(v) THEN None ELSE FloorDiv(v, b)
Divide(box, bs) == [i \in 1..6 |-> DivideBound(box[i], bs[(i + 1) \div 2])]

IsSet(box) == \E i \in 1..6 : ~Open(box[i])
WellFormed(box) == \A d \in 1..3 : Open(Lo(box, d)) \/ Open(Hi(box, d)) \/ Lo(box, d) <= Hi(box, d)

\* voxel extent of block c along one axis
BlockLo(c, b) == c * b
BlockHi(c, b) == c * b + b - 1

\* the block-level screen of one block against a voxel box, and the voxel cut of a passing block
Passes(bc, bs, box) == InBox(bc, Divide(box, bs))
Cut(bc, bs, box) == Adjust([d \in 1..3 |-> BlockLo(bc[d], bs[d])], [d \in 1..3 |-> BlockHi(bc[d], bs[d])], box)
Intersects(bc, bs, box) == \A d \in 1..3 : \E v \in BlockLo(bc[d], bs[d])..BlockHi(bc[d], bs[d]) : InAxis(v, Lo(box, d), Hi(box, d))

----------------------------------------------------------------------------
(* claims, one axis *)
AxisClaims(lo, hi, b, c) ==
    LET vox == BlockLo(c, b)..BlockHi(c, b)
        a == AdjustMin(BlockLo(c, b), lo)
        z == AdjustMax(BlockHi(c, b), hi)
    IN  \* the screen passes exactly the blocks that hold a voxel of the box
        /\ (Open(lo) \/ Open(hi) \/ lo <= hi) =>
              (InAxis(c, DivideBound(lo, b), DivideBound(hi, b)) <=> \E v \in vox : InAxis(v, lo, hi))
        \* the cut of a block is its intersection with the box
        /\ \A v \in (BlockLo(c, b) - 1)..(BlockHi(c, b) + 1) : (v \in a..z) <=> (v \in vox /\ InAxis(v, lo, hi))
        \* a passing block has a non-empty cut
        /\ ((Open(lo) \/ Open(hi) \/ lo <= hi) /\ InAxis(c, DivideBound(lo, b), DivideBound(hi, b))) => a <= z

----------------------------------------------------------------------------
(* the query-string parser: a token is [cls, v]                             *)
(*   absent   parameter not given        empty   given as ""                *)
(*   dec      decimal v                  plus    "+v"      lz  leading zeros *)
(*   over     outside int32              junk    not a base-10 integer      *)
TokenBad(t) == t.cls \in {"over", "junk"}
TokenVal(t) == IF t.cls \in {"absent", "empty"} THEN None ELSE t.v
ParseErr(q) == \E i \in 1..6 : TokenBad(q[i])
ParseBox(q) == [i \in 1..6 |-> TokenVal(q[i])]
=============================================================================
