--------------------------- MODULE EnvelopeHistory ---------------------------
(***************************************************************************)
(* C15 over histories of calls.  Envelope.tla describes one serialization   *)
(* and one deserialization; here a caller issues several and KEEPS what     *)
(* each returned.  What the layer returns are values: a serialized value    *)
(* and a deserialized payload stay what they were when returned, whatever   *)
(* is serialized or deserialized afterwards (no result may live in a        *)
(* buffer that a later call reuses).                                        *)
(*                                                                         *)
(* A call is [op, comp, unc]; `held` is what the caller holds: for each     *)
(* earlier call the value it returned (`got`, as it reads NOW) and the      *)
(* value it must still be (`want`).  In the specification a returned value  *)
(* is a value, so the invariant holds by construction; the harness          *)
(* replays every call sequence TLC enumerates against dvid.SerializeData /  *)
(* dvid.DeserializeData, holding the returned slices themselves, and        *)
(* evaluates Inv_C15_ResultsStable on the real memory after every call.     *)
(***************************************************************************)
EXTENDS Naturals, Sequences, FiniteSets, TLC, Json

CONSTANTS Comps,      \* compression formats
          MaxCalls    \* length of the enumerated call sequences

Ops == {"ser", "deser", "deserraw"}   \* deserraw = DeserializeData(.., uncompress = FALSE)

VARIABLES calls,   \* sequence of calls so far
          held     \* set of [id, want, got]: results the caller still holds

vars == <<calls, held>>

\* payload number i is distinct from every other payload; Ser / Body are injective in the payload
Payload(i) == <<"payload", i>>
Ser(i, c) == <<"envelope", i, c>>
Body(i, c) == IF c = "none" THEN Payload(i) ELSE <<"body", i, c>>

Returned(i, op, c) ==
    CASE op = "ser" -> Ser(i, c)
      [] op = "deser" -> Payload(i)
      [] op = "deserraw" -> Body(i, c)

Init == calls = <<>> /\ held = {}

Call(op, c) ==
    /\ Len(calls) < MaxCalls
    /\ LET i == Len(calls) + 1 IN
       /\ calls' = Append(calls, [op |-> op, comp |-> c])
       /\ held' = held \cup {[id |-> i, want |-> Returned(i, op, c), got |-> Returned(i, op, c)]}

Next == \E op \in Ops, c \in Comps : Call(op, c)
Spec == Init /\ [][Next]_vars

Inv_C15_ResultsStable == \A h \in held : h.got = h.want
Inv_C15_AllHeld == Cardinality(held) = Len(calls)

\* the call sequences handed to the harness
Emit == Len(calls) = MaxCalls => PrintT(ToJson([calls |-> calls]))
=============================================================================
