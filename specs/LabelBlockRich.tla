----------------------------- MODULE LabelBlockRich -----------------------------
(***************************************************************************)
(* Sequences of operations on RICH-PALETTE blocks (property C10, "for every *)
(* block content as in C09").                                               *)
(*                                                                         *)
(* The initial block is a dense class of LabelBlockDense (every sub-block   *)
(* its own palette of up to 512 labels, shared labels, label 0 inside       *)
(* palettes; 16^3 .. 64^3).  Two operations are applied one after the other *)
(* to the evolving block - every ordered pair of the operation list OpsOf   *)
(* (MergeLabels with the target present / absent, ReplaceLabel onto a fresh *)
(* label / an existing label / label 0, ReplaceLabels swap and chain,       *)
(* Split, SplitSupervoxel, SplitSupervoxels), whose arguments are taken     *)
(* from the labels the CURRENT block holds.  A region is one sub-block; a   *)
(* sparse volume is a set of sub-blocks.                                    *)
(*                                                                         *)
(* hist records for every step the labelling it must produce (palette of    *)
(* every sub-block) and the counts it must return (voxels).  The claims of  *)
(* LabelBlock about merge / replace / split are checked on every block met. *)
(***************************************************************************)
EXTENDS LabelBlockDense

CONSTANTS NClasses      \* how many (wa, wb) pairs are used: wa = i % 10, wb = (3 i + 1) % 10, i < NClasses

VARIABLES blk, hist

RichClasses == {c \in Classes : \E i \in 0..(NClasses - 1) : c.wa = i % 10 /\ c.wb = (3 * i + 1 + (i \div 10)) % 10}
               \cup {c \in Classes : DimSel = 2 /\ c.wa = 4 /\ c.wb = 4 /\ c.v = VBase}       \* the 64^3 class

\* operands are read off the palettes of the current block (no scan of the whole label set)
Widest(b) == CHOOSE r \in Regions(b) : \A q \in Regions(b) : Len(b.pal[r]) >= Len(b.pal[q])
FirstNZ(p) == IF p[1] # 0 \/ Len(p) = 1 THEN p[1] ELSE p[2]
LastNZ(p) == IF p[Len(p)] # 0 \/ Len(p) = 1 THEN p[Len(p)] ELSE p[Len(p) - 1]
MidOf(b) == LET p == b.pal[Widest(b)]
                i == (Len(p) + 1) \div 2
            IN  IF p[i] # 0 THEN p[i] ELSE p[Len(p)]
\* a label of the second half of the block that is not zero (falls back on the widest palette)
TailOf(b) == LET c == {LastNZ(b.pal[r]) : r \in {q \in Regions(b) : 2 * q > NR(b)}} \ {0}
             IN  IF c = {} THEN LastNZ(b.pal[Widest(b)]) ELSE CHOOSE l \in c : TRUE
HeadOf(b) == LET c == {FirstNZ(b.pal[r]) : r \in {q \in Regions(b) : 2 * q <= NR(b)}} \ {0}
             IN  IF c = {} THEN FirstNZ(b.pal[Widest(b)]) ELSE CHOOSE l \in c : TRUE
Evens(b) == {r \in Regions(b) : r % 2 = 0}

\* voxels of label l inside the region set S
VoxIn(b, l, S) == CountIn(b, l, S)

Steps == Len(hist) - 1

OpsOf(b) ==
    LET A == HeadOf(b)
        Z == TailOf(b)
        M == MidOf(b)
        F == 2000 + 10 * Steps      \* fresh labels: beyond MaxLabel and beyond the ones of the step before
    IN  << [op |-> "merge", t |-> A, m |-> {M, Z} \ {A}],
           [op |-> "replace", t |-> A, n |-> Z],
           [op |-> "replacelabels", map |-> IF A # M THEN {<<A, M>>, <<M, F>>} ELSE {<<A, F>>}],      \* a map has one entry per label
           [op |-> "split", t |-> M, n |-> F, s |-> Evens(b)],
           [op |-> "merge", t |-> F, m |-> {A, M}],
           [op |-> "replace", t |-> M, n |-> F],
           [op |-> "replace", t |-> M, n |-> 0],
           [op |-> "replacelabels", map |-> IF A # Z THEN {<<A, Z>>, <<Z, A>>} ELSE {<<A, F>>}],
           [op |-> "split", t |-> A, n |-> F + 1, s |-> {Widest(b)}],
           [op |-> "splitsv", sv |-> M, sl |-> F, rl |-> F + 1, s |-> Evens(b)],
           [op |-> "splitsvs", map |-> IF A # M THEN {<<M, F, F + 1>>, <<A, F + 2, F + 3>>} ELSE {<<M, F, F + 1>>}, s |-> Evens(b)] >>

\* blocks with more than 64 sub-blocks (64^3): the first four operations only
NOpsFor(b) == IF NR(b) > 64 THEN 4 ELSE 11
MapFn(ps) == [l \in {p[1] : p \in ps} |-> (CHOOSE p \in ps : p[1] = l)[2]]
SVFn(ts) == [l \in {t[1] : t \in ts} |-> LET t == CHOOSE u \in ts : u[1] = l IN [s |-> t[2], r |-> t[3]]]

Apply(b, o) ==
    CASE o.op = "merge" -> Merge(b, o.t, o.m)
      [] o.op = "replace" -> Replace(b, o.t, o.n)
      [] o.op = "replacelabels" -> ReplaceLabels(b, MapFn(o.map))
      [] o.op = "split" -> Split(b, o.t, o.n, o.s)
      [] o.op = "splitsv" -> SplitSV(b, o.sv, o.sl, o.rl, o.s)
      [] OTHER -> SplitSVs(b, o.s, SVFn(o.map))

\* what the step must return besides the block
Returns(b, o) ==
    CASE o.op = "replace" -> [replaced |-> Count(b, o.t)]
      [] o.op = "replacelabels" -> [some |-> ReplacedSome(b, MapFn(o.map))]
      [] o.op = "split" -> [nil |-> SplitIsNil(b, o.t), kept |-> VoxIn(b, o.t, Regions(b) \ o.s), split |-> VoxIn(b, o.t, o.s)]
      [] o.op = "splitsv" -> [kept |-> VoxIn(b, o.sv, Regions(b) \ o.s), split |-> VoxIn(b, o.sv, o.s)]
      [] OTHER -> [none |-> TRUE]

OpClaims(b, o) ==
    CASE o.op = "merge" -> LET c == Merge(b, o.t, o.m)
                           IN  /\ \A l \in o.m : Count(c, l) = 0
                               /\ Count(c, o.t) = Count(b, o.t) + SumOver(o.m, [l \in o.m |-> Count(b, l)])
      [] o.op = "replace" -> ProbeClaims(b, o.t, o.n)
      [] o.op = "split" -> LET c == Split(b, o.t, o.n, o.s)
                           IN  /\ Count(c, o.t) = VoxIn(b, o.t, Regions(b) \ o.s)
                               /\ Count(c, o.n) = Count(b, o.n) + VoxIn(b, o.t, o.s)
                               /\ VoxIn(b, o.t, o.s) + VoxIn(b, o.t, Regions(b) \ o.s) = Count(b, o.t)
      [] o.op = "splitsv" -> LET c == SplitSV(b, o.sv, o.sl, o.rl, o.s)
                             IN  Count(c, o.sv) = 0 /\ Count(c, o.sl) = Count(b, o.sl) + VoxIn(b, o.sv, o.s)
      [] OTHER -> Volume(Apply(b, o)) = Volume(b)

RInit == /\ cls \in RichClasses
         /\ stage = 0
         /\ blk = BlockOf(cls)
         /\ hist = <<[op |-> "init", dcls |-> cls, dims |-> DimOf(cls), lclass |-> LClassOf(cls), lay |-> BlockOf(cls).lay, res |-> BlockOf(cls).pal]>>

RNext == /\ Steps < 2
         /\ \E i \in 1..NOpsFor(blk) :
              LET o == OpsOf(blk)[i]
                  c == Apply(blk, o)
              IN  /\ blk' = c
                  /\ hist' = Append(hist, [o |-> o, ret |-> Returns(blk, o), res |-> c.pal])
         /\ UNCHANGED <<cls, stage>>

RSpec == RInit /\ [][RNext]_<<cls, stage, blk, hist>>

\* (the blocks of the last step have no successor: every applied operation is covered at its source state)
Inv_C10_RichClaims == Steps < 2 => LET ops == OpsOf(blk) IN \A i \in 1..NOpsFor(blk) : OpClaims(blk, ops[i])
Inv_RichHist == hist[Len(hist)].res = blk.pal

RichEmit == Steps = 2 => PrintT(ToJson(hist))
=============================================================================
