SPECIFICATION Spec
CONSTANTS
  N = 4
  MaxParents = 3
  LastMergeOnly = FALSE
  LastFoundBug = FALSE
INVARIANTS Inv_C19_Plain Inv_C19_Flat Inv_C19_AbsentTombNoop
CHECK_DEADLOCK FALSE
