----------------------------- MODULE LabelBlockSeq -----------------------------
(***************************************************************************)
(* Sequences of operations on ONE evolving label block (property C10).     *)
(*                                                                         *)
(* State: lab, the label of each of NR uniform regions, and hist, the      *)
(* operations applied so far with their arguments, the labelling they must *)
(* produce and the values they must return.  Returned voxel counts are     *)
(* given as REGION SETS (the harness sums the sizes of the regions of the  *)
(* concrete geometry it replays on), so that one behaviour is replayed on  *)
(* several geometries.                                                     *)
(*                                                                         *)
(* The table-level edits of the implementation (MergeLabels, ReplaceLabel, *)
(* ReplaceLabels) keep the compressed form and rewrite the label table, so *)
(* whether they equal the voxel-wise operation depends on what happened    *)
(* before: TLC explores all sequences up to Depth (exhaustive mode) or     *)
(* random longer ones (simulation mode), every behaviour is printed at its *)
(* last state and replayed on one real labels.Block that is kept and       *)
(* mutated through the sequence.                                           *)
(*                                                                         *)
(* Labels 0..4 are the base labels (4 is mapped to the largest concrete    *)
(* label, 2^64-1 in some replays), 5..7 are extra labels used by           *)
(* SplitSupervoxels, 1000+ are the labels DoSplitWithStats allocates       *)
(* (bound to the concrete labels the implementation reports).              *)
(***************************************************************************)
EXTENDS LabelBlock, TLC, Json

CONSTANTS Depth,      \* length of the behaviours
          NInits,     \* how many of the initial labellings are used
          Thin,       \* TRUE: table-level edits only (MergeLabels, ReplaceLabel, ReplaceLabels): deeper exhaustive runs
          Rand        \* TRUE: every operation kind takes ONE randomly chosen argument per state (TLC!RandomElement,
                      \* seeded by -seed): a random sub-tree of the behaviours, for depths beyond the exhaustive bound

VARIABLES lab, hist

NRg == 4
RSizes == <<1, 2, 4, 8>>     \* only used by the claims; distinct powers of two identify region sets
B(l) == [size |-> RSizes, lay |-> [r \in 1..NRg |-> 0], pal |-> [r \in 1..NRg |-> <<l[r]>>]]
U(b) == [r \in 1..NRg |-> b.pal[r][1]]

Inits == << <<1, 2, 3, 0>>, <<1, 1, 2, 3>>, <<1, 2, 1, 2>>, <<0, 0, 1, 4>>, <<4, 3, 2, 1>>, <<1, 1, 1, 1>> >>

MergeArgs == {a \in (1..3) \X (SUBSET (1..3)) : a[2] # {} /\ a[1] \notin a[2]}
             \cup {<<4, {1}>>, <<4, {1, 2}>>, <<1, {4}>>, <<1, {2, 4}>>}
ReplaceArgs == {a \in (0..3) \X (0..3) : a[1] # a[2]} \cup {<<4, 1>>, <<1, 4>>, <<0, 4>>, <<4, 0>>}
MinNot(X) == CHOOSE l \in (0..3) \ X : \A m \in (0..3) \ X : l <= m
MapArgs ==    \* as sets of pairs <<from, to>>
    ({{<<p, q>>, <<q, p>>} : p \in 0..3, q \in 0..3} \ {{<<p, p>>} : p \in 0..3})
    \cup {{<<a[1], a[2]>>, <<a[2], MinNot({a[1], a[2]})>>} : a \in {x \in (0..3) \X (0..3) : x[1] # x[2]}}
    \cup {{<<a[1], a[3]>>, <<a[2], a[3]>>} : a \in {x \in (0..3) \X (0..3) \X (0..3) : x[1] < x[2] /\ x[3] \notin {x[1], x[2]}}}
MapFn(ps) == [l \in {p[1] : p \in ps} |-> (CHOOSE p \in ps : p[1] = l)[2]]
SplitSets == {{}, {1}, {2, 3}, {4}, {1, 2, 3, 4}}
SplitArgs == {<<t, n, S>> : t \in 1..3, n \in {4, 0}, S \in SplitSets} \cup
             {<<t, (t % 3) + 1, S>> : t \in 1..3, S \in SplitSets}
SplitSVArgs == {<<sv, 4, (sv % 3) + 1, S>> : sv \in 1..3, S \in SplitSets}
SVMaps == { {<<1, 5, 6>>}, {<<1, 5, 6>>, <<2, 7, 4>>} }       \* <<label, split, remain>>
SVFn(ts) == [l \in {t[1] : t \in ts} |-> LET t == CHOOSE u \in ts : u[1] = l IN [s |-> t[2], r |-> t[3]]]
Pres == { {}, {<<1, 2001, 2002>>} }                           \* mapping known before the block is visited
Fresh(l, pre) == IF l \in DOMAIN SVFn(pre) THEN SVFn(pre)[l] ELSE [s |-> 1000 + 2 * l, r |-> 1001 + 2 * l]

NoDoSplitYet == \A i \in 1..Len(hist) : hist[i].op # "dosplit"
Steps == Len(hist) - 1       \* hist[1] is the initial labelling

Pick(S) == IF Rand THEN {RandomElement(S)} ELSE S

Do(rec, b) == /\ lab' = U(b)
              /\ hist' = Append(hist, rec)

Init == /\ \E i \in 1..NInits : lab = Inits[i]
        /\ hist = <<[op |-> "init", res |-> lab]>>

OpMerge == \E a \in Pick(MergeArgs) :
    Do([op |-> "merge", t |-> a[1], m |-> a[2], res |-> U(Merge(B(lab), a[1], a[2]))], Merge(B(lab), a[1], a[2]))

OpReplace == \E a \in Pick(ReplaceArgs) :
    Do([op |-> "replace", t |-> a[1], n |-> a[2], res |-> U(Replace(B(lab), a[1], a[2])),
        size |-> {r \in 1..NRg : lab[r] = a[1]}], Replace(B(lab), a[1], a[2]))

OpMap == \E ps \in Pick(MapArgs) :
    Do([op |-> "replacelabels", map |-> ps, res |-> U(ReplaceLabels(B(lab), MapFn(ps))),
        some |-> ReplacedSome(B(lab), MapFn(ps))], ReplaceLabels(B(lab), MapFn(ps)))

OpSplit == \E a \in Pick(SplitArgs) :
    Do([op |-> "split", t |-> a[1], n |-> a[2], s |-> a[3], res |-> U(Split(B(lab), a[1], a[2], a[3])),
        nil |-> SplitIsNil(B(lab), a[1]),
        kept |-> SplitKeptRegions(B(lab), a[1], a[3]), split |-> SplitSplitRegions(B(lab), a[1], a[3])],
       Split(B(lab), a[1], a[2], a[3]))

OpSplitSV == \E a \in Pick(SplitSVArgs) :
    Do([op |-> "splitsv", sv |-> a[1], sl |-> a[2], rl |-> a[3], s |-> a[4],
        res |-> U(SplitSV(B(lab), a[1], a[2], a[3], a[4])),
        kept |-> SplitKeptRegions(B(lab), a[1], a[4]), split |-> SplitSplitRegions(B(lab), a[1], a[4])],
       SplitSV(B(lab), a[1], a[2], a[3], a[4]))

\* SplitSupervoxel whose SplitSupervoxelOp has no run-lengths for this block (the block key is
\* missing from op.Split): nothing is under the split, every voxel of sv becomes the remain label
OpSplitSVNoKey == \E a \in Pick({x \in SplitSVArgs : x[4] = {}}) :
    Do([op |-> "splitsv", nokey |-> TRUE, sv |-> a[1], sl |-> a[2], rl |-> a[3], s |-> {2, 3},
        res |-> U(SplitSV(B(lab), a[1], a[2], a[3], {})),
        kept |-> SplitKeptRegions(B(lab), a[1], {}), split |-> {}],
       SplitSV(B(lab), a[1], a[2], a[3], {}))

OpSplitSVs == \E ts \in Pick(SVMaps) : \E S \in Pick(SplitSets) :
    Do([op |-> "splitsvs", map |-> ts, s |-> S, res |-> U(SplitSVs(B(lab), S, SVFn(ts)))],
       SplitSVs(B(lab), S, SVFn(ts)))

OpDoSplit == /\ NoDoSplitYet
             /\ \E S \in Pick(SplitSets) : \E pre \in Pick(Pres) :
                  LET b == B(lab)
                      a == [l \in Touched(b, S) |-> Fresh(l, pre)]
                  IN  Do([op |-> "dosplit", s |-> S, pre |-> pre, res |-> U(DoSplit(b, S, a)),
                          stats |-> {<<l, a[l].s, a[l].r, TouchedRegions(b, S, l)>> : l \in Touched(b, S)}],
                         DoSplit(b, S, a))

\* DoSplitWithStats whose label allocator fails at its k-th call: an error and no block when the
\* split needs at least k new labels (two per touched supervoxel that has no mapping yet)
OpDoSplitFail == /\ NoDoSplitYet
                 /\ \E S \in Pick({{1, 2, 3, 4}}) : \E pre \in Pick(Pres) : \E k \in Pick({1, 2}) :
                      LET b == B(lab)
                          need == 2 * Cardinality(Touched(b, S) \ DOMAIN SVFn(pre))
                      IN  /\ need >= k
                          /\ Do([op |-> "dosplit", failat |-> k, fails |-> TRUE, s |-> S, pre |-> pre, res |-> lab, stats |-> {}], b)

Next == /\ Steps < Depth
        /\ \/ OpMerge \/ OpReplace \/ OpMap
           \/ (~Thin /\ (OpSplit \/ OpSplitSV \/ OpSplitSVNoKey \/ OpSplitSVs \/ OpDoSplit \/ OpDoSplitFail))

vars == <<lab, hist>>
Spec == Init /\ [][Next]_vars

----------------------------------------------------------------------------
\* Claims of C10 on every reachable block and every argument
Inv_OpClaims ==
    LET b == B(lab)
    IN  /\ \A a \in MergeArgs : MergeClaims(b, a[1], a[2])
        /\ \A a \in ReplaceArgs : ReplaceClaims(b, a[1], a[2])
        /\ \A a \in SplitArgs : SplitClaims(b, a[1], a[2], a[3])
        /\ \A a \in SplitSVArgs : SplitSVClaims(b, a[1], a[2], a[3], a[4])
        /\ \A a \in MergeArgs : \A x \in {0, 2, 4} : a[1] \notin a[2] => AlgebraClaims(b, a[1], a[2], x)
        /\ \A p \in 0..3 : \A q \in 0..3 : p # q => SwapClaims(b, p, q)
        /\ \A p \in 0..3 : \A q \in 0..3 : \A w \in 0..3 : ChainClaims(b, p, q, w)
        /\ \A S \in SplitSets :
              LET a == [l \in Touched(b, S) |-> Fresh(l, {})]
              IN  /\ (\A l \in Touched(b, S) : a[l].s \notin LabelsOf(b) /\ a[l].r \notin LabelsOf(b)) =>
                         \A l \in Touched(b, S) : /\ Count(DoSplit(b, S, a), l) = 0
                                                   /\ Count(DoSplit(b, S, a), a[l].s) = CountIn(b, l, S)
                                                   /\ Count(DoSplit(b, S, a), a[l].r) = CountIn(b, l, Regions(b) \ S)
                  /\ Volume(DoSplit(b, S, a)) = Volume(b)

\* every step of the history produced the labelling recorded for it
Inv_Hist == hist[Len(hist)].res = lab

LabView == lab     \* VIEW of the claims configuration: one state per labelling

Emit == Steps = Depth => PrintT(ToJson(hist))
=============================================================================
