------------------------------ MODULE KVRead ------------------------------
(***************************************************************************)
(* Version resolution of one datum over a version DAG (property C01).      *)
(*                                                                         *)
(*   par  : sequence; par[n] is the ordered parent tuple of node n         *)
(*   ent  : function from a subset of nodes to Tomb (0) or a value id > 0  *)
(*                                                                         *)
(* Read is the property's oracle (set-theoretic).  FindMatch is a          *)
(* transcription of datastore.repoManager.findMatch/invalidateAncestors at *)
(* the current commit: an analysis of the implementation, never the        *)
(* oracle.                                                                 *)
(***************************************************************************)
EXTENDS Integers, Sequences, FiniteSets

CONSTANT LastFoundBug   \* TRUE reproduces the pre-fix "last found wins" slip of findMatch

Tomb == 0
NotFound == "NotFound"
Conflict == "Conflict"

RECURSIVE Anc(_, _)
Anc(par, v) == {v} \cup UNION {Anc(par, par[v][i]) : i \in 1..Len(par[v])}
ProperAnc(par, v) == UNION {Anc(par, par[v][i]) : i \in 1..Len(par[v])}

Cands(par, ent, v) == (DOMAIN ent) \cap Anc(par, v)
\* candidates not superseded by an entry at one of their proper descendants
Unsup(par, ent, v) ==
    LET C == Cands(par, ent, v) IN {c \in C : ~\E d \in C : d # c /\ c \in Anc(par, d)}
Live(par, ent, v) == {c \in Unsup(par, ent, v) : ent[c] # Tomb}

\* The node whose value a read at v returns, or NotFound / Conflict.
ReadNode(par, ent, v) ==
    LET L == Live(par, ent, v) IN
    IF L = {} THEN 0
    ELSE IF Cardinality(L) = 1 THEN CHOOSE c \in L : TRUE
    ELSE -1

\* value id read at v: 0 = not found, -1 = conflict
Read(par, ent, v) ==
    LET r == ReadNode(par, ent, v) IN
    IF r = 0 THEN 0 ELSE IF r = -1 THEN -1 ELSE ent[r]

(***************************************************************************)
(* Transcription of findMatch.  State threaded through the recursion: the  *)
(* set inv of entries marked invalid.  Result: r = node whose entry is     *)
(* returned (0 = nil), err = TRUE for "found multiple kv".                 *)
(***************************************************************************)
RECURSIVE FM(_, _, _, _)
RECURSIVE FMParents(_, _, _, _, _, _, _)

\* fold over the parents of a merge node, in order
FMParents(par, ent, ps, i, inv, foundKV, foundVs) ==
    IF i > Len(ps) THEN
        LET fv == foundVs \ inv IN
        IF fv = {} THEN [r |-> 0, inv |-> inv, err |-> FALSE]
        ELSE IF Cardinality(fv) = 1 THEN
            [r |-> IF LastFoundBug THEN foundKV ELSE CHOOSE x \in fv : TRUE, inv |-> inv, err |-> FALSE]
        ELSE [r |-> 0, inv |-> inv, err |-> TRUE]
    ELSE
        LET res == FM(par, ent, inv, ps[i]) IN
        IF res.err THEN res
        ELSE IF res.r # 0
             THEN FMParents(par, ent, ps, i + 1, res.inv, res.r, foundVs \cup {res.r})
             ELSE FMParents(par, ent, ps, i + 1, res.inv, foundKV, foundVs)

FM(par, ent, inv, v) ==
    IF v \in DOMAIN ent THEN
        IF v \in inv THEN [r |-> 0, inv |-> inv, err |-> FALSE]
        ELSE LET inv2 == inv \cup ((DOMAIN ent) \cap ProperAnc(par, v)) IN
             IF ent[v] = Tomb THEN [r |-> 0, inv |-> inv2, err |-> FALSE]
             ELSE [r |-> v, inv |-> inv2, err |-> FALSE]
    ELSE IF Len(par[v]) = 0 THEN [r |-> 0, inv |-> inv, err |-> FALSE]
    ELSE IF Len(par[v]) = 1 THEN FM(par, ent, inv, par[v][1])
    ELSE FMParents(par, ent, par[v], 1, inv, 0, {})

\* what the implementation-shaped algorithm answers: node (>0), 0 = not found, -1 = error
FindMatchNode(par, ent, v) ==
    LET res == FM(par, ent, {}, v) IN IF res.err THEN -1 ELSE res.r
=============================================================================
