------------------------------- MODULE KVCopy -------------------------------
(***************************************************************************)
(* Copying a data instance (property C19) over the version DAGs and        *)
(* placements enumerated by KVShapes.                                       *)
(*                                                                         *)
(* A datum of the source instance is ent: node -> Tomb | value id (the      *)
(* placement EntOf(p, N) tags the value written at node k with k).          *)
(*   plain copy          every entry, values and tombstones, is copied      *)
(*                       under the new instance (the version stays)         *)
(*   flattened copy at V only what a read at V finds is copied, stamped V   *)
(* The claims: the plain copy reads like the source at every version; the   *)
(* flattened copy made at V reads, at V and at every descendant of V, what  *)
(* the source reads at V, and is empty elsewhere.  Emit prints, per shape,  *)
(* the source reads (the oracle KVRead.Read) and the descendant relation;   *)
(* by Inv_C19_Flat the expected read of the flattened copy at w is          *)
(* read[p][V] if desc[V][w] and "not found" otherwise.                      *)
(***************************************************************************)
EXTENDS KVShapes

Desc(v) == {w \in 1..N : v \in Anc(par, w)}

PlainCopy(ent) == ent
FlatCopy(ent, V) == LET r == ReadNode(par, ent, V) IN
                    IF r > 0 THEN [x \in {V} |-> ent[r]] ELSE <<>>

Inv_C19_Plain ==
    Complete => \A p \in Placements : \A w \in 1..N :
        Read(par, PlainCopy(EntOf(p, N)), w) = Read(par, EntOf(p, N), w)

\* (a read in merge conflict at V has no defined flattened copy)
Inv_C19_Flat ==
    Complete => \A p \in Placements : \A V \in 1..N :
        LET ent == EntOf(p, N) IN
        Read(par, ent, V) # -1 =>
            \A w \in 1..N : Read(par, FlatCopy(ent, V), w) = IF w \in Desc(V) THEN Read(par, ent, V) ELSE 0

\* Datatypes whose deletion writes a tombstone only where the datum is visible (roi DELETE =
\* DeleteRange, annotation element deletion) leave RealEnt(ent) in the store when the
\* placement ent asks for a deletion at every node with digit 2; it reads like ent.
RECURSIVE RealUpTo(_, _)
RealUpTo(ent, k) ==
    IF k = 0 THEN <<>>
    ELSE LET prev == RealUpTo(ent, k - 1) IN
         IF k \notin DOMAIN ent THEN prev
         ELSE IF ent[k] # Tomb \/ ReadNode(par, prev, k) # 0
              THEN [x \in (DOMAIN prev) \cup {k} |-> IF x = k THEN ent[k] ELSE prev[x]]
              ELSE prev
RealEnt(ent) == RealUpTo(ent, N)

Inv_C19_AbsentTombNoop ==
    Complete => \A p \in Placements : \A w \in 1..N :
        Read(par, RealEnt(EntOf(p, N)), w) = Read(par, EntOf(p, N), w)

\* Which placements can be built and copied with a defined result:
\*   Built(p)   no write or deletion is issued at a node where the datum is in merge conflict
\*              just before it (a read-modify-write or DeleteRange there has no defined effect)
\*   Strict(p)  for a datatype that records a deletion as an (empty) value instead of a
\*              tombstone (annotation blocks and tags): a conflict is two unsuperseded entries
\*              of any kind; they never meet, neither before an own entry nor in a read.
\* On such placements the reads are those of KVRead.Read.
Built(p) ==
    LET ent == EntOf(p, N) IN \A k \in DOMAIN ent : ReadNode(par, RealUpTo(ent, k - 1), k) # -1
Strict(p) ==
    LET ent == EntOf(p, N) IN
    /\ \A k \in DOMAIN ent : Cardinality(Unsup(par, RealUpTo(ent, k - 1), k)) <= 1
    /\ \A v \in 1..N : Cardinality(Unsup(par, RealEnt(ent), v)) <= 1

EmitCopy ==
    Complete =>
        PrintT(ToJson([par  |-> par,
                       read |-> [q \in 1..Pow3(N) |-> [v \in 1..N |-> Read(par, EntOf(q - 1, N), v)]],
                       built |-> [q \in 1..Pow3(N) |-> IF Built(q - 1) THEN 1 ELSE 0],
                       strict |-> [q \in 1..Pow3(N) |-> IF Strict(q - 1) THEN 1 ELSE 0],
                       desc |-> [V \in 1..N |-> [w \in 1..N |-> IF w \in Desc(V) THEN 1 ELSE 0]]]))
=============================================================================
