---------------------------- MODULE DvidPersist_mc ----------------------------
EXTENDS DvidPersist, Json
EmitWriteTable == (crashes = 0 /\ mem.vid = 1 /\ prog = <<>>) =>
    /\ PrintT(ToJson(WriteTable))
    \* which of 230 consecutive mutation-id allocations after initMutationID persist the MUT key, for the code's stride of 100
    /\ PrintT(ToJson([mutschedule |-> MutSchedule(0, 100, 100, 230)]))
=============================================================================
