---------------------------- MODULE DvidPersist_mc ----------------------------
EXTENDS DvidPersist, Json
EmitWriteTable == (crashes = 0 /\ mem.vid = 1 /\ prog = <<>>) => PrintT(ToJson(WriteTable))
=============================================================================
