------------------------------ MODULE ImageVol ------------------------------
(***************************************************************************)
(* Image volumes (datatype imageblk) as a versioned map block -> write id  *)
(* (property C17).                                                         *)
(*                                                                         *)
(* A volume is a lattice of NBX x NBY x NBZ blocks (lattice-relative block *)
(* coordinates 0..NB?-1; the harness places the lattice at a seeded,       *)
(* possibly negative block origin and picks the block size).  Writes       *)
(* through the HTTP API are block aligned (POST raw/0_1_2 needs it; POST   *)
(* blocks is a row of whole blocks along X), so the content of a block is  *)
(* determined by the last write that touched it: vol[v][b] = index of that *)
(* write, 0 = never written = background.  The file ingest (`load`) is the *)
(* one write that is NOT block aligned: it merges a slab of XY images into *)
(* the blocks it intersects.  Every block is cut into 2 x 2 x 2 cells of   *)
(* half a block edge; a load covers a box of cells and lc[v][c] is the     *)
(* index of the load that last wrote cell c.  Write indices grow with      *)
(* time, so the content of a cell is the larger of the two.  The harness   *)
(* refines write id w to voxels by a fixed function f(w, x, y, z), so      *)
(* every voxel of every write is distinguishable.                          *)
(*                                                                         *)
(* Requests: write(v, api, mutate, box, roi) and load(v, cbox) on an open  *)
(* version v; newver(p): commit p (when still open) and create a child of  *)
(* p; setroi(v, r, blocks): replace (POST roi) or delete (DELETE roi) the  *)
(* region of interest r at the open version v - regions are versioned      *)
(* data like the volume; setext(v, box): POST extents.                     *)
(* Reads are state functions: Read over a lattice of cells (so read boxes  *)
(* cut blocks) with a margin of one block around the written lattice,      *)
(* optionally masked by a region of interest (GET ...?roi=<name>: voxels   *)
(* of blocks outside the region read as background); BlockStream for the   *)
(* block-wise endpoints; ext for the advertised extents.                   *)
(*                                                                         *)
(* A region of interest whose block size differs from the volume's cannot  *)
(* restrict it block by block: requests that name one (RoiForeign) are     *)
(* refused and change nothing.                                             *)
(*                                                                         *)
(* Step is a pure function so that the same semantics serves the           *)
(* exhaustive exploration (Next, ImageVol_mc) and the evaluation of seeded *)
(* request sequences (Run, ImageVol_cases).                                *)
(***************************************************************************)
EXTENDS Integers, Sequences, FiniteSets, TLC

CONSTANTS NBX, NBY, NBZ,   \* blocks per axis
          MaxVersions,
          MaxWrites,       \* writes + loads
          Rois,            \* sequence of block-id sets: the regions of interest at the root version
          RoiAlts,         \* sequence of block-id sets a region can be changed to (setroi; {} = DELETE)
          RoiForeign,      \* set of region numbers whose block size differs from the volume's
          MaxRoiOps,       \* bound on setroi requests
          MaxExtOps,       \* bound on setext requests
          MaxLoads         \* bound on load requests (they also count as writes)

NB     == NBX * NBY * NBZ
Blocks == 1..NB
BC(b)  == << (b - 1) % NBX, ((b - 1) \div NBX) % NBY, (b - 1) \div (NBX * NBY) >>
Bid(x, y, z) == 1 + x + NBX * (y + NBY * z)
Dim(a) == IF a = 1 THEN NBX ELSE IF a = 2 THEN NBY ELSE NBZ

Min2(a, b) == IF a < b THEN a ELSE b
Max2(a, b) == IF a > b THEN a ELSE b

\* A box is [lo, hi], inclusive corner coordinates; NoBox is the empty box.
NoBox == [lo |-> <<0, 0, 0>>, hi |-> <<-1, -1, -1>>]
InBox(c, box) == \A a \in 1..3 : box.lo[a] <= c[a] /\ c[a] <= box.hi[a]
BoxBlocks(box) == {b \in Blocks : InBox(BC(b), box)}
Hull(p, q) == IF p = NoBox THEN q ELSE IF q = NoBox THEN p
              ELSE [lo |-> [a \in 1..3 |-> Min2(p.lo[a], q.lo[a])],
                    hi |-> [a \in 1..3 |-> Max2(p.hi[a], q.hi[a])]]
Contains(outer, inner) == inner = NoBox \/ (outer # NoBox /\ \A a \in 1..3 : outer.lo[a] <= inner.lo[a] /\ inner.hi[a] <= outer.hi[a])
Boxes == {bx \in [lo : (0..NBX-1) \X (0..NBY-1) \X (0..NBZ-1), hi : (0..NBX-1) \X (0..NBY-1) \X (0..NBZ-1)] :
            \A a \in 1..3 : bx.lo[a] <= bx.hi[a]}
RowBoxes == {bx \in Boxes : bx.lo[2] = bx.hi[2] /\ bx.lo[3] = bx.hi[3]}

\* Cells: half a block edge.  Cell coordinate c on axis a covers the half block (c \div 2, c % 2).
NCX == 2 * NBX
NCY == 2 * NBY
NCZ == 2 * NBZ
CellIds == 1..(NCX * NCY * NCZ)
CellOfId(i) == << (i - 1) % NCX, ((i - 1) \div NCX) % NCY, (i - 1) \div (NCX * NCY) >>
CellId(c) == 1 + c[1] + NCX * (c[2] + NCY * c[3])
InLattice(c) == \A a \in 1..3 : 0 <= c[a] /\ c[a] < 2 * Dim(a)
CellBlock(c) == IF InLattice(c) THEN Bid(c[1] \div 2, c[2] \div 2, c[3] \div 2) ELSE 0
\* the cell box of a block box
CellsOfBlockBox(bx) == IF bx = NoBox THEN NoBox
                       ELSE [lo |-> [a \in 1..3 |-> 2 * bx.lo[a]], hi |-> [a \in 1..3 |-> 2 * bx.hi[a] + 1]]
CellBoxes == {bx \in [lo : (0..NCX-1) \X (0..NCY-1) \X (0..NCZ-1), hi : (0..NCX-1) \X (0..NCY-1) \X (0..NCZ-1)] :
                \A a \in 1..3 : bx.lo[a] <= bx.hi[a]}
\* the blocks a cell box intersects
CellBoxBlocks(cb) == {b \in Blocks : \A a \in 1..3 : cb.lo[a] <= 2 * BC(b)[a] + 1 /\ 2 * BC(b)[a] <= cb.hi[a]}

---------------------------------------------------------------------------
\* State: a record.
InitState == [nver |-> 1, par |-> <<0>>, open |-> <<TRUE>>, kids |-> <<0>>,
              vol  |-> << [b \in Blocks |-> 0] >>,
              lc   |-> << [i \in CellIds |-> 0] >>,   \* cell -> index of the load that last wrote it
              ls   |-> << {} >>,                      \* blocks stored by loads
              ext  |-> << NoBox >>,                   \* advertised extents, in cell coordinates
              roi  |-> << Rois >>,                    \* the block set of every region, per version
              nw   |-> 0, nr |-> 0, ne |-> 0, nl |-> 0]

OpenVersions(s) == {u \in 1..s.nver : s.open[u]}

WriteOps(s) ==
    {[op |-> "write", v |-> v, api |-> "raw", mutate |-> m, box |-> bx, roi |-> r] :
        v \in OpenVersions(s), m \in BOOLEAN, bx \in Boxes, r \in 0..Len(Rois)}
    \cup
    {[op |-> "write", v |-> v, api |-> "blocks", mutate |-> m, box |-> bx, roi |-> 0] :
        v \in OpenVersions(s), m \in BOOLEAN, bx \in RowBoxes}
LoadOps(s) == {[op |-> "load", v |-> v, cbox |-> cb] : v \in OpenVersions(s), cb \in CellBoxes}
VerOps(s)  == {[op |-> "newver", v |-> p] : p \in 1..s.nver}
RoiOps(s)  == {[op |-> "setroi", v |-> v, roi |-> r, blocks |-> RoiAlts[k]] :
                  v \in OpenVersions(s), r \in (1..Len(Rois)) \ RoiForeign, k \in 1..Len(RoiAlts)}
\* the extents a client posts in the exploration: the whole lattice, or the lattice with its margin
LatticeBox == [lo |-> <<0, 0, 0>>, hi |-> <<NCX - 1, NCY - 1, NCZ - 1>>]
MarginBox  == [lo |-> <<-2, -2, -2>>, hi |-> <<NCX + 1, NCY + 1, NCZ + 1>>]
ExtOps(s)  == {[op |-> "setext", v |-> v, box |-> bx] : v \in OpenVersions(s), bx \in {LatticeBox, MarginBox}}

Enabled(s, o) ==
    CASE o.op = "write"  -> o.v \in 1..s.nver /\ s.open[o.v] /\ s.nw < MaxWrites
      [] o.op = "load"   -> o.v \in 1..s.nver /\ s.open[o.v] /\ s.nw < MaxWrites /\ s.nl < MaxLoads
      [] o.op = "newver" -> o.v \in 1..s.nver /\ s.nver < MaxVersions
      [] o.op = "setroi" -> o.v \in 1..s.nver /\ s.open[o.v] /\ s.nr < MaxRoiOps /\ o.roi \in (1..Len(Rois)) \ RoiForeign
      \* a client that posts extents posts extents that contain what is already there
      [] o.op = "setext" -> o.v \in 1..s.nver /\ s.open[o.v] /\ s.ne < MaxExtOps /\ Contains(o.box, s.ext[o.v])
      [] OTHER -> FALSE

\* a request that names a region of interest of another block size is refused
Refused(o) == o.op = "write" /\ o.roi \in RoiForeign

\* the blocks a write stores: its box, restricted to the region of interest when one is named
\* (the region as it is at the version written to)
Targets(s, o) == IF o.roi = 0 THEN BoxBlocks(o.box) ELSE BoxBlocks(o.box) \cap s.roi[o.v][o.roi]

InCellBox(i, cb) == InBox(CellOfId(i), cb)

Step(s, o) ==
    CASE o.op = "write" ->
        IF Refused(o) THEN [s EXCEPT !.nw = s.nw + 1]
        ELSE
        [s EXCEPT !.nw = s.nw + 1,
                  !.vol[o.v] = [b \in Blocks |-> IF b \in Targets(s, o) THEN s.nw + 1 ELSE s.vol[o.v][b]],
                  !.ext[o.v] = Hull(s.ext[o.v], CellsOfBlockBox(o.box))]
      [] o.op = "load" ->
        [s EXCEPT !.nw = s.nw + 1, !.nl = s.nl + 1,
                  !.lc[o.v] = [i \in CellIds |-> IF InCellBox(i, o.cbox) THEN s.nw + 1 ELSE s.lc[o.v][i]],
                  !.ls[o.v] = s.ls[o.v] \cup CellBoxBlocks(o.cbox),
                  !.ext[o.v] = Hull(s.ext[o.v], o.cbox)]
      [] o.op = "setroi" ->
        [s EXCEPT !.nr = s.nr + 1, !.roi[o.v][o.roi] = o.blocks]
      [] o.op = "setext" ->
        [s EXCEPT !.ne = s.ne + 1, !.ext[o.v] = o.box]
      [] OTHER ->
        [s EXCEPT !.nver = s.nver + 1,
                  !.par  = Append(s.par, o.v),
                  !.open = Append([s.open EXCEPT ![o.v] = FALSE], TRUE),
                  !.kids = Append([s.kids EXCEPT ![o.v] = s.kids[o.v] + 1], 0),
                  !.vol  = Append(s.vol, s.vol[o.v]),
                  !.lc   = Append(s.lc, s.lc[o.v]),
                  !.ls   = Append(s.ls, s.ls[o.v]),
                  !.ext  = Append(s.ext, s.ext[o.v]),
                  !.roi  = Append(s.roi, s.roi[o.v])]

---------------------------------------------------------------------------
\* Reads.  The margin of 2 cells (one block) on every side of the lattice is never written.
CellLo(a) == -2
CellHi(a) == 2 * Dim(a) + 1
\* content of a cell: the later of the aligned write of its block and the load of the cell
CellVal(s, v, c) == IF ~InLattice(c) THEN 0 ELSE Max2(s.vol[v][CellBlock(c)], s.lc[v][CellId(c)])
\* ... as seen through region of interest r (0 = none): blocks outside the region are background
MaskedVal(s, v, c, r) == IF r = 0 THEN CellVal(s, v, c)
                         ELSE IF InLattice(c) /\ CellBlock(c) \in s.roi[v][r] THEN CellVal(s, v, c) ELSE 0
\* a read box is [lo, hi] in cell coordinates; a 2-D slice is a read box of thickness one voxel
\* inside one cell layer, so its expected content is that of a cell box that is 1 cell thick.
ReadR(s, v, rb, r) == [c \in (rb.lo[1]..rb.hi[1]) \X (rb.lo[2]..rb.hi[2]) \X (rb.lo[3]..rb.hi[3]) |-> MaskedVal(s, v, c, r)]
Read(s, v, rb) == ReadR(s, v, rb, 0)
ReadRefused(r) == r \in RoiForeign
\* The structural classes of a read interval on one axis: (first cell, last cell).  They fix how
\* the interval lies relative to the block grid and to the written lattice (starts/ends on a
\* block border or inside a block, within one block or across 2..NB+2 blocks, partly or wholly
\* outside the lattice); the harness expands a class into concrete voxel intervals by seeded
\* offsets inside the first and the last cell.
AxisClasses(a) == {p \in (CellLo(a)..CellHi(a)) \X (CellLo(a)..CellHi(a)) : p[1] <= p[2]}
\* block-wise endpoints (blocks, subvolblocks, specificblocks): stored blocks with their content
Written(s, v) == {b \in Blocks : s.vol[v][b] # 0} \cup s.ls[v]
BlockCells(b) == {i \in CellIds : CellBlock(CellOfId(i)) = b}
BlockContent(s, v, b) == [i \in BlockCells(b) |-> CellVal(s, v, CellOfId(i))]
BlockStream(s, v, bs) == [b \in (bs \cap Written(s, v)) |-> BlockContent(s, v, b)]
\* hull of the written cells, in cell coordinates
WrittenCells(s, v) == {i \in CellIds : CellVal(s, v, CellOfId(i)) # 0}
WrittenHull(s, v) ==
    LET W == WrittenCells(s, v)
        Dc(a) == IF a = 1 THEN NCX ELSE IF a = 2 THEN NCY ELSE NCZ
    IN
    IF W = {} THEN NoBox
    ELSE [lo |-> [a \in 1..3 |-> CHOOSE m \in 0..Dc(a)-1 : (\E i \in W : CellOfId(i)[a] = m) /\ (\A i \in W : CellOfId(i)[a] >= m)],
          hi |-> [a \in 1..3 |-> CHOOSE m \in 0..Dc(a)-1 : (\E i \in W : CellOfId(i)[a] = m) /\ (\A i \in W : CellOfId(i)[a] <= m)]]

---------------------------------------------------------------------------
\* The claims of property C17, stated declaratively and checked against Step.

\* "the advertised extents cover every written voxel"
ExtentsCover(s) == \A v \in 1..s.nver : \A i \in WrittenCells(s, v) : InBox(CellOfId(i), s.ext[v])

\* "unwritten voxels read as the background value": a cell outside every written block reads 0,
\* and a cell reads the write that last stored it - whatever box is used to read it; read
\* through a region of interest, a cell of a block of the region reads what it reads without the
\* region and every other cell reads background.
FullBox == [lo |-> <<CellLo(1), CellLo(2), CellLo(3)>>, hi |-> <<CellHi(1), CellHi(2), CellHi(3)>>]
ReadClaims(s) ==
    \A v \in 1..s.nver :
        /\ LET full  == Read(s, v, FullBox)
               fullR == [r \in (1..Len(Rois)) \ RoiForeign |-> ReadR(s, v, FullBox, r)]
           IN
           \A x \in CellLo(1)..CellHi(1), y \in CellLo(2)..CellHi(2), z \in CellLo(3)..CellHi(3) :
              LET cb  == CellBlock(<<x, y, z>>)
                  val == full[<<x, y, z>>]
              IN  /\ IF cb = 0 THEN val = 0
                     ELSE IF cb \notin Written(s, v) THEN val = 0
                     ELSE val \in {s.vol[v][cb], s.lc[v][CellId(<<x, y, z>>)]} /\ val >= s.vol[v][cb] /\ val >= s.lc[v][CellId(<<x, y, z>>)]
                  /\ \A r \in (1..Len(Rois)) \ RoiForeign :
                        fullR[r][<<x, y, z>>] = IF cb # 0 /\ cb \in s.roi[v][r] THEN val ELSE 0
        /\ DOMAIN BlockStream(s, v, Blocks) = Written(s, v)
        \* a block that reads non-background somewhere is a stored block
        /\ \A i \in WrittenCells(s, v) : CellBlock(CellOfId(i)) \in Written(s, v)

\* written voxels are read back (the last write wins); a write restricted by a region of
\* interest changes only blocks inside that region; nothing changes outside the written box or
\* at any other version; a new version starts as a copy of its (now immutable) parent; a change
\* of a region or of the extents changes no voxel.
SameVoxels(s, t, v) == \A i \in CellIds : CellVal(t, v, CellOfId(i)) = CellVal(s, v, CellOfId(i))
StepClaims(s, o, t) ==
    CASE o.op = "write" ->
        /\ t.nver = s.nver /\ t.par = s.par /\ t.open = s.open /\ t.roi = s.roi
        /\ \A v \in 1..s.nver : v # o.v => SameVoxels(s, t, v) /\ t.ext[v] = s.ext[v]
        /\ Refused(o) => SameVoxels(s, t, o.v) /\ t.ext = s.ext /\ Written(t, o.v) = Written(s, o.v)
        /\ ~Refused(o) => \A i \in CellIds :
              LET c == CellOfId(i)
                  b == CellBlock(c) IN
              /\ ~InBox(BC(b), o.box) => CellVal(t, o.v, c) = CellVal(s, o.v, c)
              /\ (o.roi # 0 /\ b \notin s.roi[o.v][o.roi]) => CellVal(t, o.v, c) = CellVal(s, o.v, c)
              /\ (InBox(BC(b), o.box) /\ (o.roi = 0 \/ b \in s.roi[o.v][o.roi])) => CellVal(t, o.v, c) = t.nw /\ t.nw > s.nw
      [] o.op = "load" ->
        /\ t.nver = s.nver /\ t.par = s.par /\ t.open = s.open /\ t.roi = s.roi
        /\ \A v \in 1..s.nver : v # o.v => SameVoxels(s, t, v) /\ t.ext[v] = s.ext[v]
        /\ \A i \in CellIds : CellVal(t, o.v, CellOfId(i)) = IF InCellBox(i, o.cbox) THEN t.nw ELSE CellVal(s, o.v, CellOfId(i))
        /\ t.nw > s.nw
      [] o.op = "setroi" ->
        /\ t.nver = s.nver /\ t.par = s.par /\ t.open = s.open /\ t.nw = s.nw /\ t.ext = s.ext
        /\ \A v \in 1..s.nver : SameVoxels(s, t, v) /\ Written(t, v) = Written(s, v)
        /\ \A v \in 1..s.nver : \A r \in 1..Len(Rois) : (v # o.v \/ r # o.roi) => t.roi[v][r] = s.roi[v][r]
        /\ t.roi[o.v][o.roi] = o.blocks
      [] o.op = "setext" ->
        /\ t.nver = s.nver /\ t.par = s.par /\ t.open = s.open /\ t.nw = s.nw /\ t.roi = s.roi
        /\ \A v \in 1..s.nver : SameVoxels(s, t, v) /\ Written(t, v) = Written(s, v)
        /\ \A v \in 1..s.nver : v # o.v => t.ext[v] = s.ext[v]
        /\ Contains(t.ext[o.v], s.ext[o.v]) /\ Contains(t.ext[o.v], o.box)
      [] OTHER ->
        /\ t.nver = s.nver + 1
        /\ \A v \in 1..s.nver : SameVoxels(s, t, v) /\ t.ext[v] = s.ext[v] /\ t.roi[v] = s.roi[v] /\ Written(t, v) = Written(s, v)
        /\ \A i \in CellIds : CellVal(t, t.nver, CellOfId(i)) = CellVal(s, o.v, CellOfId(i))
        /\ t.ext[t.nver] = s.ext[o.v] /\ t.roi[t.nver] = s.roi[o.v] /\ Written(t, t.nver) = Written(s, o.v)
        /\ ~t.open[o.v] /\ t.open[t.nver] /\ t.par[t.nver] = o.v
        /\ t.nw = s.nw

\* versions that are committed never change again (they are not writable in Enabled)
StateOK(s) == ExtentsCover(s) /\ ReadClaims(s)

---------------------------------------------------------------------------
\* Evaluation of a given request sequence.
RECURSIVE RunFrom(_, _, _)
RunFrom(s, ops, i) == IF i > Len(ops) THEN s ELSE RunFrom(Step(s, ops[i]), ops, i + 1)
Run(ops) == RunFrom(InitState, ops, 1)

RECURSIVE ClaimsFrom(_, _, _)
ClaimsFrom(s, ops, i) ==
    IF i > Len(ops) THEN TRUE
    ELSE /\ Enabled(s, ops[i])
         /\ StepClaims(s, ops[i], Step(s, ops[i]))
         /\ StateOK(Step(s, ops[i]))
         /\ ClaimsFrom(Step(s, ops[i]), ops, i + 1)
RunClaims(ops) == ClaimsFrom(InitState, ops, 1)

\* what the harness needs of a state: per version the cell map (as read without and through
\* every region of interest), the stored blocks, the advertised extents and the hull of the
\* written cells (both in cell coordinates)
Project(s) == [nver |-> s.nver, par |-> s.par, open |-> s.open,
               vol  |-> s.vol,
               cvol |-> [v \in 1..s.nver |-> [r \in 1..(Len(Rois) + 1) |-> [i \in CellIds |-> MaskedVal(s, v, CellOfId(i), r - 1)]]],
               stored |-> [v \in 1..s.nver |-> [b \in Blocks |-> IF b \in Written(s, v) THEN 1 ELSE 0]],
               roi  |-> s.roi,
               ext  |-> [v \in 1..s.nver |-> <<s.ext[v].lo, s.ext[v].hi>>],
               hull |-> [v \in 1..s.nver |-> <<WrittenHull(s, v).lo, WrittenHull(s, v).hi>>]]
=============================================================================
