------------------------------ MODULE ImageVol ------------------------------
(***************************************************************************)
(* Image volumes (datatype imageblk) as a versioned map block -> write id  *)
(* (property C17).                                                         *)
(*                                                                         *)
(* A volume is a lattice of NBX x NBY x NBZ blocks (lattice-relative block *)
(* coordinates 0..NB?-1; the harness places the lattice at a seeded,       *)
(* possibly negative block origin and picks the block size).  Writes are   *)
(* block aligned (POST raw/0_1_2 needs it; POST blocks is a row of whole   *)
(* blocks along X), so the content of a block is determined by the last    *)
(* write that touched it: vol[v][b] = index of that write, 0 = never       *)
(* written = background.  The harness refines write id w to voxels by a    *)
(* fixed function f(w, x, y, z), so every voxel of every write is          *)
(* distinguishable.                                                        *)
(*                                                                         *)
(* Requests: write(v, api, mutate, box, roi) on an open version v, and     *)
(* newver(p): commit p (when still open) and create a child of p.          *)
(* Reads are state functions: CellMap / Read over a lattice of cells of    *)
(* half a block edge (so read boxes cut blocks) with a margin of one block *)
(* around the written lattice; BlockStream for the block-wise endpoints;   *)
(* ext for the advertised extents.                                         *)
(*                                                                         *)
(* Step is a pure function so that the same semantics serves the           *)
(* exhaustive exploration (Next, ImageVol_mc) and the evaluation of seeded *)
(* request sequences (Run, ImageVol_cases).                                *)
(***************************************************************************)
EXTENDS Integers, Sequences, FiniteSets, TLC

CONSTANTS NBX, NBY, NBZ,   \* blocks per axis
          MaxVersions,
          MaxWrites,
          Rois             \* sequence of block-id sets: the regions of interest that exist

NB     == NBX * NBY * NBZ
Blocks == 1..NB
BC(b)  == << (b - 1) % NBX, ((b - 1) \div NBX) % NBY, (b - 1) \div (NBX * NBY) >>
Bid(x, y, z) == 1 + x + NBX * (y + NBY * z)
Dim(a) == IF a = 1 THEN NBX ELSE IF a = 2 THEN NBY ELSE NBZ

Min2(a, b) == IF a < b THEN a ELSE b
Max2(a, b) == IF a > b THEN a ELSE b

\* A box is [lo, hi], inclusive corner block coordinates; NoBox is the empty box.
NoBox == [lo |-> <<0, 0, 0>>, hi |-> <<-1, -1, -1>>]
InBox(c, box) == \A a \in 1..3 : box.lo[a] <= c[a] /\ c[a] <= box.hi[a]
BoxBlocks(box) == {b \in Blocks : InBox(BC(b), box)}
Hull(p, q) == IF p = NoBox THEN q ELSE IF q = NoBox THEN p
              ELSE [lo |-> [a \in 1..3 |-> Min2(p.lo[a], q.lo[a])],
                    hi |-> [a \in 1..3 |-> Max2(p.hi[a], q.hi[a])]]
Boxes == {bx \in [lo : (0..NBX-1) \X (0..NBY-1) \X (0..NBZ-1), hi : (0..NBX-1) \X (0..NBY-1) \X (0..NBZ-1)] :
            \A a \in 1..3 : bx.lo[a] <= bx.hi[a]}
RowBoxes == {bx \in Boxes : bx.lo[2] = bx.hi[2] /\ bx.lo[3] = bx.hi[3]}

---------------------------------------------------------------------------
\* State: a record.
InitState == [nver |-> 1, par |-> <<0>>, open |-> <<TRUE>>, kids |-> <<0>>,
              vol  |-> << [b \in Blocks |-> 0] >>,
              ext  |-> << NoBox >>,
              nw   |-> 0]

WriteOps(s) ==
    {[op |-> "write", v |-> v, api |-> "raw", mutate |-> m, box |-> bx, roi |-> r] :
        v \in {u \in 1..s.nver : s.open[u]}, m \in BOOLEAN, bx \in Boxes, r \in 0..Len(Rois)}
    \cup
    {[op |-> "write", v |-> v, api |-> "blocks", mutate |-> m, box |-> bx, roi |-> 0] :
        v \in {u \in 1..s.nver : s.open[u]}, m \in BOOLEAN, bx \in RowBoxes}
VerOps(s) == {[op |-> "newver", v |-> p] : p \in 1..s.nver}

Enabled(s, o) ==
    IF o.op = "write" THEN o.v \in 1..s.nver /\ s.open[o.v] /\ s.nw < MaxWrites
    ELSE o.v \in 1..s.nver /\ s.nver < MaxVersions

\* the blocks a write stores: its box, restricted to the region of interest when one is named
Targets(o) == IF o.roi = 0 THEN BoxBlocks(o.box) ELSE BoxBlocks(o.box) \cap Rois[o.roi]

Step(s, o) ==
    IF o.op = "write" THEN
        [s EXCEPT !.nw = s.nw + 1,
                  !.vol[o.v] = [b \in Blocks |-> IF b \in Targets(o) THEN s.nw + 1 ELSE s.vol[o.v][b]],
                  !.ext[o.v] = Hull(s.ext[o.v], o.box)]
    ELSE
        [s EXCEPT !.nver = s.nver + 1,
                  !.par  = Append(s.par, o.v),
                  !.open = Append([s.open EXCEPT ![o.v] = FALSE], TRUE),
                  !.kids = Append([s.kids EXCEPT ![o.v] = s.kids[o.v] + 1], 0),
                  !.vol  = Append(s.vol, s.vol[o.v]),
                  !.ext  = Append(s.ext, s.ext[o.v])]

---------------------------------------------------------------------------
\* Reads.  Cells have half a block edge; cell coordinate c on axis a covers the half block
\* (c \div 2, c % 2); the margin of 2 cells (one block) on every side is never written.
CellLo(a) == -2
CellHi(a) == 2 * Dim(a) + 1
CellBlock(c) == IF \A a \in 1..3 : 0 <= c[a] /\ c[a] < 2 * Dim(a)
                THEN Bid(c[1] \div 2, c[2] \div 2, c[3] \div 2) ELSE 0
CellVal(s, v, c) == IF CellBlock(c) = 0 THEN 0 ELSE s.vol[v][CellBlock(c)]
\* a read box is [lo, hi] in cell coordinates; a 2-D slice is a read box of thickness one voxel
\* inside one cell layer, so its expected content is that of a cell box that is 1 cell thick.
Read(s, v, rb) == [c \in (rb.lo[1]..rb.hi[1]) \X (rb.lo[2]..rb.hi[2]) \X (rb.lo[3]..rb.hi[3]) |-> CellVal(s, v, c)]
\* The structural classes of a read interval on one axis: (first cell, last cell).  They fix how
\* the interval lies relative to the block grid and to the written lattice (starts/ends on a
\* block border or inside a block, within one block or across 2..NB+2 blocks, partly or wholly
\* outside the lattice); the harness expands a class into concrete voxel intervals by seeded
\* offsets inside the first and the last cell.
AxisClasses(a) == {p \in (CellLo(a)..CellHi(a)) \X (CellLo(a)..CellHi(a)) : p[1] <= p[2]}
\* block-wise endpoints (blocks, subvolblocks, specificblocks): stored blocks with their content
Written(s, v) == {b \in Blocks : s.vol[v][b] # 0}
BlockStream(s, v, bs) == [b \in (bs \cap Written(s, v)) |-> s.vol[v][b]]
WrittenHull(s, v) ==
    IF Written(s, v) = {} THEN NoBox
    ELSE [lo |-> [a \in 1..3 |-> CHOOSE m \in 0..Dim(a)-1 : (\E b \in Written(s, v) : BC(b)[a] = m) /\ (\A b \in Written(s, v) : BC(b)[a] >= m)],
          hi |-> [a \in 1..3 |-> CHOOSE m \in 0..Dim(a)-1 : (\E b \in Written(s, v) : BC(b)[a] = m) /\ (\A b \in Written(s, v) : BC(b)[a] <= m)]]

---------------------------------------------------------------------------
\* The claims of property C17, stated declaratively and checked against Step.

\* "the advertised extents cover every written voxel"
ExtentsCover(s) == \A v \in 1..s.nver : \A b \in Written(s, v) : InBox(BC(b), s.ext[v])

\* "unwritten voxels read as the background value": a cell outside every written block reads 0,
\* and a cell reads the write that last stored its block - whatever box is used to read it.
FullBox == [lo |-> <<CellLo(1), CellLo(2), CellLo(3)>>, hi |-> <<CellHi(1), CellHi(2), CellHi(3)>>]
ReadClaims(s) ==
    \A v \in 1..s.nver :
        /\ LET full == Read(s, v, FullBox) IN
           \A x \in CellLo(1)..CellHi(1), y \in CellLo(2)..CellHi(2), z \in CellLo(3)..CellHi(3) :
              LET cb  == CellBlock(<<x, y, z>>)
                  val == full[<<x, y, z>>]
              IN  IF cb = 0 THEN val = 0
                  ELSE IF cb \notin Written(s, v) THEN val = 0
                  ELSE val = s.vol[v][cb] /\ val > 0
        /\ DOMAIN BlockStream(s, v, Blocks) = Written(s, v)

\* written voxels are read back (the last write wins); a write restricted by a region of
\* interest changes only blocks inside that region; nothing changes outside the written box or
\* at any other version; a new version starts as a copy of its (now immutable) parent.
StepClaims(s, o, t) ==
    IF o.op = "write" THEN
        /\ t.nver = s.nver /\ t.par = s.par /\ t.open = s.open
        /\ \A v \in 1..s.nver : v # o.v => t.vol[v] = s.vol[v] /\ t.ext[v] = s.ext[v]
        /\ \A b \in Blocks :
              /\ ~InBox(BC(b), o.box) => t.vol[o.v][b] = s.vol[o.v][b]
              /\ (o.roi # 0 /\ b \notin Rois[o.roi]) => t.vol[o.v][b] = s.vol[o.v][b]
              /\ (InBox(BC(b), o.box) /\ (o.roi = 0 \/ b \in Rois[o.roi])) => t.vol[o.v][b] = t.nw /\ t.nw > s.nw
    ELSE
        /\ t.nver = s.nver + 1
        /\ \A v \in 1..s.nver : t.vol[v] = s.vol[v] /\ t.ext[v] = s.ext[v]
        /\ t.vol[t.nver] = s.vol[o.v] /\ t.ext[t.nver] = s.ext[o.v]
        /\ ~t.open[o.v] /\ t.open[t.nver] /\ t.par[t.nver] = o.v
        /\ t.nw = s.nw

\* versions that are committed never change again (they are not writable in Enabled)
StateOK(s) == ExtentsCover(s) /\ ReadClaims(s)

---------------------------------------------------------------------------
\* Evaluation of a given request sequence.
RECURSIVE RunFrom(_, _, _)
RunFrom(s, ops, i) == IF i > Len(ops) THEN s ELSE RunFrom(Step(s, ops[i]), ops, i + 1)
Run(ops) == RunFrom(InitState, ops, 1)

RECURSIVE ClaimsFrom(_, _, _)
ClaimsFrom(s, ops, i) ==
    IF i > Len(ops) THEN TRUE
    ELSE /\ Enabled(s, ops[i])
         /\ StepClaims(s, ops[i], Step(s, ops[i]))
         /\ StateOK(Step(s, ops[i]))
         /\ ClaimsFrom(Step(s, ops[i]), ops, i + 1)
RunClaims(ops) == ClaimsFrom(InitState, ops, 1)

\* what the harness needs of a state: per version the block map, the intended extents and the
\* hull of the written blocks
Project(s) == [nver |-> s.nver, par |-> s.par, open |-> s.open,
               vol |-> s.vol,
               ext |-> [v \in 1..s.nver |-> <<s.ext[v].lo, s.ext[v].hi>>],
               hull |-> [v \in 1..s.nver |-> <<WrittenHull(s, v).lo, WrittenHull(s, v).hi>>]]
=============================================================================
