------------------------------ MODULE Envelope ------------------------------
(***************************************************************************)
(* The DVID serialization envelope (property C15).                         *)
(*                                                                         *)
(* A serialized value is a sequence of REGIONS                              *)
(*     fmt(1 byte)  [crc(4)]  [size(4), lz4 only]  data(rest)               *)
(* and the empty payload serializes to the empty byte string.  The envelope *)
(* checksum is dropped for gzip, which carries its own CRC and length.      *)
(*                                                                         *)
(* Behaviours:  Serialize(payload class, compression, level, checksum)      *)
(*              -> at most one Damage (bit flip / byte substitution inside  *)
(*                 a region, truncation inside or in front of a region)     *)
(*              -> Deserialize(uncompress?) with an OUTCOME CLASS.          *)
(* A second family of behaviours offers an arbitrary byte string, classified*)
(* by the bits of its first byte and the shape of the rest.                 *)
(*                                                                         *)
(* Decode is the intended decoder, written over region states with an ideal *)
(* checksum (it matches iff the stored field and every covered byte are     *)
(* intact; CRC-32 provably detects every single-bit and single-byte change).*)
(* The Inv_C15_* invariants are the claims of the property; TLC checks them *)
(* on every behaviour and prints one table row per finished behaviour.  The *)
(* harness expands each row into concrete bytes (every position of the      *)
(* damaged region, seeded payloads) and requires the observed outcome of    *)
(* dvid.DeserializeData to lie in the row's outcome class.                  *)
(*                                                                         *)
(* Outcome classes                                                          *)
(*   "payload"          no error, exactly the original payload              *)
(*   "body"             no error, exactly the original compressed body, and *)
(*                      the compression format is reported                  *)
(*   "empty"            no error, zero bytes                                *)
(*   "error"            an error is returned                                *)
(*   "error_or_payload" an error or the original payload, never other data  *)
(*   "nocrash"          anything but a crash (the property makes no claim   *)
(*                      about the value)                                    *)
(*   "samesize"         no error, as many bytes as the payload (the lossy   *)
(*                      JPEG format: the property claims identity only for  *)
(*                      lossless formats)                                   *)
(*                                                                         *)
(* Second pair of operations (api = "obj"): dvid.Serialize / Deserialize,   *)
(* the gob OBJECT envelope.  It is the same envelope around the gob bytes   *)
(* of the object, always read with decompression; "payload" then means "an  *)
(* object equal to the original".  Its only user is the repo metadata.      *)
(*                                                                         *)
(* STORED VALUES.  UserFormats lists, for every user of the envelope that   *)
(* the property anchors, the formats it writes with.  A finished behaviour  *)
(* read with decompression is also the oracle for a GET of that user whose  *)
(* STORED value carries the same damage: "payload" = the original answer,   *)
(* "error" = an error answer (HTTP status >= 400, resp. a start-up error    *)
(* for the repo metadata), "nocrash" = any answer, the server survives.     *)
(* Label indices are written without a checksum: Inv_C15_IndexUndetected    *)
(* records that detection cannot be claimed there.                          *)
(***************************************************************************)
EXTENDS Integers, Sequences, TLC, Json

Lossless       == {"none", "snappy", "lz4", "gzip"}
Comps          == Lossless \cup {"jpeg"}      \* jpeg: lossy, the level is the row width chosen by the harness
Apis           == {"data", "obj"}
ObjClasses     == {"flat", "nested", "bytes"} \* gob objects: scalar fields / slices, maps and nested structs / mostly []byte
GzipLevels     == {-1, 1, 6, 9}
Levels(c)      == IF c = "gzip" THEN GzipLevels ELSE {-1}
Checksums      == {"none", "crc32"}
PayloadClasses == {"empty", "one", "incompressible", "compressible", "large"}
Outcomes       == {"payload", "body", "empty", "error", "error_or_payload", "nocrash", "samesize"}

\* The users of the envelope named by the property and the <<compression, checksum>> they write with.
Users == {"repo", "keyvalue", "imageblk", "labelblock", "labelindex"}
UserApi(u) == IF u = "repo" THEN "obj" ELSE "data"
UserFormats(u) ==
    CASE u = "repo"       -> {<<"lz4", "crc32">>}               \* datastore/repo_local.go saveToStore
      [] u = "labelindex" -> {<<"lz4", "none">>}                \* labelmap/labelidx.go putLabelIndex: dvid.NoChecksum
      [] u = "keyvalue"   -> Lossless \X Checksums              \* the instance's Compression / Checksum settings
      [] u = "labelblock" -> Lossless \X Checksums
      [] u = "imageblk"   -> Comps \X Checksums

\* arbitrary byte strings: first byte = 3 compression bits, 2 checksum bits, 3 reserved bits
TailClasses == {"none", "short", "four", "random", "snappy", "lz4", "gzip",
                "jpeggray", "jpegcolor", "hugesize"}

VARIABLES phase,   \* "new" | "ser" | "dmg" | "done" | "arb"
          row,     \* what was chosen so far
          env,     \* the envelope: sequence of regions [name, size, st]
          result   \* outcome class or "pending"

vars == <<phase, row, env, result>>

\* The checksum actually stored: gzip carries its own CRC-32 and length.
EffCks(c, k) == IF c = "gzip" THEN "none" ELSE k

\* size 0 = "the rest of the envelope" (at least one byte)
Region(n, sz) == [name |-> n, size |-> sz, st |-> "ok"]

Layout(p, c, k) ==
    IF p = "empty" THEN <<>>
    ELSE <<Region("fmt", 1)>>
         \o (IF EffCks(c, k) = "crc32" THEN <<Region("crc", 4)>> ELSE <<>>)
         \o (IF c = "lz4" THEN <<Region("size", 4)>> ELSE <<>>)
         \o <<Region("data", 0)>>

\* the part of a layout that the envelope checksum covers / that is handed to the codec
BodyOf(l, c, k) == IF l = <<>> THEN <<>>
                   ELSE SubSeq(l, IF EffCks(c, k) = "crc32" THEN 3 ELSE 2, Len(l))

Intact(b, full) == Len(b) = Len(full) /\ \A i \in 1..Len(b) : b[i].st = "ok"

(***************************************************************************)
(* The intended decoder.                                                    *)
(***************************************************************************)
Decode(e, p, c, k, u) ==
    IF e = <<>> THEN "empty"                       \* the envelope of the empty payload
    ELSE IF e[1].st # "ok" THEN "nocrash"          \* damaged format byte: no claim
    ELSE
      LET ck     == EffCks(c, k)
          rest   == Tail(e)
          canSum == ck = "crc32" => (rest # <<>> /\ rest[1].name = "crc" /\ rest[1].st # "partial")
          body   == IF ck = "crc32" /\ canSum THEN Tail(rest) ELSE rest
          full   == BodyOf(Layout(p, c, k), c, k)
          ok     == Intact(body, full)
      IN  IF ~canSum THEN "error"                                   \* checksum field unreadable
          ELSE IF ck = "crc32" /\ ~(rest[1].st = "ok" /\ ok) THEN "error"   \* ideal checksum mismatch
          ELSE IF c = "none" THEN (IF ok THEN "payload" ELSE "nocrash")
          ELSE IF ~u THEN (IF ok THEN "body" ELSE "nocrash")
          ELSE IF ok THEN (IF c = "jpeg" THEN "samesize" ELSE "payload")
          ELSE IF c = "gzip" THEN "error_or_payload"                 \* gzip's own CRC-32 + length
          ELSE "nocrash"                                             \* snappy / lz4 / jpeg without a checksum

\* dvid.Deserialize: the same decoder, then gob; zero bytes are the envelope of the empty payload
\* but never the encoding of an object
DecodeApi(a, e, p, c, k, u) == IF a = "obj" /\ e = <<>> THEN "error" ELSE Decode(e, p, c, k, u)

\* What the property demands of the real code for a finished behaviour.  A changed
\* (not truncated) checksum field leaves the payload bytes untouched: no claim.
Expected ==
    IF row.dmg.kind \in {"bitflip", "bytesub"} /\ row.dmg.region = "crc" THEN "nocrash"
    ELSE DecodeApi(row.api, env, row.pc, row.comp, row.cks, row.unc)

(***************************************************************************)
(* Behaviours                                                               *)
(***************************************************************************)
NoDamage == [kind |-> "none", region |-> "-", index |-> 0]

Init == /\ phase = "new"
        /\ row = [api |-> "-", pc |-> "-", comp |-> "-", lvl |-> 0, cks |-> "-", dmg |-> NoDamage, unc |-> FALSE]
        /\ env = <<>>
        /\ result = "pending"

Serialize ==
    /\ phase = "new"
    /\ \E a \in Apis, c \in Comps, k \in Checksums :
         \E p \in (IF a = "data" THEN PayloadClasses ELSE ObjClasses), l \in Levels(c) :
           /\ a = "obj" => c \in Lossless             \* an object is never stored with a lossy format
           /\ row' = [row EXCEPT !.api = a, !.pc = p, !.comp = c, !.lvl = l, !.cks = k]
           /\ env' = Layout(p, c, k)
    /\ phase' = "ser"
    /\ UNCHANGED result

Damage ==
    /\ phase = "ser"
    /\ \/ /\ UNCHANGED <<row, env>>                              \* no damage
       \/ \E i \in 1..Len(env), kd \in {"bitflip", "bytesub"} :   \* change inside region i
            /\ env' = [env EXCEPT ![i].st = "altered"]
            /\ row' = [row EXCEPT !.dmg = [kind |-> kd, region |-> env[i].name, index |-> i]]
       \/ \E i \in 1..Len(env) :                                  \* cut inside region i (a proper, non-empty prefix stays)
            /\ env[i].size # 1
            /\ env' = [SubSeq(env, 1, i) EXCEPT ![i].st = "partial"]
            /\ row' = [row EXCEPT !.dmg = [kind |-> "cutinside", region |-> env[i].name, index |-> i]]
       \/ \E i \in 1..Len(env) :                                  \* cut in front of region i
            /\ env' = SubSeq(env, 1, i - 1)
            /\ row' = [row EXCEPT !.dmg = [kind |-> "cutbefore", region |-> env[i].name, index |-> i]]
       \/ /\ env # <<>>                                           \* extra bytes behind the serialized value
          /\ env' = Append(env, [name |-> "trail", size |-> 0, st |-> "extra"])
          /\ row' = [row EXCEPT !.dmg = [kind |-> "trailing", region |-> "trail", index |-> Len(env) + 1]]
    /\ phase' = "dmg"
    /\ UNCHANGED result

Deserialize ==
    /\ phase = "dmg"
    /\ \E u \in BOOLEAN :
         /\ row.api = "obj" => u                      \* dvid.Deserialize always decompresses
         /\ row' = [row EXCEPT !.unc = u]
         /\ result' = DecodeApi(row.api, env, row.pc, row.comp, row.cks, u)
    /\ phase' = "done"
    /\ UNCHANGED env

\* An arbitrary byte string: every value of the compression and checksum bits, every
\* shape of the rest.  The only claim is that deserialization does not crash.
Arbitrary ==
    /\ phase = "new"
    /\ \E cb \in 0..7, kb \in 0..3, t \in TailClasses, u \in BOOLEAN :
         row' = [pc |-> "arbitrary", compbits |-> cb, cksbits |-> kb, tail |-> t, unc |-> u]
    /\ phase' = "arb"
    /\ result' = "nocrash"
    /\ UNCHANGED env

Next == Serialize \/ Damage \/ Deserialize \/ Arbitrary
Spec == Init /\ [][Next]_vars

(***************************************************************************)
(* The claims of C15 (checked on the intended decoder)                      *)
(***************************************************************************)
Done == phase = "done"
Undamaged == row.dmg.kind = "none"

TypeOK == result \in Outcomes \cup {"pending"}

\* identical bytes come back for every payload class, compression, level and checksum
Inv_C15_RoundTrip ==
    Done /\ Undamaged /\ row.unc /\ row.comp \in Lossless =>
        result = (IF row.pc = "empty" THEN "empty" ELSE "payload")

\* the lossy format returns as many bytes as were given
Inv_C15_LossySameSize ==
    Done /\ Undamaged /\ row.unc /\ row.comp = "jpeg" =>
        result = (IF row.pc = "empty" THEN "empty" ELSE "samesize")

\* dvid.Serialize / Deserialize: an equal object comes back, for every lossless format
Inv_C15_ObjectRoundTrip ==
    Done /\ Undamaged /\ row.api = "obj" => row.unc /\ result = "payload"

\* without decompression the stored body comes back untouched
Inv_C15_RoundTripRaw ==
    Done /\ Undamaged /\ ~row.unc =>
        result = (IF row.pc = "empty" THEN "empty" ELSE IF row.comp = "none" THEN "payload" ELSE "body")

\* with a checksum in force every change or loss of covered bytes is an error
\* (losing the whole value leaves the legitimate envelope of the empty payload)
PayloadRegion(r) == r \in {"size", "data"}
Inv_C15_Detect ==
    Done /\ EffCks(row.comp, row.cks) = "crc32" /\ env # <<>> /\
    (PayloadRegion(row.dmg.region) \/ row.dmg.kind \in {"cutinside", "cutbefore", "trailing"})
        => Expected = "error"

\* gzip: its own checksum means damaged data is never returned as different data
Inv_C15_GzipNeverWrong ==
    Done /\ row.comp = "gzip" /\ row.unc /\ ~Undamaged /\ env # <<>> /\ row.dmg.region = "data"
        => Expected \in {"error", "error_or_payload"}

\* STORED VALUES: the users for which a finished behaviour is the oracle of a read
StoredUsers ==
    IF Done /\ row.unc /\ row.pc # "empty" /\ row.lvl = -1
    THEN {u \in Users : UserApi(u) = row.api /\ <<row.comp, row.cks>> \in UserFormats(u)}
    ELSE {}

\* the repo metadata is written with a checksum: every damage to its stored bytes behind the
\* format byte (checksum field changes excepted) must surface as a start-up error
Inv_C15_RepoDetected ==
    "repo" \in StoredUsers /\ ~Undamaged /\ row.dmg.region \notin {"fmt", "crc"} => Expected = "error"

\* label indices are written with dvid.NoChecksum: detection CANNOT be claimed there, a damaged
\* stored index may decode to anything; all that is left is that the server survives
Inv_C15_IndexUndetected ==
    "labelindex" \in StoredUsers /\ ~Undamaged => Expected \in {"nocrash", "empty"}   \* "empty": the whole value was cut away

\* no behaviour ends in a crash: every finished behaviour has an outcome class
Inv_C15_Total == (Done \/ phase = "arb") => result \in Outcomes /\ (Done => Expected \in Outcomes)

(***************************************************************************)
(* The table printed for the harness (one row per finished behaviour).      *)
(***************************************************************************)
LayoutJson(l) == [i \in 1..Len(l) |-> [name |-> l[i].name, size |-> l[i].size]]

Emit ==
    /\ Done => PrintT(ToJson([kind |-> "row", api |-> row.api, users |-> StoredUsers,
                              pc |-> row.pc, comp |-> row.comp, lvl |-> row.lvl,
                              cks |-> row.cks, layout |-> LayoutJson(Layout(row.pc, row.comp, row.cks)),
                              dmg |-> row.dmg, unc |-> row.unc, expect |-> Expected]))
    /\ phase = "arb" => PrintT(ToJson([kind |-> "arb", compbits |-> row.compbits, cksbits |-> row.cksbits,
                                       tail |-> row.tail, unc |-> row.unc, expect |-> result]))
=============================================================================
