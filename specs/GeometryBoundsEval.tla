------------------------- MODULE GeometryBoundsEval -------------------------
(***************************************************************************)
(* Evaluation of generated optional-bounds cases (module                    *)
(* GeometryBoundsCases, written by the harness: seeded boxes with open and  *)
(* set bounds at negative / zero / positive coordinates, block sizes,       *)
(* points, block coordinates, query-string token classes).  TLC checks the  *)
(* claims on every case and prints the expected result of                   *)
(* OptionalBounds.Adjust / Outside / OutsideX..Z / BeyondZ / Divide / IsSet *)
(* and of the query-string parser; the harness replays the cases on the     *)
(* real dvid functions.                                                     *)
(***************************************************************************)
EXTENDS GeometryBounds, GeometryBoundsCases, TLC, Json

VARIABLES idx, stage

Init == idx \in 1..Len(Cases) /\ stage = 0
Next == stage = 0 /\ stage' = 1 /\ UNCHANGED idx
Spec == Init /\ [][Next]_<<idx, stage>>

CaseClaims(k) ==
    /\ \A i \in 1..Len(k.pts) :
          /\ Outside(k.pts[i], k.box) <=> \E d \in 1..3 : OutsideAxis(k.pts[i][d], Lo(k.box, d), Hi(k.box, d))
          /\ BeyondZ(k.pts[i], k.box) => Outside(k.pts[i], k.box)
          \* block-level screen = intersection test, for boxes that are not inside-out
          /\ WellFormed(k.box) => (Passes(k.pts[i], k.bs, k.box) <=> Intersects(k.pts[i], k.bs, k.box))
          /\ (WellFormed(k.box) /\ Passes(k.pts[i], k.bs, k.box)) =>
                LET cut == Cut(k.pts[i], k.bs, k.box) IN \A d \in 1..3 : cut.min[d] <= cut.max[d]
    /\ LET a == Adjust(k.mn, k.mx, k.box)
       IN  \A d \in 1..3 : \A v \in (k.mn[d] - 1)..(k.mx[d] + 1) :
              (v \in a.min[d]..a.max[d]) <=> (v \in k.mn[d]..k.mx[d] /\ InAxis(v, Lo(k.box, d), Hi(k.box, d)))
    /\ ~ParseErr(k.q) => \A i \in 1..6 : Open(ParseBox(k.q)[i]) <=> k.q[i].cls \in {"absent", "empty"}

AllClaims == stage = 1 => CaseClaims(Cases[idx])

Emit == stage = 1 =>
    LET k == Cases[idx] IN
    PrintT(ToJson([i |-> idx,
                   adjust  |-> Adjust(k.mn, k.mx, k.box),
                   outside |-> [i \in 1..Len(k.pts) |-> Outside(k.pts[i], k.box)],
                   outx    |-> [i \in 1..Len(k.pts) |-> OutsideAxis(k.pts[i][1], Lo(k.box, 1), Hi(k.box, 1))],
                   outy    |-> [i \in 1..Len(k.pts) |-> OutsideAxis(k.pts[i][2], Lo(k.box, 2), Hi(k.box, 2))],
                   outz    |-> [i \in 1..Len(k.pts) |-> OutsideAxis(k.pts[i][3], Lo(k.box, 3), Hi(k.box, 3))],
                   beyond  |-> [i \in 1..Len(k.pts) |-> BeyondZ(k.pts[i], k.box)],
                   divide  |-> Divide(k.box, k.bs),
                   passes  |-> [i \in 1..Len(k.pts) |-> Passes(k.pts[i], k.bs, k.box)],
                   isset   |-> IsSet(k.box),
                   perr    |-> ParseErr(k.q),
                   pbox    |-> ParseBox(k.q)]))
=============================================================================
