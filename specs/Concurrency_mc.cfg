\* The intended locking discipline: every interleaving of 2 requests of every template.
INIT Init
NEXT Next
CONSTANTS
  NProc = 2
  Locking = "intended"
  GateGrain = FALSE
  Emit = FALSE
  Tpls <- McTpls
  Only <- McOnly
  Bursts <- McBursts
INVARIANTS Inv_C11_Serializable Inv_C12_Unique Inv_LocksReleased Inv_C11_IndexMatchesVoxels
