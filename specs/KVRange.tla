------------------------------ MODULE KVRange ------------------------------
(***************************************************************************)
(* Range / listing semantics over a version DAG (property C05).            *)
(*                                                                         *)
(* A case is a DAG shape, a joint placement of value/tombstone/nothing for  *)
(* NK keys over the nodes (one placement number per key, encoded as in      *)
(* KVShapes), and optionally one DeleteRange(lo, hi) executed at node d     *)
(* right after d's own writes.  Keys are identified by their position in    *)
(* the sorted list of interval endpoints (KeyPos); an interval is a pair of *)
(* endpoint positions.                                                      *)
(*                                                                          *)
(* Range(lo, hi, v) is DEFINED from the point read: the keys in the         *)
(* interval whose Read at v finds a value, ascending, each once.  TLC       *)
(* evaluates the point reads after the optional DeleteRange and checks the  *)
(* DeleteRange claims of the property on every case.                        *)
(***************************************************************************)
EXTENDS KVRead, TLC, Json

CONSTANTS KeyPos,     \* sequence: KeyPos[j] = endpoint position of key j (ascending)
          NumEndpoints

VARIABLE dummy

\* Cases is supplied by the generated module KVRangeCases (sequence of records
\* [par, fam, d, lo, hi]; d = 0 means no DeleteRange).
Pow3(k) == IF k = 0 THEN 1 ELSE IF k = 1 THEN 3 ELSE IF k = 2 THEN 9 ELSE IF k = 3 THEN 27
           ELSE IF k = 4 THEN 81 ELSE IF k = 5 THEN 243 ELSE IF k = 6 THEN 729 ELSE 2187
Digit(p, k) == (p \div Pow3(k - 1)) % 3
EntOf(p, n) == [k \in {j \in 1..n : Digit(p, j) # 0} |-> IF Digit(p, k) = 2 THEN Tomb ELSE k]

NK == Len(KeyPos)
InInterval(j, lo, hi) == lo <= KeyPos[j] /\ KeyPos[j] <= hi

\* entries of key j of case c before the DeleteRange
Ent0(c, j) == EntOf(c.fam[j], Len(c.par))

\* DeleteRange(lo,hi) at node d: every key of the interval that a read at d finds gets a
\* tombstone at d (keys that are not found need none; observably the same).
\* A key of the interval that is in merge conflict at d makes the whole DeleteRange fail (its
\* scan reports the conflict before anything is flushed): nothing is deleted then.
DRFails(c) == c.d # 0 /\ \E j \in 1..NK : InInterval(j, c.lo, c.hi) /\ ReadNode(c.par, Ent0(c, j), c.d) = -1

Ent1(c, j) ==
    IF c.d # 0 /\ ~DRFails(c) /\ InInterval(j, c.lo, c.hi) /\ ReadNode(c.par, Ent0(c, j), c.d) # 0
    THEN [k \in (DOMAIN Ent0(c, j)) \cup {c.d} |-> IF k = c.d THEN Tomb ELSE Ent0(c, j)[k]]
    ELSE Ent0(c, j)

Reads0(c) == [v \in 1..Len(c.par) |-> [j \in 1..NK |-> ReadNode(c.par, Ent0(c, j), v)]]
Reads1(c) == [v \in 1..Len(c.par) |-> [j \in 1..NK |-> ReadNode(c.par, Ent1(c, j), v)]]

\* The range result as a sequence of key indices (ascending because KeyPos ascends).
RECURSIVE RangeFrom(_, _, _, _, _)
RangeFrom(c, v, lo, hi, j) ==
    IF j > NK THEN <<>>
    ELSE (IF InInterval(j, lo, hi) /\ Reads1(c)[v][j] > 0 THEN <<j>> ELSE <<>>) \o RangeFrom(c, v, lo, hi, j + 1)
Range(c, v, lo, hi) == RangeFrom(c, v, lo, hi, 1)

Desc(par, d) == {v \in 1..Len(par) : d \in Anc(par, v)}

(***************************************************************************)
(* Growth (gaps C05-3, C05-5, C01-4).                                      *)
(* c.w: the keys written once more at d after the DeleteRange (through the  *)
(* point write or the store's PutRange: a put over the version's own        *)
(* tombstone); the value is d's.  Reads2 are the reads after that.          *)
(* UReads: the same requests sent to an unversioned instance act on one     *)
(* entry per key, in the order they are issued (node by node): the last     *)
(* write or deletion decides at every version; its DeleteRange removes the  *)
(* keys of the interval outright.                                           *)
(***************************************************************************)
Rewritten(c, j) == c.d # 0 /\ ~DRFails(c) /\ \E i \in 1..Len(c.w) : c.w[i] = j
Ent2(c, j) ==
    IF Rewritten(c, j)
    THEN [k \in (DOMAIN Ent1(c, j)) \cup {c.d} |-> IF k = c.d THEN c.d ELSE Ent1(c, j)[k]]
    ELSE Ent1(c, j)
Reads2(c) == [v \in 1..Len(c.par) |-> [j \in 1..NK |-> ReadNode(c.par, Ent2(c, j), v)]]

MaxOf(S) == CHOOSE x \in S : \A y \in S : y <= x
\* the one entry of key j in an unversioned instance after all requests: node whose value it
\* holds, 0 if none
URead(c, j) ==
    LET e == Ent0(c, j)
        \* entries made after the DeleteRange at d (requests at d itself come before it) survive it
        D == IF c.d # 0 /\ InInterval(j, c.lo, c.hi) THEN {k \in DOMAIN e : k > c.d} ELSE DOMAIN e
        last == IF D = {} THEN 0 ELSE MaxOf(D) IN
    IF \E i \in 1..Len(c.w) : c.w[i] = j /\ c.d # 0 /\ (last = 0 \/ last < c.d) THEN c.d
    ELSE IF last = 0 THEN 0 ELSE IF e[last] = Tomb THEN 0 ELSE last
UReads(c) == [j \in 1..NK |-> URead(c, j)]

\* the rewrite touches only the rewritten keys, only at d and its descendants
RewriteClaims(c) ==
    /\ \A j \in 1..NK : Rewritten(c, j) => Reads2(c)[c.d][j] = c.d
    /\ \A j \in 1..NK : ~Rewritten(c, j) => \A v \in 1..Len(c.par) : Reads2(c)[v][j] = Reads1(c)[v][j]
    /\ \A v \in 1..Len(c.par) : (c.d = 0 \/ v \notin Desc(c.par, c.d)) => Reads2(c)[v] = Reads1(c)[v]

\* Property C05, second sentence, on one case.
DeleteRangeClaims(c) ==
    (c.d # 0 /\ ~DRFails(c)) =>
      /\ \A j \in 1..NK : InInterval(j, c.lo, c.hi) /\ Reads0(c)[c.d][j] # -1 => Reads1(c)[c.d][j] = 0
      /\ \A v \in 1..Len(c.par) : v \notin Desc(c.par, c.d) => Reads1(c)[v] = Reads0(c)[v]
      /\ \A j \in 1..NK : ~InInterval(j, c.lo, c.hi) => \A v \in 1..Len(c.par) : Reads1(c)[v][j] = Reads0(c)[v][j]

Init == dummy = 0
Next == UNCHANGED dummy
Spec == Init /\ [][Next]_dummy
=============================================================================
