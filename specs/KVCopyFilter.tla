---------------------------- MODULE KVCopyFilter ----------------------------
(***************************************************************************)
(* Copying an image-block instance restricted by a region of interest      *)
(* ("filter=roi:<roi>,<uuid>", property C19) over the version DAGs and      *)
(* placements of KVShapes / KVCopy.                                         *)
(*                                                                         *)
(* The region of interest is versioned data itself (an roi instance with a *)
(* placement of its own: POSTed, DELETEd or untouched at every node); the   *)
(* filter uses the region as it reads at the version U named in the filter *)
(* specification.  A block of the source is copied iff it lies in that      *)
(* region: Keep = the block lies in the posted span set /\ the region is    *)
(* present at U.  A kept datum is copied like KVCopy copies it (plain:      *)
(* every entry; flattened at V: what a read at V finds), a datum outside    *)
(* the region is not copied at all.                                         *)
(*                                                                         *)
(* Claims: the filtered copy reads, for a kept datum, what the unfiltered   *)
(* copy reads, and nothing at any version for every other datum.  By        *)
(* Inv_C19_Filter the expected read of a filtered copy is the expected read *)
(* of KVCopy (EmitCopy: read, desc) if Keep and "not found" otherwise.      *)
(***************************************************************************)
EXTENDS KVCopy

\* is the region present at U (its placement is q)?
RoiPresent(q, U) == Read(par, EntOf(q, N), U) > 0
Keep(inSpans, q, U) == inSpans /\ RoiPresent(q, U)

FilterCopy(ent, keep) == IF keep THEN ent ELSE <<>>

Inv_C19_Filter ==
    Complete => \A p \in Placements : \A keep \in BOOLEAN :
        LET ent == EntOf(p, N) IN
        /\ \A w \in 1..N :
              Read(par, FilterCopy(PlainCopy(ent), keep), w) = IF keep THEN Read(par, ent, w) ELSE 0
        /\ \A V \in 1..N : Read(par, ent, V) # -1 =>
              \A w \in 1..N :
                 Read(par, FilterCopy(FlatCopy(ent, V), keep), w) = IF keep /\ w \in Desc(V) THEN Read(par, ent, V) ELSE 0

\* an absent region keeps nothing, whatever the spans say
Inv_C19_FilterAbsentRegion ==
    Complete => \A q \in Placements : \A U \in 1..N : Read(par, EntOf(q, N), U) <= 0 => ~Keep(TRUE, q, U)
=============================================================================
