---------------------------- MODULE DvidResolve ----------------------------
(***************************************************************************)
(* POST /api/repo/<uuid>/resolve {"data": [...], "parents": [p1, ..., pm]} *)
(* on DvidKV (property C07, growth; touches C01 / C02).                    *)
(*                                                                         *)
(* For every key of the named instances the parents are asked in the       *)
(* listed order for the entry they read (see Answers below).  The first    *)
(* parent that reads a live value has priority; every later parent that    *)
(* reports a different live entry is a loser for this key.  Each parent that *)
(* loses at least one key gets an extension node: a committed child on the *)
(* branch "conflict-<parent>" that holds a tombstone for every key the     *)
(* parent loses.  Finally a merge child of (extension node or parent, in   *)
(* the listed order) is created.                                           *)
(*                                                                         *)
(* A request whose parents are not distinct committed versions of one repo *)
(* must be refused and change nothing - in particular create no extension  *)
(* node.  The outcome is left open when a parent itself cannot read some   *)
(* key (two unsuperseded values: a conflict-free merge made earlier).      *)
(***************************************************************************)
EXTENDS DvidKV, TLC

Min(S) == CHOOSE x \in S : \A y \in S : x <= y

\* --- pure part: one datum -------------------------------------------------
\* The parents are asked in the listed order with KVRead's resolver walk (FM).  The walk marks
\* the entries that lie in the past of an entry it meets; the marks are kept from one parent to
\* the next, so an entry already superseded by what an earlier listed parent sees (it will be
\* superseded in the merge child as well) is not reported again.
RECURSIVE AskFrom(_, _, _, _, _)
\* answers of parents i..Len(ps): sequence of nodes (0 = nothing), or <<-1>> appended on a resolver error
AskFrom(p, e, ps, i, inv) ==
    IF i > Len(ps) THEN <<>>
    ELSE LET res == FM(p, e, inv, ps[i]) IN
         IF res.err THEN <<-1>> ELSE <<res.r>> \o AskFrom(p, e, ps, i + 1, res.inv)
Answers(p, e, ps) == AskFrom(p, e, ps, 1, {})
ParentsReadable(p, e, ps) ==
    LET A == Answers(p, e, ps) IN Len(A) = Len(ps) /\ \A i \in 1..Len(A) : A[i] # -1
FirstIdx(p, e, ps) ==
    LET A == Answers(p, e, ps)
        I == {i \in 1..Len(A) : A[i] > 0} IN IF I = {} THEN 0 ELSE Min(I)
Losers(p, e, ps) ==
    LET A == Answers(p, e, ps)
        I == {i \in 1..Len(A) : A[i] > 0}
    IN IF I = {} THEN {} ELSE {i \in I : i > Min(I) /\ A[i] # A[Min(I)]}

\* --- the request on the DvidKV state ---------------------------------------
LosersOf(ps) == [k \in Keys |-> Losers(par, ent[k], ps)]
ExtIdxOf(LS, ps) == {i \in 1..Len(ps) : \E k \in Keys : i \in LS[k]}
ExtIdx(ps) == ExtIdxOf(LosersOf(ps), ps)
ExtNode(ps, i) == nn + Cardinality({j \in ExtIdx(ps) : j <= i})
ConflictBranch(n) == "conflict-" \o ToString(n)

G_Resolve(ps) == MergeArgsOK(ps) /\ \A k \in Keys : ParentsReadable(par, ent[k], ps)

Resolve_Ok(ps) ==
    /\ G_Resolve(ps)
    /\ LET LS == LosersOf(ps)
           XI == ExtIdxOf(LS, ps)
           nx == Cardinality(XI)
           \* the parents that get an extension node, in the listed order
           X == [r \in 1..nx |-> CHOOSE i \in XI : Cardinality({j \in XI : j <= i}) = r]
           EN == [i \in XI |-> nn + Cardinality({j \in XI : j <= i})]
           M == nn + nx + 1
           np == [i \in 1..Len(ps) |-> IF i \in XI THEN EN[i] ELSE ps[i]]
           root == rp[ps[1]]
       IN
       /\ M <= MaxNodes
       /\ nn' = M
       /\ par' = par \o [r \in 1..nx |-> <<ps[X[r]]>>] \o <<np>>
       /\ kids' = [n \in 1..M |->
                     IF n = M THEN <<>>
                     ELSE (IF n <= nn THEN kids[n] ELSE <<>>)
                          \o (IF \E r \in 1..nx : ps[X[r]] = n THEN <<nn + (CHOOSE r \in 1..nx : ps[X[r]] = n)>> ELSE <<>>)
                          \o (IF \E i \in 1..Len(np) : np[i] = n THEN <<M>> ELSE <<>>)]
       /\ br' = br \o [r \in 1..nx |-> ConflictBranch(ps[X[r]])] \o <<"">>
       /\ lk' = lk \o [r \in 1..nx |-> TRUE] \o <<FALSE>>
       /\ kind' = kind \o [r \in 1..nx |-> "ver"] \o <<"merge">>
       /\ rp' = rp \o [r \in 1..(nx + 1) |-> root]
       /\ uid' = uid \o [r \in 1..(nx + 1) |-> "auto"]
       /\ head' = [x \in (DOMAIN head) \cup {<<root, ConflictBranch(ps[X[r]])>> : r \in 1..nx} |->
                      IF x \in DOMAIN head THEN head[x]
                      ELSE nn + (CHOOSE r \in 1..nx : x = <<root, ConflictBranch(ps[X[r]])>>)]
       /\ ent' = [k \in Keys |->
                     [n \in (DOMAIN ent[k]) \cup {EN[i] : i \in LS[k]} |->
                         IF n \in DOMAIN ent[k] THEN ent[k][n] ELSE Tomb]]
       /\ last' = [op |-> "resolve", parents |-> ps, ok |-> TRUE, new |-> M, ext |-> [r \in 1..nx |-> ps[X[r]]]]
    /\ UNCHANGED dead

Resolve_Rej(ps) ==
    /\ ~MergeArgsOK(ps)
    /\ UNCHANGED <<dagvars, ent>>
    /\ last' = [op |-> "resolve", parents |-> ps, ok |-> FALSE]

(***************************************************************************)
(* Claims about an accepted resolve step (pre-state unprimed, post-state   *)
(* primed); M is the merge child, f the first parent that reads a value.   *)
(***************************************************************************)
ResolveClaims(ps) ==
    LET M == nn'
        LS == LosersOf(ps)
        XI == ExtIdxOf(LS, ps)
        EN == [i \in XI |-> nn + Cardinality({j \in XI : j <= i})]
    IN
    \A k \in Keys :
        LET f == FirstIdx(par, ent[k], ps)
            L == IF f = 0 THEN 0 ELSE Answers(par, ent[k], ps)[f]
            mn == ReadNode(par', ent'[k], M)
        IN
        \* R1 the merge child never reads a conflict
        /\ mn # -1
        \* R2 it reads the entry of the first parent that reads one, or nothing - never a loser's value
        /\ mn \in {0, L}
        \* R3 no existing version reads anything else than before (C02: parents are committed)
        /\ \A v \in 1..nn : ReadNode(par', ent'[k], v) = ReadNode(par, ent[k], v)
        \* R4 an extension node reads what its parent reads, except the keys the parent loses
        /\ \A i \in XI :
              ReadNode(par', ent'[k], EN[i]) = IF i \in LS[k] THEN 0 ELSE ReadNode(par, ent[k], ps[i])
        \* R5 first listed parent wins: if no other parent's lineage contains the entry the first
        \* parent reads, the merge child reads exactly that entry
        /\ (f # 0 /\ \A j \in 1..Len(ps) : j # f => L \notin Anc(par, ps[j])) => mn = L
        \* R6 without any parent reading a value the merge child reads nothing
        /\ f = 0 => mn = 0

Act_ResolveClaims == [][(last'.op = "resolve" /\ last'.ok) => ResolveClaims(last'.parents)]_kvvars
Act_ResolveRejIsStutter == [][(last'.op = "resolve" /\ ~last'.ok) => UNCHANGED <<dagvars, ent>>]_kvvars
=============================================================================
