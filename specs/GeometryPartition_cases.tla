----------------------- MODULE GeometryPartition_cases -----------------------
(* Evaluation of the partition claims (GeometryPartition) on partitions the   *)
(* real code returned.  Module GeometryPartCases is written by the harness:   *)
(* Cases is a sequence of                                                     *)
(*   [blocks |-> set of <<x, y, z>>, bs |-> <<bx, by, bz>>,                   *)
(*    subvols |-> sequence of [lo, hi, active, total, vlo, vhi],              *)
(*    nactive |-> n, ntotal |-> n]                                            *)
(* TLC prints the verdict of every case, claim by claim.                      *)
EXTENDS GeometryPartition, GeometryPartCases, Json, TLC

VARIABLE dummy

CaseVerdict(c) == LET v == Verdict(c.blocks, c.subvols, c.nactive, c.ntotal)
                  IN  [wellformed |-> v.wellformed, disjoint |-> v.disjoint, covers |-> v.covers, active |-> v.active,
                       total |-> v.total, sum |-> v.sum, voxels |-> VoxelRight(c.subvols, c.bs)]
EmitVerdicts == PrintT(ToJson([verdicts |-> [i \in 1..Len(Cases) |-> CaseVerdict(Cases[i])]]))

Init == dummy = 0
Next == UNCHANGED dummy
Spec == Init /\ [][Next]_dummy
=============================================================================
