------------------------------ MODULE LabelBlock ------------------------------
(***************************************************************************)
(* Abstract label blocks (properties C09, C10).                            *)
(*                                                                         *)
(* A block is a labelling of the voxels of one DVID block.  Voxels are     *)
(* grouped into REGIONS (position classes: whole 8x8x8 sub-blocks, halves, *)
(* single voxels, corner classes of the 2x2x2 cells, ... - the geometry    *)
(* table lives in harness/internal/lblgeom and only region SIZES matter    *)
(* here).  Every region carries a PALETTE, a non-empty sequence of labels; *)
(* the j-th voxel of the region (block scan order, 0-based) holds the      *)
(* palette entry PalIdx(layout, n, k, j).  A uniform region has a palette  *)
(* of length 1.  Labels are naturals, 0 is the background label; concrete  *)
(* 64-bit values are assigned by the harness with an order-preserving map. *)
(*                                                                         *)
(*   b == [size |-> <<n_1..n_R>>, lay |-> <<l_1..l_R>>, pal |-> <<p_1..>>] *)
(*                                                                         *)
(* The module defines the VIEWS of a block (label at a voxel, voxel count  *)
(* per label, foreground of a label set) and the voxel-wise meaning of the *)
(* OPERATIONS on blocks (merge, replace, split variants, 2x down-sampling  *)
(* vote), together with the claims of C09/C10 about them as operators that *)
(* the model-checked modules LabelBlockCodec / LabelBlockSeq /             *)
(* LabelBlockDownres use as invariants.  TLC evaluates the views and the   *)
(* operations: they are the expected results replayed on labels.Block.     *)
(***************************************************************************)
EXTENDS Integers, Sequences, FiniteSets

RECURSIVE SumF(_, _)
SumF(f, n) == IF n = 0 THEN 0 ELSE f[n] + SumF(f, n - 1)

Range(s) == {s[i] : i \in DOMAIN s}

\* sum of the function f over the finite set S \subseteq DOMAIN f
RECURSIVE SumOver(_, _)
SumOver(S, f) == IF S = {} THEN 0 ELSE LET x == CHOOSE y \in S : TRUE IN f[x] + SumOver(S \ {x}, f)

----------------------------------------------------------------------------
(* Geometry table *)

\* palette position (1..k) of the j-th voxel (0-based) of a region with n voxels
PalIdx(lay, n, k, j) ==
    CASE lay = 0 -> (j % k) + 1
      [] lay = 1 -> ((n - 1 - j) % k) + 1
      [] OTHER   -> LET c == n \div k IN IF j \div c >= k THEN k ELSE (j \div c) + 1

\* number of voxels of such a region that sit at palette position i
Cnt(lay, n, k, i) ==
    IF lay \in {0, 1} THEN (n - i + k) \div k
    ELSE LET c == n \div k IN IF i < k THEN c ELSE n - c * (k - 1)

CntConsistent(lay, n, k) ==
    \A i \in 1..k : Cnt(lay, n, k, i) = Cardinality({j \in 0..(n - 1) : PalIdx(lay, n, k, j) = i})

\* class sizes of the corner partitions of a 2x2x2 cell (lblgeom.Corner, index cp+1)
CornerWeights == << <<8>>, <<4, 4>>, <<4, 2, 2>>, <<3, 3, 2>>, <<1, 1, 1, 1, 1, 1, 1, 1>>,
                    <<5, 3>>, <<2, 2, 2, 2>>, <<4, 4>>, <<1, 7>> >>

----------------------------------------------------------------------------
(* Views *)

NR(b) == Len(b.pal)
Regions(b) == 1..NR(b)
LabelsOf(b) == UNION {Range(b.pal[r]) : r \in Regions(b)}
Volume(b) == SumF(b.size, NR(b))

CntAt(b, r, i) == Cnt(b.lay[r], b.size[r], Len(b.pal[r]), i)

RegionCount(b, r, l) ==
    LET P == {i \in 1..Len(b.pal[r]) : b.pal[r][i] = l}
    IN  SumOver(P, [i \in P |-> CntAt(b, r, i)])

\* voxels with label l inside the region set S
CountIn(b, l, S) == SumF([r \in 1..NR(b) |-> IF r \in S THEN RegionCount(b, r, l) ELSE 0], NR(b))
Count(b, l) == CountIn(b, l, Regions(b))

\* label of the j-th voxel (0-based) of region r             (Value, GetPointLabels)
ValueAt(b, r, j) == b.pal[r][PalIdx(b.lay[r], b.size[r], Len(b.pal[r]), j)]

\* voxel count of every non-zero label, as a set of pairs     (CalcNumLabels)
NumLabels(b) == {<<l, Count(b, l)>> : l \in LabelsOf(b) \ {0}}

\* palette positions of every region that belong to the label set L  (WriteRLEs, WriteBinaryBlocks)
Foreground(b, L) == [r \in 1..NR(b) |-> {i \in 1..Len(b.pal[r]) : b.pal[r][i] \in L}]
ForegroundVoxels(b, L) ==
    SumF([r \in 1..NR(b) |->
            LET k == Len(b.pal[r])
            IN  SumF([i \in 1..k |-> IF b.pal[r][i] \in L THEN CntAt(b, r, i) ELSE 0], k)], NR(b))

(* C09, second sentence, at the level of the model: the views are consistent with each  *)
(* other (they are all functions of the one labelling).                                *)
ViewClaims(b, L) ==
    /\ SumF([r \in 1..NR(b) |-> SumF([i \in 1..Len(b.pal[r]) |-> CntAt(b, r, i)], Len(b.pal[r]))], NR(b)) = Volume(b)
    /\ ForegroundVoxels(b, L) + ForegroundVoxels(b, LabelsOf(b) \ L) = Volume(b)
    /\ \A r \in Regions(b) : Foreground(b, L)[r] \cap Foreground(b, LabelsOf(b) \ L)[r] = {}
    /\ Cardinality(L) <= 4 =>
          ForegroundVoxels(b, L) = SumOver(L \cap LabelsOf(b), [l \in L \cap LabelsOf(b) |-> Count(b, l)])

\* the per-label voxel counts partition the volume, and listed labels occur
CountsPartition(b, n) ==      \* n = NumLabels(b)
    /\ SumOver(n, [p \in n |-> p[2]]) + Count(b, 0) = Volume(b)
    /\ \A p \in n : p[2] > 0

----------------------------------------------------------------------------
(* Operations: the voxel-wise meaning *)

MapPal(b, F(_, _)) ==
    [b EXCEPT !.pal = [r \in 1..NR(b) |-> [i \in 1..Len(b.pal[r]) |-> F(r, b.pal[r][i])]]]

\* MergeLabels(target t, merged set M)
Merge(b, t, M) == MapPal(b, LAMBDA r, l : IF l \in M THEN t ELSE l)

\* ReplaceLabel(t, n): returns the number of voxels replaced
Replace(b, t, n) == MapPal(b, LAMBDA r, l : IF l = t THEN n ELSE l)
ReplaceSize(b, t) == Count(b, t)

\* ReplaceLabels(m): simultaneous substitution by the function m
ReplaceLabels(b, m) == MapPal(b, LAMBDA r, l : IF l \in DOMAIN m THEN m[l] ELSE l)
ReplacedSome(b, m) == \E l \in DOMAIN m : Count(b, l) > 0

\* Split(target t, new label n, sparse volume = region set S)
SplitIsNil(b, t) == Count(b, t) = 0
Split(b, t, n, S) == MapPal(b, LAMBDA r, l : IF r \in S /\ l = t THEN n ELSE l)
SplitKeptRegions(b, t, S) == {r \in Regions(b) \ S : RegionCount(b, r, t) > 0}
SplitSplitRegions(b, t, S) == {r \in Regions(b) \cap S : RegionCount(b, r, t) > 0}

\* SplitSupervoxel(sv -> s under S, -> rm elsewhere)
SplitSV(b, sv, s, rm, S) == MapPal(b, LAMBDA r, l : IF l = sv THEN (IF r \in S THEN s ELSE rm) ELSE l)

\* SplitSupervoxels(S, m): m[l] = [s |-> split label, r |-> remain label]
SplitSVs(b, S, m) ==
    MapPal(b, LAMBDA r, l : IF l \in DOMAIN m THEN (IF r \in S THEN m[l].s ELSE m[l].r) ELSE l)

\* DoSplitWithStats / SplitStats: every non-zero label under S is split; a holds its
\* (split, remain) labels (allocated on demand by the implementation)
Touched(b, S) == {l \in LabelsOf(b) \ {0} : CountIn(b, l, S) > 0}
DoSplit(b, S, a) ==
    MapPal(b, LAMBDA r, l : IF l \in Touched(b, S) THEN (IF r \in S THEN a[l].s ELSE a[l].r) ELSE l)
TouchedRegions(b, S, l) == {r \in Regions(b) \cap S : RegionCount(b, r, l) > 0}

\* 2x down-sampling: one lores voxel from the 8 voxels of a cell, given as a sequence of
\* <<label, number of voxels>>: the most frequent non-zero label, ties to the smallest
\* label, 0 if the cell holds only 0.
Tally(ws, l) == SumF([i \in 1..Len(ws) |-> IF ws[i][1] = l THEN ws[i][2] ELSE 0], Len(ws))
Cands(ws) == {ws[i][1] : i \in 1..Len(ws)} \ {0}
Vote(ws) ==
    IF Cands(ws) = {} THEN 0
    ELSE CHOOSE l \in Cands(ws) :
           \A m \in Cands(ws) : Tally(ws, l) > Tally(ws, m) \/ (Tally(ws, l) = Tally(ws, m) /\ l <= m)

----------------------------------------------------------------------------
(* Claims of C10 about the operations (checked by TLC on every explored block) *)

Others(b, X) == LabelsOf(b) \ X

MergeClaims(b, t, M) ==
    LET c == Merge(b, t, M)
    IN  /\ t \notin M => \A l \in M : Count(c, l) = 0
        /\ Count(c, t) = Count(b, t) + SumOver(M \ {t}, [l \in M \ {t} |-> Count(b, l)])
        /\ \A l \in Others(b, M \cup {t}) : Count(c, l) = Count(b, l)
        /\ Volume(c) = Volume(b)

ReplaceClaims(b, t, n) ==
    LET c == Replace(b, t, n)
    IN  /\ t # n => Count(c, t) = 0 /\ Count(c, n) = Count(b, n) + ReplaceSize(b, t)
        /\ \A l \in Others(b, {t, n}) : Count(c, l) = Count(b, l)

SplitClaims(b, t, n, S) ==
    LET c == Split(b, t, n, S)
    IN  /\ SplitKeptRegions(b, t, S) \cap SplitSplitRegions(b, t, S) = {}
        /\ CountIn(b, t, Regions(b) \ S) + CountIn(b, t, S) = Count(b, t)
        /\ t # n => Count(c, t) = CountIn(b, t, Regions(b) \ S) /\ Count(c, n) = Count(b, n) + CountIn(b, t, S)
        /\ \A r \in Regions(b) \ S : c.pal[r] = b.pal[r]
        /\ \A l \in Others(b, {t, n}) : Count(c, l) = Count(b, l)
        /\ SplitIsNil(b, t) => c = b

SplitSVClaims(b, sv, s, rm, S) ==
    LET c == SplitSV(b, sv, s, rm, S)
    IN  /\ (s # sv /\ rm # sv) => Count(c, sv) = 0
        /\ (s # rm /\ s # sv /\ rm # sv) =>
              /\ Count(c, s) = Count(b, s) + CountIn(b, sv, S)
              /\ Count(c, rm) = Count(b, rm) + CountIn(b, sv, Regions(b) \ S)

\* algebraic facts that fail when table slots alias wrongly
AlgebraClaims(b, t, M, x) ==
    /\ Replace(Merge(b, t, M), t, x) = ReplaceLabels(b, [l \in M \cup {t} |-> x])
    /\ Merge(Merge(b, t, M), x, {t}) = Merge(b, x, M \cup {t})
SwapClaims(b, p, q) ==
    LET sw == [l \in {p, q} |-> IF l = p THEN q ELSE p]
    IN  /\ ReplaceLabels(ReplaceLabels(b, sw), sw) = b
        /\ Count(ReplaceLabels(b, sw), p) = Count(b, q)
ChainClaims(b, p, q, w) ==     \* p -> q, q -> w simultaneously = first q -> w, then p -> q
    (p # q /\ q # w /\ p # w) =>
       ReplaceLabels(b, [l \in {p, q} |-> IF l = p THEN q ELSE w]) = Replace(Replace(b, q, w), p, q)

VoteClaims(ws) ==
    LET v == Vote(ws)
    IN  /\ (v = 0) = (Cands(ws) = {})
        /\ v # 0 => \A m \in Cands(ws) : Tally(ws, v) >= Tally(ws, m) /\ (Tally(ws, v) = Tally(ws, m) => v <= m)
        /\ Vote([i \in 1..Len(ws) |-> ws[Len(ws) + 1 - i]]) = v
=============================================================================
