-------------------------- MODULE LabelmapGrowth_mc --------------------------
EXTENDS LabelmapGrowth, Json

Key == [sv |-> sv, mp |-> mp, nxt |-> nxt]
NextEmitG == NextG /\ PrintT(ToJson([s |-> Key, l |-> last', t |-> Key']))
SpecEmitG == Init /\ [][NextEmitG]_vars
EmitObs == PrintT(ToJson([k |-> Key, d |-> depth, obs |-> Obs, rd |-> Reads]))
View == <<sv, mp, nxt>>
=============================================================================
