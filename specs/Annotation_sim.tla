--------------------------- MODULE Annotation_sim ---------------------------
(* Simulation front end of Annotation: random behaviours of MaxOps operations.  After every
   operation a deterministic observation step records the expected views of the state that was
   reached (evaluated unprimed, once per visited state); the history is printed when the
   behaviour is complete.  Run with tlc -simulate, one worker. *)
EXTENDS Annotation_mc

VARIABLES hist, phase

simvars == <<sv, mp, nxt, depth, last, elems, tagIdx, labelIdx, cnt, hist, phase>>

SimInit == AInit /\ hist = <<>> /\ phase = 1
SimNext ==
    \/ phase = 0 /\ ANext /\ phase' = 1 /\ UNCHANGED hist
    \/ phase = 1 /\ hist' = Append(hist, [l |-> last, d |-> depth, k |-> AKey, obs |-> AObs])
                 /\ phase' = 0 /\ UNCHANGED allvars
    \/ phase = 0 /\ depth = MaxOps /\ PrintT(ToJson(hist)) /\ phase' = 2 /\ UNCHANGED <<allvars, hist>>
ASpecSim == SimInit /\ [][SimNext]_simvars
=============================================================================
