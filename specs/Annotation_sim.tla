--------------------------- MODULE Annotation_sim ---------------------------
(* Simulation front end of Annotation: random behaviours of MaxOps operations.  Every operation
   is drawn in two steps - first an operation class (uniformly among Classes, so that classes
   with few instances such as ingest, split or restart are as frequent as those with hundreds),
   then an instance of that class; a class that is not enabled in the state is drawn again.
   After every operation a deterministic observation step records the expected views of the
   state that was reached (evaluated unprimed, once per visited state); the history is printed
   when the behaviour is complete.  Run with tlc -simulate, one worker. *)
EXTENDS Annotation_mc

VARIABLES hist, phase, cls

simvars == <<sv, mp, nxt, depth, last, elems, tagIdx, labelIdx, cnt, fresh, hist, phase, cls>>

SimInit == AInit /\ hist = <<>> /\ phase = 1 /\ cls = "init"
SimNext ==
    \/ phase = 0 /\ depth < MaxOps /\ \E c \in Classes : cls' = c /\ phase' = 3 /\ UNCHANGED <<allvars, hist>>
    \/ phase = 3 /\ ANextC(cls) /\ phase' = 1 /\ UNCHANGED <<hist, cls>>
    \/ phase = 3 /\ ~ENABLED ANextC(cls) /\ phase' = 0 /\ UNCHANGED <<allvars, hist, cls>>
    \/ phase = 1 /\ hist' = Append(hist, [l |-> last, d |-> depth, k |-> AKey, obs |-> AObs])
                 /\ phase' = 0 /\ UNCHANGED <<allvars, cls>>
    \/ phase = 0 /\ depth = MaxOps /\ PrintT(ToJson(hist)) /\ phase' = 2 /\ UNCHANGED <<allvars, hist, cls>>
ASpecSim == SimInit /\ [][SimNext]_simvars
=============================================================================
