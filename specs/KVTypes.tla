------------------------------- MODULE KVTypes -------------------------------
(***************************************************************************)
(* Property C01 for the datatypes other than keyvalue (gap C01-2): the      *)
(* reads of a labelmap block, a label index, a supervoxel mapping, a        *)
(* neuronjson annotation and an annotation element at every node of a       *)
(* version DAG with merge nodes.                                            *)
(*                                                                         *)
(* The shapes are those KVShapes enumerates (the checker passes the ones it *)
(* replays as the generated constant TypeShapes, all of one size N); the    *)
(* oracle of every datum is KVRead.ReadNode, whatever the datatype.         *)
(* Built / Strict (KVCopy) tell which placements a datatype whose write is  *)
(* a read-modify-write, or whose deletion is stored as an empty value, can  *)
(* build with a defined result.                                             *)
(*                                                                         *)
(* Two transcriptions of the resolver of labelmap's supervoxel mapping     *)
(* (labelmap VCache), analyses of the implementation, never the oracle:     *)
(*   FirstParentNode  as it was (datastore.getAncestry: v, parents[0] of v, *)
(*                    parents[0] of that, ...; the nearest entry wins)       *)
(*   MergedLineNode   as repaired (getMergedAncestry: all ancestors, every   *)
(*                    version ranked above all of its own ancestors, the     *)
(*                    first parent's line ranked nearest; the highest-ranked *)
(*                    entry wins)                                            *)
(* Inv_FirstParentOnChains: the first-parent line is the property's read     *)
(* wherever no merge lies in the past of the queried version.                *)
(* Inv_MergedLineAgrees: the merged line is the property's read wherever     *)
(* that read is defined; where two unsuperseded values meet (the property    *)
(* demands a failure) it answers with one of them (known finding).           *)
(***************************************************************************)
EXTENDS KVCopy, KVTypesCases

RECURSIVE FirstLine(_, _)
FirstLine(pr, v) == IF Len(pr[v]) = 0 THEN <<v>> ELSE <<v>> \o FirstLine(pr, pr[v][1])

\* the entry the mapping resolver finds: the first version of the line that holds one
FirstParentNode(pr, ent, v) ==
    LET line == FirstLine(pr, v)
        I == {i \in 1..Len(line) : line[i] \in DOMAIN ent} IN
    IF I = {} THEN 0
    ELSE LET i == CHOOSE i \in I : \A j \in I : i <= j IN
         IF ent[line[i]] = Tomb THEN 0 ELSE line[i]

MergeFree(pr, v) == \A a \in Anc(pr, v) : Len(pr[a]) <= 1

\* on versions whose past holds no merge the first-parent line is the whole ancestry
Inv_FirstParentOnChains ==
    Complete => \A p \in Placements : \A v \in 1..N :
        MergeFree(par, v) => FirstParentNode(par, EntOf(p, N), v) = ReadNode(par, EntOf(p, N), v)

\* getMergedAncestry: depth-first over the ancestors, later parents first, every version
\* appended after all of its ancestors (s is root-first; the Go code reverses it)
RECURSIVE Visit(_, _, _)
RECURSIVE VisitParents(_, _, _, _)
Visit(pr, cur, seen) ==
    IF cur \in seen THEN [s |-> <<>>, seen |-> seen]
    ELSE LET r == VisitParents(pr, pr[cur], Len(pr[cur]), seen \cup {cur}) IN
         [s |-> r.s \o <<cur>>, seen |-> r.seen]
VisitParents(pr, ps, i, seen) ==
    IF i = 0 THEN [s |-> <<>>, seen |-> seen]
    ELSE LET a == Visit(pr, ps[i], seen)
             b == VisitParents(pr, ps, i - 1, a.seen) IN
         [s |-> a.s \o b.s, seen |-> b.seen]
RootFirst(pr, v) == Visit(pr, v, {}).s

MergedLineNode(pr, ent, v) ==
    LET rf == RootFirst(pr, v)
        I == {i \in 1..Len(rf) : rf[i] \in DOMAIN ent} IN
    IF I = {} THEN 0
    ELSE LET i == CHOOSE i \in I : \A j \in I : j <= i IN
         IF ent[rf[i]] = Tomb THEN 0 ELSE rf[i]

\* the list holds exactly the ancestors, each after its own ancestors
Inv_MergedLineIsTopological ==
    Complete => \A v \in 1..N :
        LET rf == RootFirst(par, v) IN
        /\ {rf[i] : i \in 1..Len(rf)} = Anc(par, v) /\ Len(rf) = Cardinality(Anc(par, v))
        /\ \A i, j \in 1..Len(rf) : (i # j /\ rf[i] \in Anc(par, rf[j])) => i < j

\* (a mapping entry is always a value: placements without deletions.  With deletions a
\* rank-based resolver would let a deletion on one parent's line hide a value on another's.)
ValueOnly(p) == \A k \in 1..N : Digit(p, k) # 2
Inv_MergedLineAgrees ==
    Complete => \A p \in {q \in Placements : ValueOnly(q)} : \A v \in 1..N :
        LET want == ReadNode(par, EntOf(p, N), v) IN
        IF want # -1 THEN MergedLineNode(par, EntOf(p, N), v) = want
        ELSE MergedLineNode(par, EntOf(p, N), v) \in Live(par, EntOf(p, N), v)

\* The shapes to replay: one step from the root-only DAG to each listed shape, so that TLC's
\* workers share the evaluation of the invariants.
\* (bucket states <<<<-b>>>> are not shapes: Complete is false there)
TBuckets == 16
TInit == par = <<<<>>>>
TNext == \/ par = <<<<>>>> /\ \E b \in 1..TBuckets : par' = <<<<-b>>>>
         \/ /\ Len(par) = 1 /\ Len(par[1]) = 1 /\ N > 1
            /\ \E i \in 1..Len(TypeShapes) : (i % TBuckets) + 1 = -par[1][1] /\ par' = TypeShapes[i]
TSpec == TInit /\ [][TNext]_par

\* how often the first-parent line and the property's read differ (for the evidence)
MergeDiffers == Cardinality({<<p, v>> \in Placements \X (1..N) :
                    FirstParentNode(par, EntOf(p, N), v) # ReadNode(par, EntOf(p, N), v)})

EmitTypes ==
    Complete =>
    PrintT(ToJson([par    |-> par,
                   read   |-> [q \in 1..Pow3(N) |-> [v \in 1..N |-> ReadNode(par, EntOf(q - 1, N), v)]],
                   algo   |-> [q \in 1..Pow3(N) |-> [v \in 1..N |-> FindMatchNode(par, EntOf(q - 1, N), v)]],
                   fp     |-> [q \in 1..Pow3(N) |-> [v \in 1..N |-> FirstParentNode(par, EntOf(q - 1, N), v)]],
                   ml     |-> [q \in 1..Pow3(N) |-> [v \in 1..N |-> MergedLineNode(par, EntOf(q - 1, N), v)]],
                   built  |-> [q \in 1..Pow3(N) |-> IF Built(q - 1) THEN 1 ELSE 0],
                   strict |-> [q \in 1..Pow3(N) |-> IF Strict(q - 1) THEN 1 ELSE 0]]))
=============================================================================
