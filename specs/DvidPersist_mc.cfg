SPECIFICATION Spec
CONSTANTS
  MaxVersions = 3
  MaxRepos = 1
  MaxInsts = 1
  MaxMut = 4
  Stride = 2
  MaxCrashes = 2
INVARIANTS Inv_C04_StartupSucceeds Inv_C04_Recoverable Inv_C12_CountersAhead EmitWriteTable
PROPERTIES Act_C03_RestartIsStutter
CHECK_DEADLOCK FALSE
