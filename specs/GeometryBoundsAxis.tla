------------------------- MODULE GeometryBoundsAxis -------------------------
(***************************************************************************)
(* Exhaustive check of GeometryBounds!AxisClaims: every pair of optional    *)
(* bounds (open or a value of Vals), every block size of Sizes and every    *)
(* block coordinate of Blocks - negative coordinates included, which is     *)
(* where truncating division differs from the floor.                        *)
(***************************************************************************)
EXTENDS GeometryBounds, TLC

CONSTANTS VMin, VMax, BMin, BMax, SMax

VARIABLES lo, hi, b, c
vars == <<lo, hi, b, c>>

Vals == {None} \cup (VMin..VMax)

Init == lo \in Vals /\ hi \in Vals /\ b \in 1..SMax /\ c \in BMin..BMax
Next == UNCHANGED vars
Spec == Init /\ [][Next]_vars

Inv_C18_BoundsAxis == AxisClaims(lo, hi, b, c)
=============================================================================
