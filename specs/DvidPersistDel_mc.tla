--------------------------- MODULE DvidPersistDel_mc ---------------------------
(***************************************************************************)
(* DvidPersist with repo deletion in the action set: two repos (the one     *)
(* deleted and a bystander), Crash between any two steps of DeleteRepoProg, *)
(* Recover, a second crash in recovery.  Checked: Inv_C04_StartupSucceeds   *)
(* (from every crash state the loader starts), Inv_C04_Recoverable (the     *)
(* repo whose deletion was interrupted is entirely present or entirely      *)
(* absent, an acknowledged deletion stays, every fact of the bystander is   *)
(* visible, the metadata is well formed), Inv_C12_CountersAhead (a repo     *)
(* created after the recovery gets fresh ids).                              *)
(***************************************************************************)
EXTENDS DvidPersist
\* (StartDeleteRepo is part of Next when MaxAdmin > 0)
NextDel == Next
SpecDel == Init /\ [][NextDel]_vars
\* (vacuity guard, evaluated by the harness through the state count of a second run: with the
\*  blob deleted LAST the first invariant fails - see c04_deleterepo.go)
DeleteRepoProgBlobLast(r) ==
    <<[k |-> "dropRepo", r |-> r]>> \o PutCaches \o <<[k |-> "wDelREPO", r |-> r], [k |-> "ack"]>>
=============================================================================
