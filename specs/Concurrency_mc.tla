---------------------------- MODULE Concurrency_mc ----------------------------
(* Model-checking instance of Concurrency with the default (static) constants; the *)
(* checker generates ConcurrencyGen.tla + cfg for the emitting / burst runs.       *)
EXTENDS Concurrency
McTpls == {"kv", "ann", "lm", "ver", "nj", "nl", "mut", "cli", "mcli", "vox", "annsync"}
McOnly == {}
McBursts == <<>>
=============================================================================
