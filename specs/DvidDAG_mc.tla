---------------------------- MODULE DvidDAG_mc ----------------------------
EXTENDS DvidDAG, Json

\* Emit every transition once (TLC expands each distinct state once).
NextEmit == Next /\ PrintT(ToJson([s |-> StateRec, l |-> last', t |-> StateRec']))
SpecEmit == Init /\ [][NextEmit]_vars

\* One line per distinct state: the requests that must be refused there.
EmitRejects == PrintT(ToJson([s |-> StateRec, rej |-> RejectedOps]))

View == dagvars
Bound == nn <= MaxNodes
=============================================================================
