---------------------------- MODULE DvidSync_mc ----------------------------
EXTENDS DvidSync, Json
StateRec == [live |-> live, shown |-> [i \in Syncable \cap live |-> Shown(i)]]
NextEmit == Next /\ PrintT(ToJson([s |-> StateRec, l |-> last', t |-> StateRec']))
SpecEmit == Init /\ [][NextEmit]_vars
View == <<live, syn>>
=============================================================================
