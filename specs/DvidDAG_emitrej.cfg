SPECIFICATION Spec
CONSTANTS
  MaxNodes = 3
  MaxRepos = 2
  MaxParents = 3
  Branches = {"a", "b"}
  UUIDPool = {"ua"}
  WithRejects = TRUE
VIEW View
INVARIANTS EmitRejects
CHECK_DEADLOCK FALSE
