\* The check (harness/cmd/vcheck/c07_mgrtrace.go) generates this configuration next to the
\* recorded trace file mgr_trace.ndjson; it is kept here for running TLC by hand.
SPECIFICATION TSpec
CONSTANTS
  MaxNodes = 1000000
  MaxRepos = 1000000
  MaxParents = 3
  Branches = {}
  UUIDPool = {}
  WithRejects = TRUE
  CheckAllBelow = 40
  CheckEvery = 50
INVARIANTS Inv_Trace
POSTCONDITION TraceAccepted
CHECK_DEADLOCK FALSE
