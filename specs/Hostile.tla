------------------------------ MODULE Hostile ------------------------------
(***************************************************************************)
(* Gate / Hostile: requests, response classes, liveness (property C20).    *)
(*                                                                         *)
(* PART 1 - the request protocol ("Gate").                                 *)
(* The server is a process that is ALIVE, holds data partitioned into      *)
(* SCOPES (one per instance group; "what a request names" is a set of      *)
(* scopes) and answers every request with a response class.  A request is  *)
(* either well formed or a HOSTILE CASE = (endpoint, mutation class,       *)
(* structural position).  The intended design:                             *)
(*   - there is no transition that ends or wedges the process;             *)
(*   - there is no "5xx" response class at all: a well-formed request is   *)
(*     answered "2xx" or "4xx" (not found / refused), a malformed one      *)
(*     "4xx"; a mutated payload that is still inside the documented format *)
(*     may be answered either way;                                         *)
(*   - the request itself and the background work it leaves behind (index  *)
(*     aggregation, max-label update, sync messages) change only scopes    *)
(*     the request names.                                                  *)
(* The Inv_C20_* invariants are the sentences of the property; TLC checks  *)
(* them on every behaviour of Send / Settle / Probe over ALL hostile and    *)
(* well-formed cases of the tables below.                                  *)
(*                                                                         *)
(* PART 2 - the case tables (the decision table that the harness expands). *)
(* Every ingestion / mutation / query endpoint is described by the         *)
(* sequence of structural FIELDS of a valid payload (binary layouts,       *)
(* protobuf wire structure, JSON paths, URL parameters), each with a kind  *)
(* and flags.  ClassesOf(field) says which mutation classes apply to a     *)
(* field kind, Expect(endpoint, class, field) is the ORACLE: "reject" (the *)
(* mutated request is outside the documented format: must be answered 4xx) *)
(* or "any" (2xx or 4xx).  TLC enumerates the table exhaustively and       *)
(* prints it; the harness checks that its payload builders produce exactly *)
(* these field sequences, expands every case into seeded concrete byte     *)
(* strings, sends them to the real server and compares status class,       *)
(* liveness and the differential snapshot of unnamed scopes with what this *)
(* module allows.                                                          *)
(***************************************************************************)
EXTENDS Integers, Sequences, FiniteSets, TLC, Json

(***************************************************************************)
(* Scopes: instance groups of the harness world.  A request to labelmap     *)
(* "lm" may change "lm" and the annotation instance synced to it.           *)
(***************************************************************************)
\* "lmorig" is the voxel content of the blocks of "lm" that existed before the hostile requests:
\* requests that write blocks or raw volumes name other blocks and must leave it alone, requests
\* that relabel bodies (merge, cleave, split, renumber, mappings) name it.
Scopes == {"lm", "lmorig", "lmi", "ann", "kv", "nj", "roi", "gray", "newinst", "meta",
           \* the second world ("wvox": voxel types and a multi-scale labelmap)
           "lms", "g16", "rgba",
           \* the third world ("wleg": datatypes of the older label stack, label counts, blobs per supervoxel, tiles)
           "lb", "lv", "la", "lann", "lsz", "tsv", "tiles",
           \* server-wide settings (nothing of the snapshot belongs to them)
           "srv"}

F(n, k, fl) == [n |-> n, k |-> k, f |-> fl]

(***************************************************************************)
(* Field kinds.                                                             *)
(*  binary : hdr (format bytes)  coord (int32)  dim (uint32 grid dimension) *)
(*           len (byte length of a later field)  cnt (element count)        *)
(*           idx (index into a table)  lbl (uint64 label / id)              *)
(*           run (run length of a span)  blob (bytes whose size is declared *)
(*           elsewhere)  rest (bytes to the end, free form)                 *)
(*           gz (a compressed container seen from outside)                  *)
(*           tag (protobuf field tag)  vint (protobuf varint scalar)        *)
(*  JSON   : jint jstr jlist jobj jkey (object key with its own syntax)     *)
(*  URL    : usize uoff ucoord ulabel uint ukey ushape                      *)
(* Flags:  cutok  - cutting the payload right before the field leaves a     *)
(*                  payload of the documented format (record boundary)      *)
(*         midok  - so does cutting inside the field (free-form tail)       *)
(*         in     - the field lives inside a re-wrapped container (gzip     *)
(*                  body): truncation is applied to the body, which is then *)
(*                  compressed again with consistent outer lengths          *)
(*         zerorej- value 0 is outside the format                           *)
(*         typed  - the JSON value is decoded into a fixed type             *)
(*         u64 / i32 - numeric domain of a JSON number                      *)
(*         hugerej- a value near 2^31 is outside the format (dense raw      *)
(*                  volumes: the answer exceeds the documented server limit)*)
(*         l0rej  - label 0 is refused by the endpoint                      *)
(*         query  - the URL parameter is a query-string option (optional)   *)
(*         float  - the URL number is a real number                         *)
(*         nohuge - no "huge" class: answering costs as much as the value   *)
(*  RPC    : arguments of a command of the RPC path (server/rpc.go          *)
(*           handleCommand, the datatypes' DoRPC; flag "rpc" of the row):   *)
(*           auuid (version UUID)  aname (instance / store name)  atype     *)
(*           (datatype name)  aword (the command word)  apoint ("x,y,z")    *)
(*           afile (path of a file the server opens)  aint (number)  akey   *)
(*           (free-form word: key, user, branch, alias)  ainput (what the   *)
(*           client read from stdin)                                        *)
(* Flags:  exists - the argument must name something that exists            *)
(*         opt    - the argument may be left out                            *)
(*         sync   - the file is opened before the command is answered       *)
(*         unsigned - the number is parsed as unsigned                      *)
(*         late   - the argument is used after the command has been answered *)
(*                  ("Started ..."), or its error goes to the server log only *)
(*         newname- the argument is a name to be given (an empty name is one) *)
(* Added with the growth round (JSON / URL):                                 *)
(*         fixed  - the JSON list has a fixed arity (a point, a resolution)  *)
(*         num    - the JSON string holds a number (configuration values)    *)
(*         syncnames - the JSON string lists instance names to sync with     *)
(*         uuidref- the JSON string names a version                          *)
(*  URL    : uenum (a query option with documented values)                   *)
(***************************************************************************)

\* ---- binary layouts ------------------------------------------------------
\* one compressed label block inside a block stream: header, then the gzip body
BlockHdr(first) ==
    << F("bx", "coord", IF first THEN {} ELSE {"cutok"}), F("by", "coord", {}), F("bz", "coord", {}),
       F("nbytes", "len", {"zerorej"}), F("zbody", "gz", {}) >>
BlockBody ==
    << F("gx", "dim", {"in", "zerorej"}), F("gy", "dim", {"in", "zerorej"}), F("gz", "dim", {"in", "zerorej"}),
       F("nlabels", "cnt", {"in", "zerorej"}), F("labels", "lbl", {"in"}),
       F("nsb", "cnt", {"in"}), F("sbidx", "idx", {"in"}), F("sbvals", "blob", {"in"}) >>
SolidBody ==
    << F("gx", "dim", {"in", "zerorej"}), F("gy", "dim", {"in", "zerorej"}), F("gz", "dim", {"in", "zerorej"}),
       F("nlabels", "cnt", {"in", "zerorej"}), F("labels", "lbl", {"in"}) >>
\* stream of three blocks: two multi-label blocks and one solid block
BlockStream == BlockHdr(TRUE) \o BlockBody \o BlockHdr(FALSE) \o BlockBody \o BlockHdr(FALSE) \o SolidBody

\* binary sparse volume (split payloads): 8 header bytes, span count, spans
Span(first) == << F("x", "coord", IF first THEN {} ELSE {}), F("y", "coord", {}), F("z", "coord", {}), F("run", "run", {}) >>
RLEPayload == << F("enc", "hdr", {}), F("ndims", "hdr", {}), F("rundim", "hdr", {}), F("reserved", "hdr", {}),
                 F("nvoxels", "hdr", {}), F("nspans", "cnt", {}) >> \o Span(TRUE) \o Span(FALSE) \o Span(FALSE)

\* protobuf LabelIndex: blocks map entries (embedded messages with length prefixes), label, last_mutid
PBSVCount == << F("cnt.tag", "tag", {}), F("cnt.len", "len", {}), F("cnt.ktag", "tag", {}), F("cnt.key", "lbl", {}),
                F("cnt.vtag", "tag", {}), F("cnt.val", "vint", {}) >>
PBBlockEntry(cut) ==
    << F("blk.tag", "tag", IF cut THEN {"cutok"} ELSE {}), F("blk.len", "len", {}),
       F("blk.ktag", "tag", {}), F("blk.key", "vint", {}),
       F("blk.vtag", "tag", {}), F("blk.vlen", "len", {}) >> \o PBSVCount \o PBSVCount
\* top = the message is the whole payload: cutting at a field boundary leaves a shorter valid message;
\* nested in LabelIndices the enclosing length prefix makes every cut inconsistent
CutIf(top) == IF top THEN {"cutok"} ELSE {}
PBIndexTail(top) == << F("label.tag", "tag", CutIf(top)), F("label", "lbl", {}),
                       F("mutid.tag", "tag", CutIf(top)), F("mutid", "vint", {}),
                       F("user.tag", "tag", CutIf(top)), F("user.len", "len", {}), F("user", "blob", {}) >>
PBIndexMsg(top) == PBBlockEntry(FALSE) \o PBBlockEntry(top) \o PBIndexTail(top)
PBIndex   == PBIndexMsg(TRUE)
PBIndices == << F("idx.tag", "tag", {}), F("idx.len", "len", {}) >> \o PBIndexMsg(FALSE)
\* protobuf MappingOps: repeated MappingOp {mutid, mapped, repeated original (packed)}
PBMappingOp(first) ==
    << F("op.tag", "tag", IF first THEN {} ELSE {"cutok"}), F("op.len", "len", {}),
       F("mutid.tag", "tag", {}), F("mutid", "vint", {}),
       F("mapped.tag", "tag", {}), F("mapped", "lbl", {}),
       F("orig.tag", "tag", {}), F("orig.len", "len", {}), F("orig.1", "lbl", {}), F("orig.2", "lbl", {}) >>
PBMappings == PBMappingOp(TRUE) \o PBMappingOp(FALSE)
\* protobuf KeyValues: repeated KeyValue {key, value}
PBKeyValue(first) ==
    << F("kv.tag", "tag", IF first THEN {} ELSE {"cutok"}), F("kv.len", "len", {}),
       F("key.tag", "tag", {}), F("key.len", "len", {}), F("key", "blob", {}),
       F("val.tag", "tag", {}), F("val.len", "len", {}), F("val", "blob", {}) >>
PBKeyValues == PBKeyValue(TRUE) \o PBKeyValue(FALSE)

\* ---- JSON layouts (fields in document order; containers precede their members) ----
Pt(n, fl) == << F(n, "jlist", {"typed"}), F(n \o ".x", "jint", {"typed", "i32"} \cup fl),
                F(n \o ".y", "jint", {"typed", "i32"} \cup fl), F(n \o ".z", "jint", {"typed", "i32"} \cup fl) >>
Element ==
    << F("elem", "jobj", {"typed"}) >> \o Pt("Pos", {}) \o
    << F("Kind", "jstr", {"typed", "enum"}),
       F("Tags", "jlist", {"typed"}), F("Tags.1", "jstr", {"typed"}),
       F("Prop", "jobj", {"typed"}), F("Prop.conf", "jstr", {"typed"}),
       F("Rels", "jlist", {"typed"}), F("Rels.1", "jobj", {"typed"}), F("Rel", "jstr", {"typed", "enum"}) >> \o Pt("To", {})
AnnElements == << F("root", "jlist", {"typed"}) >> \o Element \o Element
AnnBlocks   == << F("root", "jobj", {"typed"}), F("blockkey", "jkey", {}), F("elems", "jlist", {"typed"}) >> \o Element
ROISpan == << F("span", "jlist", {"typed"}), F("span.z", "jint", {"typed", "i32"}), F("span.y", "jint", {"typed", "i32"}),
              F("span.x0", "jint", {"typed", "i32"}), F("span.x1", "jint", {"typed", "i32"}) >>
ROISpans == << F("root", "jlist", {"typed"}) >> \o ROISpan \o ROISpan
Points   == << F("root", "jlist", {"typed"}) >> \o Pt("pt1", {}) \o Pt("pt2", {})
LabelList(n) == << F("root", "jlist", {"typed"}) >> \o [i \in 1..n |-> F("label", "jint", {"typed", "u64"})]
NeuronJSON == << F("root", "jobj", {"typed"}), F("bodyid", "jint", {}), F("type", "jstr", {}), F("status", "jstr", {}),
                 F("soma", "jlist", {}), F("soma.x", "jint", {}), F("soma.y", "jint", {}), F("soma.z", "jint", {}),
                 F("syn", "jint", {}) >>
NeuronQuery == << F("root", "jobj", {"typed"}), F("type", "jstr", {}), F("syn", "jint", {}), F("status", "jlist", {}),
                  F("status.1", "jstr", {}) >>
KeyList   == << F("root", "jlist", {"typed"}), F("key", "jstr", {"typed"}), F("key", "jstr", {"typed"}) >>
TagsObj   == << F("root", "jobj", {"typed"}), F("owner", "jstr", {"typed"}), F("type", "jstr", {"typed"}) >>
CommitObj == << F("root", "jobj", {"typed"}), F("note", "jstr", {"typed"}), F("log", "jlist", {"typed"}), F("log.1", "jstr", {"typed"}) >>
BranchObj == << F("root", "jobj", {"typed"}), F("branch", "jstr", {"typed"}), F("note", "jstr", {"typed"}) >>
InstanceCfg == << F("root", "jobj", {"typed"}), F("typename", "jstr", {"typed", "enum"}), F("dataname", "jstr", {"typed"}),
                  F("BlockSize", "jstr", {"typed", "triple"}), F("VoxelSize", "jstr", {"typed", "triple"}) >>

\* ---- layouts of the growth round ----
\* instance metadata (unversioned, persistent): a resolution is a list of exactly three numbers,
\* extents are two points, a sync request lists instance names, configuration values are strings
PtFixed(n) == << F(n, "jlist", {"typed", "fixed"}), F(n \o ".x", "jint", {"typed", "i32"}),
                 F(n \o ".y", "jint", {"typed", "i32"}), F(n \o ".z", "jint", {"typed", "i32"}) >>
Resolution == << F("root", "jlist", {"typed", "fixed"}), F("rx", "jint", {"typed"}), F("ry", "jint", {"typed"}), F("rz", "jint", {"typed"}) >>
ExtentsObj == << F("root", "jobj", {"typed"}) >> \o PtFixed("MinPoint") \o PtFixed("MaxPoint")
SyncObj    == << F("root", "jobj", {"typed"}), F("sync", "jstr", {"typed", "syncnames"}) >>
LMInfoCfg  == << F("root", "jobj", {"typed"}), F("MaxDownresLevel", "jstr", {"typed", "num"}) >>
\* repository / version level
AliasObj   == << F("root", "jobj", {"typed"}), F("alias", "jstr", {"typed"}), F("description", "jstr", {"typed"}) >>
LogObj     == << F("root", "jobj", {"typed"}), F("log", "jlist", {"typed"}), F("log.1", "jstr", {"typed"}) >>
NoteObj    == << F("root", "jobj", {"typed"}), F("note", "jstr", {"typed"}) >>
TagObj     == << F("root", "jobj", {"typed"}), F("tag", "jstr", {"typed"}), F("note", "jstr", {"typed"}) >>
MergeObj   == << F("root", "jobj", {"typed"}), F("mergeType", "jstr", {"typed", "enum"}), F("note", "jstr", {"typed"}),
                 F("parents", "jlist", {"typed"}), F("parents.1", "jstr", {"typed", "uuidref"}), F("parents.2", "jstr", {"typed", "uuidref"}) >>
ResolveObj == << F("root", "jobj", {"typed"}), F("data", "jlist", {"typed"}), F("data.1", "jstr", {"typed"}), F("note", "jstr", {"typed"}),
                 F("parents", "jlist", {"typed"}), F("parents.1", "jstr", {"typed", "uuidref"}), F("parents.2", "jstr", {"typed", "uuidref"}) >>
SettingsObj == << F("root", "jobj", {"typed"}), F("gc", "jstr", {"typed", "num"}), F("throttle", "jstr", {"typed", "num"}) >>
\* annotation label posts: label -> elements
\* (each value is a string that holds the JSON array of elements)
AnnLabels  == << F("root", "jobj", {"typed"}), F("labelkey", "jkey", {}), F("elems", "jstr", {"typed"}) >>
\* protobuf Keys: repeated string
PBKeys     == << F("k.tag", "tag", {}), F("k.len", "len", {}), F("k", "blob", {}),
                 F("k.tag", "tag", {"cutok"}), F("k.len", "len", {}), F("k", "blob", {}) >>
\* neuron-annotation schema (free-form JSON object)
NJSchema   == << F("root", "jobj", {"typed"}), F("type", "jstr", {}), F("properties", "jobj", {}), F("bodyid", "jobj", {}), F("bodyid.type", "jstr", {}) >>
\* imagetile metadata
TileSpec   == << F("root", "jobj", {"typed"}), F("MinTileCoord", "jlist", {"typed"}), F("min.x", "jint", {"typed", "i32"}), F("min.y", "jint", {"typed", "i32"}), F("min.z", "jint", {"typed", "i32"}),
                 F("MaxTileCoord", "jlist", {"typed"}), F("max.x", "jint", {"typed", "i32"}), F("max.y", "jint", {"typed", "i32"}), F("max.z", "jint", {"typed", "i32"}),
                 F("Levels", "jobj", {"typed"}), F("level0", "jobj", {"typed"}),
                 F("Resolution", "jlist", {"typed"}), F("res.x", "jint", {"typed"}), F("res.y", "jint", {"typed"}), F("res.z", "jint", {"typed"}),
                 F("TileSize", "jlist", {"typed"}), F("ts.x", "jint", {"typed", "i32"}), F("ts.y", "jint", {"typed", "i32"}), F("ts.z", "jint", {"typed", "i32"}) >>
\* a tar archive of two files (tarsupervoxels load): headers, contents padded to 512 bytes, end marker
\* (a cut inside a content field may fall into its padding: every file is then complete)
TarEntry(first) == << F("hdr", "hdr", IF first THEN {} ELSE {"cutok"}), F("content", "blob", {"midok"}) >>
TarFile == TarEntry(TRUE) \o TarEntry(FALSE) \o << F("end", "rest", {"cutok", "midok"}) >>
\* the same layout read after the request has been answered (errors are logged only)
Late(fields) == [i \in 1..Len(fields) |-> [fields[i] EXCEPT !.f = @ \cup {"late"}]]
\* labelarray block stream: like the labelmap one
\* a dense voxel block sequence (imageblk POST blocks): span blocks of BlockSize voxels
VoxBlocks == << F("voxels", "blob", {}) >>

\* ---- RPC argument layouts ----
NodeCmd == << F("uuid", "auuid", {"exists"}), F("data", "aname", {"exists"}), F("word", "aword", {}) >>
RepoCmd == << F("uuid", "auuid", {"exists"}), F("word", "aword", {}) >>

\* ---- URL parameter layouts ----
Vol3(hugerej) == << F("shape", "ushape", {}), F("size", "usize", IF hugerej THEN {"hugerej"} ELSE {}), F("offset", "uoff", {}) >>

(***************************************************************************)
(* Endpoints.  body: "bin" | "json" | "none"; scope: what the request       *)
(* names; flags: emptyok (an empty body is inside the format), extendrej    *)
(* (the body size is declared by the URL: extra bytes are outside it),      *)
(* mut (mutating request), wrap (the body is sent through a compression     *)
(* wrapper selected in the query string).                                   *)
(* Growth round: blocks (the body is a stream of label blocks: the "geom"   *)
(* cases apply), persist (an accepted request changes unversioned state of  *)
(* the instance or the server: the harness continues on a fresh world),     *)
(* dag (the request addresses the repository / version graph or the server, *)
(* not a versioned instance), noctl (no well-formed request is accepted in  *)
(* the harness world: no positive control), wvox / wleg (the row runs in    *)
(* the second / third world), freeform (the JSON body is stored as a blob). *)
(***************************************************************************)
EP(name, scope, body, fl, fields, url) ==
    [name |-> name, scope |-> scope, body |-> body, f |-> fl, fields |-> fields, url |-> url]

BaseEndpoints == <<
    \* label data
    EP("lm.blocks",      "lm",   "bin",  {"mut", "emptyok", "blocks"}, BlockStream, <<>>),
    EP("lmi.ingest",     "lmi",  "bin",  {"mut", "emptyok", "blocks"}, BlockStream, <<>>),
    EP("lm.raw",         "lm",   "bin",  {"mut", "extendrej"}, << F("voxels", "blob", {}) >>, Vol3(TRUE)),
    EP("lm.rawgz",       "lm",   "bin",  {"mut", "extendrej"}, << F("zbody", "gz", {}), F("voxels", "blob", {"in"}) >>, <<>>),
    EP("gray.raw",       "gray", "bin",  {"mut", "extendrej"}, << F("voxels", "blob", {}) >>, Vol3(TRUE)),
    EP("lm.split",       "lm",   "bin",  {"mut"}, RLEPayload, << F("label", "ulabel", {"l0rej"}) >>),
    EP("lm.splitsv",     "lm",   "bin",  {"mut"}, RLEPayload, << F("label", "ulabel", {"l0rej"}) >>),
    EP("lm.index",       "lm",   "bin",  {"mut", "emptyok"}, PBIndex, << F("label", "ulabel", {"l0rej"}) >>),
    EP("lm.indices",     "lm",   "bin",  {"mut", "emptyok"}, PBIndices, <<>>),
    EP("lm.mappings",    "lm",   "bin",  {"mut", "emptyok"}, PBMappings, <<>>),
    EP("lm.merge",       "lm",   "json", {"mut"}, LabelList(3), <<>>),
    EP("lm.cleave",      "lm",   "json", {"mut"}, LabelList(1), << F("label", "ulabel", {"l0rej"}) >>),
    EP("lm.renumber",    "lm",   "json", {"mut"}, LabelList(2), <<>>),
    EP("lm.getlabels",   "lm",   "json", {}, Points, <<>>),
    EP("lm.getmapping",  "lm",   "json", {}, LabelList(2), <<>>),
    EP("lm.getsizes",    "lm",   "json", {}, LabelList(2), <<>>),
    EP("lm.getindices",  "lm",   "json", {}, LabelList(2), <<>>),
    \* annotations
    EP("ann.elements",   "ann",  "json", {"mut"}, AnnElements, <<>>),
    EP("ann.blocks",     "ann",  "json", {"mut"}, AnnBlocks, <<>>),
    \* key-values
    EP("kv.key",         "kv",   "bin",  {"mut", "emptyok"}, << F("value", "rest", {"midok", "cutok"}) >>, << F("key", "ukey", {}) >>),
    EP("kv.keyvalues",   "kv",   "bin",  {"mut", "emptyok"}, PBKeyValues, <<>>),
    \* neuron annotations
    EP("nj.key",         "nj",   "json", {"mut"}, NeuronJSON, << F("id", "ulabel", {}) >>),
    EP("nj.keyvalues",   "nj",   "bin",  {"mut", "emptyok"}, PBKeyValues, <<>>),
    EP("nj.query",       "nj",   "json", {}, NeuronQuery, <<>>),
    \* ROI
    EP("roi.roi",        "roi",  "json", {"mut"}, ROISpans, <<>>),
    EP("roi.ptquery",    "roi",  "json", {}, Points, <<>>),
    \* repo level
    EP("repo.instance",  "newinst", "json", {"mut", "dag"}, InstanceCfg, <<>>),
    \* URL-only endpoints (GET unless flagged mut)
    EP("lm.getraw",      "lm",   "none", {}, <<>>, Vol3(TRUE)),
    EP("lm.getblocks",   "lm",   "none", {}, <<>>, << F("size", "usize", {}), F("offset", "uoff", {}) >>),
    EP("lm.getslice",    "lm",   "none", {}, <<>>, << F("shape", "ushape", {}), F("size", "usize", {}), F("offset", "uoff", {}) >>),
    EP("lm.getlabel",    "lm",   "none", {}, <<>>, << F("point", "ucoord", {}) >>),
    EP("lm.sparsevol",   "lm",   "none", {}, <<>>, << F("label", "ulabel", {"l0rej"}) >>),
    EP("lm.sparsevolcoarse", "lm", "none", {}, <<>>, << F("label", "ulabel", {"l0rej"}) >>),
    EP("lm.sparsevolsize", "lm", "none", {}, <<>>, << F("label", "ulabel", {"l0rej"}) >>),
    EP("lm.sparsevolbypoint", "lm", "none", {}, <<>>, << F("point", "ucoord", {}) >>),
    EP("lm.size",        "lm",   "none", {}, <<>>, << F("label", "ulabel", {"l0rej"}) >>),
    EP("lm.supervoxels", "lm",   "none", {}, <<>>, << F("label", "ulabel", {"l0rej"}) >>),
    EP("lm.getindex",    "lm",   "none", {}, <<>>, << F("label", "ulabel", {"l0rej"}) >>),
    EP("lm.lastmod",     "lm",   "none", {}, <<>>, << F("label", "ulabel", {"l0rej"}) >>),
    EP("lm.listlabels",  "lm",   "none", {}, <<>>, << F("start", "uint", {"query"}), F("number", "uint", {"query"}) >>),
    EP("lm.scale",       "lm",   "none", {}, <<>>, << F("scale", "uint", {"query"}) >>),
    EP("lm.specificblocks", "lm", "none", {}, <<>>, << F("blocks", "ucoord", {"query"}) >>),
    EP("lm.setnextlabel", "lm",  "none", {"mut"}, <<>>, << F("label", "ulabel", {"l0rej"}) >>),
    EP("gray.getraw",    "gray", "none", {}, <<>>, Vol3(TRUE)),
    EP("gray.getslice",  "gray", "none", {}, <<>>, << F("shape", "ushape", {}), F("size", "usize", {}), F("offset", "uoff", {}) >>),
    EP("gray.getblocks", "gray", "none", {}, <<>>, << F("coord", "ucoord", {}), F("span", "uint", {}) >>),
    EP("gray.subvolblocks", "gray", "none", {}, <<>>, << F("size", "usize", {}), F("offset", "uoff", {}) >>),
    EP("gray.specificblocks", "gray", "none", {}, <<>>, << F("blocks", "ucoord", {"query"}) >>),
    EP("ann.getelements", "ann", "none", {}, <<>>, << F("size", "usize", {}), F("offset", "uoff", {}) >>),
    EP("ann.getblocks",  "ann",  "none", {}, <<>>, << F("size", "usize", {}), F("offset", "uoff", {}) >>),
    EP("ann.getlabel",   "ann",  "none", {}, <<>>, << F("label", "ulabel", {"l0rej"}) >>),
    EP("ann.gettag",     "ann",  "none", {}, <<>>, << F("tag", "ukey", {}) >>),
    EP("ann.delete",     "ann",  "none", {"mut"}, <<>>, << F("point", "ucoord", {}) >>),
    EP("ann.move",       "ann",  "none", {"mut"}, <<>>, << F("from", "ucoord", {}), F("to", "ucoord", {}) >>),
    EP("kv.getkey",      "kv",   "none", {}, <<>>, << F("key", "ukey", {}) >>),
    EP("kv.keyrange",    "kv",   "none", {}, <<>>, << F("first", "ukey", {}), F("last", "ukey", {}) >>),
    EP("nj.getkey",      "nj",   "none", {}, <<>>, << F("id", "ulabel", {}) >>),
    EP("roi.mask",       "roi",  "none", {}, <<>>, Vol3(TRUE)),
    EP("roi.partition",  "roi",  "none", {}, <<>>, << F("batchsize", "uint", {"zerorej", "query"}) >>),
    EP("node.uuid",      "meta", "none", {"dag", "noverb"}, <<>>, << F("uuid", "ukey", {}) >>),
    EP("lm.proximity",   "lm",   "none", {}, <<>>, << F("label1", "ulabel", {"l0rej"}), F("label2", "ulabel", {"l0rej"}) >>),
    EP("lm.history",     "lm",   "none", {}, <<>>, << F("label", "ulabel", {"l0rej"}), F("from", "ukey", {}), F("to", "ukey", {}) >>),
    EP("lm.supervoxelsizes", "lm", "none", {}, <<>>, << F("label", "ulabel", {"l0rej"}) >>),
    EP("lm.sparsevolscoarse", "lm", "none", {}, <<>>, << F("start", "ulabel", {}), F("end", "ulabel", {}) >>),
    EP("lm.pseudocolor", "lm",   "none", {}, <<>>, << F("shape", "ushape", {}), F("size", "usize", {}), F("offset", "uoff", {}) >>),
    EP("lm.isotropic",   "lm",   "none", {}, <<>>, << F("shape", "ushape", {}), F("size", "usize", {}), F("offset", "uoff", {}) >>),
    EP("gray.arb",       "gray", "none", {}, <<>>, << F("topleft", "ucoord", {"nohuge", "float"}), F("topright", "ucoord", {"nohuge", "float"}), F("bottomleft", "ucoord", {"nohuge", "float"}), F("res", "uint", {"float"}) >>),
    EP("kv.keyrangevalues", "kv", "none", {}, <<>>, << F("first", "ukey", {}), F("last", "ukey", {}) >>),
    EP("kv.getkeyvalues", "kv",  "json", {}, KeyList, <<>>),
    EP("kv.tags",        "kv",   "json", {"mut", "emptyok"}, TagsObj, <<>>),
    EP("node.commit",    "meta", "json", {"mut", "dag"}, CommitObj, <<>>),
    EP("node.branch",    "meta", "json", {"mut", "dag"}, BranchObj, <<>>),
    \* commands of the RPC path: the "url" is the argument list after the first word ("node" / "repo" / ...)
    EP("rpc.kv.put",        "kv",   "none", {"mut", "rpc"}, <<>>, NodeCmd \o << F("key", "akey", {}), F("stdin", "ainput", {}) >>),
    EP("rpc.nj.put",        "nj",   "none", {"mut", "rpc"}, <<>>, NodeCmd \o << F("key", "akey", {}), F("stdin", "ainput", {}) >>),
    EP("rpc.nj.importkv",   "nj",   "none", {"mut", "rpc"}, <<>>, NodeCmd \o << F("source", "aname", {"exists"}) >>),
    EP("rpc.nj.ingest",     "nj",   "none", {"mut", "rpc"}, <<>>, NodeCmd \o << F("file", "afile", {"sync"}), F("user", "akey", {}) >>),
    EP("rpc.nj.versionchanges", "nj", "none", {"rpc"},      <<>>, NodeCmd \o << F("file", "akey", {"late"}) >>),
    EP("rpc.gray.load",     "gray", "none", {"mut", "rpc"}, <<>>, NodeCmd \o << F("offset", "apoint", {}), F("file", "afile", {"sync"}) >>),
    EP("rpc.lm.load",       "lm",   "none", {"mut", "rpc"}, <<>>, NodeCmd \o << F("offset", "apoint", {}), F("file", "afile", {"sync"}) >>),
    EP("rpc.lm.setnextlabel", "lm", "none", {"mut", "rpc"}, <<>>, NodeCmd \o << F("label", "aint", {"unsigned"}) >>),
    EP("rpc.ann.reload",    "ann",  "none", {"mut", "rpc"}, <<>>, NodeCmd),
    EP("rpc.node.help",     "kv",   "none", {"rpc"},        <<>>, << F("uuid", "auuid", {"exists"}), F("data", "aname", {"exists"}), F("word", "aword", {"opt"}) >>),
    EP("rpc.repo.new",      "newinst", "none", {"mut", "rpc"}, <<>>, RepoCmd \o << F("type", "atype", {"exists"}), F("name", "aname", {"newname"}) >>),
    EP("rpc.repo.branch",   "meta", "none", {"mut", "rpc"}, <<>>, RepoCmd \o << F("branch", "akey", {"opt"}), F("newuuid", "akey", {"opt"}) >>),
    EP("rpc.repo.newversion", "meta", "none", {"mut", "rpc"}, <<>>, RepoCmd \o << F("newuuid", "akey", {"opt"}) >>),
    EP("rpc.repo.merge",    "meta", "none", {"mut", "rpc"}, <<>>, RepoCmd \o << F("parent", "auuid", {"exists"}) >>),
    EP("rpc.repo.rename",   "newinst", "none", {"mut", "rpc"}, <<>>, RepoCmd \o << F("old", "aname", {"exists"}), F("new", "aname", {"newname"}) >>),
    EP("rpc.repo.delete",   "newinst", "none", {"mut", "rpc"}, <<>>, RepoCmd \o << F("name", "aname", {"exists"}) >>),
    \* the copy runs after the command is answered: a bad source or target is reported in the log only
    EP("rpc.repo.copy",     "newinst", "none", {"mut", "rpc"}, <<>>, RepoCmd \o << F("source", "aname", {"late"}), F("target", "aname", {"late"}) >>),
    EP("rpc.repo.migrate",  "meta", "none", {"rpc"},        <<>>, RepoCmd \o << F("instance", "aname", {"late"}), F("srcstore", "aname", {"exists"}), F("dststore", "aname", {"exists"}) >>),
    \* commands that take a configuration file (their errors are logged, the command is answered either way)
    EP("rpc.repo.limitversions", "meta", "none", {"rpc"},   <<>>, RepoCmd \o << F("file", "afile", {"late"}) >>),
    EP("rpc.repo.flattenmetadata", "meta", "none", {"rpc"}, <<>>, RepoCmd \o << F("file", "afile", {"sync"}) >>),
    EP("rpc.repo.migratebatch", "meta", "none", {"rpc"},    <<>>, RepoCmd \o << F("file", "afile", {"late"}) >>),
    EP("rpc.repo.hidebranch", "meta", "none", {"rpc"},      <<>>, RepoCmd \o << F("branch", "akey", {"late"}) >>),
    EP("rpc.repo.makemaster", "meta", "none", {"rpc"},      <<>>, RepoCmd \o << F("oldmaster", "akey", {"late"}) >>),
    EP("rpc.repos.new",     "newinst", "none", {"mut", "rpc"}, <<>>, << F("word", "aword", {}), F("alias", "akey", {"opt"}), F("description", "akey", {"opt"}) >>),
    EP("rpc.types.help",    "meta", "none", {"rpc"},        <<>>, << F("type", "atype", {"exists"}), F("word", "aword", {}) >>)
>>

(***************************************************************************)
(* Rows of the growth round.                                                *)
(***************************************************************************)
GrowthEndpoints == <<
    \* instance metadata: unversioned and persistent
    EP("lm.resolution",  "lm",   "json", {"mut", "persist"}, Resolution, <<>>),
    EP("lm.extents",     "lm",   "json", {"mut", "persist"}, ExtentsObj, <<>>),
    EP("lm.info",        "lm",   "json", {"mut", "persist", "emptyok"}, LMInfoCfg, <<>>),
    EP("lm.tags",        "lm",   "json", {"mut", "emptyok"}, TagsObj, <<>>),
    EP("gray.resolution", "gray", "json", {"mut", "persist"}, Resolution, <<>>),
    EP("gray.extents",   "gray", "json", {"mut", "persist"}, ExtentsObj, <<>>),
    EP("ann.sync",       "ann",  "json", {"mut", "persist", "emptyok"}, SyncObj, <<>>),
    EP("ann.tags",       "ann",  "json", {"mut", "emptyok"}, TagsObj, <<>>),
    EP("nj.tags",        "nj",   "json", {"mut", "emptyok"}, TagsObj, <<>>),
    \* dense voxel blocks of an image instance: <span> blocks starting at a block coordinate
    EP("gray.blocks",    "gray", "bin",  {"mut"}, VoxBlocks, << F("coord", "ucoord", {}), F("span", "uint", {}) >>),
    \* second world: a multi-scale labelmap, 16-bit and RGBA voxels
    EP("lms.blocks.downres", "lms", "bin", {"mut", "emptyok", "blocks", "wvox"}, BlockStream, <<>>),
    EP("lms.blocks.scale",   "lms", "bin", {"mut", "emptyok", "blocks", "wvox"}, BlockStream, << F("scale", "uint", {"query"}) >>),
    EP("lms.blocks.noindex", "lms", "bin", {"mut", "emptyok", "blocks", "wvox"}, BlockStream, <<>>),
    EP("lms.ingest.scale",   "lms", "bin", {"mut", "emptyok", "blocks", "wvox"}, BlockStream, << F("scale", "uint", {"query"}) >>),
    EP("lms.raw",            "lms", "bin", {"mut", "extendrej", "wvox"}, << F("voxels", "blob", {}) >>, Vol3(TRUE)),
    EP("lms.getraw.scale",   "lms", "none", {"wvox"}, <<>>, << F("scale", "uint", {"query"}) >>),
    EP("lms.getblocks.scale", "lms", "none", {"wvox"}, <<>>, << F("scale", "uint", {"query"}) >>),
    EP("lms.specificblocks.scale", "lms", "none", {"wvox"}, <<>>, << F("blocks", "ucoord", {"query"}), F("scale", "uint", {"query"}) >>),
    EP("lms.sparsevol.scale", "lms", "none", {"wvox"}, <<>>, << F("label", "ulabel", {"l0rej"}), F("scale", "uint", {"query"}) >>),
    EP("g16.raw",        "g16",  "bin",  {"mut", "extendrej", "wvox"}, << F("voxels", "blob", {}) >>, Vol3(TRUE)),
    EP("g16.blocks",     "g16",  "bin",  {"mut", "wvox"}, VoxBlocks, << F("coord", "ucoord", {}), F("span", "uint", {}) >>),
    EP("g16.getraw",     "g16",  "none", {"wvox"}, <<>>, Vol3(TRUE)),
    EP("g16.getblocks",  "g16",  "none", {"wvox"}, <<>>, << F("coord", "ucoord", {}), F("span", "uint", {}) >>),
    EP("rgba.raw",       "rgba", "bin",  {"mut", "extendrej", "wvox"}, << F("voxels", "blob", {}) >>, Vol3(TRUE)),
    EP("rgba.blocks",    "rgba", "bin",  {"mut", "wvox"}, VoxBlocks, << F("coord", "ucoord", {}), F("span", "uint", {}) >>),
    EP("rgba.getraw",    "rgba", "none", {"wvox"}, <<>>, Vol3(TRUE)),
    EP("rgba.getslice",  "rgba", "none", {"wvox"}, <<>>, << F("shape", "ushape", {}), F("size", "usize", {}), F("offset", "uoff", {}) >>),
    \* repository, version and server level
    EP("repos.new",      "meta", "json", {"mut", "dag", "emptyok"}, AliasObj, <<>>),
    EP("repo.info",      "meta", "json", {"mut", "dag", "emptyok"}, AliasObj, <<>>),
    EP("repo.log",       "meta", "json", {"mut", "dag"}, LogObj, <<>>),
    EP("repo.merge",     "meta", "json", {"mut", "dag"}, MergeObj, <<>>),
    EP("repo.resolve",   "meta", "json", {"mut", "dag"}, ResolveObj, <<>>),
    EP("node.note",      "meta", "json", {"mut", "dag"}, NoteObj, <<>>),
    EP("node.log",       "meta", "json", {"mut", "dag"}, LogObj, <<>>),
    EP("node.newversion", "meta", "json", {"mut", "dag", "emptyok"}, NoteObj, <<>>),
    EP("node.tag",       "meta", "json", {"mut", "dag"}, TagObj, <<>>),
    EP("server.settings", "srv", "json", {"mut", "dag", "persist", "emptyok"}, SettingsObj, <<>>),
    EP("server.reloadauth", "srv", "none", {"mut", "dag", "noctl"}, <<>>, <<>>),
    EP("server.reloadblocklist", "srv", "none", {"mut", "dag", "noctl"}, <<>>, <<>>),
    \* third world: the older label stack (labelblk <-> labelvol, labelarray)
    EP("lb.raw",         "lb",   "bin",  {"mut", "extendrej", "wleg"}, << F("voxels", "blob", {}) >>, Vol3(TRUE)),
    EP("lb.getraw",      "lb",   "none", {"wleg"}, <<>>, Vol3(TRUE)),
    EP("lb.getlabel",    "lb",   "none", {"wleg"}, <<>>, << F("point", "ucoord", {}) >>),
    EP("lb.getblocks",   "lb",   "none", {"wleg"}, <<>>, << F("size", "usize", {}), F("offset", "uoff", {}) >>),
    EP("lb.resolution",  "lb",   "json", {"mut", "persist", "wleg"}, Resolution, <<>>),
    EP("lv.split",       "lv",   "bin",  {"mut", "wleg"}, RLEPayload, << F("label", "ulabel", {"l0rej"}) >>),
    EP("lv.splitcoarse", "lv",   "bin",  {"mut", "wleg"}, RLEPayload, << F("label", "ulabel", {"l0rej"}) >>),
    EP("lv.merge",       "lv",   "json", {"mut", "wleg"}, LabelList(3), <<>>),
    \* (the sparse volume of a resync is read after the request has been answered)
    EP("lv.resync",      "lv",   "bin",  {"mut", "emptyok", "wleg"}, Late(RLEPayload), << F("label", "ulabel", {"l0rej"}) >>),
    EP("lv.sparsevol",   "lv",   "none", {"wleg"}, <<>>, << F("label", "ulabel", {"l0rej"}) >>),
    EP("lv.sparsevolbypoint", "lv", "none", {"wleg"}, <<>>, << F("point", "ucoord", {}) >>),
    EP("lv.sparsevolcoarse", "lv", "none", {"wleg"}, <<>>, << F("label", "ulabel", {"l0rej"}) >>),
    EP("la.blocks",      "la",   "bin",  {"mut", "emptyok", "blocks", "wleg"}, BlockStream, <<>>),
    EP("la.raw",         "la",   "bin",  {"mut", "extendrej", "wleg"}, << F("voxels", "blob", {}) >>, Vol3(TRUE)),
    EP("la.getraw",      "la",   "none", {"wleg"}, <<>>, Vol3(TRUE)),
    EP("la.getblocks",   "la",   "none", {"wleg"}, <<>>, << F("size", "usize", {}), F("offset", "uoff", {}) >>),
    EP("la.specificblocks", "la", "none", {"wleg"}, <<>>, << F("blocks", "ucoord", {"query"}) >>),
    EP("la.merge",       "la",   "json", {"mut", "wleg"}, LabelList(3), <<>>),
    EP("la.split",       "la",   "bin",  {"mut", "wleg"}, RLEPayload, << F("label", "ulabel", {"l0rej"}) >>),
    EP("la.splitcoarse", "la",   "bin",  {"mut", "wleg"}, RLEPayload, << F("label", "ulabel", {"l0rej"}) >>),
    EP("la.sparsevol",   "la",   "none", {"wleg"}, <<>>, << F("label", "ulabel", {"l0rej"}) >>),
    \* label counts fed by the annotation sync
    EP("lann.elements",  "lann", "json", {"mut", "wleg"}, AnnElements, <<>>),
    EP("lann.delete",    "lann", "none", {"mut", "wleg"}, <<>>, << F("point", "ucoord", {}) >>),
    EP("lsz.count",      "lsz",  "none", {"wleg"}, <<>>, << F("label", "ulabel", {}), F("type", "uenum", {}) >>),
    EP("lsz.counts",     "lsz",  "json", {"wleg"}, LabelList(2), << F("type", "uenum", {}) >>),
    EP("lsz.top",        "lsz",  "none", {"wleg"}, <<>>, << F("n", "uint", {}), F("type", "uenum", {}) >>),
    EP("lsz.threshold",  "lsz",  "none", {"wleg"}, <<>>, << F("t", "uint", {}), F("type", "uenum", {}), F("offset", "uint", {"query"}), F("n", "uint", {"query"}) >>),
    EP("lsz.reload",     "lsz",  "none", {"mut", "wleg"}, <<>>, <<>>),
    EP("lsz.sync",       "lsz",  "json", {"mut", "persist", "emptyok", "wleg"}, SyncObj, <<>>),
    \* blobs per supervoxel
    EP("tsv.load",       "tsv",  "bin",  {"mut", "emptyok", "wleg"}, TarFile, <<>>),
    EP("tsv.supervoxel", "tsv",  "bin",  {"mut", "emptyok", "wleg"}, << F("value", "rest", {"midok", "cutok"}) >>, << F("id", "ulabel", {"l0rej"}) >>),
    EP("tsv.getsupervoxel", "tsv", "none", {"wleg"}, <<>>, << F("id", "ulabel", {"l0rej"}) >>),
    EP("tsv.tarfile",    "tsv",  "none", {"wleg"}, <<>>, << F("label", "ulabel", {"l0rej"}) >>),
    EP("tsv.missing",    "tsv",  "none", {"wleg"}, <<>>, << F("label", "ulabel", {"l0rej"}) >>),
    EP("tsv.exists",     "tsv",  "json", {"wleg"}, LabelList(2), <<>>),
    \* tiles
    EP("tiles.metadata", "tiles", "json", {"mut", "persist", "wleg"}, TileSpec, <<>>),
    EP("tiles.tile",     "tiles", "bin", {"mut", "emptyok", "wleg"}, << F("image", "rest", {"midok", "cutok"}) >>,
                                          << F("shape", "ushape", {}), F("scaling", "uint", {}), F("coord", "ucoord", {}) >>),
    EP("tiles.gettile",  "tiles", "none", {"wleg"}, <<>>, << F("shape", "ushape", {}), F("scaling", "uint", {}), F("coord", "ucoord", {}) >>),
    EP("tiles.tilekey",  "tiles", "none", {"wleg"}, <<>>, << F("shape", "ushape", {}), F("scaling", "uint", {}), F("coord", "ucoord", {}) >>),
    EP("tiles.getraw",   "tiles", "none", {"wleg"}, <<>>, << F("shape", "ushape", {}), F("size", "usize", {}), F("offset", "uoff", {}) >>),
    \* read-side format options (first world)
    EP("lm.getblocks.fmt", "lm", "none", {}, <<>>, << F("compression", "uenum", {"query"}), F("supervoxels", "uenum", {"query"}) >>),
    EP("lm.specificblocks.fmt", "lm", "none", {}, <<>>, << F("compression", "uenum", {"query"}), F("supervoxels", "uenum", {"query"}) >>),
    EP("lm.sparsevol.fmt", "lm", "none", {}, <<>>, << F("label", "ulabel", {"l0rej"}), F("format", "uenum", {"query"}),
                                                       F("minx", "uint", {"query"}), F("maxx", "uint", {"query"}), F("exact", "uenum", {"query"}) >>),
    EP("lm.getraw.fmt",  "lm",   "none", {}, <<>>, << F("compression", "uenum", {"query"}) >>),
    EP("lm.headsparsevol", "lm", "none", {}, <<>>, << F("label", "ulabel", {"l0rej"}) >>),
    EP("gray.getraw.fmt", "gray", "none", {}, <<>>, << F("format", "uenum", {"opt"}), F("compression", "uenum", {"query"}) >>),
    \* endpoints of the first-round datatypes that were not in the table
    EP("kv.delkey",      "kv",   "none", {"mut"}, <<>>, << F("key", "ukey", {}) >>),
    EP("kv.headkey",     "kv",   "none", {}, <<>>, << F("key", "ukey", {}) >>),
    EP("kv.getkeyvalues.pb", "kv", "bin", {"emptyok"}, PBKeys, <<>>),
    EP("kv.getkeyvalues.tar", "kv", "json", {}, KeyList, <<>>),
    \* (a schema is stored as it comes: a blob that the validator and other tools interpret later)
    EP("nj.schema",      "nj",   "json", {"mut", "emptyok", "freeform"}, NJSchema, << F("kind", "uenum", {}) >>),
    EP("nj.delkey",      "nj",   "none", {"mut"}, <<>>, << F("id", "ulabel", {}) >>),
    EP("nj.key.cond",    "nj",   "json", {"mut"}, NeuronJSON, << F("id", "ulabel", {}), F("conditionals", "ukey", {"query"}), F("replace", "uenum", {"query"}) >>),
    \* (answered for versions held in memory only: no positive control in the harness world)
    EP("nj.fieldtimes",  "nj",   "none", {"noctl"}, <<>>, <<>>),
    EP("ann.roi",        "ann",  "none", {}, <<>>, << F("roi", "ukey", {}) >>),
    EP("ann.scan",       "ann",  "none", {}, <<>>, << F("byCoord", "uenum", {"query"}), F("keysOnly", "uenum", {"query"}) >>),
    EP("ann.reload",     "ann",  "none", {"mut"}, <<>>, << F("check", "uenum", {"query"}), F("inmemory", "uenum", {"query"}) >>),
    EP("ann.labels",     "ann",  "json", {"mut"}, AnnLabels, <<>>),
    EP("roi.delete",     "roi",  "none", {"mut"}, <<>>, <<>>),
    EP("roi.partition.opt", "roi", "none", {}, <<>>, << F("batchsize", "uint", {"zerorej", "query"}), F("optimized", "uenum", {"query"}) >>),
    EP("lm.existinglabels", "lm", "none", {}, <<>>, <<>>),
    EP("lm.mapstats",    "lm",   "none", {}, <<>>, <<>>),
    EP("lm.indicescompressed", "lm", "json", {}, LabelList(2), <<>>),
    EP("lm.mutations",   "lm",   "none", {}, <<>>, << F("userid", "ukey", {"query"}) >>)
>>

\* (rows of the growth round carry the flag "g2": the quick tier samples their cases)
Endpoints == BaseEndpoints \o [i \in 1..Len(GrowthEndpoints) |-> [GrowthEndpoints[i] EXCEPT !.f = @ \cup {"g2"}]]

EPIndex == 1..Len(Endpoints)

(***************************************************************************)
(* Mutation classes per field kind.                                         *)
(***************************************************************************)
BinKinds  == {"hdr", "coord", "dim", "len", "cnt", "idx", "lbl", "run", "blob", "rest", "gz", "tag", "vint"}
JSONKinds == {"jint", "jstr", "jlist", "jobj", "jkey"}
ArgKinds  == {"auuid", "aname", "atype", "aword", "apoint", "afile", "aint", "akey", "ainput"}
URLKinds  == {"usize", "uoff", "ucoord", "ulabel", "uint", "ukey", "ushape", "uenum"} \cup ArgKinds

ClassesOf(fld) ==
    LET k == fld.k IN
    (IF k \in BinKinds THEN {"trunc_before", "trunc_mid", "flip"} ELSE {})
    \cup (IF k \in {"len", "cnt", "dim"} THEN {"inflate", "zero"} ELSE {})
    \cup (IF k = "idx" THEN {"idx_out"} ELSE {})
    \cup (IF k \in {"coord", "lbl", "run", "vint"} THEN {"extreme"} ELSE {})
    \cup (IF k \in JSONKinds THEN {"jtrunc", "jtype"} ELSE {})
    \cup (IF k = "jint" THEN {"jneg", "jhuge", "jfrac"} ELSE {})
    \cup (IF k = "jstr" /\ "enum" \in fld.f THEN {"jenum"} ELSE {})
    \cup (IF k = "jstr" /\ "triple" \in fld.f THEN {"cfgnonnum", "cfgzero", "cfgneg", "cfghuge"} ELSE {})
    \cup (IF k \in {"jlist", "jobj"} THEN {"jempty"} ELSE {})
    \cup (IF k = "jkey" THEN {"jkeybad"} ELSE {})
    \* growth round: a fixed-arity list with one member fewer / more; numbers and names inside strings
    \cup (IF k = "jlist" /\ "fixed" \in fld.f THEN {"jshort", "jlong"} ELSE {})
    \cup (IF k = "jstr" /\ "num" \in fld.f THEN {"numnonnum", "numzero", "numneg", "numhuge"} ELSE {})
    \cup (IF k = "jstr" /\ "syncnames" \in fld.f THEN {"syncself", "syncmissing", "syncwrongtype", "syncdup", "syncmulti", "syncempty"} ELSE {})
    \cup (IF k = "jstr" /\ "uuidref" \in fld.f THEN {"refunknown", "refopen", "refdup"} ELSE {})
    \cup (IF k = "uenum" THEN {"unknownval", "long"} ELSE {})
    \cup (IF k \in {"usize", "uoff", "ucoord"} THEN {"nonnum", "neg", "overflow", "short", "zero"} ELSE {})
    \* (nohuge: the cost of answering grows with the value; large values are legitimately expensive)
    \cup (IF k \in {"usize", "uoff", "ucoord"} /\ "nohuge" \notin fld.f THEN {"huge"} ELSE {})
    \cup (IF k = "ulabel" THEN {"nonnum", "neg", "overflow", "label0", "labelmax"} ELSE {})
    \cup (IF k = "uint" THEN {"nonnum", "neg", "huge", "overflow", "zero"} ELSE {})
    \cup (IF k = "ukey" THEN {"long", "weird"} ELSE {})
    \cup (IF k = "ushape" THEN {"nonnum", "short"} ELSE {})
    \* arguments of RPC commands
    \cup (IF k \in {"auuid", "aname", "atype", "aword"} THEN {"unknown", "weird", "long"} ELSE {})
    \cup (IF k = "apoint" THEN {"nonnum", "short", "neg", "huge", "overflow"} ELSE {})
    \cup (IF k = "aint" THEN {"nonnum", "neg", "huge", "overflow", "zero"} ELSE {})
    \cup (IF k = "akey" THEN {"long", "weird"} ELSE {})
    \cup (IF k = "afile" THEN {"nofile", "isdir", "emptyfile", "garbagefile"} ELSE {})
    \cup (IF k = "ainput" THEN {"garbage", "big"} ELSE {})
    \* the parameter is left out altogether (an empty path segment, or an empty query value)
    \cup (IF k \in URLKinds THEN {"missing"} ELSE {})

\* classes that apply to a whole body (position 0)
BodyClasses(ep) ==
    IF ep.body = "bin" THEN {"empty", "extend", "flipany", "garbage"}
    ELSE IF ep.body = "json" THEN {"empty", "jflip", "jgarbage", "jdeep"}
    ELSE {}

(***************************************************************************)
(* The oracle.                                                              *)
(***************************************************************************)
ExpectField(ep, cls, fld) ==
    CASE "late" \in fld.f      -> "any"
      [] cls = "trunc_before" -> IF "cutok" \in fld.f THEN "any" ELSE "reject"
      [] cls = "trunc_mid"    -> IF "midok" \in fld.f THEN "any" ELSE "reject"
      [] cls = "inflate"      -> "reject"
      [] cls = "idx_out"      -> "reject"
      [] cls = "zero"         -> IF "zerorej" \in fld.f THEN "reject" ELSE "any"
      [] cls \in {"flip", "extreme"} -> "any"
      [] cls = "jtrunc"       -> IF "freeform" \in ep.f THEN "any" ELSE "reject"
      [] cls = "jtype"        -> IF "typed" \in fld.f /\ "freeform" \notin ep.f THEN "reject" ELSE "any"
      [] cls = "jneg"         -> IF "u64" \in fld.f THEN "reject" ELSE "any"
      [] cls \in {"jhuge", "jfrac"} -> IF fld.f \cap {"u64", "i32"} # {} THEN "reject" ELSE "any"
      [] cls = "jenum"        -> "reject"
      [] cls = "jempty"       -> "any"
      [] cls = "jkeybad"      -> "reject"
      [] cls = "cfgnonnum"    -> "reject"
      \* a list of the wrong arity may be accepted or refused, but must do no harm (follow-ups)
      [] cls \in {"jshort", "jlong"} -> "any"
      [] cls = "numnonnum"    -> "reject"
      [] cls \in {"numzero", "numneg", "numhuge"} -> "any"
      \* an instance that does not exist cannot be synced with; odd but existing partners may be refused or not
      [] cls = "syncmissing"  -> "reject"
      [] cls \in {"syncself", "syncwrongtype", "syncdup", "syncmulti", "syncempty"} -> "any"
      \* a parent of a merge must be an existing, committed version
      [] cls \in {"refunknown", "refopen"} -> "reject"
      [] cls = "refdup"       -> "any"
      [] cls = "unknownval"   -> "any"
      [] cls \in {"cfgzero", "cfgneg", "cfghuge"} -> "any"
      [] cls = "nonnum"       -> "reject"
      [] cls = "overflow"     -> "reject"
      [] cls = "short"        -> "reject"
      \* a label is unsigned: "-1" is not a label; negative offsets and points are ordinary, and a
      \* negative size or count is at worst an empty request (no rejection is demanded)
      [] cls = "neg"          -> IF fld.k = "ulabel" \/ "unsigned" \in fld.f THEN "reject" ELSE "any"
      [] cls = "huge"         -> IF "hugerej" \in fld.f THEN "reject" ELSE "any"
      [] cls = "label0"       -> IF "l0rej" \in fld.f THEN "reject" ELSE "any"
      [] cls = "labelmax"     -> "any"
      \* an empty key bounds a key range from below; an optional query option may be left out
      [] cls = "missing"      -> IF fld.f \cap {"query", "opt", "newname"} # {} \/ fld.k = "ukey" THEN "any" ELSE "reject"
      \* an argument that must name an existing version, instance, datatype or command, and does not
      [] cls \in {"unknown", "long", "weird"} /\ fld.k \in {"auuid", "aname", "atype", "aword"} ->
                                 IF "exists" \in fld.f \/ fld.k = "aword" THEN "reject" ELSE "any"
      [] cls \in {"long", "weird"} -> "any"
      \* a file that does not exist is refused when the command opens it before answering
      [] cls = "nofile"       -> IF "sync" \in fld.f THEN "reject" ELSE "any"
      [] OTHER                -> "any"

ExpectBody(ep, cls) ==
    CASE cls = "empty"   -> IF "emptyok" \in ep.f THEN "any" ELSE "reject"
      [] cls = "extend"  -> IF "extendrej" \in ep.f THEN "reject" ELSE "any"
      [] cls = "jgarbage" -> IF "freeform" \in ep.f THEN "any" ELSE "reject"
      [] OTHER           -> "any"

\* a hostile case: endpoint index, part ("body" | "url" | "whole" | "geom" | "req"), position, class

\* block geometries that differ from the instance's BlockSize (32^3 in the harness worlds)
GeomShapes == << "cube16", "cube64", "aniso", "solid16", "solid64" >>

\* request-level classes.  Every POST / PUT / DELETE to a versioned instance at a committed version is
\* refused and changes nothing; a version that does not exist cannot be addressed at all
ReqClasses(ep) ==
    IF "rpc" \in ep.f THEN {}
    \* (noverb: the URL of the row addresses a control key of the harness: a changing verb would
    \* legitimately change what the snapshot treats as never named)
    ELSE (IF "noverb" \in ep.f THEN {} ELSE {"verb_put", "verb_head", "verb_options", "verb_delete", "verb_patch"})
         \cup (IF "dag" \notin ep.f THEN {"noversion", "throttle"} ELSE {})
         \cup (IF "dag" \notin ep.f /\ "mut" \in ep.f THEN {"locked"} ELSE {})

ExpectReq(ep, cls) ==
    CASE cls \in {"locked", "noversion"} -> "reject"
      [] OTHER -> "any"

CasesOf(e) ==
    LET ep == Endpoints[e] IN
    {[e |-> e, part |-> "body", pos |-> p, cls |-> c] : <<p, c>> \in
        {pc \in (1..Len(ep.fields)) \X {"trunc_before", "trunc_mid", "flip", "inflate", "zero", "idx_out", "extreme",
                                         "jtrunc", "jtype", "jneg", "jhuge", "jfrac", "jenum", "jempty", "jkeybad",
                                         "cfgnonnum", "cfgzero", "cfgneg", "cfghuge",
                                         "jshort", "jlong", "numnonnum", "numzero", "numneg", "numhuge",
                                         "syncself", "syncmissing", "syncwrongtype", "syncdup", "syncmulti", "syncempty",
                                         "refunknown", "refopen", "refdup"} :
            pc[2] \in ClassesOf(ep.fields[pc[1]])
            \* cutting in front of the very first field is the "empty" class
            /\ ~(pc[1] = 1 /\ pc[2] \in {"trunc_before", "jtrunc"})}}
    \cup {[e |-> e, part |-> "url", pos |-> p, cls |-> c] : <<p, c>> \in
        {pc \in (1..Len(ep.url)) \X {"nonnum", "neg", "huge", "overflow", "short", "zero", "label0", "labelmax", "long", "weird", "missing",
                                      "unknown", "nofile", "isdir", "emptyfile", "garbagefile", "garbage", "big", "unknownval"} :
            pc[2] \in ClassesOf(ep.url[pc[1]])}}
    \cup {[e |-> e, part |-> "whole", pos |-> 0, cls |-> c] : c \in BodyClasses(ep)}
    \* a WELL-FORMED label block of another geometry than the instance's (position = index into GeomShapes)
    \cup (IF "blocks" \in ep.f THEN {[e |-> e, part |-> "geom", pos |-> i, cls |-> GeomShapes[i]] : i \in 1..Len(GeomShapes)} ELSE {})
    \* the request as a whole: another verb, a committed or unknown target version, the throttle option
    \cup {[e |-> e, part |-> "req", pos |-> 0, cls |-> c] : c \in ReqClasses(ep)}

AllCases == UNION {CasesOf(e) : e \in EPIndex}

Expect(c) ==
    LET ep == Endpoints[c.e] IN
    IF c.part = "body" THEN ExpectField(ep, c.cls, ep.fields[c.pos])
    ELSE IF c.part = "url" THEN ExpectField(ep, c.cls, ep.url[c.pos])
    ELSE IF c.part = "geom" THEN "reject"
    ELSE IF c.part = "req" THEN ExpectReq(ep, c.cls)
    ELSE ExpectBody(ep, c.cls)

Relabelling == {"lm.split", "lm.splitsv", "lm.merge", "lm.cleave", "lm.renumber", "lm.mappings"}

\* scopes a request to the endpoint may change once it is a mutating request (requests to labelmap
\* "lm" reach the synced annotation, block writes to the labelblk "lb" reach the labelvol "lv" and
\* back, element posts reach the label counts "lsz")
ScopeNames(e) ==
    LET ep == Endpoints[e] IN
    IF ep.scope = "lm" THEN
        {"lm", "ann"} \cup (IF ep.name \in Relabelling THEN {"lmorig"} ELSE {})
                      \cup (IF "rpc" \in ep.f \/ "persist" \in ep.f THEN {"meta"} ELSE {})   \* commands are logged in the node log
    ELSE IF ep.scope = "newinst" THEN {"newinst", "meta"}   \* a new instance is logged in the repo log
    ELSE IF "rpc" \in ep.f THEN {ep.scope, "meta"}   \* commands are logged in the node log
    \* (a block write to the labelblk reaches the labelvol and the annotation synced with both; a split
    \* or merge of the labelvol relabels the labelblk; element posts reach the label counts)
    ELSE IF ep.scope \in {"lb", "lv"} THEN {"lb", "lv", "lann", "lsz"} \cup (IF "persist" \in ep.f THEN {"meta"} ELSE {})
    ELSE IF ep.scope = "lann" THEN {"lann", "lsz"}
    ELSE IF ep.scope = "srv" THEN {}
    \* saving instance metadata is recorded in the repository (log, time of update)
    ELSE IF "persist" \in ep.f THEN {ep.scope, "meta"}
    ELSE {ep.scope}

MayChange(e) == IF "mut" \notin Endpoints[e].f THEN {} ELSE ScopeNames(e)

Allowed(c) == IF Expect(c) = "reject" THEN {"4xx"} ELSE {"2xx", "4xx"}

\* a request-level case that turns the request into a mutating one: a changing verb addresses the
\* resource of the endpoint (DELETE of a key names the key)
\* (the handlers of several datatypes treat every verb other than GET as a POST)
VerbMutates(c) == c.part = "req" /\ c.cls \in {"verb_put", "verb_delete", "verb_patch", "verb_options"}
\* a request-level case that can reach nothing: the version is committed or does not exist
Unreachable(c) == c.part = "req" /\ c.cls \in {"locked", "noversion"}
Mutating(c) == IF c.part = "wellformed" THEN "mut" \in Endpoints[c.e].f
               ELSE ~Unreachable(c) /\ ("mut" \in Endpoints[c.e].f \/ VerbMutates(c))

\* what one hostile case names: a mutated URL, a mutated block / span coordinate or a
\* randomised body of a request to "lm" may point the request at the original blocks
MayChangeCase(c) ==
    LET ep == Endpoints[c.e] IN
    IF Unreachable(c) THEN {}
    ELSE IF VerbMutates(c) THEN ScopeNames(c.e) \cup (IF ep.scope = "lm" THEN {"lmorig"} ELSE {})
    ELSE
    MayChange(c.e) \cup
    (IF "mut" \in ep.f /\ ep.scope = "lm" /\
        (c.part \in {"url", "whole", "geom"} \/ (c.part = "body" /\ ep.fields[c.pos].k = "coord"))
     THEN {"lmorig"} ELSE {})

(***************************************************************************)
(* Follow-up requests: after an ACCEPTED mutating request (hostile or not)  *)
(* the well-formed requests below are sent to the same version, one by one. *)
(* They read the touched region through every format and mutate it again    *)
(* (a stored oddity must not turn a later well-formed request into a server *)
(* error).  The harness implements exactly these names, in this order.      *)
(***************************************************************************)
FollowLM == << "lm.fu.info", "lm.fu.metadata", "lm.fu.index11", "lm.fu.raw", "lm.fu.rawsv", "lm.fu.blocks", "lm.fu.blocks.unc",
               "lm.fu.blocks.lz4sv", "lm.fu.specific.gzip", "lm.fu.sparsevol11", "lm.fu.sparsevol1.blocks",
               "lm.fu.sparsevol1.srles", "lm.fu.sizes", "lm.fu.label", "lm.fu.maxlabel", "lm.fu.mappings",
               "lm.fu.rawpost", "lm.fu.rawpost.unaligned", "lm.fu.blockspost", "lm.fu.merge.touched", "lm.fu.merge",
               "lm.fu.cleave", "lm.fu.splitsv", "lm.fu.split", "lm.fu.raw" >>
FollowUps(scope) ==
    CASE scope \in {"lm", "lmorig"} -> FollowLM
      [] scope = "lmi"  -> << "lmi.fu.rawsv", "lmi.fu.blocks", "lmi.fu.rawpost", "lmi.fu.ingest", "lmi.fu.rawsv" >>
      [] scope = "ann"  -> << "ann.fu.post", "ann.fu.move", "ann.fu.delete", "ann.fu.label1", "ann.fu.tag", "ann.fu.elements",
                              "ann.fu.all", "ann.fu.blocks", "ann.fu.lmwrite", "ann.fu.lmmerge", "ann.fu.label1" >>
      [] scope = "kv"   -> << "kv.fu.post", "kv.fu.get", "kv.fu.keys", "kv.fu.range", "kv.fu.keyvalues", "kv.fu.delete" >>
      [] scope = "nj"   -> << "nj.fu.post", "nj.fu.get", "nj.fu.all", "nj.fu.query", "nj.fu.fields", "nj.fu.keys", "nj.fu.delete" >>
      [] scope = "roi"  -> << "roi.fu.get", "roi.fu.ptquery", "roi.fu.mask", "roi.fu.partition", "roi.fu.post", "roi.fu.delete" >>
      [] scope = "gray" -> << "gray.fu.info", "gray.fu.metadata", "gray.fu.get", "gray.fu.blocks", "gray.fu.slice", "gray.fu.iso",
                              "gray.fu.post", "gray.fu.get" >>
      [] scope = "newinst" -> << "newinst.fu.info", "newinst.fu.rawpost", "newinst.fu.rawget", "newinst.fu.label", "newinst.fu.sparsevol" >>
      [] scope = "meta" -> << "meta.fu.repoinfo", "meta.fu.nodelog", "meta.fu.status" >>
      [] scope = "srv"  -> << "srv.fu.info", "srv.fu.throttled", "srv.fu.kv" >>
      [] scope = "lms"  -> << "lms.fu.raw0", "lms.fu.raw1", "lms.fu.raw2", "lms.fu.blocks1", "lms.fu.specific2", "lms.fu.sparsevol",
                              "lms.fu.sparsevol1", "lms.fu.rawpost", "lms.fu.blockspost.downres", "lms.fu.merge", "lms.fu.raw1" >>
      [] scope = "lb"   -> << "lb.fu.info", "lb.fu.metadata", "lb.fu.get", "lb.fu.label", "lb.fu.blocks", "lb.fu.post", "lb.fu.lvsparsevol", "lb.fu.get" >>
      [] scope = "lv"   -> << "lv.fu.sparsevol1", "lv.fu.sparsevol5", "lv.fu.coarse", "lv.fu.bypoint", "lv.fu.lbget", "lv.fu.merge", "lv.fu.split", "lv.fu.sparsevol1" >>
      [] scope = "la"   -> << "la.fu.get", "la.fu.blocks", "la.fu.specific", "la.fu.sparsevol1", "la.fu.coarse", "la.fu.post", "la.fu.merge", "la.fu.split", "la.fu.get" >>
      [] scope = "lann" -> << "lann.fu.post", "lann.fu.label", "lann.fu.count", "lann.fu.top", "lann.fu.delete", "lann.fu.count" >>
      [] scope = "lsz"  -> << "lann.fu.post", "lann.fu.count", "lann.fu.top", "lsz.fu.threshold", "lann.fu.delete", "lann.fu.count" >>
      [] scope = "tsv"  -> << "tsv.fu.get", "tsv.fu.tarfile", "tsv.fu.missing", "tsv.fu.exists", "tsv.fu.post", "tsv.fu.get" >>
      [] scope = "tiles" -> << "tiles.fu.metadata", "tiles.fu.tile", "tiles.fu.tile1", "tiles.fu.raw", "tiles.fu.post", "tiles.fu.tile" >>
      [] scope = "g16"  -> << "g16.fu.info", "g16.fu.get", "g16.fu.blocks", "g16.fu.slice", "g16.fu.post", "g16.fu.get" >>
      [] scope = "rgba" -> << "rgba.fu.info", "rgba.fu.get", "rgba.fu.blocks", "rgba.fu.slice", "rgba.fu.post", "rgba.fu.get" >>
      [] OTHER -> << >>
FollowOf(c) == FollowUps(Endpoints[c.e].scope)

(***************************************************************************)
(* PART 1: the Gate state machine.                                          *)
(***************************************************************************)
VARIABLES phase,    \* "idle" | "sent" | "settled"
          cur,      \* the hostile case in flight, or NoCase; well-formed requests are WF(e)
          resp,     \* response class of the request in flight
          alive,    \* the process
          dirty,    \* scopes changed since the last snapshot
          fu,       \* number of follow-up requests answered
          fresp     \* response class of the last follow-up
vars == <<phase, cur, resp, alive, dirty, fu, fresp>>

NoCase == [e |-> 0, part |-> "none", pos |-> 0, cls |-> "none"]
WF(e)  == [e |-> e, part |-> "wellformed", pos |-> 0, cls |-> "none"]
Requests == AllCases \cup {WF(e) : e \in EPIndex}

AllowedResp(c) == IF c.part = "wellformed" THEN {"2xx", "4xx"} ELSE Allowed(c)
Names(c) == IF c.part = "wellformed" THEN MayChange(c.e) ELSE MayChangeCase(c)

Init == phase = "idle" /\ cur = NoCase /\ resp = "none" /\ alive = TRUE /\ dirty = {} /\ fu = 0 /\ fresp = "none"

Send(c) == /\ phase = "idle" /\ alive
           /\ phase' = "sent" /\ cur' = c
           /\ resp' \in AllowedResp(c)
           /\ dirty' \in SUBSET Names(c)
           /\ UNCHANGED <<alive, fu, fresp>>
\* background work started by the request finishes: it may touch the named scopes only
Settle == /\ phase = "sent"
          /\ phase' = "settled"
          /\ \E d \in SUBSET Names(cur) : dirty' = dirty \cup d
          /\ UNCHANGED <<cur, resp, alive, fu, fresp>>
\* an accepted mutating request is followed up: the snapshot has been compared (dirty is judged and
\* forgotten), then each follow-up is answered - there is no server-error class and no way to die
Owed(c, r) == IF r = "2xx" /\ Mutating(c) THEN Len(FollowOf(c)) ELSE 0
Follow == /\ phase = "settled" /\ alive /\ fu < Owed(cur, resp)
          /\ fu' = fu + 1 /\ fresp' \in {"2xx", "4xx"}
          /\ dirty' = {}
          /\ UNCHANGED <<phase, cur, resp, alive>>
\* liveness probe answered and snapshot taken
Probe == /\ phase = "settled" /\ alive /\ fu = Owed(cur, resp)
         /\ phase' = "idle" /\ cur' = NoCase /\ resp' = "none" /\ dirty' = {} /\ fu' = 0 /\ fresp' = "none"
         /\ UNCHANGED alive

\* (the guard is repeated in front of the quantifier so that TLC does not walk through every request
\* of the table in states in which none can be sent)
Next == (phase = "idle" /\ \E c \in Requests : Send(c)) \/ Settle \/ Follow \/ Probe
Spec == Init /\ [][Next]_vars

TypeOK == /\ phase \in {"idle", "sent", "settled"}
          /\ resp \in {"none", "2xx", "4xx"}
          /\ alive \in BOOLEAN
          /\ dirty \subseteq Scopes
          /\ fu \in Nat /\ fresp \in {"none", "2xx", "4xx"}

\* "No request can terminate or wedge the server process; later requests are still served."
Inv_C20_Alive == alive /\ ENABLED Next
\* "...never answered with an internal error": there is no 5xx class in the design
Inv_C20_NoServerError == resp \in {"none", "2xx", "4xx"} /\ fresp \in {"none", "2xx", "4xx"}
\* "A request whose payload is malformed ... is answered with a client error"
Inv_C20_MalformedRejected ==
    (phase # "idle" /\ cur.part \notin {"wellformed", "none"} /\ Expect(cur) = "reject") => resp = "4xx"
\* "...and leaves everything stored under keys or blocks it did not name reading back as before"
Inv_C20_Harmless == phase # "idle" => dirty \subseteq Names(cur)
Inv_C20_ReadOnlyHarmless == (phase # "idle" /\ ~Mutating(cur)) => dirty = {}
\* follow-ups are owed to accepted mutations only, and a refused request owes none
Inv_C20_FollowUps == (phase # "idle" /\ fu > 0) => (resp = "2xx" /\ Mutating(cur) /\ fu <= Len(FollowOf(cur)))

(***************************************************************************)
(* Table-level claims (sanity of the decision table itself).                *)
(***************************************************************************)
TableClaims ==
    /\ \A e \in EPIndex : Endpoints[e].scope \in Scopes
    /\ \A e \in EPIndex : \A i \in 1..Len(Endpoints[e].fields) :
            Endpoints[e].fields[i].k \in (IF Endpoints[e].body = "json" THEN JSONKinds ELSE BinKinds)
    /\ \A e \in EPIndex : \A i \in 1..Len(Endpoints[e].url) : Endpoints[e].url[i].k \in URLKinds
    /\ \A e \in EPIndex : Endpoints[e].body = "none" => Endpoints[e].fields = <<>>
    \* every endpoint has at least one hostile case that must be rejected or one URL case
    /\ \A e \in EPIndex : CasesOf(e) # {}
    \* a request that names nothing may change nothing
    /\ \A c \in AllCases : ~Mutating(c) => MayChangeCase(c) = {}
    /\ \A c \in AllCases : ~Unreachable(c) => MayChange(c.e) \subseteq MayChangeCase(c)
    \* a row that is not flagged "mut" owes no follow-ups unless a verb made it mutating
    /\ \A c \in AllCases : Unreachable(c) => Expect(c) = "reject"
    \* names are unique
    /\ \A a, b \in EPIndex : Endpoints[a].name = Endpoints[b].name => a = b

(***************************************************************************)
(* PART 3 - tables of WELL-FORMED requests whose handlers take different    *)
(* paths depending on how the parts of one request relate to each other and *)
(* to the stored state.  Every case must be answered without a server       *)
(* error; cases inside the documented format must be accepted ("2xx").      *)
(*                                                                          *)
(* (a) annotation element posts: two positions of ONE block; each is absent *)
(*     or stored with a tag set before the request; the request posts one   *)
(*     or both with a new tag set (so an element of the batch may drop a    *)
(*     tag that another element of the same batch adds).  TagView is the    *)
(*     tag index the property C13 talks about; here only "accepted" counts. *)
(* (b) neuron annotation queries: kind of the stored field value x kind of  *)
(*     the query value.                                                     *)
(***************************************************************************)
AnnTags   == {"t1", "t2"}
ElemStates == {[p |-> FALSE, t |-> {}]} \cup {[p |-> TRUE, t |-> ts] : ts \in SUBSET AnnTags}
AnnCases  == {c \in [b1 : ElemStates, b2 : ElemStates, p1 : ElemStates, p2 : ElemStates] : c.p1.p \/ c.p2.p}
AnnAfter(c, i) == IF i = 1 THEN (IF c.p1.p THEN c.p1 ELSE c.b1) ELSE (IF c.p2.p THEN c.p2 ELSE c.b2)
TagView(c, t) == {i \in 1..2 : AnnAfter(c, i).p /\ t \in AnnAfter(c, i).t}
\* the tag sets of the batch change in opposite directions for some tag
AnnCrossing(c) == c.p1.p /\ c.p2.p /\ c.b1.p /\ c.b2.p /\
                  \E t \in AnnTags : (t \in c.p1.t /\ t \notin c.b1.t /\ t \in c.b2.t /\ t \notin c.p2.t)
                                   \/ (t \in c.p2.t /\ t \notin c.b2.t /\ t \in c.b1.t /\ t \notin c.p1.t)

StoredKinds == {"str", "int", "float", "bool", "liststr", "listint", "listmixed", "obj", "absent"}
QueryKinds  == {"str", "int", "float", "bool", "regex", "exists0", "exists1", "liststr", "listint", "listfloat",
                "listmixed", "listregex", "emptylist", "null", "obj"}
\* the documented query values: a desired value, a regular expression, a field-existence test
DocumentedQuery == {"str", "int", "float", "bool", "regex", "exists0", "exists1"}
NJQueryCases == StoredKinds \X QueryKinds
NJExpect(c) == IF c[2] \in DocumentedQuery THEN "2xx" ELSE "any"

WellFormedClaims ==
    /\ \A c \in AnnCases : \A t \in AnnTags : TagView(c, t) \subseteq 1..2
    /\ \E c \in AnnCases : AnnCrossing(c)
    /\ \A c \in NJQueryCases : NJExpect(c) \in {"2xx", "any"}

ASSUME TableClaimsHold == TableClaims
ASSUME WellFormedClaimsHold == WellFormedClaims

(***************************************************************************)
(* The printed table (once, from the initial state).                        *)
(***************************************************************************)
Emit ==
    (phase = "idle") =>
        PrintT(ToJson([endpoints |-> [e \in EPIndex |->
                          [name |-> Endpoints[e].name, scope |-> Endpoints[e].scope, body |-> Endpoints[e].body,
                           flags |-> Endpoints[e].f,
                           fields |-> [i \in 1..Len(Endpoints[e].fields) |->
                                [n |-> Endpoints[e].fields[i].n, k |-> Endpoints[e].fields[i].k, f |-> Endpoints[e].fields[i].f]],
                           url |-> [i \in 1..Len(Endpoints[e].url) |->
                                [n |-> Endpoints[e].url[i].n, k |-> Endpoints[e].url[i].k, f |-> Endpoints[e].url[i].f]],
                           maychange |-> MayChange(e),
                           followups |-> FollowUps(Endpoints[e].scope)]],
                       cases |-> {[e |-> c.e, part |-> c.part, pos |-> c.pos, cls |-> c.cls,
                                   expect |-> Expect(c), allowed |-> Allowed(c), maychange |-> MayChangeCase(c),
                                   mutating |-> Mutating(c)] : c \in AllCases},
                       anncases |-> {[b1 |-> c.b1, b2 |-> c.b2, p1 |-> c.p1, p2 |-> c.p2, crossing |-> AnnCrossing(c),
                                      view |-> [t \in AnnTags |-> TagView(c, t)]] : c \in AnnCases},
                       njcases |-> {[stored |-> c[1], query |-> c[2], expect |-> NJExpect(c)] : c \in NJQueryCases}]))
=============================================================================
