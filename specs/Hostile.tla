------------------------------ MODULE Hostile ------------------------------
(***************************************************************************)
(* Gate / Hostile: requests, response classes, liveness (property C20).    *)
(*                                                                         *)
(* PART 1 - the request protocol ("Gate").                                 *)
(* The server is a process that is ALIVE, holds data partitioned into      *)
(* SCOPES (one per instance group; "what a request names" is a set of      *)
(* scopes) and answers every request with a response class.  A request is  *)
(* either well formed or a HOSTILE CASE = (endpoint, mutation class,       *)
(* structural position).  The intended design:                             *)
(*   - there is no transition that ends or wedges the process;             *)
(*   - there is no "5xx" response class at all: a well-formed request is   *)
(*     answered "2xx" or "4xx" (not found / refused), a malformed one      *)
(*     "4xx"; a mutated payload that is still inside the documented format *)
(*     may be answered either way;                                         *)
(*   - the request itself and the background work it leaves behind (index  *)
(*     aggregation, max-label update, sync messages) change only scopes    *)
(*     the request names.                                                  *)
(* The Inv_C20_* invariants are the sentences of the property; TLC checks  *)
(* them on every behaviour of Send / Settle / Probe over ALL hostile and    *)
(* well-formed cases of the tables below.                                  *)
(*                                                                         *)
(* PART 2 - the case tables (the decision table that the harness expands). *)
(* Every ingestion / mutation / query endpoint is described by the         *)
(* sequence of structural FIELDS of a valid payload (binary layouts,       *)
(* protobuf wire structure, JSON paths, URL parameters), each with a kind  *)
(* and flags.  ClassesOf(field) says which mutation classes apply to a     *)
(* field kind, Expect(endpoint, class, field) is the ORACLE: "reject" (the *)
(* mutated request is outside the documented format: must be answered 4xx) *)
(* or "any" (2xx or 4xx).  TLC enumerates the table exhaustively and       *)
(* prints it; the harness checks that its payload builders produce exactly *)
(* these field sequences, expands every case into seeded concrete byte     *)
(* strings, sends them to the real server and compares status class,       *)
(* liveness and the differential snapshot of unnamed scopes with what this *)
(* module allows.                                                          *)
(***************************************************************************)
EXTENDS Integers, Sequences, FiniteSets, TLC, Json

(***************************************************************************)
(* Scopes: instance groups of the harness world.  A request to labelmap     *)
(* "lm" may change "lm" and the annotation instance synced to it.           *)
(***************************************************************************)
\* "lmorig" is the voxel content of the blocks of "lm" that existed before the hostile requests:
\* requests that write blocks or raw volumes name other blocks and must leave it alone, requests
\* that relabel bodies (merge, cleave, split, renumber, mappings) name it.
Scopes == {"lm", "lmorig", "lmi", "ann", "kv", "nj", "roi", "gray", "newinst", "meta"}

F(n, k, fl) == [n |-> n, k |-> k, f |-> fl]

(***************************************************************************)
(* Field kinds.                                                             *)
(*  binary : hdr (format bytes)  coord (int32)  dim (uint32 grid dimension) *)
(*           len (byte length of a later field)  cnt (element count)        *)
(*           idx (index into a table)  lbl (uint64 label / id)              *)
(*           run (run length of a span)  blob (bytes whose size is declared *)
(*           elsewhere)  rest (bytes to the end, free form)                 *)
(*           gz (a compressed container seen from outside)                  *)
(*           tag (protobuf field tag)  vint (protobuf varint scalar)        *)
(*  JSON   : jint jstr jlist jobj jkey (object key with its own syntax)     *)
(*  URL    : usize uoff ucoord ulabel uint ukey ushape                      *)
(* Flags:  cutok  - cutting the payload right before the field leaves a     *)
(*                  payload of the documented format (record boundary)      *)
(*         midok  - so does cutting inside the field (free-form tail)       *)
(*         in     - the field lives inside a re-wrapped container (gzip     *)
(*                  body): truncation is applied to the body, which is then *)
(*                  compressed again with consistent outer lengths          *)
(*         zerorej- value 0 is outside the format                           *)
(*         typed  - the JSON value is decoded into a fixed type             *)
(*         u64 / i32 - numeric domain of a JSON number                      *)
(*         hugerej- a value near 2^31 is outside the format (dense raw      *)
(*                  volumes: the answer exceeds the documented server limit)*)
(*         l0rej  - label 0 is refused by the endpoint                      *)
(*         query  - the URL parameter is a query-string option (optional)   *)
(*         float  - the URL number is a real number                         *)
(*         nohuge - no "huge" class: answering costs as much as the value   *)
(*  RPC    : arguments of a command of the RPC path (server/rpc.go          *)
(*           handleCommand, the datatypes' DoRPC; flag "rpc" of the row):   *)
(*           auuid (version UUID)  aname (instance / store name)  atype     *)
(*           (datatype name)  aword (the command word)  apoint ("x,y,z")    *)
(*           afile (path of a file the server opens)  aint (number)  akey   *)
(*           (free-form word: key, user, branch, alias)  ainput (what the   *)
(*           client read from stdin)                                        *)
(* Flags:  exists - the argument must name something that exists            *)
(*         opt    - the argument may be left out                            *)
(*         sync   - the file is opened before the command is answered       *)
(*         unsigned - the number is parsed as unsigned                      *)
(*         late   - the argument is used after the command has been answered *)
(*                  ("Started ..."), or its error goes to the server log only *)
(*         newname- the argument is a name to be given (an empty name is one) *)
(***************************************************************************)

\* ---- binary layouts ------------------------------------------------------
\* one compressed label block inside a block stream: header, then the gzip body
BlockHdr(first) ==
    << F("bx", "coord", IF first THEN {} ELSE {"cutok"}), F("by", "coord", {}), F("bz", "coord", {}),
       F("nbytes", "len", {"zerorej"}), F("zbody", "gz", {}) >>
BlockBody ==
    << F("gx", "dim", {"in", "zerorej"}), F("gy", "dim", {"in", "zerorej"}), F("gz", "dim", {"in", "zerorej"}),
       F("nlabels", "cnt", {"in", "zerorej"}), F("labels", "lbl", {"in"}),
       F("nsb", "cnt", {"in"}), F("sbidx", "idx", {"in"}), F("sbvals", "blob", {"in"}) >>
SolidBody ==
    << F("gx", "dim", {"in", "zerorej"}), F("gy", "dim", {"in", "zerorej"}), F("gz", "dim", {"in", "zerorej"}),
       F("nlabels", "cnt", {"in", "zerorej"}), F("labels", "lbl", {"in"}) >>
\* stream of three blocks: two multi-label blocks and one solid block
BlockStream == BlockHdr(TRUE) \o BlockBody \o BlockHdr(FALSE) \o BlockBody \o BlockHdr(FALSE) \o SolidBody

\* binary sparse volume (split payloads): 8 header bytes, span count, spans
Span(first) == << F("x", "coord", IF first THEN {} ELSE {}), F("y", "coord", {}), F("z", "coord", {}), F("run", "run", {}) >>
RLEPayload == << F("enc", "hdr", {}), F("ndims", "hdr", {}), F("rundim", "hdr", {}), F("reserved", "hdr", {}),
                 F("nvoxels", "hdr", {}), F("nspans", "cnt", {}) >> \o Span(TRUE) \o Span(FALSE) \o Span(FALSE)

\* protobuf LabelIndex: blocks map entries (embedded messages with length prefixes), label, last_mutid
PBSVCount == << F("cnt.tag", "tag", {}), F("cnt.len", "len", {}), F("cnt.ktag", "tag", {}), F("cnt.key", "lbl", {}),
                F("cnt.vtag", "tag", {}), F("cnt.val", "vint", {}) >>
PBBlockEntry(cut) ==
    << F("blk.tag", "tag", IF cut THEN {"cutok"} ELSE {}), F("blk.len", "len", {}),
       F("blk.ktag", "tag", {}), F("blk.key", "vint", {}),
       F("blk.vtag", "tag", {}), F("blk.vlen", "len", {}) >> \o PBSVCount \o PBSVCount
\* top = the message is the whole payload: cutting at a field boundary leaves a shorter valid message;
\* nested in LabelIndices the enclosing length prefix makes every cut inconsistent
CutIf(top) == IF top THEN {"cutok"} ELSE {}
PBIndexTail(top) == << F("label.tag", "tag", CutIf(top)), F("label", "lbl", {}),
                       F("mutid.tag", "tag", CutIf(top)), F("mutid", "vint", {}),
                       F("user.tag", "tag", CutIf(top)), F("user.len", "len", {}), F("user", "blob", {}) >>
PBIndexMsg(top) == PBBlockEntry(FALSE) \o PBBlockEntry(top) \o PBIndexTail(top)
PBIndex   == PBIndexMsg(TRUE)
PBIndices == << F("idx.tag", "tag", {}), F("idx.len", "len", {}) >> \o PBIndexMsg(FALSE)
\* protobuf MappingOps: repeated MappingOp {mutid, mapped, repeated original (packed)}
PBMappingOp(first) ==
    << F("op.tag", "tag", IF first THEN {} ELSE {"cutok"}), F("op.len", "len", {}),
       F("mutid.tag", "tag", {}), F("mutid", "vint", {}),
       F("mapped.tag", "tag", {}), F("mapped", "lbl", {}),
       F("orig.tag", "tag", {}), F("orig.len", "len", {}), F("orig.1", "lbl", {}), F("orig.2", "lbl", {}) >>
PBMappings == PBMappingOp(TRUE) \o PBMappingOp(FALSE)
\* protobuf KeyValues: repeated KeyValue {key, value}
PBKeyValue(first) ==
    << F("kv.tag", "tag", IF first THEN {} ELSE {"cutok"}), F("kv.len", "len", {}),
       F("key.tag", "tag", {}), F("key.len", "len", {}), F("key", "blob", {}),
       F("val.tag", "tag", {}), F("val.len", "len", {}), F("val", "blob", {}) >>
PBKeyValues == PBKeyValue(TRUE) \o PBKeyValue(FALSE)

\* ---- JSON layouts (fields in document order; containers precede their members) ----
Pt(n, fl) == << F(n, "jlist", {"typed"}), F(n \o ".x", "jint", {"typed", "i32"} \cup fl),
                F(n \o ".y", "jint", {"typed", "i32"} \cup fl), F(n \o ".z", "jint", {"typed", "i32"} \cup fl) >>
Element ==
    << F("elem", "jobj", {"typed"}) >> \o Pt("Pos", {}) \o
    << F("Kind", "jstr", {"typed", "enum"}),
       F("Tags", "jlist", {"typed"}), F("Tags.1", "jstr", {"typed"}),
       F("Prop", "jobj", {"typed"}), F("Prop.conf", "jstr", {"typed"}),
       F("Rels", "jlist", {"typed"}), F("Rels.1", "jobj", {"typed"}), F("Rel", "jstr", {"typed", "enum"}) >> \o Pt("To", {})
AnnElements == << F("root", "jlist", {"typed"}) >> \o Element \o Element
AnnBlocks   == << F("root", "jobj", {"typed"}), F("blockkey", "jkey", {}), F("elems", "jlist", {"typed"}) >> \o Element
ROISpan == << F("span", "jlist", {"typed"}), F("span.z", "jint", {"typed", "i32"}), F("span.y", "jint", {"typed", "i32"}),
              F("span.x0", "jint", {"typed", "i32"}), F("span.x1", "jint", {"typed", "i32"}) >>
ROISpans == << F("root", "jlist", {"typed"}) >> \o ROISpan \o ROISpan
Points   == << F("root", "jlist", {"typed"}) >> \o Pt("pt1", {}) \o Pt("pt2", {})
LabelList(n) == << F("root", "jlist", {"typed"}) >> \o [i \in 1..n |-> F("label", "jint", {"typed", "u64"})]
NeuronJSON == << F("root", "jobj", {"typed"}), F("bodyid", "jint", {}), F("type", "jstr", {}), F("status", "jstr", {}),
                 F("soma", "jlist", {}), F("soma.x", "jint", {}), F("soma.y", "jint", {}), F("soma.z", "jint", {}),
                 F("syn", "jint", {}) >>
NeuronQuery == << F("root", "jobj", {"typed"}), F("type", "jstr", {}), F("syn", "jint", {}), F("status", "jlist", {}),
                  F("status.1", "jstr", {}) >>
KeyList   == << F("root", "jlist", {"typed"}), F("key", "jstr", {"typed"}), F("key", "jstr", {"typed"}) >>
TagsObj   == << F("root", "jobj", {"typed"}), F("owner", "jstr", {"typed"}), F("type", "jstr", {"typed"}) >>
CommitObj == << F("root", "jobj", {"typed"}), F("note", "jstr", {"typed"}), F("log", "jlist", {"typed"}), F("log.1", "jstr", {"typed"}) >>
BranchObj == << F("root", "jobj", {"typed"}), F("branch", "jstr", {"typed"}), F("note", "jstr", {"typed"}) >>
InstanceCfg == << F("root", "jobj", {"typed"}), F("typename", "jstr", {"typed", "enum"}), F("dataname", "jstr", {"typed"}),
                  F("BlockSize", "jstr", {"typed", "triple"}), F("VoxelSize", "jstr", {"typed", "triple"}) >>

\* ---- RPC argument layouts ----
NodeCmd == << F("uuid", "auuid", {"exists"}), F("data", "aname", {"exists"}), F("word", "aword", {}) >>
RepoCmd == << F("uuid", "auuid", {"exists"}), F("word", "aword", {}) >>

\* ---- URL parameter layouts ----
Vol3(hugerej) == << F("shape", "ushape", {}), F("size", "usize", IF hugerej THEN {"hugerej"} ELSE {}), F("offset", "uoff", {}) >>

(***************************************************************************)
(* Endpoints.  body: "bin" | "json" | "none"; scope: what the request       *)
(* names; flags: emptyok (an empty body is inside the format), extendrej    *)
(* (the body size is declared by the URL: extra bytes are outside it),      *)
(* mut (mutating request), wrap (the body is sent through a compression     *)
(* wrapper selected in the query string).                                   *)
(***************************************************************************)
EP(name, scope, body, fl, fields, url) ==
    [name |-> name, scope |-> scope, body |-> body, f |-> fl, fields |-> fields, url |-> url]

Endpoints == <<
    \* label data
    EP("lm.blocks",      "lm",   "bin",  {"mut", "emptyok"}, BlockStream, <<>>),
    EP("lmi.ingest",     "lmi",  "bin",  {"mut", "emptyok"}, BlockStream, <<>>),
    EP("lm.raw",         "lm",   "bin",  {"mut", "extendrej"}, << F("voxels", "blob", {}) >>, Vol3(TRUE)),
    EP("lm.rawgz",       "lm",   "bin",  {"mut", "extendrej"}, << F("zbody", "gz", {}), F("voxels", "blob", {"in"}) >>, <<>>),
    EP("gray.raw",       "gray", "bin",  {"mut", "extendrej"}, << F("voxels", "blob", {}) >>, Vol3(TRUE)),
    EP("lm.split",       "lm",   "bin",  {"mut"}, RLEPayload, << F("label", "ulabel", {"l0rej"}) >>),
    EP("lm.splitsv",     "lm",   "bin",  {"mut"}, RLEPayload, << F("label", "ulabel", {"l0rej"}) >>),
    EP("lm.index",       "lm",   "bin",  {"mut", "emptyok"}, PBIndex, << F("label", "ulabel", {"l0rej"}) >>),
    EP("lm.indices",     "lm",   "bin",  {"mut", "emptyok"}, PBIndices, <<>>),
    EP("lm.mappings",    "lm",   "bin",  {"mut", "emptyok"}, PBMappings, <<>>),
    EP("lm.merge",       "lm",   "json", {"mut"}, LabelList(3), <<>>),
    EP("lm.cleave",      "lm",   "json", {"mut"}, LabelList(1), << F("label", "ulabel", {"l0rej"}) >>),
    EP("lm.renumber",    "lm",   "json", {"mut"}, LabelList(2), <<>>),
    EP("lm.getlabels",   "lm",   "json", {}, Points, <<>>),
    EP("lm.getmapping",  "lm",   "json", {}, LabelList(2), <<>>),
    EP("lm.getsizes",    "lm",   "json", {}, LabelList(2), <<>>),
    EP("lm.getindices",  "lm",   "json", {}, LabelList(2), <<>>),
    \* annotations
    EP("ann.elements",   "ann",  "json", {"mut"}, AnnElements, <<>>),
    EP("ann.blocks",     "ann",  "json", {"mut"}, AnnBlocks, <<>>),
    \* key-values
    EP("kv.key",         "kv",   "bin",  {"mut", "emptyok"}, << F("value", "rest", {"midok", "cutok"}) >>, << F("key", "ukey", {}) >>),
    EP("kv.keyvalues",   "kv",   "bin",  {"mut", "emptyok"}, PBKeyValues, <<>>),
    \* neuron annotations
    EP("nj.key",         "nj",   "json", {"mut"}, NeuronJSON, << F("id", "ulabel", {}) >>),
    EP("nj.keyvalues",   "nj",   "bin",  {"mut", "emptyok"}, PBKeyValues, <<>>),
    EP("nj.query",       "nj",   "json", {}, NeuronQuery, <<>>),
    \* ROI
    EP("roi.roi",        "roi",  "json", {"mut"}, ROISpans, <<>>),
    EP("roi.ptquery",    "roi",  "json", {}, Points, <<>>),
    \* repo level
    EP("repo.instance",  "newinst", "json", {"mut"}, InstanceCfg, <<>>),
    \* URL-only endpoints (GET unless flagged mut)
    EP("lm.getraw",      "lm",   "none", {}, <<>>, Vol3(TRUE)),
    EP("lm.getblocks",   "lm",   "none", {}, <<>>, << F("size", "usize", {}), F("offset", "uoff", {}) >>),
    EP("lm.getslice",    "lm",   "none", {}, <<>>, << F("shape", "ushape", {}), F("size", "usize", {}), F("offset", "uoff", {}) >>),
    EP("lm.getlabel",    "lm",   "none", {}, <<>>, << F("point", "ucoord", {}) >>),
    EP("lm.sparsevol",   "lm",   "none", {}, <<>>, << F("label", "ulabel", {"l0rej"}) >>),
    EP("lm.sparsevolcoarse", "lm", "none", {}, <<>>, << F("label", "ulabel", {"l0rej"}) >>),
    EP("lm.sparsevolsize", "lm", "none", {}, <<>>, << F("label", "ulabel", {"l0rej"}) >>),
    EP("lm.sparsevolbypoint", "lm", "none", {}, <<>>, << F("point", "ucoord", {}) >>),
    EP("lm.size",        "lm",   "none", {}, <<>>, << F("label", "ulabel", {"l0rej"}) >>),
    EP("lm.supervoxels", "lm",   "none", {}, <<>>, << F("label", "ulabel", {"l0rej"}) >>),
    EP("lm.getindex",    "lm",   "none", {}, <<>>, << F("label", "ulabel", {"l0rej"}) >>),
    EP("lm.lastmod",     "lm",   "none", {}, <<>>, << F("label", "ulabel", {"l0rej"}) >>),
    EP("lm.listlabels",  "lm",   "none", {}, <<>>, << F("start", "uint", {"query"}), F("number", "uint", {"query"}) >>),
    EP("lm.scale",       "lm",   "none", {}, <<>>, << F("scale", "uint", {"query"}) >>),
    EP("lm.specificblocks", "lm", "none", {}, <<>>, << F("blocks", "ucoord", {"query"}) >>),
    EP("lm.setnextlabel", "lm",  "none", {"mut"}, <<>>, << F("label", "ulabel", {"l0rej"}) >>),
    EP("gray.getraw",    "gray", "none", {}, <<>>, Vol3(TRUE)),
    EP("gray.getslice",  "gray", "none", {}, <<>>, << F("shape", "ushape", {}), F("size", "usize", {}), F("offset", "uoff", {}) >>),
    EP("gray.getblocks", "gray", "none", {}, <<>>, << F("coord", "ucoord", {}), F("span", "uint", {}) >>),
    EP("gray.subvolblocks", "gray", "none", {}, <<>>, << F("size", "usize", {}), F("offset", "uoff", {}) >>),
    EP("gray.specificblocks", "gray", "none", {}, <<>>, << F("blocks", "ucoord", {"query"}) >>),
    EP("ann.getelements", "ann", "none", {}, <<>>, << F("size", "usize", {}), F("offset", "uoff", {}) >>),
    EP("ann.getblocks",  "ann",  "none", {}, <<>>, << F("size", "usize", {}), F("offset", "uoff", {}) >>),
    EP("ann.getlabel",   "ann",  "none", {}, <<>>, << F("label", "ulabel", {"l0rej"}) >>),
    EP("ann.gettag",     "ann",  "none", {}, <<>>, << F("tag", "ukey", {}) >>),
    EP("ann.delete",     "ann",  "none", {"mut"}, <<>>, << F("point", "ucoord", {}) >>),
    EP("ann.move",       "ann",  "none", {"mut"}, <<>>, << F("from", "ucoord", {}), F("to", "ucoord", {}) >>),
    EP("kv.getkey",      "kv",   "none", {}, <<>>, << F("key", "ukey", {}) >>),
    EP("kv.keyrange",    "kv",   "none", {}, <<>>, << F("first", "ukey", {}), F("last", "ukey", {}) >>),
    EP("nj.getkey",      "nj",   "none", {}, <<>>, << F("id", "ulabel", {}) >>),
    EP("roi.mask",       "roi",  "none", {}, <<>>, Vol3(TRUE)),
    EP("roi.partition",  "roi",  "none", {}, <<>>, << F("batchsize", "uint", {"zerorej", "query"}) >>),
    EP("node.uuid",      "meta", "none", {}, <<>>, << F("uuid", "ukey", {}) >>),
    EP("lm.proximity",   "lm",   "none", {}, <<>>, << F("label1", "ulabel", {"l0rej"}), F("label2", "ulabel", {"l0rej"}) >>),
    EP("lm.history",     "lm",   "none", {}, <<>>, << F("label", "ulabel", {"l0rej"}), F("from", "ukey", {}), F("to", "ukey", {}) >>),
    EP("lm.supervoxelsizes", "lm", "none", {}, <<>>, << F("label", "ulabel", {"l0rej"}) >>),
    EP("lm.sparsevolscoarse", "lm", "none", {}, <<>>, << F("start", "ulabel", {}), F("end", "ulabel", {}) >>),
    EP("lm.pseudocolor", "lm",   "none", {}, <<>>, << F("shape", "ushape", {}), F("size", "usize", {}), F("offset", "uoff", {}) >>),
    EP("lm.isotropic",   "lm",   "none", {}, <<>>, << F("shape", "ushape", {}), F("size", "usize", {}), F("offset", "uoff", {}) >>),
    EP("gray.arb",       "gray", "none", {}, <<>>, << F("topleft", "ucoord", {"nohuge", "float"}), F("topright", "ucoord", {"nohuge", "float"}), F("bottomleft", "ucoord", {"nohuge", "float"}), F("res", "uint", {"float"}) >>),
    EP("kv.keyrangevalues", "kv", "none", {}, <<>>, << F("first", "ukey", {}), F("last", "ukey", {}) >>),
    EP("kv.getkeyvalues", "kv",  "json", {}, KeyList, <<>>),
    EP("kv.tags",        "kv",   "json", {"mut", "emptyok"}, TagsObj, <<>>),
    EP("node.commit",    "meta", "json", {"mut"}, CommitObj, <<>>),
    EP("node.branch",    "meta", "json", {"mut"}, BranchObj, <<>>),
    \* commands of the RPC path: the "url" is the argument list after the first word ("node" / "repo" / ...)
    EP("rpc.kv.put",        "kv",   "none", {"mut", "rpc"}, <<>>, NodeCmd \o << F("key", "akey", {}), F("stdin", "ainput", {}) >>),
    EP("rpc.nj.put",        "nj",   "none", {"mut", "rpc"}, <<>>, NodeCmd \o << F("key", "akey", {}), F("stdin", "ainput", {}) >>),
    EP("rpc.nj.importkv",   "nj",   "none", {"mut", "rpc"}, <<>>, NodeCmd \o << F("source", "aname", {"exists"}) >>),
    EP("rpc.nj.ingest",     "nj",   "none", {"mut", "rpc"}, <<>>, NodeCmd \o << F("file", "afile", {"sync"}), F("user", "akey", {}) >>),
    EP("rpc.nj.versionchanges", "nj", "none", {"rpc"},      <<>>, NodeCmd \o << F("file", "akey", {"late"}) >>),
    EP("rpc.gray.load",     "gray", "none", {"mut", "rpc"}, <<>>, NodeCmd \o << F("offset", "apoint", {}), F("file", "afile", {"sync"}) >>),
    EP("rpc.lm.load",       "lm",   "none", {"mut", "rpc"}, <<>>, NodeCmd \o << F("offset", "apoint", {}), F("file", "afile", {"sync"}) >>),
    EP("rpc.lm.setnextlabel", "lm", "none", {"mut", "rpc"}, <<>>, NodeCmd \o << F("label", "aint", {"unsigned"}) >>),
    EP("rpc.ann.reload",    "ann",  "none", {"mut", "rpc"}, <<>>, NodeCmd),
    EP("rpc.node.help",     "kv",   "none", {"rpc"},        <<>>, << F("uuid", "auuid", {"exists"}), F("data", "aname", {"exists"}), F("word", "aword", {"opt"}) >>),
    EP("rpc.repo.new",      "newinst", "none", {"mut", "rpc"}, <<>>, RepoCmd \o << F("type", "atype", {"exists"}), F("name", "aname", {"newname"}) >>),
    EP("rpc.repo.branch",   "meta", "none", {"mut", "rpc"}, <<>>, RepoCmd \o << F("branch", "akey", {"opt"}), F("newuuid", "akey", {"opt"}) >>),
    EP("rpc.repo.newversion", "meta", "none", {"mut", "rpc"}, <<>>, RepoCmd \o << F("newuuid", "akey", {"opt"}) >>),
    EP("rpc.repo.merge",    "meta", "none", {"mut", "rpc"}, <<>>, RepoCmd \o << F("parent", "auuid", {"exists"}) >>),
    EP("rpc.repo.rename",   "newinst", "none", {"mut", "rpc"}, <<>>, RepoCmd \o << F("old", "aname", {"exists"}), F("new", "aname", {"newname"}) >>),
    EP("rpc.repo.delete",   "newinst", "none", {"mut", "rpc"}, <<>>, RepoCmd \o << F("name", "aname", {"exists"}) >>),
    \* the copy runs after the command is answered: a bad source or target is reported in the log only
    EP("rpc.repo.copy",     "newinst", "none", {"mut", "rpc"}, <<>>, RepoCmd \o << F("source", "aname", {"late"}), F("target", "aname", {"late"}) >>),
    EP("rpc.repo.migrate",  "meta", "none", {"rpc"},        <<>>, RepoCmd \o << F("instance", "aname", {"late"}), F("srcstore", "aname", {"exists"}), F("dststore", "aname", {"exists"}) >>),
    \* commands that take a configuration file (their errors are logged, the command is answered either way)
    EP("rpc.repo.limitversions", "meta", "none", {"rpc"},   <<>>, RepoCmd \o << F("file", "afile", {"late"}) >>),
    EP("rpc.repo.flattenmetadata", "meta", "none", {"rpc"}, <<>>, RepoCmd \o << F("file", "afile", {"sync"}) >>),
    EP("rpc.repo.migratebatch", "meta", "none", {"rpc"},    <<>>, RepoCmd \o << F("file", "afile", {"late"}) >>),
    EP("rpc.repo.hidebranch", "meta", "none", {"rpc"},      <<>>, RepoCmd \o << F("branch", "akey", {"late"}) >>),
    EP("rpc.repo.makemaster", "meta", "none", {"rpc"},      <<>>, RepoCmd \o << F("oldmaster", "akey", {"late"}) >>),
    EP("rpc.repos.new",     "newinst", "none", {"mut", "rpc"}, <<>>, << F("word", "aword", {}), F("alias", "akey", {"opt"}), F("description", "akey", {"opt"}) >>),
    EP("rpc.types.help",    "meta", "none", {"rpc"},        <<>>, << F("type", "atype", {"exists"}), F("word", "aword", {}) >>)
>>

EPIndex == 1..Len(Endpoints)

(***************************************************************************)
(* Mutation classes per field kind.                                         *)
(***************************************************************************)
BinKinds  == {"hdr", "coord", "dim", "len", "cnt", "idx", "lbl", "run", "blob", "rest", "gz", "tag", "vint"}
JSONKinds == {"jint", "jstr", "jlist", "jobj", "jkey"}
ArgKinds  == {"auuid", "aname", "atype", "aword", "apoint", "afile", "aint", "akey", "ainput"}
URLKinds  == {"usize", "uoff", "ucoord", "ulabel", "uint", "ukey", "ushape"} \cup ArgKinds

ClassesOf(fld) ==
    LET k == fld.k IN
    (IF k \in BinKinds THEN {"trunc_before", "trunc_mid", "flip"} ELSE {})
    \cup (IF k \in {"len", "cnt", "dim"} THEN {"inflate", "zero"} ELSE {})
    \cup (IF k = "idx" THEN {"idx_out"} ELSE {})
    \cup (IF k \in {"coord", "lbl", "run", "vint"} THEN {"extreme"} ELSE {})
    \cup (IF k \in JSONKinds THEN {"jtrunc", "jtype"} ELSE {})
    \cup (IF k = "jint" THEN {"jneg", "jhuge", "jfrac"} ELSE {})
    \cup (IF k = "jstr" /\ "enum" \in fld.f THEN {"jenum"} ELSE {})
    \cup (IF k = "jstr" /\ "triple" \in fld.f THEN {"cfgnonnum", "cfgzero", "cfgneg", "cfghuge"} ELSE {})
    \cup (IF k \in {"jlist", "jobj"} THEN {"jempty"} ELSE {})
    \cup (IF k = "jkey" THEN {"jkeybad"} ELSE {})
    \cup (IF k \in {"usize", "uoff", "ucoord"} THEN {"nonnum", "neg", "overflow", "short", "zero"} ELSE {})
    \* (nohuge: the cost of answering grows with the value; large values are legitimately expensive)
    \cup (IF k \in {"usize", "uoff", "ucoord"} /\ "nohuge" \notin fld.f THEN {"huge"} ELSE {})
    \cup (IF k = "ulabel" THEN {"nonnum", "neg", "overflow", "label0", "labelmax"} ELSE {})
    \cup (IF k = "uint" THEN {"nonnum", "neg", "huge", "overflow", "zero"} ELSE {})
    \cup (IF k = "ukey" THEN {"long", "weird"} ELSE {})
    \cup (IF k = "ushape" THEN {"nonnum", "short"} ELSE {})
    \* arguments of RPC commands
    \cup (IF k \in {"auuid", "aname", "atype", "aword"} THEN {"unknown", "weird", "long"} ELSE {})
    \cup (IF k = "apoint" THEN {"nonnum", "short", "neg", "huge", "overflow"} ELSE {})
    \cup (IF k = "aint" THEN {"nonnum", "neg", "huge", "overflow", "zero"} ELSE {})
    \cup (IF k = "akey" THEN {"long", "weird"} ELSE {})
    \cup (IF k = "afile" THEN {"nofile", "isdir", "emptyfile", "garbagefile"} ELSE {})
    \cup (IF k = "ainput" THEN {"garbage", "big"} ELSE {})
    \* the parameter is left out altogether (an empty path segment, or an empty query value)
    \cup (IF k \in URLKinds THEN {"missing"} ELSE {})

\* classes that apply to a whole body (position 0)
BodyClasses(ep) ==
    IF ep.body = "bin" THEN {"empty", "extend", "flipany", "garbage"}
    ELSE IF ep.body = "json" THEN {"empty", "jflip", "jgarbage", "jdeep"}
    ELSE {}

(***************************************************************************)
(* The oracle.                                                              *)
(***************************************************************************)
ExpectField(ep, cls, fld) ==
    CASE "late" \in fld.f      -> "any"
      [] cls = "trunc_before" -> IF "cutok" \in fld.f THEN "any" ELSE "reject"
      [] cls = "trunc_mid"    -> IF "midok" \in fld.f THEN "any" ELSE "reject"
      [] cls = "inflate"      -> "reject"
      [] cls = "idx_out"      -> "reject"
      [] cls = "zero"         -> IF "zerorej" \in fld.f THEN "reject" ELSE "any"
      [] cls \in {"flip", "extreme"} -> "any"
      [] cls = "jtrunc"       -> "reject"
      [] cls = "jtype"        -> IF "typed" \in fld.f THEN "reject" ELSE "any"
      [] cls = "jneg"         -> IF "u64" \in fld.f THEN "reject" ELSE "any"
      [] cls \in {"jhuge", "jfrac"} -> IF fld.f \cap {"u64", "i32"} # {} THEN "reject" ELSE "any"
      [] cls = "jenum"        -> "reject"
      [] cls = "jempty"       -> "any"
      [] cls = "jkeybad"      -> "reject"
      [] cls = "cfgnonnum"    -> "reject"
      [] cls \in {"cfgzero", "cfgneg", "cfghuge"} -> "any"
      [] cls = "nonnum"       -> "reject"
      [] cls = "overflow"     -> "reject"
      [] cls = "short"        -> "reject"
      \* a label is unsigned: "-1" is not a label; negative offsets and points are ordinary, and a
      \* negative size or count is at worst an empty request (no rejection is demanded)
      [] cls = "neg"          -> IF fld.k = "ulabel" \/ "unsigned" \in fld.f THEN "reject" ELSE "any"
      [] cls = "huge"         -> IF "hugerej" \in fld.f THEN "reject" ELSE "any"
      [] cls = "label0"       -> IF "l0rej" \in fld.f THEN "reject" ELSE "any"
      [] cls = "labelmax"     -> "any"
      \* an empty key bounds a key range from below; an optional query option may be left out
      [] cls = "missing"      -> IF fld.f \cap {"query", "opt", "newname"} # {} \/ fld.k = "ukey" THEN "any" ELSE "reject"
      \* an argument that must name an existing version, instance, datatype or command, and does not
      [] cls \in {"unknown", "long", "weird"} /\ fld.k \in {"auuid", "aname", "atype", "aword"} ->
                                 IF "exists" \in fld.f \/ fld.k = "aword" THEN "reject" ELSE "any"
      [] cls \in {"long", "weird"} -> "any"
      \* a file that does not exist is refused when the command opens it before answering
      [] cls = "nofile"       -> IF "sync" \in fld.f THEN "reject" ELSE "any"
      [] OTHER                -> "any"

ExpectBody(ep, cls) ==
    CASE cls = "empty"   -> IF "emptyok" \in ep.f THEN "any" ELSE "reject"
      [] cls = "extend"  -> IF "extendrej" \in ep.f THEN "reject" ELSE "any"
      [] cls = "jgarbage" -> "reject"
      [] OTHER           -> "any"

\* a hostile case: endpoint index, part ("body" | "url" | "whole"), position, class

CasesOf(e) ==
    LET ep == Endpoints[e] IN
    {[e |-> e, part |-> "body", pos |-> p, cls |-> c] : <<p, c>> \in
        {pc \in (1..Len(ep.fields)) \X {"trunc_before", "trunc_mid", "flip", "inflate", "zero", "idx_out", "extreme",
                                         "jtrunc", "jtype", "jneg", "jhuge", "jfrac", "jenum", "jempty", "jkeybad",
                                         "cfgnonnum", "cfgzero", "cfgneg", "cfghuge"} :
            pc[2] \in ClassesOf(ep.fields[pc[1]])
            \* cutting in front of the very first field is the "empty" class
            /\ ~(pc[1] = 1 /\ pc[2] \in {"trunc_before", "jtrunc"})}}
    \cup {[e |-> e, part |-> "url", pos |-> p, cls |-> c] : <<p, c>> \in
        {pc \in (1..Len(ep.url)) \X {"nonnum", "neg", "huge", "overflow", "short", "zero", "label0", "labelmax", "long", "weird", "missing",
                                      "unknown", "nofile", "isdir", "emptyfile", "garbagefile", "garbage", "big"} :
            pc[2] \in ClassesOf(ep.url[pc[1]])}}
    \cup {[e |-> e, part |-> "whole", pos |-> 0, cls |-> c] : c \in BodyClasses(ep)}

AllCases == UNION {CasesOf(e) : e \in EPIndex}

Expect(c) ==
    LET ep == Endpoints[c.e] IN
    IF c.part = "body" THEN ExpectField(ep, c.cls, ep.fields[c.pos])
    ELSE IF c.part = "url" THEN ExpectField(ep, c.cls, ep.url[c.pos])
    ELSE ExpectBody(ep, c.cls)

Relabelling == {"lm.split", "lm.splitsv", "lm.merge", "lm.cleave", "lm.renumber", "lm.mappings"}

\* scopes a request to the endpoint may change (requests to labelmap "lm" reach the synced annotation)
MayChange(e) ==
    LET ep == Endpoints[e] IN
    IF "mut" \notin ep.f THEN {}
    ELSE IF ep.scope = "lm" THEN
        {"lm", "ann"} \cup (IF ep.name \in Relabelling THEN {"lmorig"} ELSE {})
                      \cup (IF "rpc" \in ep.f THEN {"meta"} ELSE {})   \* commands are logged in the node log
    ELSE IF ep.scope = "newinst" THEN {"newinst", "meta"}   \* a new instance is logged in the repo log
    ELSE IF "rpc" \in ep.f THEN {ep.scope, "meta"}   \* commands are logged in the node log
    ELSE {ep.scope}

Allowed(c) == IF Expect(c) = "reject" THEN {"4xx"} ELSE {"2xx", "4xx"}

\* what one hostile case names: a mutated URL, a mutated block / span coordinate or a
\* randomised body of a request to "lm" may point the request at the original blocks
MayChangeCase(c) ==
    LET ep == Endpoints[c.e] IN
    MayChange(c.e) \cup
    (IF "mut" \in ep.f /\ ep.scope = "lm" /\
        (c.part \in {"url", "whole"} \/ (c.part = "body" /\ ep.fields[c.pos].k = "coord"))
     THEN {"lmorig"} ELSE {})

(***************************************************************************)
(* PART 1: the Gate state machine.                                          *)
(***************************************************************************)
VARIABLES phase,    \* "idle" | "sent" | "settled"
          cur,      \* the hostile case in flight, or NoCase; well-formed requests are WF(e)
          resp,     \* response class of the request in flight
          alive,    \* the process
          dirty     \* scopes changed since the last snapshot
vars == <<phase, cur, resp, alive, dirty>>

NoCase == [e |-> 0, part |-> "none", pos |-> 0, cls |-> "none"]
WF(e)  == [e |-> e, part |-> "wellformed", pos |-> 0, cls |-> "none"]
Requests == AllCases \cup {WF(e) : e \in EPIndex}

AllowedResp(c) == IF c.part = "wellformed" THEN {"2xx", "4xx"} ELSE Allowed(c)
Names(c) == IF c.part = "wellformed" THEN MayChange(c.e) ELSE MayChangeCase(c)

Init == phase = "idle" /\ cur = NoCase /\ resp = "none" /\ alive = TRUE /\ dirty = {}

Send(c) == /\ phase = "idle" /\ alive
           /\ phase' = "sent" /\ cur' = c
           /\ resp' \in AllowedResp(c)
           /\ dirty' \in SUBSET Names(c)
           /\ UNCHANGED alive
\* background work started by the request finishes: it may touch the named scopes only
Settle == /\ phase = "sent"
          /\ phase' = "settled"
          /\ \E d \in SUBSET Names(cur) : dirty' = dirty \cup d
          /\ UNCHANGED <<cur, resp, alive>>
\* liveness probe answered and snapshot taken
Probe == /\ phase = "settled" /\ alive
         /\ phase' = "idle" /\ cur' = NoCase /\ resp' = "none" /\ dirty' = {}
         /\ UNCHANGED alive

Next == (\E c \in Requests : Send(c)) \/ Settle \/ Probe
Spec == Init /\ [][Next]_vars

TypeOK == /\ phase \in {"idle", "sent", "settled"}
          /\ resp \in {"none", "2xx", "4xx"}
          /\ alive \in BOOLEAN
          /\ dirty \subseteq Scopes

\* "No request can terminate or wedge the server process; later requests are still served."
Inv_C20_Alive == alive /\ ENABLED Next
\* "...never answered with an internal error": there is no 5xx class in the design
Inv_C20_NoServerError == resp \in {"none", "2xx", "4xx"}
\* "A request whose payload is malformed ... is answered with a client error"
Inv_C20_MalformedRejected ==
    (phase # "idle" /\ cur.part \notin {"wellformed", "none"} /\ Expect(cur) = "reject") => resp = "4xx"
\* "...and leaves everything stored under keys or blocks it did not name reading back as before"
Inv_C20_Harmless == phase # "idle" => dirty \subseteq Names(cur)
Inv_C20_ReadOnlyHarmless == (phase # "idle" /\ "mut" \notin Endpoints[cur.e].f) => dirty = {}

(***************************************************************************)
(* Table-level claims (sanity of the decision table itself).                *)
(***************************************************************************)
TableClaims ==
    /\ \A e \in EPIndex : Endpoints[e].scope \in Scopes
    /\ \A e \in EPIndex : \A i \in 1..Len(Endpoints[e].fields) :
            Endpoints[e].fields[i].k \in (IF Endpoints[e].body = "json" THEN JSONKinds ELSE BinKinds)
    /\ \A e \in EPIndex : \A i \in 1..Len(Endpoints[e].url) : Endpoints[e].url[i].k \in URLKinds
    /\ \A e \in EPIndex : Endpoints[e].body = "none" => Endpoints[e].fields = <<>>
    \* every endpoint has at least one hostile case that must be rejected or one URL case
    /\ \A e \in EPIndex : CasesOf(e) # {}
    \* a request that names nothing may change nothing
    /\ \A c \in AllCases : ("mut" \notin Endpoints[c.e].f) => MayChangeCase(c) = {}
    /\ \A c \in AllCases : MayChange(c.e) \subseteq MayChangeCase(c)
    \* names are unique
    /\ \A a, b \in EPIndex : Endpoints[a].name = Endpoints[b].name => a = b

(***************************************************************************)
(* PART 3 - tables of WELL-FORMED requests whose handlers take different    *)
(* paths depending on how the parts of one request relate to each other and *)
(* to the stored state.  Every case must be answered without a server       *)
(* error; cases inside the documented format must be accepted ("2xx").      *)
(*                                                                          *)
(* (a) annotation element posts: two positions of ONE block; each is absent *)
(*     or stored with a tag set before the request; the request posts one   *)
(*     or both with a new tag set (so an element of the batch may drop a    *)
(*     tag that another element of the same batch adds).  TagView is the    *)
(*     tag index the property C13 talks about; here only "accepted" counts. *)
(* (b) neuron annotation queries: kind of the stored field value x kind of  *)
(*     the query value.                                                     *)
(***************************************************************************)
AnnTags   == {"t1", "t2"}
ElemStates == {[p |-> FALSE, t |-> {}]} \cup {[p |-> TRUE, t |-> ts] : ts \in SUBSET AnnTags}
AnnCases  == {c \in [b1 : ElemStates, b2 : ElemStates, p1 : ElemStates, p2 : ElemStates] : c.p1.p \/ c.p2.p}
AnnAfter(c, i) == IF i = 1 THEN (IF c.p1.p THEN c.p1 ELSE c.b1) ELSE (IF c.p2.p THEN c.p2 ELSE c.b2)
TagView(c, t) == {i \in 1..2 : AnnAfter(c, i).p /\ t \in AnnAfter(c, i).t}
\* the tag sets of the batch change in opposite directions for some tag
AnnCrossing(c) == c.p1.p /\ c.p2.p /\ c.b1.p /\ c.b2.p /\
                  \E t \in AnnTags : (t \in c.p1.t /\ t \notin c.b1.t /\ t \in c.b2.t /\ t \notin c.p2.t)
                                   \/ (t \in c.p2.t /\ t \notin c.b2.t /\ t \in c.b1.t /\ t \notin c.p1.t)

StoredKinds == {"str", "int", "float", "bool", "liststr", "listint", "listmixed", "obj", "absent"}
QueryKinds  == {"str", "int", "float", "bool", "regex", "exists0", "exists1", "liststr", "listint", "listfloat",
                "listmixed", "listregex", "emptylist", "null", "obj"}
\* the documented query values: a desired value, a regular expression, a field-existence test
DocumentedQuery == {"str", "int", "float", "bool", "regex", "exists0", "exists1"}
NJQueryCases == StoredKinds \X QueryKinds
NJExpect(c) == IF c[2] \in DocumentedQuery THEN "2xx" ELSE "any"

WellFormedClaims ==
    /\ \A c \in AnnCases : \A t \in AnnTags : TagView(c, t) \subseteq 1..2
    /\ \E c \in AnnCases : AnnCrossing(c)
    /\ \A c \in NJQueryCases : NJExpect(c) \in {"2xx", "any"}

ASSUME TableClaimsHold == TableClaims
ASSUME WellFormedClaimsHold == WellFormedClaims

(***************************************************************************)
(* The printed table (once, from the initial state).                        *)
(***************************************************************************)
Emit ==
    (phase = "idle") =>
        PrintT(ToJson([endpoints |-> [e \in EPIndex |->
                          [name |-> Endpoints[e].name, scope |-> Endpoints[e].scope, body |-> Endpoints[e].body,
                           flags |-> Endpoints[e].f,
                           fields |-> [i \in 1..Len(Endpoints[e].fields) |->
                                [n |-> Endpoints[e].fields[i].n, k |-> Endpoints[e].fields[i].k, f |-> Endpoints[e].fields[i].f]],
                           url |-> [i \in 1..Len(Endpoints[e].url) |->
                                [n |-> Endpoints[e].url[i].n, k |-> Endpoints[e].url[i].k, f |-> Endpoints[e].url[i].f]],
                           maychange |-> MayChange(e)]],
                       cases |-> {[e |-> c.e, part |-> c.part, pos |-> c.pos, cls |-> c.cls,
                                   expect |-> Expect(c), allowed |-> Allowed(c), maychange |-> MayChangeCase(c)] : c \in AllCases},
                       anncases |-> {[b1 |-> c.b1, b2 |-> c.b2, p1 |-> c.p1, p2 |-> c.p2, crossing |-> AnnCrossing(c),
                                      view |-> [t \in AnnTags |-> TagView(c, t)]] : c \in AnnCases},
                       njcases |-> {[stored |-> c[1], query |-> c[2], expect |-> NJExpect(c)] : c \in NJQueryCases}]))
=============================================================================
