-------------------------- MODULE DvidResolve_mc --------------------------
(***************************************************************************)
(* Driver for DvidResolve: the initial states are "worlds" (a committed    *)
(* version DAG shape as DvidDAG's branch / merge requests build it, and a  *)
(* placement of value / tombstone / nothing per key over its versions);    *)
(* the only step is one resolve request.                                   *)
(*   cs = 0 : every shape with N versions x every placement of the keys in *)
(*     ExhKeys x every tuple of 2..MaxParents distinct parents (claims;    *)
(*     N = 0 switches this part off).                                      *)
(*   cs > 0 : world number cs of the generated module ResolveCases (the    *)
(*     oracle for the replay: post-state and reads are printed).           *)
(***************************************************************************)
EXTENDS DvidResolve, Json, ResolveCases

CONSTANTS N, ExhKeys

VARIABLE cs      \* the world's number in Cases (0 in exhaustive runs); never changes
mcvars == <<nn, par, kids, br, lk, kind, rp, uid, head, dead, last, ent, cs>>

Pow3x(k) == IF k = 0 THEN 1 ELSE IF k = 1 THEN 3 ELSE IF k = 2 THEN 9 ELSE IF k = 3 THEN 27 ELSE IF k = 4 THEN 81 ELSE 243
Digit(p, k) == (p \div Pow3x(k - 1)) % 3
\* placement p over n versions: digit 0 nothing, 1 a value (tagged with the version), 2 a tombstone
EntOf(p, n) == [k \in {j \in 1..n : Digit(p, j) # 0} |-> IF Digit(p, k) = 2 THEN Tomb ELSE k]

Tuples(S) ==
    {t \in S \X S : t[1] # t[2]}
    \cup (IF MaxParents >= 3 THEN {t \in S \X S \X S : t[1] # t[2] /\ t[1] # t[3] /\ t[2] # t[3]} ELSE {})
ParentTuples(S) == {<<a>> : a \in S} \cup Tuples(S)

RECURSIVE ParsOf(_)
ParsOf(k) == IF k = 1 THEN {<< <<>> >>} ELSE {Append(q, t) : q \in ParsOf(k - 1), t \in ParentTuples(1..(k - 1))}

\* the DvidKV state of a world: all versions but the (childless) ones in open committed,
\* single-parent versions on their own branch
WorldState(p, e, c, open) ==
    LET n == Len(p) IN
    /\ cs = c
    /\ nn = n
    /\ par = p
    /\ kids = [m \in 1..n |-> LET C == {c2 \in 1..n : \E i \in 1..Len(p[c2]) : p[c2][i] = m} IN
                              [r \in 1..Cardinality(C) |-> CHOOSE x \in C : Cardinality({y \in C : y <= x}) = r]]
    /\ br = [m \in 1..n |-> IF Len(p[m]) = 1 THEN "b" \o ToString(m) ELSE ""]
    /\ lk = [m \in 1..n |-> m \notin open]
    /\ kind = [m \in 1..n |-> IF Len(p[m]) = 0 THEN "root" ELSE IF Len(p[m]) = 1 THEN "ver" ELSE "merge"]
    /\ rp = [m \in 1..n |-> 1]
    /\ uid = [m \in 1..n |-> "auto"]
    /\ head = [x \in {<<1, "">>} \cup {<<1, "b" \o ToString(m)>> : m \in {j \in 1..n : Len(p[j]) = 1}} |->
                  IF x[2] = "" THEN 1 ELSE CHOOSE m \in 1..n : Len(p[m]) = 1 /\ x[2] = "b" \o ToString(m)]
    /\ dead = {}
    /\ ent = e
    /\ last = [op |-> "init", ok |-> TRUE]

MCInit ==
    \/ /\ N > 0
       /\ \E p \in ParsOf(N), pl \in [ExhKeys -> 0..(Pow3x(N) - 1)] :
             WorldState(p, [k \in Keys |-> IF k \in ExhKeys THEN EntOf(pl[k], N) ELSE <<>>], 0, {})
    \/ \E c \in 1..Len(Cases) :
            WorldState(Cases[c].par, [k \in Keys |-> EntOf(Cases[c].pl[k], Len(Cases[c].par))], c, Cases[c].open)

MCNext ==
    /\ last.op = "init" /\ UNCHANGED cs
    /\ IF cs = 0
       THEN \E ps \in Tuples(1..nn) : Resolve_Ok(ps)
       ELSE Resolve_Ok(Cases[cs].ps) \/ Resolve_Rej(Cases[cs].ps)

MCSpec == MCInit /\ [][MCNext]_mcvars

\* printed for the replay, one line per resolved case (all unprimed: evaluated on the post-state)
EmitResolved ==
    (cs > 0 /\ last.op = "resolve") =>
        PrintT(ToJson([case |-> cs,
                       ok |-> last.ok,
                       s |-> StateRec,
                       ext |-> IF last.ok THEN last.ext ELSE <<>>,
                       reads |-> [k \in Keys |-> [v \in 1..nn |-> Read(par, ent[k], v)]],
                       algo |-> [k \in Keys |-> [v \in 1..nn |-> FindMatchNode(par, ent[k], v)]],
                       tombs |-> [k \in Keys |-> {n \in DOMAIN ent[k] : n > Len(Cases[cs].par) /\ ent[k][n] = Tomb}]]))
=============================================================================
