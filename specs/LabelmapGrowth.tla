--------------------------- MODULE LabelmapGrowth ---------------------------
(***************************************************************************)
(* Further proofreading requests over the state of Labelmap.tla (gaps       *)
(* C08-13, C08-14); a separate module so that the configurations of the     *)
(* other checks that instantiate Labelmap.tla stay as they are.             *)
(*                                                                          *)
(* POST renumber takes a list [new1, old1, new2, old2, ...]; the pairs are  *)
(* applied one after the other.  RenumberPairs is the request with two      *)
(* pairs on different bodies (its successor is that of two Renumber steps   *)
(* in either order: checked by TLC as Inv_PairsCommute on every state).     *)
(* RenumberOnto renames a body to a label that was in use before and is     *)
(* free now: one of the labels of the initial layout that is neither a body *)
(* nor a supervoxel any more (its supervoxel was split away and its body    *)
(* renumbered, or merged away).  Everything about that label that earlier   *)
(* requests left behind (deleted index, mapping entries of the split-away   *)
(* supervoxel, the allocation counter already above it) must not show.      *)
(*                                                                          *)
(* Ingestion paths (C08-14).  Init is "the volume has been ingested"; the   *)
(* harness reaches it by POST raw, by POST blocks, and by the paths that    *)
(* leave the bookkeeping to the client:                                     *)
(*    POST ingest-supervoxels  +  POST indices  +  POST maxlabel            *)
(*    POST blocks?noindexing=true  +  POST index/<label> per body           *)
(* with the indices of Obs in the initial state; every read of Obs and      *)
(* every later transition is then demanded of those instances as well.      *)
(***************************************************************************)
EXTENDS LabelmapReads

OrigLabels == {InitSV[r] : r \in Regions} \ {0}
FreeFormer == OrigLabels \ (Bodies \cup SVs)
Max2(a, b) == IF a > b THEN a ELSE b

RenumberOnto(old, new) ==
    /\ old \in Bodies /\ new \in FreeFormer
    /\ mp' = [s \in DOMAIN mp |-> IF mp[s] = old THEN new ELSE mp[s]]
    /\ UNCHANGED <<sv, nxt>>
    /\ last' = [op |-> "renumber", old |-> old, new |-> new, onto |-> TRUE]

\* two pairs in one request: o1 -> n1, then o2 -> n2
RenumberPairs(o1, n1, o2, n2) ==
    /\ o1 \in Bodies /\ o2 \in Bodies /\ o1 # o2 /\ n1 # n2
    /\ {n1, n2} \cap (Bodies \cup SVs) = {}
    /\ mp' = [s \in DOMAIN mp |-> IF mp[s] = o1 THEN n1 ELSE IF mp[s] = o2 THEN n2 ELSE mp[s]]
    /\ nxt' = Max2(nxt, Max2(n1, n2))
    /\ UNCHANGED sv
    /\ last' = [op |-> "renumber", old |-> o1, new |-> n1, pairs |-> <<<<o2, n2>>>>]

\* applying the pairs one after the other, in either order, gives the same mapping
AfterOne(m, o, n) == [s \in DOMAIN m |-> IF m[s] = o THEN n ELSE m[s]]
Inv_PairsCommute ==
    \A o1, o2 \in Bodies : o1 # o2 =>
        AfterOne(AfterOne(mp, o1, nxt + 5), o2, nxt + 6) = AfterOne(AfterOne(mp, o2, nxt + 6), o1, nxt + 5)

MinBody == CHOOSE b \in Bodies : \A c \in Bodies : b <= c
MaxBody == CHOOSE b \in Bodies : \A c \in Bodies : b >= c

NextG ==
    \/ Next
    \/ /\ depth < MaxOps
       /\ depth' = depth + 1
       /\ \/ \E old \in Bodies : \E new \in FreeFormer : RenumberOnto(old, new)
          \/ Cardinality(Bodies) >= 2 /\ RenumberPairs(MinBody, nxt + 5, MaxBody, nxt + 6)

SpecG == Init /\ [][NextG]_vars
=============================================================================
