SPECIFICATION Spec
CONSTANTS
  MaxNodes = 4
  MaxRepos = 2
  MaxParents = 3
  Branches = {"a", "b"}
  UUIDPool = {"ua"}
  WithRejects = TRUE
VIEW View
INVARIANTS Inv_C07
PROPERTIES Act_C07_RejectIsStutter Act_Monotone
CHECK_DEADLOCK FALSE
