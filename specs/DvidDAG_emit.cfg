SPECIFICATION SpecEmit
CONSTANTS
  MaxNodes = 4
  MaxRepos = 2
  MaxParents = 3
  Branches = {"a", "b"}
  UUIDPool = {"ua"}
  WithRejects = TRUE
VIEW View
CHECK_DEADLOCK FALSE
