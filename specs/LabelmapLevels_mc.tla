------------------------- MODULE LabelmapLevels_mc -------------------------
EXTENDS LabelmapLevels, Json

\* A history variable makes every state a behaviour prefix: the harness rebuilds the tree of
\* behaviours (model checking: all of them up to MaxOps; -simulate: long random ones) and replays
\* it as a tree of versions.  One line per state: the expected reads (Obs) and the stored levels.
VARIABLE hist
Key == [sv |-> sv, mp |-> mp, nxt |-> nxt]
NextH == NextL /\ hist' = Append(hist, [l |-> last', x |-> lx', t |-> Key'])
SpecH == InitL /\ hist = <<>> /\ [][NextH]_<<varsL, hist>>
EmitL == PrintT(ToJson([k |-> Key, d |-> depth, obs |-> Obs, lv |-> st, hist |-> hist]))
=============================================================================
