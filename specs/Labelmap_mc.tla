---------------------------- MODULE Labelmap_mc ----------------------------
EXTENDS LabelmapReads, Json

Key == [sv |-> sv, mp |-> mp, nxt |-> nxt]
NextEmit == Next /\ PrintT(ToJson([s |-> Key, l |-> last', t |-> Key']))
SpecEmit == Init /\ [][NextEmit]_vars
\* one line per distinct state: the expected observation (evaluating Obs' inside the action is pathologically slow in TLC)
EmitObs == PrintT(ToJson([k |-> Key, d |-> depth, obs |-> Obs, rd |-> Reads]))
View == <<sv, mp, nxt>>

=============================================================================
