---------------------------- MODULE DvidDAG ----------------------------
(***************************************************************************)
(* Repos, version DAG, identifiers and commit state of a DVID server, at   *)
(* the grain of one action per repo-level HTTP request (accepted and       *)
(* rejected variants).  Intended semantics: every invariant below is       *)
(* model-checked on this module; the Go harness replays every transition   *)
(* into the real server and compares the projected state after each        *)
(* request (property C07, and the DAG part of C01/C02/C05/C19).            *)
(*                                                                         *)
(* Nodes are numbered 1..nn in creation order (the real server's local     *)
(* version ids are also allocated in creation order; ids burnt by refused  *)
(* requests are allowed and invisible here).                               *)
(***************************************************************************)
EXTENDS Integers, Sequences, FiniteSets, TLC

CONSTANTS
    MaxNodes,      \* bound on the number of version nodes
    MaxRepos,      \* bound on the number of repos
    MaxParents,    \* bound on merge parents (2 or 3)
    Branches,      \* branch names a client may ask for (strings, not "" / "master")
    UUIDPool,      \* caller-assignable UUIDs (abstract names; driver maps to 32-hex)
    WithRejects    \* TRUE: include refused requests as (stuttering) transitions

VARIABLES
    nn,      \* number of nodes ever created
    par,     \* par[n]  : sequence of parents (order matters for reads)
    kids,    \* kids[n] : sequence of children (append order, as the server keeps it)
    br,      \* br[n]   : branch name ("" = master)
    lk,      \* lk[n]   : committed?
    kind,    \* kind[n] \in {"root","ver","merge"}; "hidden" once a hide-branch request removed the node
    rp,      \* rp[n]   : root node of n's repo
    uid,     \* uid[n]  : "auto" (server generated, unique) or a member of UUIDPool
    head,    \* head    : function from <<root, branch>> to the branch's leaf as tracked by the server
    dead,    \* dead    : roots of deleted repos (their nodes and UUIDs no longer exist for clients)
    last     \* last request and its outcome (output only)

dagvars == <<nn, par, kids, br, lk, kind, rp, uid, head, dead>>
vars == <<nn, par, kids, br, lk, kind, rp, uid, head, dead, last>>

Nodes == 1..nn
Vis == {n \in Nodes : kind[n] # "hidden"}      \* nodes not removed by a hide-branch request
Live == {n \in Vis : rp[n] \notin dead}        \* nodes a client can still address
Roots == {n \in Nodes : kind[n] = "root"}
LiveRoots == Roots \ dead
NoNode == 0                       \* an address that names no node ("unknown uuid")

RECURSIVE AncOf(_)
\* reflexive-transitive ancestors over all parents
AncOf(n) == {n} \cup UNION {AncOf(par[n][i]) : i \in 1..Len(par[n])}

Range(s) == {s[i] : i \in 1..Len(s)}
UsedUUIDs == {uid[n] : n \in Live} \ {"auto"}

Init ==
    /\ nn = 0
    /\ par = <<>> /\ kids = <<>> /\ br = <<>> /\ lk = <<>> /\ kind = <<>> /\ rp = <<>> /\ uid = <<>>
    /\ head = <<>>
    /\ dead = {}
    /\ last = [op |-> "init", ok |-> TRUE]

AddNode(parents, branch, k, root, u) ==
    /\ nn' = nn + 1
    /\ par' = Append(par, parents)
    /\ kids' = [n \in 1..(nn+1) |->
                  IF n = nn + 1 THEN <<>>
                  ELSE kids[n] \o [i \in 1..Cardinality({j \in 1..Len(parents) : parents[j] = n}) |-> nn + 1]]
    /\ br' = Append(br, branch)
    /\ lk' = Append(lk, FALSE)
    /\ kind' = Append(kind, k)
    /\ rp' = Append(rp, IF root = 0 THEN nn + 1 ELSE root)
    /\ uid' = Append(uid, u)

SetHead(root, branch, n) ==
    head' = [x \in (DOMAIN head) \cup {<<root, branch>>} |->
                IF x = <<root, branch>> THEN n ELSE head[x]]

Rej(rec) == /\ WithRejects
            /\ UNCHANGED dagvars
            /\ last' = rec @@ [ok |-> FALSE]

(***************************************************************************)
(* POST /api/repos  {"root": u?}                                           *)
(***************************************************************************)
UUIDFree(u) == u = "auto" \/ (u \in UUIDPool /\ u \notin UsedUUIDs)

G_NewRepo(u) == UUIDFree(u)

NewRepo_Ok(u) ==
    /\ nn < MaxNodes /\ Cardinality(LiveRoots) < MaxRepos
    /\ G_NewRepo(u)
    /\ AddNode(<<>>, "", "root", 0, u)
    /\ SetHead(nn + 1, "", nn + 1) /\ UNCHANGED dead
    /\ last' = [op |-> "newrepo", uuid |-> u, ok |-> TRUE, new |-> nn + 1]

NewRepo_Rej(u) ==
    /\ ~G_NewRepo(u)
    /\ Rej([op |-> "newrepo", uuid |-> u])

(***************************************************************************)
(* POST /api/node/<n>/commit                                               *)
(***************************************************************************)
G_Commit(n) == n \in Live /\ ~lk[n]

Commit_Ok(n) ==
    /\ G_Commit(n)
    /\ lk' = [lk EXCEPT ![n] = TRUE]
    /\ UNCHANGED <<nn, par, kids, br, kind, rp, uid, head, dead>>
    /\ last' = [op |-> "commit", node |-> n, ok |-> TRUE]

Commit_Rej(n) ==
    /\ ~G_Commit(n)
    /\ Rej([op |-> "commit", node |-> n])

(***************************************************************************)
(* POST /api/node/<n>/newversion {"uuid": u?}  - child on the parent's     *)
(* branch; POST /api/node/<n>/branch {"branch": b, "uuid": u?}             *)
(***************************************************************************)
SisterHas(n, b) == \E i \in 1..Len(kids[n]) : br[kids[n][i]] = b
BranchUsed(root, b) == \E m \in Vis : rp[m] = root /\ br[m] = b

CanVersion(n, b) ==
    /\ n \in Live /\ lk[n]
    /\ IF b = br[n] THEN ~SisterHas(n, b) ELSE ~BranchUsed(rp[n], b)

G_NewVersion(n, u) == n \in Live /\ CanVersion(n, br[n]) /\ UUIDFree(u)
\* Representative of branch names the address syntax <uuid>:<branch>[~<N>] cannot express ('~'
\* separates a parent number): such a branch could never be addressed (or would address another
\* version), so it must not be created.  A name with ':' (e.g. "a:b") is expressible - everything
\* after the first colon of an address is the branch name - and is an ordinary name.
BadBranches == {"a~1"}
ValidBranchName(b) == b \notin {"", "master"} /\ b \notin BadBranches
G_Branch(n, b, u) == n \in Live /\ ValidBranchName(b) /\ CanVersion(n, b) /\ UUIDFree(u)

NewVersion_Ok(n, u) ==
    /\ nn < MaxNodes
    /\ G_NewVersion(n, u)
    /\ AddNode(<<n>>, br[n], "ver", rp[n], u)
    /\ SetHead(rp[n], br[n], nn + 1) /\ UNCHANGED dead
    /\ last' = [op |-> "newversion", node |-> n, uuid |-> u, ok |-> TRUE, new |-> nn + 1]

NewVersion_Rej(n, u) ==
    /\ ~G_NewVersion(n, u)
    /\ Rej([op |-> "newversion", node |-> n, uuid |-> u])

Branch_Ok(n, b, u) ==
    /\ nn < MaxNodes
    /\ G_Branch(n, b, u)
    /\ AddNode(<<n>>, b, "ver", rp[n], u)
    /\ SetHead(rp[n], b, nn + 1) /\ UNCHANGED dead
    /\ last' = [op |-> "branch", node |-> n, branch |-> b, uuid |-> u, ok |-> TRUE, new |-> nn + 1]

Branch_Rej(n, b, u) ==
    /\ ~G_Branch(n, b, u)
    /\ Rej([op |-> "branch", node |-> n, branch |-> b, uuid |-> u])

(***************************************************************************)
(* POST /api/node/<n>/tag {"tag": t}: a committed child on branch "tag-t"  *)
(* whose UUID is t.                                                        *)
(***************************************************************************)
\* ---- odd identifier arguments (third round; used by NextX only, Next never offers them) ----
\* Strings a client may send where an identifier is expected.  The driver maps them to concrete
\* strings: "empty" = "", "short" = a few hex digits, "nonhex" = 32 characters that are not all hex
\* digits, "colon" / "tilde" = a string with ':' / '~', "pref<n>" = a proper prefix of node n's UUID.
OddFixed == {"empty", "short", "nonhex", "colon", "tilde"}
PrefName(n) == "pref" \o ToString(n)
AllPrefNames == {PrefName(n) : n \in 1..MaxNodes}
\* An identifier assigned through "root", "uuid" or an RPC argument must be a 32-digit hexadecimal
\* string (dvid.UUID): none of the odd strings is one.  A tag only has to be usable as an address:
\* not empty, and free of ':' (everything after the first colon of an address is a branch name) and
\* '~' (its branch "tag-<t>" would hold the parent-number separator).
OddTagNames == {"short", "nonhex"} \cup AllPrefNames
TagBranch(t) == "tag-" \o t

\* (third round) a tag is "a unique string across the DAG (including UUIDs)": besides the 32-hex strings of
\* the pool, the strings of OddTagNames (defined with the odd arguments below) are legal tags
G_Tag(n, t) == n \in Live /\ CanVersion(n, TagBranch(t)) /\ t \in UUIDPool \cup OddTagNames /\ t \notin UsedUUIDs

Tag_Ok(n, t) ==
    /\ nn < MaxNodes
    /\ G_Tag(n, t)
    /\ nn' = nn + 1
    /\ par' = Append(par, <<n>>)
    /\ kids' = [m \in 1..(nn+1) |-> IF m = nn + 1 THEN <<>> ELSE IF m = n THEN Append(kids[m], nn + 1) ELSE kids[m]]
    /\ br' = Append(br, TagBranch(t))
    /\ lk' = Append(lk, TRUE)
    /\ kind' = Append(kind, "ver")
    /\ rp' = Append(rp, rp[n])
    /\ uid' = Append(uid, t)
    /\ SetHead(rp[n], TagBranch(t), nn + 1) /\ UNCHANGED dead
    /\ last' = [op |-> "tag", node |-> n, tag |-> t, ok |-> TRUE, new |-> nn + 1]

Tag_Rej(n, t) ==
    /\ ~G_Tag(n, t)
    /\ Rej([op |-> "tag", node |-> n, tag |-> t])

(***************************************************************************)
(* POST /api/repo/<r>/merge {"parents": [...]}                             *)
(***************************************************************************)
MergeArgsOK(ps) ==
    /\ Len(ps) >= 2
    /\ \A i \in 1..Len(ps) : ps[i] \in Live /\ lk[ps[i]] /\ rp[ps[i]] = rp[ps[1]]
    /\ \A i, j \in 1..Len(ps) : i # j => ps[i] # ps[j]

Merge_Ok(ps) ==
    /\ nn < MaxNodes
    /\ MergeArgsOK(ps)
    /\ AddNode(ps, "", "merge", rp[ps[1]], "auto")
    /\ UNCHANGED <<head, dead>>   \* the server does not move any branch head on merge
    /\ last' = [op |-> "merge", parents |-> ps, ok |-> TRUE, new |-> nn + 1]

Merge_Rej(ps) ==
    /\ ~MergeArgsOK(ps)
    /\ Rej([op |-> "merge", parents |-> ps])

(***************************************************************************)
(* Deleting a repo (the `repos delete <uuid>` command): only by the UUID of *)
(* its root.  All its nodes and UUIDs disappear; other repos are untouched. *)
(***************************************************************************)
G_DeleteRepo(n) == n \in LiveRoots

DeleteRepo_Ok(n) ==
    /\ G_DeleteRepo(n)
    /\ dead' = dead \cup {n}
    /\ UNCHANGED <<nn, par, kids, br, lk, kind, rp, uid, head>>
    /\ last' = [op |-> "deleterepo", node |-> n, ok |-> TRUE]

DeleteRepo_Rej(n) ==
    /\ ~G_DeleteRepo(n)
    /\ Rej([op |-> "deleterepo", node |-> n])

(***************************************************************************)
(* Requests that must leave the version graph alone whatever their outcome: *)
(* node note / log, repo log, data instance creation, rename and deletion.  *)
(***************************************************************************)
NeutralKinds == {"note", "log", "repolog", "newinstance", "renameinstance", "deleteinstance"}
Neutral(k, n) ==
    /\ WithRejects /\ n \in Live
    /\ UNCHANGED dagvars
    /\ last' = [op |-> k, node |-> n, ok |-> TRUE]

(***************************************************************************)
(* Argument domains (valid and invalid)                                    *)
(***************************************************************************)
NodeArgs == Nodes \cup (IF WithRejects THEN {NoNode} ELSE {})
DupArgs == IF WithRejects THEN {"dup" \o ToString(n) : n \in Live} ELSE {}   \* "the UUID node n already has"
UUIDArgs == {"auto"} \cup UUIDPool \cup DupArgs
ParentSeqs ==
    LET A == NodeArgs IN
    {<<a, b>> : a \in A, b \in A} \cup
    (IF MaxParents >= 3 THEN {<<a, b, c>> : a \in A, b \in A, c \in A} ELSE {})

Next ==
    \/ \E u \in UUIDArgs : NewRepo_Ok(u) \/ NewRepo_Rej(u)
    \/ \E n \in NodeArgs : Commit_Ok(n) \/ Commit_Rej(n)
    \/ \E n \in NodeArgs, u \in UUIDArgs : NewVersion_Ok(n, u) \/ NewVersion_Rej(n, u)
    \/ \E n \in NodeArgs, b \in Branches \cup {"", "master"}, u \in UUIDArgs : Branch_Ok(n, b, u) \/ Branch_Rej(n, b, u)
    \/ \E n \in NodeArgs, t \in UUIDPool \cup DupArgs : Tag_Ok(n, t) \/ Tag_Rej(n, t)
    \/ \E ps \in ParentSeqs : Merge_Ok(ps) \/ Merge_Rej(ps)
    \/ \E n \in NodeArgs : DeleteRepo_Ok(n) \/ DeleteRepo_Rej(n)
    \/ \E k \in NeutralKinds, n \in NodeArgs : Neutral(k, n)

Spec == Init /\ [][Next]_vars

(***************************************************************************)
(* Property C07                                                            *)
(***************************************************************************)
TypeOK ==
    /\ nn \in 0..MaxNodes
    /\ Len(par) = nn /\ Len(kids) = nn /\ Len(br) = nn /\ Len(lk) = nn
    /\ Len(kind) = nn /\ Len(rp) = nn /\ Len(uid) = nn

\* each repo has a single root; every other node has parents, all in its repo
Inv_SingleRoot ==
    \A n \in Nodes :
        /\ (kind[n] = "root") <=> (par[n] = <<>>)
        /\ rp[n] \in Roots
        /\ kind[n] = "root" => rp[n] = n
        /\ \A i \in 1..Len(par[n]) : rp[par[n][i]] = rp[n]

\* parents were created before children: hence acyclic
Inv_Acyclic == \A n \in Nodes : \A i \in 1..Len(par[n]) : par[n][i] < n

\* parent and child links mirror each other, no duplicates
Inv_Mirror ==
    \A p, c \in Vis :
        /\ Cardinality({i \in 1..Len(par[c]) : par[c][i] = p}) = Cardinality({i \in 1..Len(kids[p]) : kids[p][i] = c})
        /\ Cardinality({i \in 1..Len(par[c]) : par[c][i] = p}) <= 1

\* every caller-assigned UUID names exactly one node
Inv_UUIDUnique == \A m, n \in Live : (uid[m] # "auto" /\ uid[m] = uid[n]) => m = n

\* a new version only ever hangs off a committed parent
Inv_ParentsCommitted == \A n \in Nodes : \A i \in 1..Len(par[n]) : lk[par[n][i]]

\* each branch made by branch / newversion requests is one linear chain with one head
NonMerge(b, root) == {n \in Vis : rp[n] = root /\ br[n] = b /\ kind[n] # "merge"}
Inv_BranchChain ==
    \A root \in Roots : \A b \in {br[n] : n \in Vis} :
        LET S == NonMerge(b, root) IN
        \* at most one member of the branch is not the child of another member
        /\ b # "" => Cardinality({n \in S : ~\E i \in 1..Len(par[n]) : par[n][i] \in S}) <= 1
        \* no member has two children (made by version requests) on the branch
        /\ \A n \in S : Cardinality({c \in S : kind[c] = "ver" /\ par[c] = <<n>>}) <= 1
        \* the server's head for a named branch is its unique leaf
        /\ (b # "" /\ S # {}) =>
              /\ <<root, b>> \in DOMAIN head
              /\ head[<<root, b>>] \in S
              /\ ~\E c \in S : par[c] = <<head[<<root, b>>]>>

Inv_C07 == TypeOK /\ Inv_SingleRoot /\ Inv_Acyclic /\ Inv_Mirror /\ Inv_UUIDUnique
           /\ Inv_ParentsCommitted /\ Inv_BranchChain

\* A request answered with an error leaves graph, heads and identifier maps unchanged.
Act_C07_RejectIsStutter == [][last'.ok = FALSE => UNCHANGED dagvars]_vars

\* Committed nodes never become uncommitted; structure of existing nodes' parents never changes.
Act_Monotone ==
    [][\A n \in Nodes : /\ (lk[n] => lk'[n])
                        /\ par'[n] = par[n] /\ br'[n] = br[n] /\ uid'[n] = uid[n] /\ rp'[n] = rp[n]]_vars

(***************************************************************************)
(* GROWTH (second round): repo-level operations offered by the RPC         *)
(* interface and graph-neutral instance requests.  They are not part of    *)
(* Next (the first-round state graph stays as it was); NextG adds them.    *)
(***************************************************************************)
Max(S) == CHOOSE x \in S : \A y \in S : y <= x

\* The branch heads a server computes from the graph alone when it loads a repo: per branch name
\* the most recently created chain head (a non-merge node without a non-merge child on its own
\* branch).  Parameterised so that it can be applied to a successor state.
ChainHeadIn(n, brx, kidsx) ==
    /\ Len(par[n]) <= 1
    /\ ~\E i \in 1..Len(kidsx[n]) : Len(par[kidsx[n][i]]) <= 1 /\ brx[kidsx[n][i]] = brx[n]
HeadsOfRepo(root, brx, kidsx, kindx) ==
    LET H == {n \in Nodes : kindx[n] # "hidden" /\ rp[n] = root /\ ChainHeadIn(n, brx, kidsx)}
        D == {<<root, brx[n]>> : n \in H}
    IN [x \in D |-> Max({n \in H : brx[n] = x[2]})]
\* head with the entries of one repo replaced by the recomputed ones
ReHead(root, brx, kidsx, kindx) ==
    LET R == HeadsOfRepo(root, brx, kidsx, kindx)
        Keep == {x \in DOMAIN head : x[1] # root}
    IN [x \in Keep \cup DOMAIN R |-> IF x \in DOMAIN R THEN R[x] ELSE head[x]]

\* The branch heads tracked request by request are always the ones a reload would compute
\* (otherwise a restart would change what <uuid>:<branch> names: C03 on the DAG part).
Inv_HeadsAsReloaded ==
    \A root \in LiveRoots :
        LET R == HeadsOfRepo(root, br, kids, kind) IN
        /\ DOMAIN R = {x \in DOMAIN head : x[1] = root}
        /\ \A x \in DOMAIN R : head[x] = R[x]

(***************************************************************************)
(* repo <n> make-master <o>: the branch that starts at n (a version made   *)
(* by a branch request off a master version) becomes master; the master    *)
(* versions below n's parent are renamed to o.                             *)
(***************************************************************************)
KidsOn(n, b) == {c \in Range(kids[n]) : br[c] = b}
FirstKidOn(n, b) ==
    LET I == {i \in 1..Len(kids[n]) : br[kids[n][i]] = b} IN
    IF I = {} THEN 0 ELSE kids[n][CHOOSE i \in I : \A j \in I : i <= j]
RECURSIVE ChainFrom(_, _)
ChainFrom(n, b) == {n} \cup (IF FirstKidOn(n, b) = 0 THEN {} ELSE ChainFrom(FirstKidOn(n, b), b))

\* the new name of the old master versions must be a legal branch name not in use (giving them the
\* name the promoted branch gives up is a swap and fine)
OldNameOK(n, o) == ValidBranchName(o) /\ (o = br[n] \/ ~BranchUsed(rp[n], o))

\* requests that must be refused: the documentation promises failure unless n was branched directly off master
R_MakeMaster(n, o) ==
    \/ n \notin Live
    \/ /\ n \in Live
       /\ \/ br[n] = ""
          \/ kind[n] = "ver" /\ br[par[n][1]] # ""
          \/ kind[n] = "ver" /\ KidsOn(par[n][1], "") = {}
          \/ ~OldNameOK(n, o)

\* requests with a defined effect: the old master line below the fork is one chain of ordinary versions
G_MakeMaster(n, o) ==
    /\ n \in Live /\ kind[n] = "ver" /\ br[n] # "" /\ OldNameOK(n, o)
    /\ LET p == par[n][1] IN
       /\ br[p] = "" /\ Cardinality(KidsOn(p, "")) = 1
       /\ \A m \in ChainFrom(FirstKidOn(p, ""), "") : kind[m] = "ver" /\ Cardinality(KidsOn(m, "")) <= 1

MakeMaster_Ok(n, o) ==
    /\ G_MakeMaster(n, o)
    /\ LET old == ChainFrom(FirstKidOn(par[n][1], ""), "")
           new == ChainFrom(n, br[n])
           br2 == [m \in Nodes |-> IF m \in old THEN o ELSE IF m \in new THEN "" ELSE br[m]]
       IN /\ br' = br2
          /\ head' = ReHead(rp[n], br2, kids, kind)
    /\ UNCHANGED <<nn, par, kids, lk, kind, rp, uid, dead>>
    /\ last' = [op |-> "makemaster", node |-> n, branch |-> o, ok |-> TRUE]

MakeMaster_Rej(n, o) ==
    /\ R_MakeMaster(n, o)
    /\ Rej([op |-> "makemaster", node |-> n, branch |-> o])

\* neither: the outcome is not specified (merge versions on the old master line, ...); whatever the
\* server answers, the graph must stay well formed (checked on the server's own graph) and stable
MakeMaster_Probe(n, o) ==
    /\ ~R_MakeMaster(n, o) /\ ~G_MakeMaster(n, o)
    /\ WithRejects /\ UNCHANGED dagvars
    /\ last' = [op |-> "makemaster", node |-> n, branch |-> o, ok |-> FALSE, probe |-> TRUE]

(***************************************************************************)
(* repo <n> hide-branch <b>: the versions of branch b of n's repo vanish    *)
(* (their UUIDs become unknown, the data stays in the store).               *)
(***************************************************************************)
OnBranch(root, b) == {m \in Vis : rp[m] = root /\ br[m] = b}
\* no remaining version descends from the branch
BranchClosed(root, b) ==
    \A c \in Vis : (rp[c] = root /\ br[c] # b) => \A i \in 1..Len(par[c]) : par[c][i] \notin OnBranch(root, b)

R_HideBranch(n, b) == n \notin Live \/ b = ""
G_HideBranch(n, b) == n \in Live /\ b # "" /\ BranchClosed(rp[n], b)

HideBranch_Ok(n, b) ==
    /\ G_HideBranch(n, b)
    /\ LET S == OnBranch(rp[n], b)
           kind2 == [m \in Nodes |-> IF m \in S THEN "hidden" ELSE kind[m]]
           kids2 == [m \in Nodes |-> SelectSeq(kids[m], LAMBDA c : c \notin S)]
       IN /\ kind' = kind2 /\ kids' = kids2
          /\ head' = ReHead(rp[n], br, kids2, kind2)
    /\ UNCHANGED <<nn, par, br, lk, rp, uid, dead>>
    /\ last' = [op |-> "hidebranch", node |-> n, branch |-> b, ok |-> TRUE]

HideBranch_Rej(n, b) ==
    /\ R_HideBranch(n, b)
    /\ Rej([op |-> "hidebranch", node |-> n, branch |-> b])

\* versions outside the branch descend from it: refusing or hiding them too are both conceivable
HideBranch_Probe(n, b) ==
    /\ ~R_HideBranch(n, b) /\ ~G_HideBranch(n, b)
    /\ WithRejects /\ UNCHANGED dagvars
    /\ last' = [op |-> "hidebranch", node |-> n, branch |-> b, ok |-> FALSE, probe |-> TRUE]

(***************************************************************************)
(* Graph-neutral instance requests of the second round: sync wiring        *)
(* (POST <instance>/sync, with and without replace=true, clearing) and the *)
(* deletion of an instance another one is synced with.                     *)
(***************************************************************************)
NeutralKindsG == {"setsync", "replacesync", "clearsync", "deletesynced"}

GrowthOps == {"makemaster", "hidebranch"} \cup NeutralKindsG
OldNames == {"o", "master"} \cup Branches       \* fresh, reserved, possibly in use or inexpressible
HideNames == {"o", "", "master"} \cup Branches
\* a repo is named by any of its versions; the root and an unknown UUID suffice for hide-branch
HideArgs == LiveRoots \cup (IF WithRejects THEN {NoNode} ELSE {})
\* argument domains of the emitted refused / unspecified growth requests (independent of WithRejects)
MMArgsAll == Nodes \cup {NoNode}
HideArgsAll == LiveRoots \cup {NoNode}

NextG ==
    \/ Next
    \/ \E n \in NodeArgs, o \in OldNames : MakeMaster_Ok(n, o) \/ MakeMaster_Rej(n, o) \/ MakeMaster_Probe(n, o)
    \/ \E n \in HideArgs, b \in HideNames : HideBranch_Ok(n, b) \/ HideBranch_Rej(n, b) \/ HideBranch_Probe(n, b)
    \/ \E k \in NeutralKindsG, n \in LiveRoots : Neutral(k, n)

SpecG == Init /\ [][NextG]_vars

\* a visible version never has a hidden parent; hidden versions are never roots
Inv_HiddenClosed ==
    \A n \in Vis : \A i \in 1..Len(par[n]) : par[n][i] \in Vis

Inv_C07G == Inv_C07 /\ Inv_HiddenClosed /\ Inv_HeadsAsReloaded

\* as Act_Monotone, except that make-master renames branches
Act_MonotoneG ==
    [][\A n \in Nodes : /\ (lk[n] => lk'[n])
                        /\ par'[n] = par[n] /\ uid'[n] = uid[n] /\ rp'[n] = rp[n]
                        /\ (br'[n] = br[n] \/ last'.op = "makemaster")
                        /\ (kind'[n] = kind[n] \/ last'.op = "hidebranch")]_vars

(***************************************************************************)
(* Addresses: what <uuid>:<branch>~<k> and UUID prefixes name in a state.  *)
(***************************************************************************)
RECURSIVE UpLine(_)
\* n, its parent, ... up to the root, as long as every version on the way has one parent
UpLine(n) == IF Len(par[n]) = 0 THEN <<n>>
             ELSE IF Len(par[n]) = 1 /\ UpLine(par[n][1]) # <<>> THEN <<n>> \o UpLine(par[n][1])
             ELSE <<>>
\* named branches whose line up to the root is free of merges: <root>:<b>~k is the k-th entry
\* (0 = the head); k beyond the root is refused (0 = NoNode)
AddrObs ==
    {[root |-> x[1], branch |-> x[2], line |-> UpLine(head[x])] :
        x \in {y \in DOMAIN head : y[1] \in LiveRoots /\ y[2] # "" /\ UpLine(head[y]) # <<>>}}
\* master: only where all master versions form one merge-free line
MasterLine(root) ==
    LET M == {n \in Vis : rp[n] = root /\ br[n] = ""} IN
    IF /\ \A n \in M : kind[n] # "merge" /\ Cardinality(KidsOn(n, "")) <= 1
       /\ Cardinality({n \in M : KidsOn(n, "") = {}}) = 1
    THEN UpLine(CHOOSE n \in M : KidsOn(n, "") = {}) ELSE <<>>
\* UUID prefixes: the caller-assigned UUIDs share a prefix P no server-made UUID starts with;
\* P names a version only while exactly one assigned UUID is live
PoolLive == {n \in Live : uid[n] \in UUIDPool}
PrefixObs == [count |-> Cardinality(PoolLive),
              node |-> IF Cardinality(PoolLive) = 1 THEN CHOOSE n \in PoolLive : TRUE ELSE NoNode,
              each |-> {[uuid |-> u, node |-> IF \E n \in Live : uid[n] = u THEN CHOOSE n \in Live : uid[n] = u ELSE NoNode] : u \in UUIDPool}]
\* growth requests of the argument domain that must be refused / whose outcome is unspecified
GrowthRejected ==
    {[op |-> "makemaster", node |-> x[1], branch |-> x[2]] : x \in {y \in MMArgsAll \X OldNames : R_MakeMaster(y[1], y[2])}}
    \cup {[op |-> "hidebranch", node |-> x[1], branch |-> x[2]] : x \in {y \in HideArgsAll \X HideNames : R_HideBranch(y[1], y[2])}}
GrowthProbes ==
    {[op |-> "makemaster", node |-> x[1], branch |-> x[2]] :
        x \in {y \in MMArgsAll \X OldNames : ~R_MakeMaster(y[1], y[2]) /\ ~G_MakeMaster(y[1], y[2])}}
    \cup {[op |-> "hidebranch", node |-> x[1], branch |-> x[2]] :
        x \in {y \in HideArgsAll \X HideNames : ~R_HideBranch(y[1], y[2]) /\ ~G_HideBranch(y[1], y[2])}}
\* accepted hide-branch requests that name no version: nothing changes
GrowthNoops ==
    {[op |-> "hidebranch", node |-> x[1], branch |-> x[2]] :
        x \in {y \in LiveRoots \X HideNames : G_HideBranch(y[1], y[2]) /\ OnBranch(y[1], y[2]) = {}}}

\* parent suffixes that name nothing: <root>:<branch><suffix> must be refused (and answered)
BadSuffixes == {"~-1", "~", "~x", "~1~1"}
ObsRec == [addr |-> AddrObs, badsuffix |-> BadSuffixes,
           master |-> {[root |-> r, line |-> MasterLine(r)] : r \in LiveRoots},
           prefix |-> PrefixObs]

(***************************************************************************)
(* Projection printed for replay                                           *)
(***************************************************************************)
\* Requests of the argument domain that must be refused in the current state.
RejectedOps ==
    {[op |-> "newrepo", uuid |-> u] : u \in {v \in UUIDArgs : ~G_NewRepo(v)}}
    \cup {[op |-> "commit", node |-> n] : n \in {m \in NodeArgs : ~G_Commit(m)}}
    \cup {[op |-> "newversion", node |-> x[1], uuid |-> x[2]] : x \in {y \in NodeArgs \X UUIDArgs : ~G_NewVersion(y[1], y[2])}}
    \cup {[op |-> "branch", node |-> x[1], branch |-> x[2], uuid |-> x[3]] :
              x \in {y \in NodeArgs \X (Branches \cup {"", "master"}) \X UUIDArgs : ~G_Branch(y[1], y[2], y[3])}}
    \cup {[op |-> "tag", node |-> x[1], tag |-> x[2]] : x \in {y \in NodeArgs \X (UUIDPool \cup DupArgs) : ~G_Tag(y[1], y[2])}}
    \cup {[op |-> "merge", parents |-> ps] : ps \in {q \in ParentSeqs : ~MergeArgsOK(q)}}
    \cup {[op |-> "deleterepo", node |-> n] : n \in {m \in NodeArgs : ~G_DeleteRepo(m)}}
    \cup {[op |-> k, node |-> n] : k \in NeutralKinds, n \in Live}

StateRec ==
    [nn |-> nn, par |-> par, kids |-> kids, br |-> br, lk |-> lk, kind |-> kind, rp |-> rp, uid |-> uid,
     heads |-> {[root |-> x[1], branch |-> x[2], node |-> head[x]] : x \in DOMAIN head},
     dead |-> dead]

(***************************************************************************)
(* THIRD ROUND: odd arguments (NextX).  Strings that are not identifiers    *)
(* where an identifier is expected, branch names that look like a tag's    *)
(* branch or hold a '/', a merge type other than "conflict-free", the node *)
(* note.  None of this is offered by Next / NextG: the earlier state       *)
(* graphs stay as they were.                                               *)
(***************************************************************************)
OddUUIDArgs == OddFixed \cup {PrefName(n) : n \in Live}
\* where an identifier to assign is optional ("root", "uuid", the RPC argument) an empty string may as well
\* mean "none given": only a tag request must refuse it
OddAssignArgs == OddUUIDArgs \ {"empty"}
\* "tag-<u>" is the branch a tag request with tag u makes; "a/b" cannot be written into a URL path
\* segment but is an ordinary name otherwise
OddBranches == {"a/b"} \cup {TagBranch(u) : u \in UUIDPool}
NodeArgsX == Nodes \cup {NoNode}

NextX ==
    \/ Next
    \/ \E u \in OddAssignArgs : NewRepo_Ok(u) \/ NewRepo_Rej(u)
    \/ \E n \in NodeArgsX, u \in OddAssignArgs : NewVersion_Ok(n, u) \/ NewVersion_Rej(n, u)
    \/ \E n \in NodeArgsX, b \in Branches, u \in OddAssignArgs : Branch_Ok(n, b, u) \/ Branch_Rej(n, b, u)
    \/ \E n \in NodeArgsX, t \in OddUUIDArgs : Tag_Ok(n, t) \/ Tag_Rej(n, t)
    \/ \E n \in NodeArgsX, b \in OddBranches : Branch_Ok(n, b, "auto") \/ Branch_Rej(n, b, "auto")
SpecX == Init /\ [][NextX]_vars

\* number of versions that carry an odd identifier or branch name (bounds the exploration of NextX)
\* (a branch "tag-<u>" counts when it was not made by a tag request)
OddCount == Cardinality({n \in Nodes : \/ uid[n] \in OddTagNames
                                        \/ br[n] = "a/b"
                                        \/ \E t \in OddTagNames : br[n] = TagBranch(t)
                                        \/ \E u \in UUIDPool : /\ br[n] = TagBranch(u)
                                                                 /\ ~\E m \in Nodes : uid[m] = u /\ br[m] = TagBranch(u)})

\* What an address that consists of a version's own identifier names.  The resolver accepts
\* shortened identifiers, so a string can be one version's identifier and a proper prefix of
\* another's (a short tag): the version whose identifier it IS wins; only when there is none does
\* a unique prefix match count.  (A resolver that only scans for prefixes would find two versions
\* and refuse: the tagged version could never be addressed.)
ExactMatch(n) == {m \in Live : m = n \/ (uid[m] # "auto" /\ uid[m] = uid[n])}
LongerMatch(n) == {m \in Live : uid[n] = PrefName(m)}      \* versions whose identifier n's identifier is a proper prefix of
ResolveOwn(n) == IF Cardinality(ExactMatch(n)) = 1 THEN n ELSE NoNode
Inv_SelfResolve == \A n \in Live : ResolveOwn(n) = n
Inv_C07X == Inv_C07 /\ Inv_SelfResolve

\* what the shortened identifier "pref<k>" names: the version tagged with exactly that string, else k
PrefObsX == {[name |-> PrefName(k),
              node |-> IF \E m \in Live : uid[m] = PrefName(k) THEN CHOOSE m \in Live : uid[m] = PrefName(k) ELSE k]
                : k \in {j \in Live : uid[j] \notin OddTagNames}}

\* ---- classes of refused requests (for a stratified replay sample: request kind x argument kind) ----
MergeNodes == {n \in Live : kind[n] = "merge"}
NodeRel(n) == IF n = NoNode THEN "unknown"
              ELSE IF n \notin Live THEN "dead"
              ELSE IF kind[n] = "merge" THEN "merge"
              ELSE IF \E m \in MergeNodes : m \in AncOf(n) THEN "belowmerge"
              ELSE IF \E m \in MergeNodes : n \in Range(par[m]) THEN "mergeparent"
              ELSE "plain"
UKind(u) == IF u \in OddFixed THEN u
            ELSE IF u \in AllPrefNames THEN "pref"
            ELSE IF u = "auto" THEN "auto"
            ELSE IF u \in UUIDPool THEN "pool"
            ELSE IF \E m \in MergeNodes : u = "dup" \o ToString(m) THEN "dupmerge"
            ELSE "dup"
ParentBad(ps, i) ==
    IF ps[i] = NoNode THEN "unknown"
    ELSE IF ps[i] \notin Live THEN "dead"
    ELSE IF ~lk[ps[i]] THEN "open"
    ELSE IF ps[1] \in Live /\ rp[ps[i]] # rp[ps[1]] THEN "foreign"
    ELSE IF \E j \in 1..(i-1) : ps[j] = ps[i] THEN "repeated"
    ELSE ""
BadPositions(ps) == {i \in 1..Len(ps) : ParentBad(ps, i) # ""}
MergeCls(ps) ==
    LET B == BadPositions(ps) IN
    "merge|" \o ToString(Len(ps)) \o "|"
      \o (IF Cardinality(B) = 1 THEN "only" \o ToString(CHOOSE i \in B : TRUE) \o ":" \o ParentBad(ps, CHOOSE i \in B : TRUE)
          ELSE "several")
      \o (IF \E i \in 1..Len(ps) : ps[i] \in MergeNodes THEN "|mergeparent" ELSE "")
ClsOf(r) ==
    IF r.op = "merge" THEN MergeCls(r.parents)
    ELSE IF r.op = "newrepo" THEN "newrepo|" \o UKind(r.uuid)
    ELSE IF r.op = "newversion" THEN "newversion|" \o NodeRel(r.node) \o "|" \o UKind(r.uuid)
    ELSE IF r.op = "branch" THEN "branch|" \o NodeRel(r.node) \o "|" \o r.branch \o "|" \o UKind(r.uuid)
    ELSE IF r.op = "tag" THEN "tag|" \o NodeRel(r.node) \o "|" \o UKind(r.tag)
    ELSE r.op \o "|" \o NodeRel(r.node)

\* the first-round refused requests of the state over the full argument domain (unknown node, the
\* identifier of every live version as a duplicate), whatever WithRejects; of the merges only those
\* with at most one bad parent
DupAll == {"dup" \o ToString(n) : n \in Live}
UUIDArgsAll == {"auto"} \cup UUIDPool \cup DupAll
ParentSeqsAll ==
    {<<a, b>> : a \in NodeArgsX, b \in NodeArgsX} \cup
    (IF MaxParents >= 3 THEN {<<a, b, c>> : a \in NodeArgsX, b \in NodeArgsX, c \in NodeArgsX} ELSE {})
RejectedOpsAll ==
    {[op |-> "newrepo", uuid |-> u] : u \in {v \in UUIDArgsAll : ~G_NewRepo(v)}}
    \cup {[op |-> "commit", node |-> n] : n \in {m \in NodeArgsX : ~G_Commit(m)}}
    \cup {[op |-> "newversion", node |-> x[1], uuid |-> x[2]] : x \in {y \in NodeArgsX \X UUIDArgsAll : ~G_NewVersion(y[1], y[2])}}
    \cup {[op |-> "branch", node |-> x[1], branch |-> x[2], uuid |-> x[3]] :
              x \in {y \in NodeArgsX \X (Branches \cup {"", "master"}) \X UUIDArgsAll : ~G_Branch(y[1], y[2], y[3])}}
    \cup {[op |-> "tag", node |-> x[1], tag |-> x[2]] : x \in {y \in NodeArgsX \X (UUIDPool \cup DupAll) : ~G_Tag(y[1], y[2])}}
    \cup {[op |-> "merge", parents |-> ps] : ps \in {q \in ParentSeqsAll : ~MergeArgsOK(q) /\ Cardinality(BadPositions(q)) <= 1}}
    \cup {[op |-> "deleterepo", node |-> n] : n \in {m \in NodeArgsX : ~G_DeleteRepo(m)}}
    \cup {[op |-> k, node |-> n] : k \in NeutralKinds, n \in Live}

\* odd requests that must be refused in the current state
RejectedOdd ==
    {[op |-> "newrepo", uuid |-> u] : u \in OddAssignArgs}
    \cup {[op |-> "newversion", node |-> x[1], uuid |-> x[2]] : x \in NodeArgsX \X OddAssignArgs}
    \cup {[op |-> "branch", node |-> x[1], branch |-> "a", uuid |-> x[2]] : x \in NodeArgsX \X OddAssignArgs}
    \cup {[op |-> "tag", node |-> x[1], tag |-> x[2]] : x \in {y \in NodeArgsX \X OddUUIDArgs : ~G_Tag(y[1], y[2])}}
    \cup {[op |-> "branch", node |-> x[1], branch |-> x[2], uuid |-> "auto"] :
              x \in {y \in NodeArgsX \X OddBranches : ~G_Branch(y[1], y[2], "auto")}}
\* a merge of acceptable parents with a merge type other than "conflict-free": refused whatever the parents
RejectedMergeType == {[op |-> "mergebadtype", parents |-> ps] : ps \in {q \in ParentSeqsAll : MergeArgsOK(q)}}
\* POST node/<n>/note: whatever the answer (refused on a committed version), the graph stays as it is
NeutralX == {[op |-> "nodenote", node |-> n] : n \in Live}

\* one representative request per class (request kind x argument kinds) of the state; the first-round
\* requests only at states that hold a merge version (no earlier replay sends a refused request there)
\* a repo made with a passcode is deleted only by a request that carries it ("deleterepowrong": the root's UUID
\* with another passcode)
RejectedPasscode == {[op |-> "deleterepowrong", node |-> n] : n \in LiveRoots}

RejectedX ==
    LET T == {<<ClsOf(r), r>> : r \in RejectedOdd \cup NeutralX \cup RejectedPasscode \cup (IF MergeNodes # {} THEN RejectedOpsAll ELSE {})}
    IN {(CHOOSE y \in {z \in T : z[1] = c} : TRUE)[2] @@ [cls |-> c] : c \in {z[1] : z \in T}}
       \cup (IF RejectedMergeType = {} THEN {} ELSE {(CHOOSE r \in RejectedMergeType : TRUE) @@ [cls |-> "mergebadtype"]})

\* after an accepted odd request: the tag / odd-branch requests that must be refused in the new state
\* (a tag whose branch name is taken, a second use of a tag, a taken odd branch name)
RejectedFollow ==
    {[op |-> "tag", node |-> x[1], tag |-> x[2]] :
        x \in {y \in Nodes \X (UUIDPool \cup {t \in OddTagNames : t \in UsedUUIDs}) : ~G_Tag(y[1], y[2])}}
    \cup {[op |-> "branch", node |-> x[1], branch |-> x[2], uuid |-> "auto"] :
              x \in {y \in Nodes \X OddBranches : ~G_Branch(y[1], y[2], "auto")}}

=============================================================================
