--------------------------- MODULE InstanceIso_mc ---------------------------
(* Constants of InstanceIso that a .cfg file cannot hold. *)
EXTENDS InstanceIso
IdStartDefault == <<0, 1>>            \* a server without instance_id_start
IdStartHigh    == <<65535, 65534>>    \* instance_id_start = 2^32-2: ids 2^32-2, 2^32-1, 0, 1, ...
=============================================================================
