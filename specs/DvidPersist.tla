---------------------------- MODULE DvidPersist ----------------------------
(***************************************************************************)
(* Metadata persistence of a DVID server at the grain of single store      *)
(* writes (properties C03, C04, C12).                                      *)
(*                                                                         *)
(* The metadata store holds five key classes; every write replaces the     *)
(* whole value of one key with the manager's current in-memory value       *)
(* (putCaches rewrites both maps, r.save() the whole repo blob):           *)
(*    R2U  repo id -> root version      V2U  version id -> UUID            *)
(*    IDS  the three id counters        REPO(r) the repo blob              *)
(*    MUT(r) persisted-ahead mutation id                                   *)
(* Every repo-level operation is a fixed program of in-memory steps and    *)
(* store writes, in the order of datastore/repo_local.go.  Crash may       *)
(* happen between any two steps; Recover is loadMetadata (with its         *)
(* tolerant repairs) followed by its own writes.                           *)
(*                                                                         *)
(* Growth (C03-3, C03-7, C07-6): UUIDs are modelled next to version ids    *)
(* (a server-chosen UUID of version v is v itself; a caller may assign any *)
(* UUID that is not known: a new one or one freed by deleterepo /          *)
(* hide-branch); nodes carry a branch, instances a name; the requests      *)
(* deleterepo, hide-branch, make-master, rename, deletedata (acknowledged  *)
(* before its writes), tag and the caller-assigned variants of newrepo /   *)
(* newversion have their programs; Obs includes the set of known UUIDs.    *)
(***************************************************************************)
EXTENDS Integers, Sequences, FiniteSets, TLC, SequencesExt

CONSTANTS MaxVersions, MaxRepos, MaxInsts, MaxMut, Stride, MaxCrashes,
          MaxAdmin    \* bound on the administrative requests of one behaviour (model checking only)

NoBlob == [nodes |-> {}, locked |-> {}, par |-> <<>>, insts |-> {}, br |-> <<>>, uu |-> <<>>, names |-> <<>>]

VARIABLES
    mem,     \* in-memory manager state (or "down" when the process is dead)
    disk,    \* persistent metadata store
    prog,    \* remaining steps of the operation in progress (sequence)
    cur,     \* the operation in progress (record) or [op |-> "none"]
    acked,   \* acknowledged facts: set of records
    issued,  \* identifiers handed out to clients: set of <<kind, id>>
    crashes, \* number of crashes so far
    up,      \* process is up
    nadmin   \* administrative requests so far

vars == <<mem, disk, prog, cur, acked, issued, crashes, up, nadmin>>

EmptyMem == [r2u |-> <<>>, v2u |-> <<>>, rid |-> 1, vid |-> 1, iid |-> 1,
             blob |-> <<>>, mutcur |-> <<>>, mutsaved |-> <<>>, deleting |-> {}]
\* (deleting: the deletion flags of data instances, serialized with their repo's blob)
EmptyDisk == [r2u |-> <<>>, v2u |-> <<>>, rid |-> 1, vid |-> 1, iid |-> 1, blob |-> <<>>, mut |-> <<>>, deleting |-> {}]

\* functions over small integer domains are kept as partial functions
Dom(f) == DOMAIN f
Ran(f) == {f[x] : x \in DOMAIN f}
Upd(f, k, v) == [x \in (DOMAIN f) \cup {k} |-> IF x = k THEN v ELSE f[x]]
Del(f, k) == [x \in (DOMAIN f) \ {k} |-> f[x]]
DelSet(f, S) == [x \in (DOMAIN f) \ S |-> f[x]]

\* the UUID string a caller may invent (server-chosen UUIDs are the version numbers)
NewString == 100

Init ==
    /\ mem = EmptyMem /\ disk = EmptyDisk
    /\ prog = <<>> /\ cur = [op |-> "none"]
    /\ acked = {} /\ issued = {} /\ crashes = 0 /\ up = TRUE /\ nadmin = 0

Idle == up /\ prog = <<>>

(***************************************************************************)
(* Steps.  A step is a record [k |-> kind, ...].                           *)
(***************************************************************************)
\* children of v that carry branch b (getChildBranchNode)
ChildOn(bl, v, b) == {c \in bl.nodes : bl.br[c] = b /\ \E i \in 1..Len(bl.par[c]) : bl.par[c][i] = v}

\* v and its descendants along branch b (the loop of makeMaster), at most MaxVersions long
RECURSIVE Chain(_, _, _, _)
Chain(bl, v, b, n) ==
    IF n = 0 \/ ChildOn(bl, v, b) = {} THEN {v}
    ELSE {v} \cup Chain(bl, CHOOSE c \in ChildOn(bl, v, b) : TRUE, b, n - 1)

\* the versions of branch b
OnBranch(bl, b) == {v \in bl.nodes : bl.br[v] = b}

HideIn(bl, b) ==
    LET gone == OnBranch(bl, b) IN
    [bl EXCEPT !.nodes = @ \ gone, !.locked = @ \ gone, !.par = DelSet(@, gone),
               !.br = DelSet(@, gone), !.uu = DelSet(@, gone)]

\* make-master of v (first version of branch b, branched off the master version p whose master child is s):
\* the old master chain from s takes the name nb, the chain of v on b becomes master (0)
MasterIn(bl, v, s, nb) ==
    LET b == bl.br[v]
        old == Chain(bl, s, 0, MaxVersions)
        new == Chain([bl EXCEPT !.br = [x \in DOMAIN @ |-> IF x \in old THEN nb ELSE @[x]]], v, b, MaxVersions)
    IN [bl EXCEPT !.br = [x \in DOMAIN @ |-> IF x \in old THEN nb ELSE IF x \in new THEN 0 ELSE @[x]]]

\* (d is the store the step reads: initMutationID reads the persisted mutation id)
ApplyMemStepD(m, d, s) ==
    CASE s.k = "allocV" ->   \* newUUID, in memory: register version with its UUID, bump counter
            [m EXCEPT !.v2u = Upd(@, s.v, s.u), !.vid = @ + 1]
      [] s.k = "allocR" ->   \* newRepoID
            [m EXCEPT !.rid = @ + 1]
      [] s.k = "allocI" ->
            [m EXCEPT !.iid = @ + 1]
      [] s.k = "mapRepo" ->  \* repoToUUID[id] = root
            [m EXCEPT !.r2u = Upd(@, s.r, s.v)]
      [] s.k = "mkRepo" ->
            [m EXCEPT !.blob = Upd(@, s.r, [nodes |-> {s.v}, locked |-> {}, par |-> Upd(<<>>, s.v, <<>>), insts |-> {},
                                            br |-> Upd(<<>>, s.v, 0), uu |-> Upd(<<>>, s.v, m.v2u[s.v]), names |-> <<>>])]
      [] s.k = "mkNode" ->
            [m EXCEPT !.blob = Upd(@, s.r, [@[s.r] EXCEPT !.nodes = @ \cup {s.v}, !.par = Upd(@, s.v, s.ps),
                                                          !.br = Upd(@, s.v, s.b), !.uu = Upd(@, s.v, m.v2u[s.v])])]
      [] s.k = "lock" ->
            [m EXCEPT !.blob = Upd(@, s.r, [@[s.r] EXCEPT !.locked = @ \cup {s.v}])]
      [] s.k = "mkInst" ->
            [m EXCEPT !.blob = Upd(@, s.r, [@[s.r] EXCEPT !.insts = @ \cup {s.i}, !.names = Upd(@, s.i, 0)])]
      [] s.k = "mutInit" ->  \* initMutationID: cur from disk (or start), saved = cur + Stride
            LET c == IF s.r \in Dom(d.mut) THEN d.mut[s.r] ELSE 0 IN
            [m EXCEPT !.mutcur = Upd(@, s.r, c), !.mutsaved = Upd(@, s.r, c + Stride)]
      [] s.k = "mutNext" ->  \* newMutationID, in memory
            [m EXCEPT !.mutcur = Upd(@, s.r, @[s.r] + 1)]
      [] s.k = "mutAhead" ->
            [m EXCEPT !.mutsaved = Upd(@, s.r, @[s.r] + Stride)]
      [] s.k = "dropRepo" -> \* deleteRepo: the repo and its versions leave every in-memory table
            [m EXCEPT !.r2u = Del(@, s.r), !.v2u = DelSet(@, m.blob[s.r].nodes), !.blob = Del(@, s.r),
                      !.mutcur = Del(@, s.r), !.mutsaved = Del(@, s.r),
                      !.deleting = {x \in @ : x[1] # s.r}]
      [] s.k = "hide" ->     \* hideBranch
            [m EXCEPT !.v2u = DelSet(@, OnBranch(m.blob[s.r], s.b)), !.blob = Upd(@, s.r, HideIn(m.blob[s.r], s.b))]
      [] s.k = "mkMaster" ->
            [m EXCEPT !.blob = Upd(@, s.r, MasterIn(m.blob[s.r], s.v, s.s, s.nb))]
      [] s.k = "rename" ->
            [m EXCEPT !.blob = Upd(@, s.r, [@[s.r] EXCEPT !.names = Upd(@, s.i, 1 - @[s.i])])]
      [] s.k = "markDel" ->  \* SetDeleted(true): in memory only, the instance is hidden at once
            [m EXCEPT !.deleting = @ \cup {<<s.r, s.i>>}]
      [] s.k = "rmInst" ->
            [m EXCEPT !.blob = Upd(@, s.r, [@[s.r] EXCEPT !.insts = @ \ {s.i}, !.names = Del(@, s.i)]),
                      !.deleting = @ \ {<<s.r, s.i>>}]
      [] OTHER -> m

ApplyMemStep(m, s) == ApplyMemStepD(m, disk, s)

ApplyWrite(d, m, s) ==
    CASE s.k = "wR2U" -> [d EXCEPT !.r2u = m.r2u]
      [] s.k = "wV2U" -> [d EXCEPT !.v2u = m.v2u]
      [] s.k = "wIDS" -> [d EXCEPT !.rid = m.rid, !.vid = m.vid, !.iid = m.iid]
      [] s.k = "wREPO" -> [d EXCEPT !.blob = Upd(@, s.r, m.blob[s.r]),
                                     !.deleting = {x \in @ : x[1] # s.r} \cup {x \in m.deleting : x[1] = s.r}]
      [] s.k = "wMUT" -> [d EXCEPT !.mut = Upd(@, s.r, m.mutsaved[s.r])]
      [] s.k = "wDelREPO" -> [d EXCEPT !.blob = Del(@, s.r), !.deleting = {x \in @ : x[1] # s.r}]   \* (the MUT key of the repo stays)
      [] OTHER -> d

IsWrite(s) == s.k \in {"wR2U", "wV2U", "wIDS", "wREPO", "wMUT", "wDelREPO"}

PutCaches == <<[k |-> "wR2U"], [k |-> "wV2U"]>>
NewUUIDSteps(v, u) == <<[k |-> "allocV", v |-> v, u |-> u]>> \o PutCaches \o <<[k |-> "wIDS"]>>

(***************************************************************************)
(* Operations (started only when idle)                                     *)
(***************************************************************************)
\* the programs, one per operation, in the order of repo_local.go
NewRepoProg(r, v, u) ==
    NewUUIDSteps(v, u) \o <<[k |-> "allocR"], [k |-> "wIDS"], [k |-> "mapRepo", r |-> r, v |-> v]>>
    \o PutCaches \o <<[k |-> "mkRepo", r |-> r, v |-> v], [k |-> "wREPO", r |-> r],
                      [k |-> "mutInit", r |-> r], [k |-> "wMUT", r |-> r], [k |-> "ack"]>>
NewVersionProg(r, v, u, ps, b) ==
    NewUUIDSteps(v, u) \o <<[k |-> "mkNode", r |-> r, v |-> v, ps |-> ps, b |-> b], [k |-> "wREPO", r |-> r], [k |-> "ack"]>>
CommitProg(r, v) == <<[k |-> "lock", r |-> r, v |-> v], [k |-> "wREPO", r |-> r], [k |-> "ack"]>>
NewDataProg(r, i) ==
    <<[k |-> "allocI"], [k |-> "wIDS"], [k |-> "mkInst", r |-> r, i |-> i], [k |-> "wREPO", r |-> r], [k |-> "ack"]>>
\* POST node/tag: a child on its own branch with the tag as its UUID, committed at once
TagProg(r, v, u, p, b) ==
    NewUUIDSteps(v, u) \o <<[k |-> "mkNode", r |-> r, v |-> v, ps |-> <<p>>, b |-> b], [k |-> "wREPO", r |-> r],
                            [k |-> "lock", r |-> r, v |-> v], [k |-> "wREPO", r |-> r], [k |-> "ack"]>>
\* deleteRepo: the blob is deleted from the store, then the in-memory tables, then both caches
DeleteRepoProg(r) ==
    <<[k |-> "wDelREPO", r |-> r], [k |-> "dropRepo", r |-> r]>> \o PutCaches \o <<[k |-> "ack"]>>
\* hideBranch: tables in memory, the blob, then both caches
HideBranchProg(r, b) == <<[k |-> "hide", r |-> r, b |-> b], [k |-> "wREPO", r |-> r]>> \o PutCaches \o <<[k |-> "ack"]>>
MakeMasterProg(r, v, s, nb) == <<[k |-> "mkMaster", r |-> r, v |-> v, s |-> s, nb |-> nb], [k |-> "wREPO", r |-> r], [k |-> "ack"]>>
RenameProg(r, i) == <<[k |-> "rename", r |-> r, i |-> i], [k |-> "wREPO", r |-> r], [k |-> "ack"]>>
\* deleteData: the deletion flag is set and saved with the repo, then the request is acknowledged; the key
\* deletion (not modelled: data keys), the removal from the repo and the final save happen in a goroutine.
\* A start-up that finds a saved flag resumes the deletion (ResumeProg).
DeleteDataProg(r, i) ==
    <<[k |-> "markDel", r |-> r, i |-> i], [k |-> "wREPO", r |-> r], [k |-> "ack"],
      [k |-> "rmInst", r |-> r, i |-> i], [k |-> "wREPO", r |-> r], [k |-> "done"]>>

\* newMutationID: cur++ ; when cur reaches saved, persist saved + Stride before returning
MutNeedsPersist(c, saved) == c + 1 >= saved
NewMutProg(m, r) ==
    <<[k |-> "mutNext", r |-> r]>>
    \o (IF MutNeedsPersist(m.mutcur[r], m.mutsaved[r]) THEN <<[k |-> "mutAhead", r |-> r], [k |-> "wMUT", r |-> r]>> ELSE <<>>)
    \o <<[k |-> "ack"]>>

\* which of n consecutive allocations after initMutationID writes the MUT key, for a stride
\* (the allocation of NewMutProg, iterated; FoldLeft is evaluated iteratively)
MutSchedule(c0, saved0, stride, n) ==
    FoldLeft(LAMBDA acc, i : IF MutNeedsPersist(acc.c, acc.saved)
                             THEN [c |-> acc.c + 1, saved |-> acc.saved + stride, out |-> Append(acc.out, 1)]
                             ELSE [c |-> acc.c + 1, saved |-> acc.saved, out |-> Append(acc.out, 0)],
             [c |-> c0, saved |-> saved0, out |-> <<>>], [i \in 1..n |-> i]).out

WriteClass(s) == CASE s.k = "wR2U" -> "R2U" [] s.k = "wV2U" -> "V2U" [] s.k = "wIDS" -> "IDS"
                   [] s.k = "wREPO" -> "REPO" [] s.k = "wMUT" -> "MUT" [] s.k = "wDelREPO" -> "DEL-REPO" [] OTHER -> "?"
WritesOf(p) == LET w == SelectSeq(p, IsWrite) IN [i \in 1..Len(w) |-> WriteClass(w[i])]
\* the writes before the acknowledgement of a program
AckPos(p) == CHOOSE i \in 1..Len(p) : p[i].k = "ack"
WritesBeforeAck(p) == WritesOf(SubSeq(p, 1, AckPos(p)))

\* recovery's own writes for a store whose caches / counters need no repair: MUT per repo
RecoverWrites(nrepos) == [i \in 1..nrepos |-> "MUT"]

\* the store-write sequence each request must produce (conformance table for the write trace)
WriteTable == [newrepo |-> WritesOf(NewRepoProg(1, 1, 1)), newversion |-> WritesOf(NewVersionProg(1, 2, 2, <<1>>, 0)),
               merge |-> WritesOf(NewVersionProg(1, 3, 3, <<1, 2>>, 0)), commit |-> WritesOf(CommitProg(1, 1)),
               newdata |-> WritesOf(NewDataProg(1, 1)),
               newrepo_assigned |-> WritesOf(NewRepoProg(1, 1, NewString)),
               newversion_assigned |-> WritesOf(NewVersionProg(1, 2, NewString, <<1>>, 2)),
               tag |-> WritesOf(TagProg(1, 2, NewString, 1, 2)),
               deleterepo |-> WritesOf(DeleteRepoProg(1)),
               hidebranch |-> WritesOf(HideBranchProg(1, 2)),
               makemaster |-> WritesOf(MakeMasterProg(1, 3, 2, 4)),
               rename |-> WritesOf(RenameProg(1, 1)),
               deletedata_before_ack |-> WritesBeforeAck(DeleteDataProg(1, 1)),
               deletedata |-> WritesOf(DeleteDataProg(1, 1)),
               recover1 |-> RecoverWrites(1), recover2 |-> RecoverWrites(2)]

AllNodes(m) == UNION {m.blob[r].nodes : r \in Dom(m.blob)}

\* the UUID of a new version: chosen by the server, or assigned by the caller (an administrative request)
UUIDChoices(m, v) ==
    {[u |-> v, adm |-> 0]}
    \cup (IF nadmin < MaxAdmin
          THEN {[u |-> x, adm |-> 1] : x \in ((1..(m.vid - 1)) \cup {NewString}) \ Ran(m.v2u)}
          ELSE {})

StartNewRepo ==
    /\ Idle /\ mem.vid <= MaxVersions /\ mem.rid <= MaxRepos
    /\ LET v == mem.vid
           r == mem.rid IN
       \E c \in UUIDChoices(mem, v) :
         /\ cur' = [op |-> "newrepo", r |-> r, v |-> v, u |-> c.u]
         /\ prog' = NewRepoProg(r, v, c.u)
         /\ nadmin' = nadmin + c.adm
    /\ UNCHANGED <<mem, disk, acked, issued, crashes, up>>

\* a child continues its parent's branch unless the parent already has such a child: then it opens a
\* branch (named by its version); a merge child is on master
BranchChoices(bl, ps, v) ==
    IF Len(ps) = 2 THEN {0}
    ELSE IF ChildOn(bl, ps[1], bl.br[ps[1]]) = {} THEN {bl.br[ps[1]]} ELSE {v}

StartNewVersion ==
    /\ Idle /\ mem.vid <= MaxVersions
    /\ \E r \in Dom(mem.blob) : \E ps \in {<<p>> : p \in mem.blob[r].locked}
                                      \cup {<<p, q>> : p \in mem.blob[r].locked, q \in mem.blob[r].locked} :
         /\ Len(ps) = 2 => ps[1] # ps[2]
         /\ LET v == mem.vid IN
            \E b \in BranchChoices(mem.blob[r], ps, v) : \E c \in (IF Len(ps) = 2 THEN {[u |-> v, adm |-> 0]} ELSE UUIDChoices(mem, v)) :
              /\ cur' = [op |-> "newversion", r |-> r, v |-> v, ps |-> ps, b |-> b, u |-> c.u]
              /\ prog' = NewVersionProg(r, v, c.u, ps, b)
              /\ nadmin' = nadmin + c.adm
    /\ UNCHANGED <<mem, disk, acked, issued, crashes, up>>

StartTag ==
    /\ Idle /\ mem.vid <= MaxVersions /\ nadmin < MaxAdmin
    /\ \E r \in Dom(mem.blob) : \E p \in mem.blob[r].locked :
         LET v == mem.vid IN
         /\ NewString \notin Ran(mem.v2u)
         /\ cur' = [op |-> "tag", r |-> r, v |-> v, ps |-> <<p>>, b |-> v, u |-> NewString]
         /\ prog' = TagProg(r, v, NewString, p, v)
    /\ nadmin' = nadmin + 1
    /\ UNCHANGED <<mem, disk, acked, issued, crashes, up>>

StartCommit ==
    /\ Idle
    /\ \E r \in Dom(mem.blob) : \E v \in mem.blob[r].nodes \ mem.blob[r].locked :
         /\ cur' = [op |-> "commit", r |-> r, v |-> v]
         /\ prog' = CommitProg(r, v)
    /\ UNCHANGED <<mem, disk, acked, issued, crashes, up, nadmin>>

StartNewData ==
    /\ Idle /\ mem.iid <= MaxInsts
    /\ \E r \in Dom(mem.blob) :
         LET i == mem.iid IN
         /\ cur' = [op |-> "newdata", r |-> r, i |-> i]
         /\ prog' = NewDataProg(r, i)
    /\ UNCHANGED <<mem, disk, acked, issued, crashes, up, nadmin>>

StartNewMutID ==
    /\ Idle
    /\ \E r \in Dom(mem.mutcur) :
         /\ mem.mutcur[r] < MaxMut
         /\ cur' = [op |-> "newmut", r |-> r, id |-> mem.mutcur[r]]
         /\ prog' = NewMutProg(mem, r)
    /\ UNCHANGED <<mem, disk, acked, issued, crashes, up, nadmin>>

\* facts a request withdraws as soon as it is issued: from then on, until its acknowledgement, a crash
\* may leave the change done or not done
RetractedBy(c, f) ==
    CASE c.op = "deleterepo" -> (f.f \in {"repo", "node", "locked", "inst", "br", "name"} /\ f.r = c.r)
                                  \/ (f.f = "uuid" /\ f.v \in c.gone)
      [] c.op = "hidebranch" -> (f.f \in {"node", "locked", "br"} /\ f.r = c.r /\ f.v \in c.gone)
                                  \/ (f.f = "uuid" /\ f.v \in c.gone)
      [] c.op = "makemaster" -> f.f = "br" /\ f.r = c.r
      [] c.op = "rename" -> f.f = "name" /\ f.r = c.r /\ f.i = c.i
      \* deletion is acknowledged before it is durable: from the acknowledgement on the instance may or may
      \* not be there after a crash; once the goroutine has saved the repo it is gone for good ("done")
      [] c.op = "deletedata" -> f.f \in {"inst", "name"} /\ f.r = c.r /\ f.i = c.i
      [] OTHER -> FALSE

StartDeleteRepo ==
    /\ Idle /\ nadmin < MaxAdmin
    /\ \E r \in Dom(mem.blob) :
         /\ cur' = [op |-> "deleterepo", r |-> r, gone |-> mem.blob[r].nodes]
         /\ acked' = {f \in acked : ~RetractedBy([op |-> "deleterepo", r |-> r, gone |-> mem.blob[r].nodes], f)}
         /\ prog' = DeleteRepoProg(r)
    /\ nadmin' = nadmin + 1
    /\ UNCHANGED <<mem, disk, issued, crashes, up>>

\* refused when a version of another branch descends from the branch
CanHide(bl, b) ==
    /\ b # 0 /\ OnBranch(bl, b) # {}
    /\ \A c \in bl.nodes : bl.br[c] # b => \A i \in 1..Len(bl.par[c]) : bl.br[bl.par[c][i]] # b

StartHideBranch ==
    /\ Idle /\ nadmin < MaxAdmin
    /\ \E r \in Dom(mem.blob) : \E b \in Ran(mem.blob[r].br) :
         /\ CanHide(mem.blob[r], b)
         /\ cur' = [op |-> "hidebranch", r |-> r, b |-> b, gone |-> OnBranch(mem.blob[r], b)]
         /\ acked' = {f \in acked : ~RetractedBy([op |-> "hidebranch", r |-> r, b |-> b, gone |-> OnBranch(mem.blob[r], b)], f)}
         /\ prog' = HideBranchProg(r, b)
    /\ nadmin' = nadmin + 1
    /\ UNCHANGED <<mem, disk, issued, crashes, up>>

\* v: not on master, its first parent on master with a master child s
MasterSiblings(bl, v) ==
    IF bl.br[v] = 0 \/ Len(bl.par[v]) = 0 \/ bl.br[bl.par[v][1]] # 0 THEN {}
    ELSE ChildOn(bl, bl.par[v][1], 0)

StartMakeMaster ==
    /\ Idle /\ nadmin < MaxAdmin
    /\ \E r \in Dom(mem.blob) : \E v \in mem.blob[r].nodes : \E s \in MasterSiblings(mem.blob[r], v) :
         LET nb == MaxVersions + v IN    \* the caller's name for the old master versions (unused so far)
         /\ cur' = [op |-> "makemaster", r |-> r, v |-> v, s |-> s, nb |-> nb,
                    after |-> MasterIn(mem.blob[r], v, s, nb).br]
         /\ acked' = {f \in acked : ~RetractedBy([op |-> "makemaster", r |-> r, v |-> v, s |-> s, nb |-> nb,                     after |-> MasterIn(mem.blob[r], v, s, nb).br], f)}
         /\ prog' = MakeMasterProg(r, v, s, nb)
    /\ nadmin' = nadmin + 1
    /\ UNCHANGED <<mem, disk, issued, crashes, up>>

StartRename ==
    /\ Idle /\ nadmin < MaxAdmin
    /\ \E r \in Dom(mem.blob) : \E i \in mem.blob[r].insts :
         /\ <<r, i>> \notin mem.deleting
         /\ cur' = [op |-> "rename", r |-> r, i |-> i, n |-> 1 - mem.blob[r].names[i]]
         /\ acked' = {f \in acked : ~RetractedBy([op |-> "rename", r |-> r, i |-> i, n |-> 1 - mem.blob[r].names[i]], f)}
         /\ prog' = RenameProg(r, i)
    /\ nadmin' = nadmin + 1
    /\ UNCHANGED <<mem, disk, issued, crashes, up>>

StartDeleteData ==
    /\ Idle /\ nadmin < MaxAdmin
    /\ \E r \in Dom(mem.blob) : \E i \in mem.blob[r].insts :
         /\ <<r, i>> \notin mem.deleting
         /\ cur' = [op |-> "deletedata", r |-> r, i |-> i]
         /\ acked' = {f \in acked : ~RetractedBy([op |-> "deletedata", r |-> r, i |-> i], f)}
         /\ prog' = DeleteDataProg(r, i)
    /\ nadmin' = nadmin + 1
    /\ UNCHANGED <<mem, disk, issued, crashes, up>>

\* facts acknowledged by the operation in progress
AckFact ==
    CASE cur.op = "newrepo" -> {[f |-> "repo", r |-> cur.r, v |-> cur.v], [f |-> "uuid", v |-> cur.v, u |-> cur.u]}
      [] cur.op \in {"newversion", "tag"} ->
            {[f |-> "node", r |-> cur.r, v |-> cur.v, ps |-> cur.ps], [f |-> "uuid", v |-> cur.v, u |-> cur.u],
             [f |-> "br", r |-> cur.r, v |-> cur.v, b |-> cur.b]}
            \cup (IF cur.op = "tag" THEN {[f |-> "locked", r |-> cur.r, v |-> cur.v]} ELSE {})
      [] cur.op = "commit" -> {[f |-> "locked", r |-> cur.r, v |-> cur.v]}
      [] cur.op = "newdata" -> {[f |-> "inst", r |-> cur.r, i |-> cur.i], [f |-> "name", r |-> cur.r, i |-> cur.i, n |-> 0]}
      [] cur.op = "deleterepo" -> {[f |-> "norepo", r |-> cur.r]} \cup {[f |-> "nouuid", v |-> x] : x \in cur.gone}
      [] cur.op = "hidebranch" -> {[f |-> "nonode", r |-> cur.r, v |-> x] : x \in cur.gone} \cup {[f |-> "nouuid", v |-> x] : x \in cur.gone}
      [] cur.op = "makemaster" -> {[f |-> "br", r |-> cur.r, v |-> x, b |-> cur.after[x]] : x \in DOMAIN cur.after}
      [] cur.op = "rename" -> {[f |-> "name", r |-> cur.r, i |-> cur.i, n |-> cur.n]}
      [] OTHER -> {}

IssuedNow ==
    CASE cur.op = "newrepo" -> {<<"repo", cur.r>>, <<"version", cur.v>>}
      [] cur.op \in {"newversion", "tag"} -> {<<"version", cur.v>>}
      [] cur.op = "newdata" -> {<<"inst", cur.i>>}
      [] cur.op = "newmut" -> {<<"mut" , cur.r, cur.id>>}
      [] OTHER -> {}

Step ==
    /\ up /\ prog # <<>>
    /\ LET s == Head(prog) IN
       /\ prog' = Tail(prog)
       /\ IF s.k = "ack"
          THEN /\ acked' = acked \cup AckFact
               /\ issued' = issued \cup IssuedNow
               /\ cur' = IF Tail(prog) = <<>> THEN [op |-> "none"] ELSE cur
               /\ UNCHANGED <<mem, disk>>
          ELSE IF s.k = "done"
          THEN /\ acked' = acked \cup {[f |-> "noinst", r |-> cur.r, i |-> cur.i]}
               /\ cur' = [op |-> "none"]
               /\ UNCHANGED <<mem, disk, issued>>
          ELSE /\ IF IsWrite(s) THEN disk' = ApplyWrite(disk, mem, s) /\ mem' = mem
                                ELSE mem' = ApplyMemStep(mem, s) /\ disk' = disk
               /\ UNCHANGED <<acked, issued, cur>>
    /\ UNCHANGED <<crashes, up, nadmin>>

(***************************************************************************)
(* Crash and recovery                                                      *)
(***************************************************************************)
\* bound for model checking only: restarts move the mutation id forward by Stride each time
MutBounded == \A r \in Dom(disk.mut) : disk.mut[r] <= MaxMut

Crash ==
    /\ up /\ crashes < MaxCrashes /\ MutBounded
    /\ up' = FALSE /\ crashes' = crashes + 1
    /\ prog' = <<>>
    /\ UNCHANGED <<mem, disk, acked, issued, cur, nadmin>>   \* cur keeps the interrupted operation for the invariant

\* loadMetadata: maps and counters from disk; blobs; versions found in blobs are re-added to
\* V2U (with the UUID the blob records); repo ids without blob are dropped; the version counter is
\* raised above every known version; mutation ids reloaded and re-persisted ahead; the in-memory
\* deletion marks are gone.
LoadedFrom(d) ==
    LET blobVersions == UNION {d.blob[r].nodes : r \in Dom(d.blob)}
        uuOf(v) == LET r == CHOOSE q \in Dom(d.blob) : v \in d.blob[q].nodes IN d.blob[r].uu[v]
        v2u == [v \in Dom(d.v2u) \cup blobVersions |-> IF v \in Dom(d.v2u) THEN d.v2u[v] ELSE uuOf(v)]
        r2u == [r \in {x \in Dom(d.r2u) : x \in Dom(d.blob)} |-> d.r2u[r]]
        maxv == IF Dom(v2u) = {} THEN 0 ELSE CHOOSE x \in Dom(v2u) : \A y \in Dom(v2u) : y <= x
    IN [r2u |-> r2u, v2u |-> v2u, rid |-> d.rid,
        vid |-> IF maxv >= d.vid THEN maxv + 1 ELSE d.vid,
        iid |-> d.iid, blob |-> d.blob,
        mutcur |-> [r \in Dom(r2u) |-> IF r \in Dom(d.mut) THEN d.mut[r] ELSE 0],
        mutsaved |-> [r \in Dom(r2u) |-> (IF r \in Dom(d.mut) THEN d.mut[r] ELSE 0) + Stride],
        deleting |-> {x \in d.deleting : x[1] \in Dom(d.blob) /\ x[2] \in d.blob[x[1]].insts}]
Loaded == LoadedFrom(disk)

\* the deletions a start-up resumes: one removal + save per flagged instance
RECURSIVE ResumeSteps(_)
ResumeSteps(S) == IF S = {} THEN <<>>
                  ELSE LET x == CHOOSE y \in S : TRUE IN
                       <<[k |-> "rmInst", r |-> x[1], i |-> x[2]], [k |-> "wREPO", r |-> x[1]]>> \o ResumeSteps(S \ {x})

\* start-up fails (needs manual repair) when a blob's repo id is not in R2U
StartupFails == \E r \in Dom(disk.blob) : r \notin Dom(disk.r2u)

MutWrites(m) == [i \in 1..Cardinality(Dom(m.r2u)) |->
                     [k |-> "wMUT", r |-> CHOOSE r \in Dom(m.r2u) : Cardinality({q \in Dom(m.r2u) : q < r}) = i - 1]]

Recover ==
    /\ ~up /\ ~StartupFails
    /\ mem' = Loaded
    /\ up' = TRUE
    /\ cur' = [op |-> "recover"]
    \* recovery's own writes: repaired caches (when changed), corrected ids, MUT per repo
    /\ prog' = (IF Loaded.v2u # disk.v2u \/ Loaded.r2u # disk.r2u THEN PutCaches ELSE <<>>)
               \o MutWrites(Loaded)
               \o (IF Loaded.vid # disk.vid THEN <<[k |-> "wIDS"]>> ELSE <<>>)
               \o <<[k |-> "ack"]>> \o ResumeSteps(Loaded.deleting)
    /\ UNCHANGED <<disk, acked, issued, crashes, nadmin>>

\* a clean restart: stop while idle, start again
CleanRestart ==
    /\ Idle /\ ~StartupFails /\ MutBounded
    /\ mem' = Loaded
    /\ cur' = [op |-> "recover"]
    /\ prog' = MutWrites(Loaded) \o <<[k |-> "ack"]>> \o ResumeSteps(Loaded.deleting)
    /\ UNCHANGED <<disk, acked, issued, crashes, up, nadmin>>

Next == StartNewRepo \/ StartNewVersion \/ StartCommit \/ StartNewData \/ StartNewMutID
        \/ StartTag \/ StartDeleteRepo \/ StartHideBranch \/ StartMakeMaster \/ StartRename \/ StartDeleteData
        \/ Step \/ Crash \/ Recover \/ CleanRestart

Spec == Init /\ [][Next]_vars

(***************************************************************************)
(* Properties                                                              *)
(***************************************************************************)
\* observable projection of the in-memory state (what the API shows): the repos with their DAG,
\* flags, branches, UUIDs and instance names (an instance marked deleted is hidden), the roots, and
\* which UUIDs are known (a request that assigns a known UUID is refused)
ShownBlob(m, r) == [m.blob[r] EXCEPT !.insts = {i \in @ : <<r, i>> \notin m.deleting},
                                     !.names = [i \in {j \in DOMAIN @ : <<r, j>> \notin m.deleting} |-> @[i]]]
Obs(m) == [repos |-> [r \in Dom(m.r2u) \cap Dom(m.blob) |-> ShownBlob(m, r)], roots |-> m.r2u, known |-> Ran(m.v2u)]

\* C03: a restart while idle changes nothing observable
Act_C03_RestartIsStutter == [][CleanRestart => Obs(mem') = Obs(mem)]_vars

\* C04: start-up never needs manual repair
Inv_C04_StartupSucceeds == ~up => ~StartupFails

\* C04: whenever the process is up and idle, every acknowledged fact is visible and the
\* metadata is well formed
Visible(f) ==
    CASE f.f = "repo" -> f.r \in Dom(mem.blob) /\ f.r \in Dom(mem.r2u) /\ f.v \in mem.blob[f.r].nodes
      [] f.f = "node" -> f.r \in Dom(mem.blob) /\ f.v \in mem.blob[f.r].nodes /\ mem.blob[f.r].par[f.v] = f.ps
      [] f.f = "locked" -> f.r \in Dom(mem.blob) /\ f.v \in mem.blob[f.r].locked
      [] f.f = "inst" -> f.r \in Dom(mem.blob) /\ f.i \in mem.blob[f.r].insts
      [] f.f = "uuid" -> f.v \in Dom(mem.v2u) /\ mem.v2u[f.v] = f.u
      [] f.f = "br" -> f.r \in Dom(mem.blob) /\ f.v \in mem.blob[f.r].nodes /\ mem.blob[f.r].br[f.v] = f.b
      [] f.f = "name" -> f.r \in Dom(mem.blob) /\ f.i \in mem.blob[f.r].insts /\ mem.blob[f.r].names[f.i] = f.n
      [] f.f = "norepo" -> f.r \notin Dom(mem.blob) /\ f.r \notin Dom(mem.r2u)
      [] f.f = "nonode" -> f.r \in Dom(mem.blob) => f.v \notin mem.blob[f.r].nodes
      [] f.f = "noinst" -> f.r \in Dom(mem.blob) => f.i \notin mem.blob[f.r].insts
      [] OTHER -> TRUE

WellFormed(m) ==
    /\ \A r \in Dom(m.blob) : \A v \in m.blob[r].nodes :
          /\ v \in Dom(m.v2u) /\ m.v2u[v] = m.blob[r].uu[v]
          /\ \A i \in 1..Len(m.blob[r].par[v]) :
                m.blob[r].par[v][i] \in m.blob[r].nodes /\ m.blob[r].par[v][i] \in m.blob[r].locked
    /\ \A r1, r2 \in Dom(m.blob) : r1 # r2 => m.blob[r1].nodes \cap m.blob[r2].nodes = {}
    /\ \A r \in Dom(m.r2u) : r \in Dom(m.blob) => m.r2u[r] \in m.blob[r].nodes
    \* no UUID names two versions
    /\ \A v1, v2 \in Dom(m.v2u) : v1 # v2 => m.v2u[v1] # m.v2u[v2]

Inv_C04_Recoverable == Idle => (WellFormed(mem) /\ \A f \in acked : Visible(f))

\* C03-3: when idle, the UUIDs of versions that were deleted or hidden and acknowledged as such are
\* unknown - in memory and in what a restart would load (so that a caller can assign them again)
Inv_C03_FreedUUIDsStayFree ==
    Idle => \A f \in acked : f.f = "nouuid" =>
               (f.v \notin Dom(mem.v2u) /\ (~StartupFails => f.v \notin Dom(Loaded.v2u)))

\* C12: counters are ahead of every identifier in use, in memory and (when idle) on disk, so
\* no identifier can be issued twice, across crashes
Inv_C12_CountersAhead ==
    Idle =>
      /\ \A v \in Dom(mem.v2u) : v < mem.vid
      /\ \A r \in Dom(mem.blob) : r < mem.rid /\ \A i \in mem.blob[r].insts : i < mem.iid
      /\ disk.vid >= mem.vid /\ disk.rid >= mem.rid /\ disk.iid >= mem.iid
      /\ \A x \in issued : x[1] = "version" => x[2] < mem.vid
      /\ \A x \in issued : (x[1] = "mut" /\ x[2] \in Dom(mem.mutcur)) => x[3] < mem.mutcur[x[2]] /\ mem.mutcur[x[2]] <= mem.mutsaved[x[2]]
      /\ \A r \in Dom(mem.mutcur) : r \in Dom(disk.mut) => disk.mut[r] >= mem.mutcur[r]

StateConstraint == mem.vid <= MaxVersions + 1 /\ crashes <= MaxCrashes
=============================================================================
