---------------------------- MODULE DvidPersist ----------------------------
(***************************************************************************)
(* Metadata persistence of a DVID server at the grain of single store      *)
(* writes (properties C03, C04, C12).                                      *)
(*                                                                         *)
(* The metadata store holds five key classes; every write replaces the     *)
(* whole value of one key with the manager's current in-memory value       *)
(* (putCaches rewrites both maps, r.save() the whole repo blob):           *)
(*    R2U  repo id -> root version      V2U  set of known version ids      *)
(*    IDS  the three id counters        REPO(r) the repo blob              *)
(*    MUT(r) persisted-ahead mutation id                                   *)
(* Every repo-level operation is a fixed program of in-memory steps and    *)
(* store writes, in the order of datastore/repo_local.go.  Crash may       *)
(* happen between any two steps; Recover is loadMetadata (with its         *)
(* tolerant repairs) followed by its own writes.                           *)
(***************************************************************************)
EXTENDS Integers, Sequences, FiniteSets, TLC

CONSTANTS MaxVersions, MaxRepos, MaxInsts, MaxMut, Stride, MaxCrashes

NoBlob == [nodes |-> {}, locked |-> {}, par |-> <<>>, insts |-> {}]

VARIABLES
    mem,     \* in-memory manager state (or "down" when the process is dead)
    disk,    \* persistent metadata store
    prog,    \* remaining steps of the operation in progress (sequence)
    cur,     \* the operation in progress (record) or [op |-> "none"]
    acked,   \* acknowledged facts: set of records
    issued,  \* identifiers handed out to clients: set of <<kind, id>>
    crashes, \* number of crashes so far
    up       \* process is up

vars == <<mem, disk, prog, cur, acked, issued, crashes, up>>

EmptyMem == [r2u |-> <<>>, v2u |-> {}, rid |-> 1, vid |-> 1, iid |-> 1,
             blob |-> <<>>, mutcur |-> <<>>, mutsaved |-> <<>>]
EmptyDisk == [r2u |-> <<>>, v2u |-> {}, rid |-> 1, vid |-> 1, iid |-> 1, blob |-> <<>>, mut |-> <<>>]

\* functions over small integer domains are kept as partial functions
Dom(f) == DOMAIN f
Upd(f, k, v) == [x \in (DOMAIN f) \cup {k} |-> IF x = k THEN v ELSE f[x]]
Del(f, k) == [x \in (DOMAIN f) \ {k} |-> f[x]]

Init ==
    /\ mem = EmptyMem /\ disk = EmptyDisk
    /\ prog = <<>> /\ cur = [op |-> "none"]
    /\ acked = {} /\ issued = {} /\ crashes = 0 /\ up = TRUE

Idle == up /\ prog = <<>>

(***************************************************************************)
(* Steps.  A step is a record [k |-> kind, ...].                           *)
(***************************************************************************)
RepoOfVersion(m, v) == CHOOSE r \in Dom(m.blob) : v \in m.blob[r].nodes

ApplyMemStep(m, s) ==
    CASE s.k = "allocV" ->   \* newUUID, in memory: register version, bump counter
            [m EXCEPT !.v2u = @ \cup {s.v}, !.vid = @ + 1]
      [] s.k = "allocR" ->   \* newRepoID
            [m EXCEPT !.rid = @ + 1]
      [] s.k = "allocI" ->
            [m EXCEPT !.iid = @ + 1]
      [] s.k = "mapRepo" ->  \* repoToUUID[id] = root
            [m EXCEPT !.r2u = Upd(@, s.r, s.v)]
      [] s.k = "mkRepo" ->
            [m EXCEPT !.blob = Upd(@, s.r, [nodes |-> {s.v}, locked |-> {}, par |-> Upd(<<>>, s.v, <<>>), insts |-> {}])]
      [] s.k = "mkNode" ->
            [m EXCEPT !.blob = Upd(@, s.r, [@[s.r] EXCEPT !.nodes = @ \cup {s.v}, !.par = Upd(@, s.v, s.ps)])]
      [] s.k = "lock" ->
            [m EXCEPT !.blob = Upd(@, s.r, [@[s.r] EXCEPT !.locked = @ \cup {s.v}])]
      [] s.k = "mkInst" ->
            [m EXCEPT !.blob = Upd(@, s.r, [@[s.r] EXCEPT !.insts = @ \cup {s.i}])]
      [] s.k = "mutInit" ->  \* initMutationID: cur from disk (or start), saved = cur + Stride
            LET c == IF s.r \in Dom(disk.mut) THEN disk.mut[s.r] ELSE 0 IN
            [m EXCEPT !.mutcur = Upd(@, s.r, c), !.mutsaved = Upd(@, s.r, c + Stride)]
      [] s.k = "mutNext" ->  \* newMutationID, in memory
            [m EXCEPT !.mutcur = Upd(@, s.r, @[s.r] + 1)]
      [] s.k = "mutAhead" ->
            [m EXCEPT !.mutsaved = Upd(@, s.r, @[s.r] + Stride)]
      [] s.k = "unmapRepo" ->  \* deleteRepo, in memory: the repo, its root entry and its versions leave the maps
            [m EXCEPT !.r2u = Del(@, s.r), !.v2u = @ \ m.blob[s.r].nodes, !.blob = Del(@, s.r),
                      !.mutcur = Del(@, s.r), !.mutsaved = Del(@, s.r)]
      [] OTHER -> m

ApplyWrite(d, m, s) ==
    CASE s.k = "wR2U" -> [d EXCEPT !.r2u = m.r2u]
      [] s.k = "wV2U" -> [d EXCEPT !.v2u = m.v2u]
      [] s.k = "wIDS" -> [d EXCEPT !.rid = m.rid, !.vid = m.vid, !.iid = m.iid]
      [] s.k = "wREPO" -> [d EXCEPT !.blob = Upd(@, s.r, m.blob[s.r])]
      [] s.k = "wMUT" -> [d EXCEPT !.mut = Upd(@, s.r, m.mutsaved[s.r])]
      [] s.k = "wDelREPO" -> [d EXCEPT !.blob = Del(@, s.r)]   \* r.delete(): the repo blob is removed
      [] OTHER -> d

IsWrite(s) == s.k \in {"wR2U", "wV2U", "wIDS", "wREPO", "wMUT", "wDelREPO"}

PutCaches == <<[k |-> "wR2U"], [k |-> "wV2U"]>>
NewUUIDSteps(v) == <<[k |-> "allocV", v |-> v]>> \o PutCaches \o <<[k |-> "wIDS"]>>

(***************************************************************************)
(* Operations (started only when idle)                                     *)
(***************************************************************************)
\* the programs, one per operation, in the order of repo_local.go
NewRepoProg(r, v) ==
    NewUUIDSteps(v) \o <<[k |-> "allocR"], [k |-> "wIDS"], [k |-> "mapRepo", r |-> r, v |-> v]>>
    \o PutCaches \o <<[k |-> "mkRepo", r |-> r, v |-> v], [k |-> "wREPO", r |-> r],
                      [k |-> "mutInit", r |-> r], [k |-> "wMUT", r |-> r], [k |-> "ack"]>>
NewVersionProg(r, v, ps) ==
    NewUUIDSteps(v) \o <<[k |-> "mkNode", r |-> r, v |-> v, ps |-> ps], [k |-> "wREPO", r |-> r], [k |-> "ack"]>>
CommitProg(r, v) == <<[k |-> "lock", r |-> r, v |-> v], [k |-> "wREPO", r |-> r], [k |-> "ack"]>>
NewDataProg(r, i) ==
    <<[k |-> "allocI"], [k |-> "wIDS"], [k |-> "mkInst", r |-> r, i |-> i], [k |-> "wREPO", r |-> r], [k |-> "ack"]>>

\* deleteRepo (datastore.DeleteRepo, the `repos delete` command): the repo blob is deleted FIRST,
\* then the repo leaves the in-memory maps, then both maps are persisted.  The order matters for a
\* crash: the loader drops a map entry that has no blob, but refuses to start on a blob whose repo
\* id is not in the map (StartupFails).  (The keys of the repo's data instances are removed in the
\* background and are not part of the metadata; the mutation-id key stays.)
DeleteRepoProg(r) ==
    <<[k |-> "wDelREPO", r |-> r], [k |-> "unmapRepo", r |-> r]>> \o PutCaches \o <<[k |-> "ack"]>>

WriteClass(s) == CASE s.k = "wR2U" -> "R2U" [] s.k = "wV2U" -> "V2U" [] s.k = "wIDS" -> "IDS"
                   [] s.k = "wREPO" -> "REPO" [] s.k = "wMUT" -> "MUT" [] s.k = "wDelREPO" -> "REPO" [] OTHER -> "?"
WritesOf(p) == LET w == SelectSeq(p, IsWrite) IN [i \in 1..Len(w) |-> WriteClass(w[i])]
\* the store-write sequence each request must produce (conformance table for the write trace)
WriteTable == [newrepo |-> WritesOf(NewRepoProg(1, 1)), newversion |-> WritesOf(NewVersionProg(1, 2, <<1>>)),
               merge |-> WritesOf(NewVersionProg(1, 3, <<1, 2>>)), commit |-> WritesOf(CommitProg(1, 1)),
               newdata |-> WritesOf(NewDataProg(1, 1)), deleterepo |-> WritesOf(DeleteRepoProg(1))]

AllNodes(m) == UNION {m.blob[r].nodes : r \in Dom(m.blob)}

StartNewRepo ==
    /\ Idle /\ mem.vid <= MaxVersions /\ mem.rid <= MaxRepos
    /\ LET v == mem.vid
           r == mem.rid IN
       /\ cur' = [op |-> "newrepo", r |-> r, v |-> v]
       /\ prog' = NewRepoProg(r, v)
    /\ UNCHANGED <<mem, disk, acked, issued, crashes, up>>

StartNewVersion ==
    /\ Idle /\ mem.vid <= MaxVersions
    /\ \E r \in Dom(mem.blob) : \E ps \in {<<p>> : p \in mem.blob[r].locked}
                                      \cup {<<p, q>> : p \in mem.blob[r].locked, q \in mem.blob[r].locked} :
         /\ Len(ps) = 2 => ps[1] # ps[2]
         /\ LET v == mem.vid IN
            /\ cur' = [op |-> "newversion", r |-> r, v |-> v, ps |-> ps]
            /\ prog' = NewVersionProg(r, v, ps)
    /\ UNCHANGED <<mem, disk, acked, issued, crashes, up>>

StartCommit ==
    /\ Idle
    /\ \E r \in Dom(mem.blob) : \E v \in mem.blob[r].nodes \ mem.blob[r].locked :
         /\ cur' = [op |-> "commit", r |-> r, v |-> v]
         /\ prog' = CommitProg(r, v)
    /\ UNCHANGED <<mem, disk, acked, issued, crashes, up>>

StartNewData ==
    /\ Idle /\ mem.iid <= MaxInsts
    /\ \E r \in Dom(mem.blob) :
         LET i == mem.iid IN
         /\ cur' = [op |-> "newdata", r |-> r, i |-> i]
         /\ prog' = NewDataProg(r, i)
    /\ UNCHANGED <<mem, disk, acked, issued, crashes, up>>

\* newMutationID: cur++ ; when cur reaches saved, persist saved + Stride before returning
StartNewMutID ==
    /\ Idle
    /\ \E r \in Dom(mem.mutcur) :
         /\ mem.mutcur[r] < MaxMut
         /\ cur' = [op |-> "newmut", r |-> r, id |-> mem.mutcur[r]]
         /\ prog' = <<[k |-> "mutNext", r |-> r]>>
                    \o (IF mem.mutcur[r] + 1 >= mem.mutsaved[r]
                        THEN <<[k |-> "mutAhead", r |-> r], [k |-> "wMUT", r |-> r]>> ELSE <<>>)
                    \o <<[k |-> "ack"]>>
    /\ UNCHANGED <<mem, disk, acked, issued, crashes, up>>

\* deleteRepo.  The fact "deleting r" is recorded when the request starts: from then on the
\* repo may be entirely present or entirely absent (Visible below); once acknowledged it must be
\* absent.  Not in Next: explored by the configuration of DvidPersistDel_mc (two repos, one of
\* them a bystander).
StartDeleteRepo ==
    /\ Idle
    /\ \E r \in Dom(mem.blob) \cap Dom(mem.r2u) :
         /\ cur' = [op |-> "deleterepo", r |-> r]
         /\ prog' = DeleteRepoProg(r)
         /\ acked' = acked \cup {[f |-> "deleting", r |-> r]}
    /\ UNCHANGED <<mem, disk, issued, crashes, up>>

AckFact ==
    CASE cur.op = "deleterepo" -> {[f |-> "norepo", r |-> cur.r]}
      [] cur.op = "newrepo" -> {[f |-> "repo", r |-> cur.r, v |-> cur.v]}
      [] cur.op = "newversion" -> {[f |-> "node", r |-> cur.r, v |-> cur.v, ps |-> cur.ps]}
      [] cur.op = "commit" -> {[f |-> "locked", r |-> cur.r, v |-> cur.v]}
      [] cur.op = "newdata" -> {[f |-> "inst", r |-> cur.r, i |-> cur.i]}
      [] OTHER -> {}

IssuedNow ==
    CASE cur.op = "newrepo" -> {<<"repo", cur.r>>, <<"version", cur.v>>}
      [] cur.op = "newversion" -> {<<"version", cur.v>>}
      [] cur.op = "newdata" -> {<<"inst", cur.i>>}
      [] cur.op = "newmut" -> {<<"mut" , cur.r, cur.id>>}
      [] OTHER -> {}

Step ==
    /\ up /\ prog # <<>>
    /\ LET s == Head(prog) IN
       /\ prog' = Tail(prog)
       /\ IF s.k = "ack"
          THEN /\ acked' = acked \cup AckFact
               /\ issued' = issued \cup IssuedNow
               /\ cur' = [op |-> "none"]
               /\ UNCHANGED <<mem, disk>>
          ELSE /\ IF IsWrite(s) THEN disk' = ApplyWrite(disk, mem, s) /\ mem' = mem
                                ELSE mem' = ApplyMemStep(mem, s) /\ disk' = disk
               /\ UNCHANGED <<acked, issued, cur>>
    /\ UNCHANGED <<crashes, up>>

(***************************************************************************)
(* Crash and recovery                                                      *)
(***************************************************************************)
\* bound for model checking only: restarts move the mutation id forward by Stride each time
MutBounded == \A r \in Dom(disk.mut) : disk.mut[r] <= MaxMut

Crash ==
    /\ up /\ crashes < MaxCrashes /\ MutBounded
    /\ up' = FALSE /\ crashes' = crashes + 1
    /\ prog' = <<>>
    /\ UNCHANGED <<mem, disk, acked, issued, cur>>   \* cur keeps the interrupted operation for the invariant

\* loadMetadata: maps and counters from disk; blobs; versions found in blobs are re-added to
\* V2U; repo ids without blob are dropped; the version counter is raised above every known
\* version; mutation ids reloaded and re-persisted ahead.
Loaded ==
    LET blobVersions == UNION {disk.blob[r].nodes : r \in Dom(disk.blob)}
        v2u == disk.v2u \cup blobVersions
        r2u == [r \in {x \in Dom(disk.r2u) : x \in Dom(disk.blob)} |-> disk.r2u[r]]
        maxv == IF v2u = {} THEN 0 ELSE CHOOSE x \in v2u : \A y \in v2u : y <= x
    IN [r2u |-> r2u, v2u |-> v2u, rid |-> disk.rid,
        vid |-> IF maxv >= disk.vid THEN maxv + 1 ELSE disk.vid,
        iid |-> disk.iid, blob |-> disk.blob,
        mutcur |-> [r \in Dom(r2u) |-> IF r \in Dom(disk.mut) THEN disk.mut[r] ELSE 0],
        mutsaved |-> [r \in Dom(r2u) |-> (IF r \in Dom(disk.mut) THEN disk.mut[r] ELSE 0) + Stride]]

\* start-up fails (needs manual repair) when a blob's repo id is not in R2U
StartupFails == \E r \in Dom(disk.blob) : r \notin Dom(disk.r2u)

Recover ==
    /\ ~up /\ ~StartupFails
    /\ mem' = Loaded
    /\ up' = TRUE
    /\ cur' = [op |-> "recover"]
    \* recovery's own writes: repaired caches (when changed), corrected ids, MUT per repo
    /\ prog' = (IF Loaded.v2u # disk.v2u \/ Loaded.r2u # disk.r2u THEN PutCaches ELSE <<>>)
               \o [i \in 1..Cardinality(Dom(Loaded.r2u)) |->
                     [k |-> "wMUT", r |-> CHOOSE r \in Dom(Loaded.r2u) :
                                             Cardinality({q \in Dom(Loaded.r2u) : q < r}) = i - 1]]
               \o (IF Loaded.vid # disk.vid THEN <<[k |-> "wIDS"]>> ELSE <<>>)
               \o <<[k |-> "ack"]>>
    /\ UNCHANGED <<disk, acked, issued, crashes>>

\* a clean restart: stop while idle, start again
CleanRestart ==
    /\ Idle /\ ~StartupFails /\ MutBounded
    /\ mem' = Loaded
    /\ cur' = [op |-> "recover"]
    /\ prog' = [i \in 1..Cardinality(Dom(Loaded.r2u)) |->
                  [k |-> "wMUT", r |-> CHOOSE r \in Dom(Loaded.r2u) :
                                          Cardinality({q \in Dom(Loaded.r2u) : q < r}) = i - 1]]
               \o <<[k |-> "ack"]>>
    /\ UNCHANGED <<disk, acked, issued, crashes, up>>

Next == StartNewRepo \/ StartNewVersion \/ StartCommit \/ StartNewData \/ StartNewMutID
        \/ Step \/ Crash \/ Recover \/ CleanRestart

Spec == Init /\ [][Next]_vars

(***************************************************************************)
(* Properties                                                              *)
(***************************************************************************)
\* observable projection of the in-memory state (what the API shows)
Obs(m) == [repos |-> [r \in Dom(m.r2u) \cap Dom(m.blob) |-> m.blob[r]], roots |-> m.r2u]

\* C03: a restart while idle changes nothing observable
Act_C03_RestartIsStutter == [][CleanRestart => Obs(mem') = Obs(mem)]_vars

\* C04: start-up never needs manual repair
Inv_C04_StartupSucceeds == ~up => ~StartupFails

\* C04: whenever the process is up and idle, every acknowledged fact is visible and the
\* metadata is well formed
\* a repo whose deletion was requested: gone from the observable projection
Absent(r) == r \notin Dom(mem.blob) /\ r \notin Dom(mem.r2u)
Deleting(r) == [f |-> "deleting", r |-> r] \in acked
Visible(f) ==
    CASE f.f = "deleting" -> TRUE
      [] f.f = "norepo" -> Absent(f.r)                       \* an acknowledged deletion stays
      [] Deleting(f.r) /\ Absent(f.r) -> TRUE                \* entirely absent ...
      [] f.f = "repo" -> f.r \in Dom(mem.blob) /\ f.r \in Dom(mem.r2u) /\ f.v \in mem.blob[f.r].nodes   \* ... or entirely present
      [] f.f = "node" -> f.r \in Dom(mem.blob) /\ f.v \in mem.blob[f.r].nodes /\ mem.blob[f.r].par[f.v] = f.ps
      [] f.f = "locked" -> f.r \in Dom(mem.blob) /\ f.v \in mem.blob[f.r].locked
      [] f.f = "inst" -> f.r \in Dom(mem.blob) /\ f.i \in mem.blob[f.r].insts
      [] OTHER -> TRUE

WellFormed(m) ==
    /\ \A r \in Dom(m.blob) : \A v \in m.blob[r].nodes :
          /\ v \in m.v2u
          /\ \A i \in 1..Len(m.blob[r].par[v]) :
                m.blob[r].par[v][i] \in m.blob[r].nodes /\ m.blob[r].par[v][i] \in m.blob[r].locked
    /\ \A r1, r2 \in Dom(m.blob) : r1 # r2 => m.blob[r1].nodes \cap m.blob[r2].nodes = {}
    /\ \A r \in Dom(m.r2u) : r \in Dom(m.blob) => m.r2u[r] \in m.blob[r].nodes

Inv_C04_Recoverable == Idle => (WellFormed(mem) /\ \A f \in acked : Visible(f))

\* C12: counters are ahead of every identifier in use, in memory and (when idle) on disk, so
\* no identifier can be issued twice, across crashes
Inv_C12_CountersAhead ==
    Idle =>
      /\ \A v \in mem.v2u : v < mem.vid
      /\ \A r \in Dom(mem.blob) : r < mem.rid /\ \A i \in mem.blob[r].insts : i < mem.iid
      /\ disk.vid >= mem.vid /\ disk.rid >= mem.rid /\ disk.iid >= mem.iid
      /\ \A x \in issued : x[1] = "version" => x[2] < mem.vid
      /\ \A x \in issued : (x[1] = "mut" /\ x[2] \in Dom(mem.mutcur)) =>   \* (a deleted repo has no counter any more)
                                x[3] < mem.mutcur[x[2]] /\ mem.mutcur[x[2]] <= mem.mutsaved[x[2]]
      /\ \A r \in Dom(mem.mutcur) : r \in Dom(disk.mut) => disk.mut[r] >= mem.mutcur[r]

StateConstraint == mem.vid <= MaxVersions + 1 /\ crashes <= MaxCrashes
=============================================================================
