------------------------------ MODULE KVShapes ------------------------------
(***************************************************************************)
(* Enumerates every version-DAG shape with N nodes (node k > 1 has an       *)
(* ordered tuple of 1..MaxParents distinct earlier nodes as parents: these  *)
(* are exactly the parent structures reachable through commit / branch /    *)
(* merge requests, see DvidDAG) and, for every placement of                 *)
(* {nothing, value, tombstone} of one datum over the nodes, the result of   *)
(* reading it at every node.  Placement number p (0..3^N-1) puts digit      *)
(* (p \div 3^(k-1)) % 3 at node k: 0 nothing, 1 value (tagged k), 2         *)
(* tombstone.                                                               *)
(***************************************************************************)
EXTENDS KVRead, TLC, Json

CONSTANTS N, MaxParents, LastMergeOnly

VARIABLE par

Pow3(k) == IF k = 0 THEN 1 ELSE IF k = 1 THEN 3 ELSE IF k = 2 THEN 9 ELSE IF k = 3 THEN 27
           ELSE IF k = 4 THEN 81 ELSE IF k = 5 THEN 243 ELSE IF k = 6 THEN 729 ELSE 2187
Digit(p, k) == (p \div Pow3(k - 1)) % 3
EntOf(p, n) == [k \in {j \in 1..n : Digit(p, j) # 0} |-> IF Digit(p, k) = 2 THEN Tomb ELSE k]

Tuples(S) ==
    {<<a>> : a \in S}
    \cup {t \in S \X S : t[1] # t[2]}
    \cup (IF MaxParents >= 3 THEN {t \in S \X S \X S : t[1] # t[2] /\ t[1] # t[3] /\ t[2] # t[3]} ELSE {})

\* With LastMergeOnly, 3-parent merges are allowed only for the last two nodes (thorough bound).
Allowed(ps, k) == LastMergeOnly => (Len(ps) <= 2 \/ k >= N - 1)

Init == par = <<<<>>>>
Next == /\ Len(par) < N
        /\ \E ps \in Tuples(1..Len(par)) : Allowed(ps, Len(par) + 1) /\ par' = Append(par, ps)
Spec == Init /\ [][Next]_par

Complete == Len(par) = N
Placements == 0..(Pow3(N) - 1)

\* Analysis: the transcribed algorithm agrees with the semantics on every placement and node.
AlgorithmMatchesSemantics ==
    Complete => \A p \in Placements : \A v \in 1..N :
        FindMatchNode(par, EntOf(p, N), v) = ReadNode(par, EntOf(p, N), v)

\* Expected reads (the oracle) and the transcription's answers, printed once per complete shape.
Emit ==
    Complete =>
        PrintT(ToJson([par |-> par,
                       read |-> [q \in 1..Pow3(N) |-> [v \in 1..N |-> ReadNode(par, EntOf(q - 1, N), v)]],
                       algo |-> [q \in 1..Pow3(N) |-> [v \in 1..N |-> FindMatchNode(par, EntOf(q - 1, N), v)]]]))
=============================================================================
