----------------------------- MODULE NeuronJSON -----------------------------
(***************************************************************************)
(* Neuron annotations (datatype neuronjson), property C16.                  *)
(*                                                                          *)
(* Persistent side: the master line of versions, one snapshot per version   *)
(* (vers[k][id] = annotation of body id at version k; a new version         *)
(* inherits its parent), plus the three schema documents per version.       *)
(* In-memory side: the head database the server keeps for the head of the   *)
(* master line -- the annotations, the sorted id list and the per-field     *)
(* counters, all maintained *incrementally* by the write path, and rebuilt  *)
(* from the store by a restart.                                             *)
(*                                                                          *)
(* An annotation is [ex, fs]: ex = it exists; fs[f] = [v, u, t] for every   *)
(* field f: v = 0 the field has no value, v > 0 an abstract value (the      *)
(* table of concrete JSON values lives in the harness); u = who last        *)
(* changed the value (0 = the seeding request, k = the k-th request of the  *)
(* behaviour, which is posted with user "u<k>"); t = 0 the seeded (old)     *)
(* time stamp, 1 = a time stamp written by the server.  Stamps are kept     *)
(* only for fields that have a value: what the server remembers about a     *)
(* removed field is not part of the property.                               *)
(*                                                                          *)
(* An update is a function Fields -> {Un, Null} \cup 1..NumVals:            *)
(* Un = the field is not mentioned, Null = JSON null.                       *)
(***************************************************************************)
EXTENDS Integers, Sequences, FiniteSets, TLC, Json

CONSTANTS NumIds,      \* body ids are 1..NumIds
          Fields,      \* field names (strings)
          NumVals,     \* non-null abstract values 1..NumVals
          ScalarVals,  \* the abstract values that are JSON scalars (equality queries are predicted for these)
          MaxSteps,    \* number of requests in a behaviour
          Record,      \* TRUE: keep the history (for replay)
          EmitReads,   \* TRUE: print the expected listing/query reads with every step
          Seeds,       \* set of initial snapshots
          UpdsAt(_),   \* the updates a POST may carry at step k
          CondSets,    \* the non-empty sets of protected fields used with ?conditionals=
          Kinds,       \* enabled request kinds
          Pick(_),     \* Pick(S) = S (exhaustive) or a random singleton subset of S (simulation)
          SchemaKinds  \* schema documents in play (subset of {"schema","schema_batch","json_schema"})

VARIABLES vers,     \* sequence of snapshots, head = Len(vers)
          schS,     \* sequence (per version) of [SchemaKinds -> 0..2]  (0 = none)
          locked,   \* the head is committed and has no child yet
          mem,      \* in-memory head database [data, ids, cnt]
          schM,     \* in-memory schema documents
          step,
          hist,
          done      \* the behaviour is complete (history printed)

vars == <<vers, schS, locked, mem, schM, step, hist, done>>

Un   == -1
Null == 0
UpdVals == {Un, Null} \cup (1..NumVals)
AllUpds == [Fields -> UpdVals]
NoUpd   == [f \in Fields |-> Un]

IdSeq  == [i \in 1..NumIds |-> i]
NoCell == [v |-> 0, u |-> 0, t |-> 0]
Absent == [ex |-> FALSE, fs |-> [f \in Fields |-> NoCell]]
Has(a, f) == a.ex /\ a.fs[f].v # 0
HeadV == Len(vers)
Cur  == vers[HeadV]

-----------------------------------------------------------------------------
(* The field-merge rule of POST key / keyvalues.                            *)
Merge(old, upd, replace, cond, user) ==
    LET Kept(f)   == /\ old.fs[f].v # 0
                     /\ \/ upd[f] = Un /\ ~replace                      \* not mentioned: kept
                        \/ upd[f] > 0 /\ (f \in cond \/ upd[f] = old.fs[f].v)  \* protected, or same value
        SetNew(f) == upd[f] > 0 /\ ~Kept(f)
    IN  [ex |-> TRUE,
         fs |-> [f \in Fields |-> IF Kept(f) THEN old.fs[f]
                                  ELSE IF SetNew(f) THEN [v |-> upd[f], u |-> user, t |-> 1]
                                  ELSE NoCell]]

(* The property's claims about an update, stated without reference to Merge. *)
MergeClaims(old, upd, replace, cond, user, new) ==
    /\ new.ex
    \* a partial update keeps the fields it does not mention
    /\ ~replace => \A f \in Fields : upd[f] = Un => new.fs[f] = old.fs[f]
    \* replace=true keeps exactly the mentioned non-null fields
    /\ replace => \A f \in Fields : (new.fs[f].v # 0) <=> (upd[f] > 0)
    \* a null removes the field's value
    /\ \A f \in Fields : upd[f] = Null => new.fs[f].v = 0
    \* a mentioned, unprotected value is taken
    /\ \A f \in Fields : upd[f] > 0 /\ f \notin cond => new.fs[f].v = upd[f]
    \* a protected field that is set is not overwritten; one that is not set is written
    /\ \A f \in cond : upd[f] > 0 =>
          new.fs[f].v = (IF old.fs[f].v # 0 THEN old.fs[f].v ELSE upd[f])
    \* stamps change only when the value changes ...
    /\ \A f \in Fields : new.fs[f].v # 0 /\ new.fs[f].v = old.fs[f].v => new.fs[f] = old.fs[f]
    \* ... and a value that changed carries the poster and a fresh time
    /\ \A f \in Fields : new.fs[f].v # 0 /\ new.fs[f].v # old.fs[f].v =>
          new.fs[f].u = user /\ new.fs[f].t = 1

-----------------------------------------------------------------------------
(* Reads evaluated on a snapshot (the store path).                          *)
KeysOf(s)        == SelectSeq(IdSeq, LAMBDA i : s[i].ex)
CountOf(s, f)    == Cardinality({i \in 1..NumIds : Has(s[i], f)})
RangeOf(s, lo, hi) == SelectSeq(IdSeq, LAMBDA i : s[i].ex /\ lo <= i /\ i <= hi)
QExists(s, f, b) == SelectSeq(IdSeq, LAMBDA i : s[i].ex /\ (Has(s[i], f) <=> b))
QEq(s, f, v)     == SelectSeq(IdSeq, LAMBDA i : Has(s[i], f) /\ s[i].fs[f].v = v)

(* The same reads evaluated on the head database (the in-memory path).      *)
MKeys            == mem.ids
MCount(f)        == mem.cnt[f]
MRange(lo, hi)   == SelectSeq(mem.ids, LAMBDA i : lo <= i /\ i <= hi)
MQExists(f, b)   == SelectSeq(mem.ids, LAMBDA i : Has(mem.data[i], f) <=> b)
MQEq(f, v)       == SelectSeq(mem.ids, LAMBDA i : Has(mem.data[i], f) /\ mem.data[i].fs[f].v = v)

(* Incremental maintenance of the head database.                            *)
InsertSorted(s, x) ==
    IF \E i \in 1..Len(s) : s[i] = x THEN s
    ELSE SelectSeq(s, LAMBDA y : y < x) \o <<x>> \o SelectSeq(s, LAMBDA y : y > x)
Bump(a, f) == IF Has(a, f) THEN 1 ELSE 0
MemPut(m, id, new) ==
    [data |-> [m.data EXCEPT ![id] = new],
     ids  |-> InsertSorted(m.ids, id),
     cnt  |-> [f \in Fields |-> m.cnt[f] - Bump(m.data[id], f) + Bump(new, f)]]
MemDel(m, id) ==
    [data |-> [m.data EXCEPT ![id] = Absent],
     ids  |-> SelectSeq(m.ids, LAMBDA y : y # id),
     cnt  |-> [f \in Fields |-> m.cnt[f] - Bump(m.data[id], f)]]
Load(s) == [data |-> s, ids |-> KeysOf(s), cnt |-> [f \in Fields |-> CountOf(s, f)]]

-----------------------------------------------------------------------------
OpRec(k) == [k |-> k, id |-> 0, upd |-> NoUpd, id2 |-> 0, upd2 |-> NoUpd, rep |-> FALSE,
             cond |-> {}, clean |-> FALSE, sk |-> "", sc |-> 0]

Log(op) == /\ step' = step + 1 /\ UNCHANGED done
           /\ hist' = IF Record THEN Append(hist, [op |-> op, post |-> vers'[Len(vers')], sch |-> schS'[Len(schS')],
                                                   locked |-> locked'])
                      ELSE hist

ModeOK(upd, replace, cond) ==
    /\ ~(replace /\ cond # {})
    /\ \A f \in cond : upd[f] # Null      \* a null for a protected field: not specified, not generated

Modes == {<<FALSE, {}>>, <<TRUE, {}>>} \cup {<<FALSE, c>> : c \in CondSets}

Post(id, upd, replace, cond) ==
    /\ "post" \in Kinds /\ ~locked /\ ModeOK(upd, replace, cond)
    /\ LET new == Merge(Cur[id], upd, replace, cond, step + 1) IN
       /\ vers' = [vers EXCEPT ![HeadV] = [@ EXCEPT ![id] = new]]
       /\ mem'  = MemPut(mem, id, new)
    /\ UNCHANGED <<schS, locked, schM>>
    /\ Log([OpRec("post") EXCEPT !.id = id, !.upd = upd, !.rep = replace, !.cond = cond])

\* POST keyvalues: two annotations in one request, applied in order, same options.
Batch(id, upd, id2, upd2, replace, cond) ==
    /\ "batch" \in Kinds /\ ~locked /\ ModeOK(upd, replace, cond) /\ ModeOK(upd2, replace, cond)
    /\ LET n1 == Merge(Cur[id], upd, replace, cond, step + 1)
           s1 == [Cur EXCEPT ![id] = n1]
           n2 == Merge(s1[id2], upd2, replace, cond, step + 1)
       IN /\ vers' = [vers EXCEPT ![HeadV] = [s1 EXCEPT ![id2] = n2]]
          /\ mem'  = MemPut(MemPut(mem, id, n1), id2, n2)
    /\ UNCHANGED <<schS, locked, schM>>
    /\ Log([OpRec("batch") EXCEPT !.id = id, !.upd = upd, !.id2 = id2, !.upd2 = upd2, !.rep = replace, !.cond = cond])

\* Create an absent annotation with explicit (old) stamps: the harness's way to make
\* "the time stamp did not change" observable.
Seed(id, upd) ==
    /\ "seed" \in Kinds /\ ~locked /\ ~Cur[id].ex
    /\ \A f \in Fields : upd[f] # Null
    /\ LET new == [ex |-> TRUE, fs |-> [f \in Fields |-> IF upd[f] > 0 THEN [v |-> upd[f], u |-> 0, t |-> 0] ELSE NoCell]] IN
       /\ vers' = [vers EXCEPT ![HeadV] = [@ EXCEPT ![id] = new]]
       /\ mem'  = MemPut(mem, id, new)
    /\ UNCHANGED <<schS, locked, schM>>
    /\ Log([OpRec("seed") EXCEPT !.id = id, !.upd = upd])

Del(id) ==
    /\ "del" \in Kinds /\ ~locked
    /\ vers' = [vers EXCEPT ![HeadV] = [@ EXCEPT ![id] = Absent]]
    /\ mem'  = MemDel(mem, id)
    /\ UNCHANGED <<schS, locked, schM>>
    /\ Log([OpRec("del") EXCEPT !.id = id])

Commit ==
    /\ "commit" \in Kinds /\ ~locked
    /\ locked' = TRUE
    /\ UNCHANGED <<vers, schS, mem, schM>>
    /\ Log(OpRec("commit"))

\* The child inherits the parent; the head database now stands for the child.
NewVersion ==
    /\ "newver" \in Kinds /\ locked
    /\ vers' = Append(vers, Cur) /\ schS' = Append(schS, schS[HeadV])
    /\ locked' = FALSE
    /\ UNCHANGED <<mem, schM>>
    /\ Log(OpRec("newver"))

Restart(clean) ==
    /\ "restart" \in Kinds
    /\ mem' = Load(Cur) /\ schM' = schS[HeadV]
    /\ UNCHANGED <<vers, schS, locked>>
    /\ Log([OpRec("restart") EXCEPT !.clean = clean])

PostSchema(sk, c) ==
    /\ "schema" \in Kinds /\ ~locked
    /\ schS' = [schS EXCEPT ![HeadV] = [@ EXCEPT ![sk] = c]]
    /\ schM' = [schM EXCEPT ![sk] = c]
    /\ UNCHANGED <<vers, locked, mem>>
    /\ Log([OpRec("postschema") EXCEPT !.sk = sk, !.sc = c])

DelSchema(sk) ==
    /\ "schema" \in Kinds /\ ~locked
    /\ schS' = [schS EXCEPT ![HeadV] = [@ EXCEPT ![sk] = 0]]
    /\ schM' = [schM EXCEPT ![sk] = 0]
    /\ UNCHANGED <<vers, locked, mem>>
    /\ Log([OpRec("delschema") EXCEPT !.sk = sk])

NoSchema == [k \in SchemaKinds |-> 0]
Init == /\ \E s \in Seeds :
             /\ vers = <<s>> /\ mem = Load(s)
             /\ hist = IF Record THEN <<[op |-> OpRec("init"), post |-> s, sch |-> NoSchema, locked |-> FALSE]>> ELSE <<>>
        /\ schS = <<NoSchema>> /\ schM = NoSchema
        /\ locked = FALSE /\ step = 0 /\ done = FALSE

\* Pick(S) is S itself for exhaustive exploration; the simulation configuration overrides it
\* with a random singleton subset so that a random walk draws one instance per request kind.
Next == \/ /\ step < MaxSteps
           /\ \/ \E id \in Pick(1..NumIds), upd \in UpdsAt(step), m \in Pick(Modes) : Post(id, upd, m[1], m[2])
              \/ \E id \in Pick(1..NumIds), id2 \in Pick(1..NumIds), upd \in Pick(UpdsAt(step)), upd2 \in Pick(UpdsAt(step + 100)), m \in Pick(Modes) :
                    Batch(id, upd, id2, upd2, m[1], m[2])
              \/ \E id \in Pick(1..NumIds), upd \in Pick(UpdsAt(step + 200)) : Seed(id, upd)
              \/ \E id \in Pick(1..NumIds) : Del(id)
              \/ Commit \/ NewVersion
              \/ \E c \in Pick(BOOLEAN) : Restart(c)
              \/ \E sk \in Pick(SchemaKinds) : (\E c \in Pick(1..2) : PostSchema(sk, c)) \/ DelSchema(sk)
        \/ /\ step = MaxSteps /\ ~done /\ done' = TRUE
           /\ UNCHANGED <<vers, schS, locked, mem, schM, step, hist>>

Spec == Init /\ [][Next]_vars

-----------------------------------------------------------------------------
(* Property C16, first sentence: every read served from the head database   *)
(* is the read the store gives for the head version.                        *)
Inv_C16_Coherent ==
    /\ mem.data = Cur
    /\ MKeys = KeysOf(Cur)
    /\ \A f \in Fields : MCount(f) = CountOf(Cur, f)
    /\ \A lo \in 1..NumIds, hi \in 1..NumIds : MRange(lo, hi) = RangeOf(Cur, lo, hi)
    /\ \A f \in Fields : \A b \in BOOLEAN : MQExists(f, b) = QExists(Cur, f, b)
    /\ \A f \in Fields : \A v \in 1..NumVals : MQEq(f, v) = QEq(Cur, f, v)
    /\ schM = schS[HeadV]

(* Property C16, second sentence, on every update enabled in the current state. *)
Inv_C16_MergeRules ==
    step < MaxSteps =>
      \A id \in 1..NumIds : \A upd \in UpdsAt(step) : \A m \in Modes :
        ModeOK(upd, m[1], m[2]) =>
          MergeClaims(Cur[id], upd, m[1], m[2], step + 1, Merge(Cur[id], upd, m[1], m[2], step + 1))

(* Versions other than the head never change (new version = copy, writes go to the head). *)
Inv_TypeOK ==
    /\ \A k \in 1..Len(vers) : \A i \in 1..NumIds : ~vers[k][i].ex => vers[k][i] = Absent
    /\ Len(schS) = Len(vers)

-----------------------------------------------------------------------------
(* Expected reads of a snapshot, for the harness.                           *)
Exp(s) == [keys |-> KeysOf(s),
           cnt  |-> [f \in Fields |-> CountOf(s, f)],
           ex1  |-> [f \in Fields |-> QExists(s, f, TRUE)],
           ex0  |-> [f \in Fields |-> QExists(s, f, FALSE)],
           eq   |-> [f \in Fields |-> [v \in 1..NumVals |-> IF v \in ScalarVals THEN QEq(s, f, v) ELSE <<>>]],
           rng  |-> [lo \in 1..NumIds |-> [hi \in 1..NumIds |-> RangeOf(s, lo, hi)]]]

Emit ==
    (Record /\ done) =>
        PrintT(ToJson([hist  |-> hist,
                       reads |-> IF EmitReads THEN [i \in 1..Len(hist) |-> Exp(hist[i].post)] ELSE <<>>]))
=============================================================================
