----------------------------- MODULE NeuronJSON -----------------------------
(***************************************************************************)
(* Neuron annotations (datatype neuronjson), property C16.                  *)
(*                                                                          *)
(* Persistent side: a DAG of versions (par[v] = parent tuple, bra[v] = the  *)
(* branch the version was made on, 0 = master, lck[v] = committed), one     *)
(* snapshot per version (vers[v][id] = annotation of body id at version v;  *)
(* a new version inherits its parent, a merge version reads every datum by  *)
(* the read rule of module KVRead over the entries own[v] written at each   *)
(* version), plus the schema documents per version.                         *)
(* In-memory side: one database per tracked branch head (master always,     *)
(* the branches named ":b" in the `inmemory` store configuration, trk) and  *)
(* one per configured committed version (stat) -- the annotations, the      *)
(* sorted id list and the per-field counters, all maintained                *)
(* *incrementally* by the write path, and rebuilt from the store by a       *)
(* restart, when a tracked branch comes to exist, and when a branch head    *)
(* moves to a version that is not the child of the version the database     *)
(* holds (master head after a merge commit).                                *)
(*                                                                          *)
(* An annotation is [ex, fs]: ex = it exists; fs[f] = [v, u, t] for every   *)
(* field f: v = 0 the field has no value, v > 0 an abstract value (the      *)
(* table of concrete JSON values lives in the harness); u = who last        *)
(* changed the value (0 = the seeding request, k = the k-th request of the  *)
(* behaviour, which is posted with user "u<k>", -1 = a user name supplied   *)
(* by the client as <f>_user); t = 0 the seeded (old) time stamp, 1 = a     *)
(* time stamp written by the server, 2 = a time supplied by the client as   *)
(* <f>_time.  Stamps are kept only for fields that have a value: what the   *)
(* server remembers about a removed field is not part of the property.      *)
(*                                                                          *)
(* An update is a function Fields -> {Un, Null} \cup 1..NumVals:            *)
(* Un = the field is not mentioned, Null = JSON null; with it a function    *)
(* Fields -> 0..3 saying which stamps the client supplies (1 = <f>_user,    *)
(* 2 = <f>_time, 3 = both).                                                 *)
(***************************************************************************)
EXTENDS Integers, Sequences, FiniteSets, TLC, Json

CONSTANTS NumIds,      \* body ids are 1..NumIds
          Fields,      \* field names (strings)
          NumVals,     \* non-null abstract values 1..NumVals
          ScalarVals,  \* the abstract values that are JSON scalars (equality queries are predicted for these)
          MaxSteps,    \* number of requests in a behaviour
          Record,      \* TRUE: keep the history (for replay)
          EmitReads,   \* TRUE: print the expected listing/query reads with every step
          Seeds,       \* set of initial snapshots
          UpdsAt(_),   \* the updates a POST may carry at step k
          CondSets,    \* the non-empty sets of protected fields used with ?conditionals=
          Kinds,       \* enabled request kinds
          Pick(_),     \* Pick(S) = S (exhaustive) or a random singleton subset of S (simulation)
          SchemaKinds, \* schema documents in play (subset of {"schema","schema_batch","json_schema"})
          MaxVers,     \* bound on the number of versions
          Branches,    \* named branches (positive integers; 0 = master)
          TrkSets,     \* `inmemory` branch lists a (re)start may be configured with (subsets of Branches)
          StatMax,     \* at most this many committed versions configured as in-memory copies
          StampSets,   \* client stamp functions a POST may carry (subset of [Fields -> 0..3])
          NumDocs,     \* schema documents 1..NumDocs
          Constrain,   \* [0..NumDocs -> 0..2]: as json_schema the document 0 accepts everything,
                       \* 1 wants field CField to be an integer when present, 2 requires an integer CField
          CField,      \* the constrained field
          IntVals,     \* abstract values that are JSON integers
          ConvTo,      \* abstract values that are strings spelling an integer |-> that integer's abstract value
          AtomsOf,     \* [1..NumVals -> set of atoms] : the scalars a value offers to a query (itself, or its elements)
          Queries,     \* sequence of queries: a query is a sequence (OR) of sequences (AND) of terms
          Projs,       \* sequence of [fs, su, st]: ?fields= / ?show= combinations
          EmitAll      \* TRUE: the printed history carries every version (DAG replay)

VARIABLES vers,     \* sequence of snapshots, one per version (creation order)
          schS,     \* sequence (per version) of [SchemaKinds -> 0..NumDocs]  (0 = none)
          par,      \* sequence of parent tuples
          bra,      \* sequence: branch of each version
          lck,      \* sequence: committed?
          own,      \* sequence: [ids, sks] = the data written (put or deleted) at this version itself
          hd,       \* [{0} \cup Branches -> version or 0]: head of each branch (last version made on it by new-version / branch)
          trk,      \* named branches tracked in memory (configuration of the last start)
          stat,     \* committed versions held in memory (configuration of the last start)
          memH,     \* [{0} \cup trk -> in-memory database [data, ids, cnt, ftok]]
          memS,     \* [stat -> in-memory database]
          schM,     \* in-memory schema documents of the master head
          step,
          hist,
          done      \* the behaviour is complete (history printed)

vars == <<vers, schS, par, bra, lck, own, hd, trk, stat, memH, memS, schM, step, hist, done>>
dagvars == <<par, bra, lck, hd>>

K == INSTANCE KVRead WITH LastFoundBug <- FALSE

Un   == -1
Null == 0
CliU == -1
CliT == 2
UpdVals == {Un, Null} \cup (1..NumVals)
AllUpds == [Fields -> UpdVals]
NoUpd   == [f \in Fields |-> Un]
NoSt    == [f \in Fields |-> 0]

IdSeq  == [i \in 1..NumIds |-> i]
NoCell == [v |-> 0, u |-> 0, t |-> 0]
Absent == [ex |-> FALSE, fs |-> [f \in Fields |-> NoCell]]
NoSnap == [i \in 1..NumIds |-> Absent]
Has(a, f) == a.ex /\ a.fs[f].v # 0
NV == Len(vers)
Versions == 1..NV
MHead == hd[0]
Cur  == vers[MHead]
NoOwn == [ids |-> {}, sks |-> {}]
NoSchema == [k \in SchemaKinds |-> 0]
Children(v) == {c \in Versions : \E i \in 1..Len(par[c]) : par[c][i] = v}

-----------------------------------------------------------------------------
(* The field-merge rule of POST key / keyvalues.                            *)
UGiven(st, f) == st[f] = 1 \/ st[f] = 3
TGiven(st, f) == st[f] = 2 \/ st[f] = 3
Merge(old, upd, st, replace, cond, user) ==
    LET Kept(f)   == /\ old.fs[f].v # 0
                     /\ \/ upd[f] = Un /\ ~replace                      \* not mentioned: kept
                        \/ upd[f] > 0 /\ (f \in cond \/ upd[f] = old.fs[f].v)  \* protected, or same value
        SetNew(f) == upd[f] > 0 /\ ~Kept(f)
        Base(f)   == IF Kept(f) THEN old.fs[f]
                     ELSE IF SetNew(f) THEN [v |-> upd[f], u |-> user, t |-> 1]
                     ELSE NoCell
    IN  [ex |-> TRUE,
         fs |-> [f \in Fields |->
                   LET b == Base(f) IN
                   IF b.v = 0 THEN NoCell
                   ELSE IF st[f] = 0 THEN b
                   ELSE [v |-> b.v,
                         u |-> IF UGiven(st, f) THEN CliU ELSE b.u,       \* stamps the client supplies are taken as given
                         t |-> IF TGiven(st, f) THEN CliT ELSE b.t]]]

(* The property's claims about an update, stated without reference to Merge. *)
MergeClaims(old, upd, st, replace, cond, user, new) ==
    /\ new.ex
    \* a partial update keeps the fields it does not mention
    /\ ~replace => \A f \in Fields : upd[f] = Un /\ st[f] = 0 => new.fs[f] = old.fs[f]
    /\ ~replace => \A f \in Fields : upd[f] = Un => new.fs[f].v = old.fs[f].v
    \* replace=true keeps exactly the mentioned non-null fields
    /\ replace => \A f \in Fields : (new.fs[f].v # 0) <=> (upd[f] > 0)
    \* a null removes the field's value
    /\ \A f \in Fields : upd[f] = Null => new.fs[f].v = 0
    \* a mentioned, unprotected value is taken
    /\ \A f \in Fields : upd[f] > 0 /\ f \notin cond => new.fs[f].v = upd[f]
    \* a protected field that is set is not overwritten; one that is not set is written
    /\ \A f \in cond : upd[f] > 0 =>
          new.fs[f].v = (IF old.fs[f].v # 0 THEN old.fs[f].v ELSE upd[f])
    \* stamps change only when the value changes (or the client supplies them) ...
    /\ \A f \in Fields : new.fs[f].v # 0 /\ new.fs[f].v = old.fs[f].v /\ st[f] = 0 => new.fs[f] = old.fs[f]
    /\ \A f \in Fields : new.fs[f].v # 0 /\ new.fs[f].v = old.fs[f].v /\ ~UGiven(st, f) => new.fs[f].u = old.fs[f].u
    /\ \A f \in Fields : new.fs[f].v # 0 /\ new.fs[f].v = old.fs[f].v /\ ~TGiven(st, f) => new.fs[f].t = old.fs[f].t
    \* ... a value that changed carries the poster and a fresh time unless the client supplies them
    /\ \A f \in Fields : new.fs[f].v # 0 /\ new.fs[f].v # old.fs[f].v =>
          /\ new.fs[f].u = (IF UGiven(st, f) THEN CliU ELSE user)
          /\ new.fs[f].t = (IF TGiven(st, f) THEN CliT ELSE 1)
    \* ... and a supplied stamp of a field that has a value is stored
    /\ \A f \in Fields : new.fs[f].v # 0 /\ UGiven(st, f) => new.fs[f].u = CliU
    /\ \A f \in Fields : new.fs[f].v # 0 /\ TGiven(st, f) => new.fs[f].t = CliT

(* json_schema: does the document doc accept the posted update, and what is stored. *)
IntLike == IntVals \cup DOMAIN ConvTo
Valid(doc, upd) ==
    \/ Constrain[doc] = 0
    \/ CField \notin Fields
    \/ upd[CField] \in IntLike
    \/ Constrain[doc] = 1 /\ upd[CField] = Un
Conv(doc, upd) ==
    IF Constrain[doc] # 0 /\ CField \in Fields /\ upd[CField] \in DOMAIN ConvTo
    THEN [upd EXCEPT ![CField] = ConvTo[upd[CField]]] ELSE upd
DocAt(v) == IF "json_schema" \in SchemaKinds THEN schS[v]["json_schema"] ELSE 0

-----------------------------------------------------------------------------
(* Reads evaluated on a snapshot (the store path).                          *)
KeysOf(s)        == SelectSeq(IdSeq, LAMBDA i : s[i].ex)
CountOf(s, f)    == Cardinality({i \in 1..NumIds : Has(s[i], f)})
RangeOf(s, lo, hi) == SelectSeq(IdSeq, LAMBDA i : s[i].ex /\ lo <= i /\ i <= hi)
QExists(s, f, b) == SelectSeq(IdSeq, LAMBDA i : s[i].ex /\ (Has(s[i], f) <=> b))
QEq(s, f, v)     == SelectSeq(IdSeq, LAMBDA i : Has(s[i], f) /\ s[i].fs[f].v = v)

(* Queries: a term is [f, k, at]: k = "ex1" / "ex0" (existence), "any" (one of *)
(* the atoms at -- a scalar, a list, the strings a regular expression matches -- *)
(* equals the field's value or one of its elements).  Terms of one object are  *)
(* ANDed, the objects of a list ORed; the answer is in ascending id order.     *)
TermOK(a, t) == CASE t.k = "ex1" -> Has(a, t.f)
                  [] t.k = "ex0" -> ~Has(a, t.f)
                  [] OTHER       -> Has(a, t.f) /\ (AtomsOf[a.fs[t.f].v] \cap t.at) # {}
QMatch(a, q)  == a.ex /\ \E i \in 1..Len(q) : \A j \in 1..Len(q[i]) : TermOK(a, q[i][j])
QEval(s, q)   == SelectSeq(IdSeq, LAMBDA i : QMatch(s[i], q))

(* ?fields= / ?show=: which members of a field the answer for one annotation carries *)
Proj(a, p) == [f \in Fields |->
                 LET inc == (p.fs = {} \/ f \in p.fs) /\ Has(a, f)
                 IN  [val |-> inc, user |-> inc /\ p.su, time |-> inc /\ p.st]]

(* The same reads evaluated on an in-memory database.                       *)
MKeys(m)            == m.ids
MCount(m, f)        == m.cnt[f]
MRange(m, lo, hi)   == SelectSeq(m.ids, LAMBDA i : lo <= i /\ i <= hi)
MQExists(m, f, b)   == SelectSeq(m.ids, LAMBDA i : Has(m.data[i], f) <=> b)
MQEq(m, f, v)       == SelectSeq(m.ids, LAMBDA i : Has(m.data[i], f) /\ m.data[i].fs[f].v = v)
MQEval(m, q)        == SelectSeq(m.ids, LAMBDA i : QMatch(m.data[i], q))

(* Incremental maintenance of an in-memory database.  ftok: no stamp has been *)
(* removed or replaced by an older one since the database was loaded, i.e. the *)
(* latest stamp seen per field is the latest stamp present (GET fieldtimes).   *)
InsertSorted(s, x) ==
    IF \E i \in 1..Len(s) : s[i] = x THEN s
    ELSE SelectSeq(s, LAMBDA y : y < x) \o <<x>> \o SelectSeq(s, LAMBDA y : y > x)
Bump(a, f) == IF Has(a, f) THEN 1 ELSE 0
TRank(t) == CASE t = 0 -> 1 [] t = 2 -> 2 [] OTHER -> 3
StampLost(old, new) == \E f \in Fields : Has(old, f) /\ (~Has(new, f) \/ TRank(new.fs[f].t) < TRank(old.fs[f].t))
MemPut(m, id, new) ==
    [data |-> [m.data EXCEPT ![id] = new],
     ids  |-> InsertSorted(m.ids, id),
     cnt  |-> [f \in Fields |-> m.cnt[f] - Bump(m.data[id], f) + Bump(new, f)],
     ftok |-> m.ftok /\ ~StampLost(m.data[id], new)]
MemDel(m, id) ==
    [data |-> [m.data EXCEPT ![id] = Absent],
     ids  |-> SelectSeq(m.ids, LAMBDA y : y # id),
     cnt  |-> [f \in Fields |-> m.cnt[f] - Bump(m.data[id], f)],
     ftok |-> m.ftok /\ ~StampLost(m.data[id], Absent)]
Load(s) == [data |-> s, ids |-> KeysOf(s), cnt |-> [f \in Fields |-> CountOf(s, f)], ftok |-> TRUE]
Same(m, s) == m.data = s /\ m.ids = KeysOf(s) /\ m.cnt = [f \in Fields |-> CountOf(s, f)]

(* Which database serves version v (configured versions first, then branch heads). *)
Served(v)  == v \in stat \/ (bra[v] \in DOMAIN memH /\ hd[bra[v]] = v)
MemOf(v)   == IF v \in stat THEN memS[v] ELSE memH[bra[v]]

-----------------------------------------------------------------------------
(* Version resolution at a merge: every datum by KVRead's read rule.        *)
EntId(id) == [v \in {w \in Versions : id \in own[w].ids} |-> IF vers[v][id].ex THEN 1 ELSE 0]
EntSk(sk) == [v \in {w \in Versions : sk \in own[w].sks} |-> IF schS[v][sk] # 0 THEN 1 ELSE 0]
ParWith(ps) == Append(par, ps)
MergeNodeId(ps, id) == K!ReadNode(ParWith(ps), EntId(id), NV + 1)
MergeNodeSk(ps, sk) == K!ReadNode(ParWith(ps), EntSk(sk), NV + 1)
MergeSnap(ps) == [id \in 1..NumIds |-> LET r == MergeNodeId(ps, id) IN IF r <= 0 THEN Absent ELSE vers[r][id]]
MergeSch(ps)  == [sk \in SchemaKinds |-> LET r == MergeNodeSk(ps, sk) IN IF r <= 0 THEN 0 ELSE schS[r][sk]]
ConflictFree(ps) == /\ \A id \in 1..NumIds : MergeNodeId(ps, id) # -1
                    /\ \A sk \in SchemaKinds : MergeNodeSk(ps, sk) # -1

-----------------------------------------------------------------------------
OpRec(k) == [k |-> k, at |-> 0, id |-> 0, upd |-> NoUpd, st |-> NoSt, id2 |-> 0, upd2 |-> NoUpd, rep |-> FALSE,
             cond |-> {}, clean |-> FALSE, sk |-> "", sc |-> 0, rej |-> 0, nv |-> 0, p2 |-> 0, br |-> 0,
             trk |-> {}, stat |-> {}]

Log(op) == /\ step' = step + 1 /\ UNCHANGED done
           /\ hist' = IF Record
                      THEN LET h == hd'[0]
                               e == [op |-> op, post |-> vers'[h], sch |-> schS'[h], locked |-> lck'[h]]
                           IN  Append(hist, IF EmitAll
                                            THEN e @@ [all |-> vers', schAll |-> schS', lk |-> lck', hdm |-> hd',
                                                       served |-> {v \in 1..Len(vers') : Served(v)'},
                                                       ftok |-> {v \in 1..Len(vers') : Served(v)' /\ MemOf(v)'.ftok}]
                                            ELSE e)
                      ELSE hist

ModeOK(upd, st, replace, cond) ==
    /\ ~(replace /\ cond # {})
    /\ \A f \in cond : upd[f] # Null      \* a null for a protected field: not specified, not generated
    /\ cond # {} => st = NoSt             \* client stamps with protected fields: not specified, not generated

\* a stamp is supplied only for a field that has a value after the request
StampOK(old, upd, st, replace) ==
    \A f \in Fields : st[f] # 0 => (upd[f] > 0 \/ (upd[f] = Un /\ ~replace /\ old.fs[f].v # 0))

Modes == {<<FALSE, {}>>, <<TRUE, {}>>} \cup {<<FALSE, c>> : c \in CondSets}

WriteAt(at, id, new) ==
    /\ vers' = [vers EXCEPT ![at] = [@ EXCEPT ![id] = new]]
    /\ own'  = [own EXCEPT ![at] = [@ EXCEPT !.ids = @ \cup {id}]]
    /\ IF at \in stat THEN memS' = [memS EXCEPT ![at] = MemPut(@, id, new)] /\ UNCHANGED memH
       ELSE IF Served(at) THEN memH' = [memH EXCEPT ![bra[at]] = MemPut(@, id, new)] /\ UNCHANGED memS
       ELSE UNCHANGED <<memH, memS>>

CanWrite(at) == at \in Versions /\ ~lck[at]

Post(at, id, upd, st, replace, cond) ==
    /\ "post" \in Kinds /\ CanWrite(at) /\ ModeOK(upd, st, replace, cond)
    /\ StampOK(vers[at][id], upd, st, replace)
    /\ UNCHANGED <<schS, dagvars, trk, stat, schM>>
    /\ IF Valid(DocAt(at), upd)
       THEN /\ WriteAt(at, id, Merge(vers[at][id], Conv(DocAt(at), upd), st, replace, cond, step + 1))
            /\ Log([OpRec("post") EXCEPT !.at = at, !.id = id, !.upd = upd, !.st = st, !.rep = replace, !.cond = cond])
       ELSE /\ UNCHANGED <<vers, own, memH, memS>>         \* refused by the schema: nothing changes
            /\ Log([OpRec("post") EXCEPT !.at = at, !.id = id, !.upd = upd, !.st = st, !.rep = replace, !.cond = cond, !.rej = 1])

\* POST keyvalues: two annotations in one request, applied in order, same options; the
\* request stops at the first annotation the schema refuses.
Batch(at, id, upd, id2, upd2, replace, cond) ==
    /\ "batch" \in Kinds /\ CanWrite(at) /\ ModeOK(upd, NoSt, replace, cond) /\ ModeOK(upd2, NoSt, replace, cond)
    /\ UNCHANGED <<schS, dagvars, trk, stat, schM>>
    /\ LET doc == DocAt(at)
           n1 == Merge(vers[at][id], Conv(doc, upd), NoSt, replace, cond, step + 1)
           s1 == [vers[at] EXCEPT ![id] = n1]
           n2 == Merge(s1[id2], Conv(doc, upd2), NoSt, replace, cond, step + 1)
           ok1 == Valid(doc, upd)
           ok2 == Valid(doc, upd2)
           m0 == MemOf(at)
           m1 == MemPut(m0, id, n1)
           m2 == IF ok2 THEN MemPut(m1, id2, n2) ELSE m1
       IN /\ IF ~ok1 THEN UNCHANGED <<vers, own, memH, memS>>
             ELSE /\ vers' = [vers EXCEPT ![at] = IF ok2 THEN [s1 EXCEPT ![id2] = n2] ELSE s1]
                  /\ own'  = [own EXCEPT ![at] = [@ EXCEPT !.ids = @ \cup (IF ok2 THEN {id, id2} ELSE {id})]]
                  /\ IF at \in stat THEN memS' = [memS EXCEPT ![at] = m2] /\ UNCHANGED memH
                     ELSE IF Served(at) THEN memH' = [memH EXCEPT ![bra[at]] = m2] /\ UNCHANGED memS
                     ELSE UNCHANGED <<memH, memS>>
          /\ Log([OpRec("batch") EXCEPT !.at = at, !.id = id, !.upd = upd, !.id2 = id2, !.upd2 = upd2, !.rep = replace, !.cond = cond,
                                         !.rej = IF ~ok1 THEN 1 ELSE IF ~ok2 THEN 2 ELSE 0])

\* Create an absent annotation with explicit (old) stamps: the harness's way to make
\* "the time stamp did not change" observable.
Seed(at, id, upd) ==
    /\ "seed" \in Kinds /\ CanWrite(at) /\ ~vers[at][id].ex
    /\ \A f \in Fields : upd[f] # Null
    /\ UNCHANGED <<schS, dagvars, trk, stat, schM>>
    /\ IF Valid(DocAt(at), upd)
       THEN LET cu == Conv(DocAt(at), upd)
                new == [ex |-> TRUE, fs |-> [f \in Fields |-> IF cu[f] > 0 THEN [v |-> cu[f], u |-> 0, t |-> 0] ELSE NoCell]]
            IN /\ WriteAt(at, id, new)
               /\ Log([OpRec("seed") EXCEPT !.at = at, !.id = id, !.upd = upd])
       ELSE /\ UNCHANGED <<vers, own, memH, memS>>
            /\ Log([OpRec("seed") EXCEPT !.at = at, !.id = id, !.upd = upd, !.rej = 1])

Del(at, id) ==
    /\ "del" \in Kinds /\ CanWrite(at)
    /\ vers' = [vers EXCEPT ![at] = [@ EXCEPT ![id] = Absent]]
    /\ own'  = [own EXCEPT ![at] = [@ EXCEPT !.ids = @ \cup {id}]]
    /\ IF at \in stat THEN memS' = [memS EXCEPT ![at] = MemDel(@, id)] /\ UNCHANGED memH
       ELSE IF Served(at) THEN memH' = [memH EXCEPT ![bra[at]] = MemDel(@, id)] /\ UNCHANGED memS
       ELSE UNCHANGED <<memH, memS>>
    /\ UNCHANGED <<schS, dagvars, trk, stat, schM>>
    /\ Log([OpRec("del") EXCEPT !.at = at, !.id = id])

\* POST key/0: body id 0 is reserved, the request is refused and nothing changes.
PostZero(at) ==
    /\ "postzero" \in Kinds /\ CanWrite(at)
    /\ UNCHANGED <<vers, schS, own, dagvars, trk, stat, memH, memS, schM>>
    /\ Log([OpRec("postzero") EXCEPT !.at = at, !.rej = 1])

Commit(at) ==
    /\ "commit" \in Kinds /\ at \in Versions /\ ~lck[at]
    /\ lck' = [lck EXCEPT ![at] = TRUE]
    /\ UNCHANGED <<vers, schS, par, bra, own, hd, trk, stat, memH, memS, schM>>
    /\ Log([OpRec("commit") EXCEPT !.at = at])

\* A child of p on branch b (b = bra[p]: new version; another b: a new branch).  The child
\* inherits the parent.  It is the head of b from now on: the database of b stands for the
\* child if it held the parent, and is loaded from the store otherwise.
CanNewVersion(p, b) ==
    /\ p \in Versions /\ lck[p] /\ NV < MaxVers
    /\ IF b = bra[p] THEN \A c \in Children(p) : bra[c] # b
       ELSE b \in Branches /\ \A v \in Versions : bra[v] # b
NewVersion(p, b) ==
    /\ (IF b = bra[p] THEN "newver" ELSE "branch") \in Kinds /\ CanNewVersion(p, b)
    /\ vers' = Append(vers, vers[p]) /\ schS' = Append(schS, schS[p])
    /\ par' = Append(par, <<p>>) /\ bra' = Append(bra, b) /\ lck' = Append(lck, FALSE)
    /\ own' = Append(own, NoOwn)
    /\ hd' = [hd EXCEPT ![b] = NV + 1]
    /\ memH' = IF b \in DOMAIN memH /\ hd[b] # p THEN [memH EXCEPT ![b] = Load(vers[p])] ELSE memH
    /\ schM' = IF b = 0 /\ hd[0] # p THEN schS[p] ELSE schM
    /\ UNCHANGED <<trk, stat, memS>>
    /\ Log([OpRec(IF b = bra[p] THEN "newver" ELSE "branch") EXCEPT !.at = p, !.nv = NV + 1, !.br = b])

\* A conflict-free merge of two committed versions neither of which descends from the
\* other.  The child is on master, is the head of no branch and is served from the store.
CanMerge(p1, p2) ==
    /\ p1 \in Versions /\ p2 \in Versions /\ p1 # p2 /\ lck[p1] /\ lck[p2] /\ NV < MaxVers
    /\ p1 \notin K!Anc(par, p2) /\ p2 \notin K!Anc(par, p1)
    /\ ConflictFree(<<p1, p2>>)
MergeVersions(p1, p2) ==
    /\ "merge" \in Kinds /\ CanMerge(p1, p2)
    /\ vers' = Append(vers, MergeSnap(<<p1, p2>>)) /\ schS' = Append(schS, MergeSch(<<p1, p2>>))
    /\ par' = Append(par, <<p1, p2>>) /\ bra' = Append(bra, 0) /\ lck' = Append(lck, FALSE)
    /\ own' = Append(own, NoOwn)
    /\ UNCHANGED <<hd, trk, stat, memH, memS, schM>>
    /\ Log([OpRec("merge") EXCEPT !.at = p1, !.p2 = p2, !.nv = NV + 1])

\* (Re)start with an `inmemory` configuration: tracked branches T, committed versions S.
EmptyMem == Load(NoSnap)
Restart(clean, T, S) ==
    /\ "restart" \in Kinds /\ T \subseteq Branches /\ S \subseteq {v \in Versions : lck[v]}
    /\ trk' = T /\ stat' = S
    /\ memH' = [b \in {0} \cup T |-> IF hd[b] # 0 THEN Load(vers[hd[b]]) ELSE EmptyMem]
    /\ memS' = [v \in S |-> Load(vers[v])]
    /\ schM' = schS[MHead]
    /\ UNCHANGED <<vers, schS, own, dagvars>>
    /\ Log([OpRec("restart") EXCEPT !.clean = clean, !.trk = T, !.stat = S])

PostSchema(at, sk, c) ==
    /\ "schema" \in Kinds /\ CanWrite(at)
    /\ schS' = [schS EXCEPT ![at] = [@ EXCEPT ![sk] = c]]
    /\ own'  = [own EXCEPT ![at] = [@ EXCEPT !.sks = @ \cup {sk}]]
    /\ schM' = IF at = MHead THEN [schM EXCEPT ![sk] = c] ELSE schM
    /\ UNCHANGED <<vers, dagvars, trk, stat, memH, memS>>
    /\ Log([OpRec("postschema") EXCEPT !.at = at, !.sk = sk, !.sc = c])

DelSchema(at, sk) ==
    /\ "schema" \in Kinds /\ CanWrite(at)
    /\ schS' = [schS EXCEPT ![at] = [@ EXCEPT ![sk] = 0]]
    /\ own'  = [own EXCEPT ![at] = [@ EXCEPT !.sks = @ \cup {sk}]]
    /\ schM' = IF at = MHead THEN [schM EXCEPT ![sk] = 0] ELSE schM
    /\ UNCHANGED <<vers, dagvars, trk, stat, memH, memS>>
    /\ Log([OpRec("delschema") EXCEPT !.at = at, !.sk = sk])

InitWith(s, T) ==
    /\ vers = <<s>> /\ schS = <<NoSchema>> /\ par = <<<<>>>> /\ bra = <<0>> /\ lck = <<FALSE>>
    /\ own = <<[ids |-> {i \in 1..NumIds : s[i].ex}, sks |-> {}]>>
    /\ hd = [b \in {0} \cup Branches |-> IF b = 0 THEN 1 ELSE 0]
    /\ trk = T /\ stat = {}
    /\ memH = [b \in {0} \cup T |-> IF b = 0 THEN Load(s) ELSE EmptyMem]
    /\ memS = [v \in {} |-> EmptyMem]
    /\ schM = NoSchema
    /\ hist = IF Record
              THEN LET e == [op |-> OpRec("init"), post |-> s, sch |-> NoSchema, locked |-> FALSE]
                   IN  <<IF EmitAll THEN e @@ [all |-> <<s>>, schAll |-> <<NoSchema>>, lk |-> <<FALSE>>,
                                               hdm |-> [b \in {0} \cup Branches |-> IF b = 0 THEN 1 ELSE 0],
                                               served |-> {1}, ftok |-> {1}]
                         ELSE e>>
              ELSE <<>>
    /\ step = 0 /\ done = FALSE

Init == \E s \in Seeds : \E T \in TrkSets : InitWith(s, T)

Writable == {v \in Versions : ~lck[v]}
StatSets == {S \in SUBSET {v \in Versions : lck[v]} : Cardinality(S) <= StatMax}

\* Pick(S) is S itself for exhaustive exploration; the simulation configuration overrides it
\* with a random singleton subset so that a random walk draws one instance per request kind.
Next == \/ /\ step < MaxSteps
           /\ \/ \E at \in Pick(Writable), id \in Pick(1..NumIds), upd \in UpdsAt(step), st \in Pick(StampSets), m \in Pick(Modes) :
                    Post(at, id, upd, st, m[1], m[2])
              \/ \E at \in Pick(Writable), id \in Pick(1..NumIds), id2 \in Pick(1..NumIds), upd \in Pick(UpdsAt(step)), upd2 \in Pick(UpdsAt(step + 100)), m \in Pick(Modes) :
                    Batch(at, id, upd, id2, upd2, m[1], m[2])
              \/ \E at \in Pick(Writable), id \in Pick(1..NumIds), upd \in Pick(UpdsAt(step + 200)) : Seed(at, id, upd)
              \/ \E at \in Pick(Writable), id \in Pick(1..NumIds) : Del(at, id)
              \/ \E at \in Pick(Writable) : PostZero(at)
              \/ \E at \in Pick(Writable) : Commit(at)
              \/ \E p \in Pick({v \in Versions : lck[v]}) : \E b \in Pick({bra[p]} \cup Branches) : NewVersion(p, b)
              \/ \E p1 \in Pick(Versions), p2 \in Pick(Versions) : MergeVersions(p1, p2)
              \/ \E c \in Pick(BOOLEAN), T \in Pick(TrkSets), S \in Pick(StatSets) : Restart(c, T, S)
              \/ \E at \in Pick(Writable), sk \in Pick(SchemaKinds) : (\E c \in Pick(1..NumDocs) : PostSchema(at, sk, c)) \/ DelSchema(at, sk)
        \/ /\ step = MaxSteps /\ ~done /\ done' = TRUE
           /\ UNCHANGED <<vers, schS, par, bra, lck, own, hd, trk, stat, memH, memS, schM, step, hist>>

Spec == Init /\ [][Next]_vars

-----------------------------------------------------------------------------
(* Property C16, first sentence: every read served from an in-memory        *)
(* database is the read the store gives for the version it stands for.      *)
CoherentWith(m, s) ==
    /\ m.data = s
    /\ MKeys(m) = KeysOf(s)
    /\ \A f \in Fields : MCount(m, f) = CountOf(s, f)
    /\ \A lo \in 1..NumIds, hi \in 1..NumIds : MRange(m, lo, hi) = RangeOf(s, lo, hi)
    /\ \A f \in Fields : \A b \in BOOLEAN : MQExists(m, f, b) = QExists(s, f, b)
    /\ \A f \in Fields : \A v \in 1..NumVals : MQEq(m, f, v) = QEq(s, f, v)
    /\ \A q \in 1..Len(Queries) : MQEval(m, Queries[q]) = QEval(s, Queries[q])

Inv_C16_Coherent ==
    /\ \A b \in DOMAIN memH : IF hd[b] # 0 THEN CoherentWith(memH[b], vers[hd[b]]) ELSE Same(memH[b], NoSnap)
    /\ \A v \in stat : CoherentWith(memS[v], vers[v])
    /\ schM = schS[MHead]

(* Property C16, second sentence, on every update enabled in the current state. *)
Inv_C16_MergeRules ==
    step < MaxSteps =>
      \A at \in Writable : \A id \in 1..NumIds : \A upd \in UpdsAt(step) : \A st \in StampSets : \A m \in Modes :
        ModeOK(upd, st, m[1], m[2]) /\ StampOK(vers[at][id], upd, st, m[1]) =>
          MergeClaims(vers[at][id], upd, st, m[1], m[2], step + 1, Merge(vers[at][id], upd, st, m[1], m[2], step + 1))

(* The snapshots are the store: every version reads every datum by KVRead's rule *)
(* over the entries written at the versions themselves, and no read is a conflict. *)
Inv_StoreIsRead ==
    \A v \in Versions :
      /\ \A id \in 1..NumIds : LET r == K!ReadNode(par, EntId(id), v) IN
            /\ r # -1
            /\ vers[v][id] = (IF r = 0 THEN Absent ELSE vers[r][id])
      /\ \A sk \in SchemaKinds : LET r == K!ReadNode(par, EntSk(sk), v) IN
            /\ r # -1
            /\ schS[v][sk] = (IF r = 0 THEN 0 ELSE schS[r][sk])

(* Committed versions never change; bookkeeping is well-formed. *)
Inv_TypeOK ==
    /\ \A k \in Versions : \A i \in 1..NumIds : ~vers[k][i].ex => vers[k][i] = Absent
    /\ Len(schS) = NV /\ Len(par) = NV /\ Len(bra) = NV /\ Len(lck) = NV /\ Len(own) = NV
    /\ \A b \in DOMAIN hd : hd[b] # 0 => (hd[b] \in Versions /\ bra[hd[b]] = b /\ Len(par[hd[b]]) <= 1)
    /\ DOMAIN memH = {0} \cup trk /\ DOMAIN memS = stat /\ \A v \in stat : lck[v]
    /\ \A v \in Versions : \A i \in 1..Len(par[v]) : par[v][i] < v /\ lck[par[v][i]]

-----------------------------------------------------------------------------
(* Expected reads of a snapshot, for the harness.                           *)
Exp(s) == [keys |-> KeysOf(s),
           cnt  |-> [f \in Fields |-> CountOf(s, f)],
           ex1  |-> [f \in Fields |-> QExists(s, f, TRUE)],
           ex0  |-> [f \in Fields |-> QExists(s, f, FALSE)],
           eq   |-> [f \in Fields |-> [v \in 1..NumVals |-> IF v \in ScalarVals THEN QEq(s, f, v) ELSE <<>>]],
           rng  |-> [lo \in 1..NumIds |-> [hi \in 1..NumIds |-> RangeOf(s, lo, hi)]]]

ExpAll(s) == Exp(s) @@ [qs   |-> [q \in 1..Len(Queries) |-> QEval(s, Queries[q])],
                        proj |-> [p \in 1..Len(Projs) |-> [i \in 1..NumIds |-> Proj(s[i], Projs[p])]]]

Emit ==
    (Record /\ done) =>
        PrintT(ToJson([hist  |-> hist,
                       reads |-> IF ~EmitReads THEN <<>>
                                 ELSE IF EmitAll THEN [i \in 1..Len(hist) |-> [v \in 1..Len(hist[i].all) |-> ExpAll(hist[i].all[v])]]
                                 ELSE [i \in 1..Len(hist) |-> Exp(hist[i].post)]]))
=============================================================================
