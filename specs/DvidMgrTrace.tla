---------------------------- MODULE DvidMgrTrace ----------------------------
(***************************************************************************)
(* Trace specification for events emitted by the repository manager ITSELF *)
(* (datastore/repo_local.go, build tag verif): one ndjson line per state   *)
(* change, written at the point where the change becomes visible and while *)
(* the lock that protects the changed state is held, plus one line per     *)
(* refused version request at the point of refusal.  The recorded sequence *)
(* must be a behaviour of DvidDAG: each event is the DvidDAG action of its *)
(* kind with the logged identifiers bound; whatever is not logged (commit  *)
(* state of a parent, branch of a sister, liveness of a repo) is decided   *)
(* by the guards of the specification in the state reached so far.         *)
(*                                                                         *)
(* UUIDs stay the strings the server generated; the specification keeps    *)
(* its own table uu[n] / ver[n] (node number n = creation order) and       *)
(* resolves every UUID in an event against it, so no renaming is done      *)
(* outside TLC.  On top of DvidDAG the module checks the identifier claims *)
(* of C12 that concern the manager: version ids strictly increase in issue *)
(* order (also across reloads and repo deletion), a UUID is issued once,   *)
(* repo ids increase, instance ids are never reused, each created node /   *)
(* instance consumes exactly the identifier issued for it, and the         *)
(* persisted mutation-id bound only moves forward.  After a reload of the  *)
(* metadata ("load") the dumped nodes must be exactly the live nodes of    *)
(* the state reached before it (C03, DAG part).                            *)
(*                                                                         *)
(* Event order: every event is written under the sink's own mutex while    *)
(* the emitting goroutine still holds the lock of the state it changed     *)
(* (idMutex for identifiers, the node's lock for commit and merge links,   *)
(* the repo's lock for new versions and instances, repoMutex for a new     *)
(* repo), so the file order is an order in which the changes took effect;  *)
(* all events carry their arguments, so TLC's search is linear in the      *)
(* trace length (-workers 1, acceptance = diameter reached).               *)
(*                                                                         *)
(* Variables of DvidDAG are all assigned in TReset; if DvidDAG gains a     *)
(* variable it must be added there.                                        *)
(***************************************************************************)
EXTENDS DvidDAG, Json

TraceLog == ndJsonDeserialize("mgr_trace.ndjson")

VARIABLES
    l,         \* next trace line
    uu,        \* uu[n]  : UUID string of node n
    ver,       \* ver[n] : local version id of node n
    alloc,     \* UUIDs issued by newUUID that are not (yet) a node: UUID -> version id
    lastVer,   \* last version id issued
    lastRepo,  \* last repo id issued
    repoFree,  \* repo ids issued and not yet used by a repo
    iids,      \* instance ids ever issued (strings)
    iidFree,   \* instance ids issued and not yet bound to an instance
    lastIid,   \* last instance id of the sequential generator
    inst,      \* inst[root] : instance name -> instance id
    pend,      \* links of merges in flight: <<child UUID, parent node>>
    mutSaved,  \* root -> persisted mutation-id bound
    skip,      \* TRUE after an operation the specification does not model, until the next manager
    seen       \* nodes dumped since the last reload

aux == <<uu, ver, alloc, lastVer, lastRepo, repoFree, iids, iidFree, lastIid, inst, pend, mutSaved, skip, seen>>
tvars == <<vars, l, aux>>

T == TraceLog[l]
IsEvent(e) == l <= Len(TraceLog) /\ ~skip /\ TraceLog[l].ev = e /\ l' = l + 1

Get(f, k) == IF k \in DOMAIN f THEN f[k] ELSE 0
Put(f, k, v) == [x \in (DOMAIN f) \cup {k} |-> IF x = k THEN v ELSE f[x]]
Drop(f, k) == [x \in (DOMAIN f) \ {k} |-> f[x]]

\* the node a UUID names (the youngest one: a UUID of a deleted repo may be issued again); 0 = none
NodeOf(u) == LET S == {n \in Nodes : uu[n] = u} IN IF S = {} THEN 0 ELSE CHOOSE n \in S : \A m \in S : m <= n
NodesOf(us) == [j \in 1..Len(us) |-> NodeOf(us[j])]
Known(u) == (\E n \in Live : uu[n] = u) \/ u \in DOMAIN alloc

AuxInit ==
    /\ uu = <<>> /\ ver = <<>> /\ alloc = <<>> /\ lastVer = 0 /\ lastRepo = 0 /\ repoFree = {}
    /\ iids = {} /\ iidFree = {} /\ lastIid = 0 /\ inst = <<>> /\ pend = {} /\ mutSaved = <<>>
    /\ skip = FALSE /\ seen = {}

TInit == Init /\ l = 1 /\ AuxInit

\* a fresh manager on an empty metadata store: everything starts again
TReset ==
    /\ l <= Len(TraceLog) /\ TraceLog[l].ev = "init" /\ l' = l + 1
    /\ nn' = 0 /\ par' = <<>> /\ kids' = <<>> /\ br' = <<>> /\ lk' = <<>> /\ kind' = <<>> /\ rp' = <<>> /\ uid' = <<>>
    /\ head' = <<>> /\ dead' = {} /\ last' = [op |-> "init", ok |-> TRUE]
    /\ uu' = <<>> /\ ver' = <<>> /\ alloc' = <<>> /\ lastVer' = 0 /\ lastRepo' = 0 /\ repoFree' = {}
    /\ iids' = {} /\ iidFree' = {} /\ lastIid' = 0 /\ inst' = <<>> /\ pend' = {} /\ mutSaved' = <<>>
    /\ skip' = FALSE /\ seen' = {}

(***************************************************************************)
(* Identifier allocation (C12)                                             *)
(***************************************************************************)
TNewUUID ==
    /\ IsEvent("newuuid")
    /\ T.version > lastVer /\ ~Known(T.uuid)
    /\ alloc' = Put(alloc, T.uuid, T.version) /\ lastVer' = T.version
    /\ UNCHANGED <<vars, uu, ver, lastRepo, repoFree, iids, iidFree, lastIid, inst, pend, mutSaved, skip, seen>>

\* version ids handed out for pushed repos (their nodes arrive through the unmodelled addrepo)
TNewVersionID ==
    /\ IsEvent("newversionid")
    /\ T.version > lastVer /\ ~Known(T.uuid)
    /\ lastVer' = T.version
    /\ UNCHANGED <<vars, uu, ver, alloc, lastRepo, repoFree, iids, iidFree, lastIid, inst, pend, mutSaved, skip, seen>>

TNewRepoID ==
    /\ IsEvent("newrepoid")
    /\ T.repo > lastRepo
    /\ lastRepo' = T.repo /\ repoFree' = repoFree \cup {T.repo}
    /\ UNCHANGED <<vars, uu, ver, alloc, lastVer, iids, iidFree, lastIid, inst, pend, mutSaved, skip, seen>>

TNewIid ==
    /\ IsEvent("newiid")
    /\ T.iid \notin iids
    /\ T.gen = "sequential" => T.iidn > lastIid
    /\ iids' = iids \cup {T.iid} /\ iidFree' = iidFree \cup {T.iid}
    /\ lastIid' = IF T.gen = "sequential" THEN T.iidn ELSE lastIid
    /\ UNCHANGED <<vars, uu, ver, alloc, lastVer, lastRepo, repoFree, inst, pend, mutSaved, skip, seen>>

\* a created node consumes the (UUID, version id) pair issued for it
Take(u, v) == u \in DOMAIN alloc /\ alloc[u] = v /\ alloc' = Drop(alloc, u)
Named(u, v) == uu' = Append(uu, u) /\ ver' = Append(ver, v)

(***************************************************************************)
(* Version graph: the DvidDAG action of each event kind                    *)
(***************************************************************************)
TNewRepo ==
    /\ IsEvent("newrepo")
    /\ Take(T.uuid, T.version) /\ T.repo \in repoFree /\ repoFree' = repoFree \ {T.repo}
    /\ NewRepo_Ok("auto")
    /\ Named(T.uuid, T.version) /\ inst' = Put(inst, nn + 1, <<>>)
    /\ UNCHANGED <<lastVer, lastRepo, iids, iidFree, lastIid, pend, mutSaved, skip, seen>>

TCommit ==
    /\ IsEvent("commit")
    /\ LET n == NodeOf(T.uuid) IN n \in Live /\ ver[n] = T.version /\ Commit_Ok(n)
    /\ UNCHANGED aux

\* new version on the parent's branch, or first version of a new branch: the parent must be
\* committed IN THE STATE OF THE SPECIFICATION, its branch must have no child yet / the new name
\* must be unused
TNewVersion ==
    /\ IsEvent("newversion")
    /\ LET p == NodeOf(T.parent) IN
        /\ p \in Live
        /\ IF T.branch = br[p] THEN NewVersion_Ok(p, "auto") ELSE Branch_Ok(p, T.branch, "auto")
    /\ Take(T.child, T.version) /\ Named(T.child, T.version)
    /\ UNCHANGED <<lastVer, lastRepo, repoFree, iids, iidFree, lastIid, inst, pend, mutSaved, skip, seen>>

\* A merge links its child to the parents one by one, each under that parent's lock.  The links
\* before the last one only mark the parent (a version request on it is refused from then on);
\* the last link is the merge.
PendParents == {x[2] : x \in pend}
TMergeLink ==
    /\ IsEvent("mergelink")
    /\ LET k == Len(T.parents)
           ps == NodesOf(T.parents)
           mine == {x \in pend : x[1] = T.child}
       IN /\ T.i \in 1..k
          /\ {x[2] : x \in mine} = {ps[j] : j \in 1..(T.i - 1)}
          /\ IF T.i < k
             THEN /\ ps[T.i] \in Live /\ lk[ps[T.i]]
                  /\ pend' = pend \cup {<<T.child, ps[T.i]>>}
                  /\ UNCHANGED <<vars, uu, ver, alloc>>
             ELSE /\ Merge_Ok(ps)
                  /\ Take(T.child, T.version) /\ Named(T.child, T.version)
                  /\ pend' = pend \ mine
    /\ UNCHANGED <<lastVer, lastRepo, repoFree, iids, iidFree, lastIid, inst, mutSaved, skip, seen>>

TDeleteRepo ==
    /\ IsEvent("deleterepo")
    /\ DeleteRepo_Ok(NodeOf(T.uuid))
    /\ UNCHANGED aux

\* Refusals, logged where the code decides them: the specification must refuse for the same reason.
TRefuse ==
    /\ IsEvent("refuse")
    /\ CASE T.op = "newuuid" -> Known(T.uuid)
         [] T.op = "newversion" ->
              LET p == NodeOf(T.parent) IN
              /\ p \in Live
              /\ CASE T.reason = "unlocked" -> ~lk[p]
                   [] T.reason = "sister" -> lk[p] /\ T.branch = br[p] /\ (SisterHas(p, br[p]) \/ p \in PendParents)
                   [] T.reason = "branchused" -> lk[p] /\ T.branch # br[p] /\ BranchUsed(rp[p], T.branch)
                   [] OTHER -> FALSE
         [] T.op = "merge" -> LET p == NodeOf(T.parent) IN p \in Live /\ ~lk[p]
         [] OTHER -> FALSE
    /\ Rej([op |-> T.op])
    /\ UNCHANGED aux

(***************************************************************************)
(* Data instances: names are unique per repo, each instance owns the id    *)
(* issued for it; the version graph is untouched (Neutral).                *)
(***************************************************************************)
TNewData ==
    /\ IsEvent("newdata")
    /\ LET r == NodeOf(T.root) IN
        /\ r \in LiveRoots /\ r \in DOMAIN inst
        /\ NodeOf(T.uuid) \in Live /\ rp[NodeOf(T.uuid)] = r
        /\ T.iid \in iidFree /\ iidFree' = iidFree \ {T.iid}
        /\ T.name \notin DOMAIN inst[r]
        /\ inst' = [inst EXCEPT ![r] = Put(@, T.name, T.iid)]
        /\ Neutral("newinstance", r)
    /\ UNCHANGED <<uu, ver, alloc, lastVer, lastRepo, repoFree, iids, lastIid, pend, mutSaved, skip, seen>>

TRenameData ==
    /\ IsEvent("renamedata")
    /\ LET r == NodeOf(T.root) IN
        /\ r \in DOMAIN inst
        /\ T.old \in DOMAIN inst[r] /\ inst[r][T.old] = T.iid /\ T.new \notin DOMAIN inst[r]
        /\ inst' = [inst EXCEPT ![r] = Put(Drop(@, T.old), T.new, T.iid)]
        /\ Neutral("renameinstance", r)
    /\ UNCHANGED <<uu, ver, alloc, lastVer, lastRepo, repoFree, iids, iidFree, lastIid, pend, mutSaved, skip, seen>>

\* the removal happens in a goroutine: it may arrive after its repo is gone (stale: no effect)
TDeleteData ==
    /\ IsEvent("deletedata")
    /\ LET r == NodeOf(T.root) IN
        IF r = 0 \/ r \notin Live
        THEN UNCHANGED <<vars, inst>>
        ELSE /\ r \in DOMAIN inst /\ T.name \in DOMAIN inst[r] /\ inst[r][T.name] = T.iid
             /\ inst' = [inst EXCEPT ![r] = Drop(@, T.name)]
             /\ Neutral("deleteinstance", r)
    /\ UNCHANGED <<uu, ver, alloc, lastVer, lastRepo, repoFree, iids, iidFree, lastIid, pend, mutSaved, skip, seen>>

(***************************************************************************)
(* Persisted mutation-id bound per repo: loaded value >= every bound that  *)
(* was reported as written, and the bound only grows.                      *)
(***************************************************************************)
TMutInit ==
    /\ IsEvent("mutinit")
    /\ T.saved > T.cur
    /\ LET r == NodeOf(T.root) IN
        IF r = 0 THEN UNCHANGED mutSaved
        ELSE T.cur >= Get(mutSaved, r) /\ mutSaved' = Put(mutSaved, r, T.saved)
    /\ UNCHANGED <<vars, uu, ver, alloc, lastVer, lastRepo, repoFree, iids, iidFree, lastIid, inst, pend, skip, seen>>

TMutBlock ==
    /\ IsEvent("mutblock")
    /\ LET r == NodeOf(T.root) IN
        IF r = 0 \/ r \notin DOMAIN mutSaved THEN UNCHANGED mutSaved
        ELSE T.saved > mutSaved[r] /\ T.cur <= T.saved /\ T.cur >= mutSaved[r] /\ mutSaved' = Put(mutSaved, r, T.saved)
    /\ UNCHANGED <<vars, uu, ver, alloc, lastVer, lastRepo, repoFree, iids, iidFree, lastIid, inst, pend, skip, seen>>

(***************************************************************************)
(* Reload of the metadata (in-process reopen or a new process on the same  *)
(* store): a stuttering step for the graph; the version counter must be    *)
(* ahead of every id issued; the dump must be the live part of the state.  *)
(***************************************************************************)
TLoad ==
    /\ IsEvent("load")
    /\ T.versionID > lastVer
    /\ seen' = {} /\ pend' = {}
    /\ UNCHANGED <<vars, uu, ver, alloc, lastVer, lastRepo, repoFree, iids, iidFree, lastIid, inst, mutSaved, skip>>

TLoadNode ==
    /\ IsEvent("loadnode")
    /\ LET n == NodeOf(T.uuid) IN
        /\ n \in Live /\ T.mapped
        /\ ver[n] = T.version /\ rp[n] = NodeOf(T.root)
        /\ br[n] = T.branch /\ lk[n] = T.locked
        /\ par[n] = NodesOf(T.parents)
        \* children as a set: a merge appends its child to each parent when it links that parent, so
        \* the position of a merge child among its siblings depends on the interleaving
        /\ Len(kids[n]) = Len(T.children) /\ Range(kids[n]) = Range(NodesOf(T.children))
        /\ seen' = seen \cup {n}
    /\ UNCHANGED <<vars, uu, ver, alloc, lastVer, lastRepo, repoFree, iids, iidFree, lastIid, inst, pend, mutSaved, skip>>

TLoadData ==
    /\ IsEvent("loaddata")
    /\ LET r == NodeOf(T.root) IN
        /\ r \in LiveRoots /\ r \in DOMAIN inst
        /\ IF T.name \in DOMAIN inst[r] THEN inst[r][T.name] = T.iid ELSE T.iid \in iids \ iidFree
    /\ UNCHANGED <<vars, aux>>

TLoaded ==
    /\ IsEvent("loaded")
    /\ seen = Live
    /\ UNCHANGED <<vars, aux>>

(***************************************************************************)
(* Operations outside the specification (push/pull import of a repo,       *)
(* hiding a branch, renaming master): the rest of this manager's events is *)
(* skipped and counted as not validated.                                   *)
(***************************************************************************)
TUnmodelled ==
    /\ (IsEvent("addrepo") \/ IsEvent("hidebranch") \/ IsEvent("makemaster"))
    /\ skip' = TRUE
    /\ UNCHANGED <<vars, uu, ver, alloc, lastVer, lastRepo, repoFree, iids, iidFree, lastIid, inst, pend, mutSaved, seen>>

TSkip ==
    /\ skip /\ l <= Len(TraceLog) /\ TraceLog[l].ev # "init" /\ l' = l + 1
    /\ UNCHANGED <<vars, aux>>

TNext ==
    \/ TReset \/ TNewUUID \/ TNewVersionID \/ TNewRepoID \/ TNewIid
    \/ TNewRepo \/ TCommit \/ TNewVersion \/ TMergeLink \/ TDeleteRepo \/ TRefuse
    \/ TNewData \/ TRenameData \/ TDeleteData \/ TMutInit \/ TMutBlock
    \/ TLoad \/ TLoadNode \/ TLoadData \/ TLoaded \/ TUnmodelled \/ TSkip

TSpec == TInit /\ [][TNext]_tvars

(***************************************************************************)
(* Checked at every step (for graphs above CheckAllBelow nodes: at every   *)
(* CheckEvery-th event and at the end of every manager's trace; the graph  *)
(* only grows, so a broken link stays broken until then).                  *)
(***************************************************************************)
CONSTANTS CheckAllBelow, CheckEvery
CheckNow == nn <= CheckAllBelow \/ l % CheckEvery = 0 \/ l > Len(TraceLog) \/ TraceLog[l].ev = "init"

\* every version id and every live UUID names exactly one node; nothing issued lies ahead of the counters
Inv_Ids ==
    /\ Len(uu) = nn /\ Len(ver) = nn
    /\ \A m, n \in Nodes : m # n => ver[m] # ver[n]
    /\ \A m, n \in Live : m # n => uu[m] # uu[n]
    /\ \A n \in Nodes : ver[n] <= lastVer
    /\ \A u \in DOMAIN alloc : alloc[u] <= lastVer /\ ~\E n \in Live : uu[n] = u
    /\ iidFree \subseteq iids
    /\ \A r \in DOMAIN inst : \A a, b \in DOMAIN inst[r] : a # b => inst[r][a] # inst[r][b]

Inv_Trace == CheckNow => (Inv_C07 /\ Inv_Ids)

\* every line of the trace was explained (all events carry their arguments: the search is linear)
TraceAccepted == TLCGet("stats").diameter - 1 = Len(TraceLog)
=============================================================================
