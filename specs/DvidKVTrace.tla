----------------------------- MODULE DvidKVTrace -----------------------------
(***************************************************************************)
(* Trace specification: a recorded history of repo-level and key-value     *)
(* requests with their outcomes (one ndjson event per request, abstract    *)
(* node / value numbering by order of creation) must be a behaviour of     *)
(* DvidKV: every accepted / refused flag and every read result must be the *)
(* one the specification allows in the state reached so far.               *)
(***************************************************************************)
EXTENDS DvidKVU, Json

TraceLog == ndJsonDeserialize("kv_trace.ndjson")

VARIABLE l
tvars == <<nn, par, kids, br, lk, kind, rp, uid, head, dead, last, ent, uent, l>>

TInit == KVUInit /\ l = 1
IsEvent(e) == l <= Len(TraceLog) /\ TraceLog[l].ev = e /\ l' = l + 1
T == TraceLog[l]

\* repo-level requests are DvidDAG's actions; the data is untouched
Dag(A) == A /\ UNCHANGED <<ent, uent>>
\* requests on the versioned instance leave the unversioned one alone
Ver(A) == A /\ UNCHANGED uent

\* the number the driver gives a created node is the position of its UUID among the UUIDs seen so far: a server that
\* hands out a UUID twice produces a number that is not nn + 1
NewIs == T.new = nn + 1
TNewRepo == IsEvent("newrepo") /\ NewIs /\ Dag(NewRepo_Ok("auto"))
TCommit == IsEvent("commit") /\ Dag(IF T.ok THEN Commit_Ok(T.node) ELSE Commit_Rej(T.node))
TNewVersion == IsEvent("newversion") /\ Dag(IF T.ok THEN NewIs /\ NewVersion_Ok(T.node, "auto") ELSE NewVersion_Rej(T.node, "auto"))
TBranch == IsEvent("branch") /\ Dag(IF T.ok THEN NewIs /\ Branch_Ok(T.node, T.branch, "auto") ELSE Branch_Rej(T.node, T.branch, "auto"))
TMerge == IsEvent("merge") /\ Dag(IF T.ok THEN NewIs /\ Merge_Ok(T.parents) ELSE Merge_Rej(T.parents))
TPut == IsEvent("put") /\ Ver(IF T.ok THEN Put_Ok(T.node, T.key, T.val) ELSE Write_Rej(T.node))
TDel == IsEvent("del") /\ Ver(IF T.ok THEN Del_Ok(T.node, T.key) ELSE Write_Rej(T.node))
TGet == IsEvent("get") /\ Ver(Get(T.node, T.key, T.res) \/ Dev_InnerMergeConflict(T.node, T.key, T.res))
\* the same requests with the version named as <root>:<branch> (the event carries no node: the
\* specification says which version the address names)
TB == BranchNode(T.root, T.branch)
TPutB == IsEvent("putb") /\ Ver(IF T.ok THEN Put_Ok(TB, T.key, T.val) ELSE Write_Rej(TB))
TDelB == IsEvent("delb") /\ Ver(IF T.ok THEN Del_Ok(TB, T.key) ELSE Write_Rej(TB))
TGetB == IsEvent("getb") /\ Ver(IF TB = NoNode THEN T.res = -1 /\ UNCHANGED <<dagvars, ent, last>>
                                ELSE Get(TB, T.key, T.res) \/ Dev_InnerMergeConflict(TB, T.key, T.res))
\* requests on the unversioned instance of the node's repo
TUPut == IsEvent("uput") /\ (IF T.ok THEN UPut_Ok(T.node, T.key, T.val) ELSE UWrite_Rej(T.node))
TUDel == IsEvent("udel") /\ (IF T.ok THEN UDel_Ok(T.node, T.key) ELSE UWrite_Rej(T.node))
TUGet == IsEvent("uget") /\ UGet(T.node, T.key, T.res)
\* a restart is a stuttering step (C03)
TRestart == IsEvent("restart") /\ UNCHANGED <<dagvars, ent, uent, last>>
\* several traces are validated in one run
TReset == IsEvent("reset") /\ nn' = 0 /\ par' = <<>> /\ kids' = <<>> /\ br' = <<>> /\ lk' = <<>> /\ kind' = <<>>
          /\ rp' = <<>> /\ uid' = <<>> /\ head' = <<>> /\ dead' = {} /\ last' = [op |-> "init", ok |-> TRUE]
          /\ ent' = [k \in Keys |-> <<>>] /\ uent' = [k \in Keys |-> <<>>]

TNext == TNewRepo \/ TCommit \/ TNewVersion \/ TBranch \/ TMerge \/ TPut \/ TDel \/ TGet \/ TRestart \/ TReset
         \/ TPutB \/ TDelB \/ TGetB \/ TUPut \/ TUDel \/ TUGet
TSpec == TInit /\ [][TNext]_tvars

TraceAccepted == TLCGet("stats").diameter - 1 = Len(TraceLog)
=============================================================================
