----------------------------- MODULE DvidKVTrace -----------------------------
(***************************************************************************)
(* Trace specification: a recorded history of repo-level and key-value     *)
(* requests with their outcomes (one ndjson event per request, abstract    *)
(* node / value numbering by order of creation) must be a behaviour of     *)
(* DvidKV: every accepted / refused flag and every read result must be the *)
(* one the specification allows in the state reached so far.               *)
(***************************************************************************)
EXTENDS DvidKV, Json

TraceLog == ndJsonDeserialize("kv_trace.ndjson")

VARIABLE l
tvars == <<nn, par, kids, br, lk, kind, rp, uid, head, dead, last, ent, l>>

TInit == KVInit /\ l = 1
IsEvent(e) == l <= Len(TraceLog) /\ TraceLog[l].ev = e /\ l' = l + 1
T == TraceLog[l]

\* repo-level requests are DvidDAG's actions; the data is untouched
Dag(A) == A /\ UNCHANGED ent

\* the number the driver gives a created node is the position of its UUID among the UUIDs seen so far: a server that
\* hands out a UUID twice produces a number that is not nn + 1
NewIs == T.new = nn + 1
TNewRepo == IsEvent("newrepo") /\ NewIs /\ Dag(NewRepo_Ok("auto"))
TCommit == IsEvent("commit") /\ Dag(IF T.ok THEN Commit_Ok(T.node) ELSE Commit_Rej(T.node))
TNewVersion == IsEvent("newversion") /\ Dag(IF T.ok THEN NewIs /\ NewVersion_Ok(T.node, "auto") ELSE NewVersion_Rej(T.node, "auto"))
TBranch == IsEvent("branch") /\ Dag(IF T.ok THEN NewIs /\ Branch_Ok(T.node, T.branch, "auto") ELSE Branch_Rej(T.node, T.branch, "auto"))
TMerge == IsEvent("merge") /\ Dag(IF T.ok THEN NewIs /\ Merge_Ok(T.parents) ELSE Merge_Rej(T.parents))
TPut == IsEvent("put") /\ (IF T.ok THEN Put_Ok(T.node, T.key, T.val) ELSE Write_Rej(T.node))
TDel == IsEvent("del") /\ (IF T.ok THEN Del_Ok(T.node, T.key) ELSE Write_Rej(T.node))
TGet == IsEvent("get") /\ (Get(T.node, T.key, T.res) \/ Dev_InnerMergeConflict(T.node, T.key, T.res))
\* a restart is a stuttering step (C03)
TRestart == IsEvent("restart") /\ UNCHANGED <<dagvars, ent, last>>
\* several traces are validated in one run
TReset == IsEvent("reset") /\ nn' = 0 /\ par' = <<>> /\ kids' = <<>> /\ br' = <<>> /\ lk' = <<>> /\ kind' = <<>>
          /\ rp' = <<>> /\ uid' = <<>> /\ head' = <<>> /\ dead' = {} /\ last' = [op |-> "init", ok |-> TRUE]
          /\ ent' = [k \in Keys |-> <<>>]

TNext == TNewRepo \/ TCommit \/ TNewVersion \/ TBranch \/ TMerge \/ TPut \/ TDel \/ TGet \/ TRestart \/ TReset
TSpec == TInit /\ [][TNext]_tvars

TraceAccepted == TLCGet("stats").diameter - 1 = Len(TraceLog)
=============================================================================
