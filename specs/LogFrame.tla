------------------------------ MODULE LogFrame ------------------------------
(***************************************************************************)
(* Append-only log framing (property C04, second sentence): a record is a  *)
(* fixed-size header (type, payload size) followed by the payload; an      *)
(* append is WriteHeader then WritePayload; a crash can leave the file     *)
(* torn at any byte length.  Reading yields exactly the records that were  *)
(* completely written - never a truncated, padded or invented record.      *)
(*                                                                         *)
(* Second part (append after a torn tail): after a crash the next process  *)
(* appends to the same file.  The file is modelled byte by byte (each byte *)
(* knows the record it belongs to and its offset in it) and the reader as  *)
(* the parser it is: it trusts the size field of a header it has read      *)
(* completely and takes that many following bytes, whatever they are.  A   *)
(* record the parser returns is GENUINE when its bytes are exactly the     *)
(* bytes of one appended record.  The intended design discards a torn tail *)
(* when the log is opened for appending (Reopen), so that                  *)
(*   Inv_AppendAfterTorn  after any crash, reopen and append the reader    *)
(*                        returns exactly the records that were complete   *)
(*                        at the crash followed by the new record, all     *)
(*                        genuine - no invented and no lost record.        *)
(* NaiveAppendBreaks shows (as a checked operator over every torn length)  *)
(* that appending behind the torn tail does not have this property.        *)
(***************************************************************************)
EXTENDS Integers, Sequences, TLC, Json

CONSTANT Sizes,    \* payload sizes of the records appended, in order (generated)
         HeaderLen \* 6 for storage/filelog (uint16 type + uint32 size), 10 for the protolog files of server/mutationlog.go

VARIABLES len,     \* current file length in bytes
          nrec     \* number of records whose append has been started

RECURSIVE EndOf(_)
EndOf(k) == IF k = 0 THEN 0 ELSE EndOf(k - 1) + HeaderLen + Sizes[k]
Total == EndOf(Len(Sizes))

\* what a reader must return for a file of length b: the number of complete records
Complete(b) == CHOOSE k \in 0..Len(Sizes) : EndOf(k) <= b /\ (k = Len(Sizes) \/ EndOf(k + 1) > b)

Init == len = 0 /\ nrec = 0
\* bytes reach the file one at a time (a crash can happen after any of them)
WriteByte == /\ len < Total
             /\ len' = len + 1
             /\ nrec' = IF \E k \in 0..(Len(Sizes) - 1) : EndOf(k) = len THEN nrec + 1 ELSE nrec
Next == WriteByte
Spec == Init /\ [][Next]_<<len, nrec>>

\* the reader never invents records and never loses a completely written one
Inv_ReadIsPrefix == Complete(len) <= nrec /\ (len = Total => Complete(len) = Len(Sizes))
\* a record still being written is not returned
Inv_NoPartial == \A k \in 1..Len(Sizes) : (len < EndOf(k)) => Complete(len) < k

Emit == (len = Total) => PrintT(ToJson([b \in 1..(Total + 1) |-> Complete(b - 1)]))

(***************************************************************************)
(* Append after a torn tail                                                *)
(***************************************************************************)
\* the bytes of record k (k = Len(Sizes) + 1 is the record appended after the crash, of the
\* size of the first record): <<record, offset>>, offsets 1..HeaderLen are the header
SizeOf(k) == IF k <= Len(Sizes) THEN Sizes[k] ELSE Sizes[1]
BytesOf(k) == [i \in 1..(HeaderLen + SizeOf(k)) |-> <<k, i>>]
RECURSIVE FileUpTo(_)
FileUpTo(k) == IF k = 0 THEN <<>> ELSE FileUpTo(k - 1) \o BytesOf(k)
FullFile == FileUpTo(Len(Sizes))
Torn(b) == SubSeq(FullFile, 1, b)

\* the parser: at position p (0-based) it needs a complete header, which must be the header of
\* some record k (offsets 1..HeaderLen in order - in this model headers are always written by
\* the appender, so a header position holds either a genuine header or payload bytes of another
\* record; payload bytes read as a header are an invented record of unknown size: the parser
\* stops there and reports it)
IsHeaderAt(f, p) == /\ p + HeaderLen <= Len(f)
                    /\ \A i \in 1..HeaderLen : f[p + i] = <<f[p + 1][1], i>>
RECURSIVE Parse(_, _)
Parse(f, p) ==
    IF p >= Len(f) THEN <<>>
    ELSE IF p + HeaderLen > Len(f) THEN <<>>                       \* incomplete header at the end: ignored
    ELSE IF ~IsHeaderAt(f, p) THEN <<[rec |-> 0, genuine |-> FALSE]>>  \* garbage parsed as a header
    ELSE LET k == f[p + 1][1]
             e == p + HeaderLen + SizeOf(k)
         IN IF e > Len(f) THEN <<>>                                 \* payload shorter than announced: ignored
            ELSE <<[rec |-> k, genuine |-> \A i \in 1..SizeOf(k) : f[p + HeaderLen + i] = <<k, HeaderLen + i>>]>>
                 \o Parse(f, e)
Read(f) == Parse(f, 0)

NewRec == Len(Sizes) + 1
\* intended: opening for append discards the torn tail
Reopen(f) == SubSeq(f, 1, EndOf(Complete(Len(f))))
AppendIntended(b) == Reopen(Torn(b)) \o BytesOf(NewRec)
AppendNaive(b) == Torn(b) \o BytesOf(NewRec)
ExpectedAfterAppend(b) == [i \in 1..(Complete(b) + 1) |->
                              [rec |-> IF i <= Complete(b) THEN i ELSE NewRec, genuine |-> TRUE]]

\* checked for the current length of every reachable state, i.e. for every torn length
Inv_AppendAfterTorn == Read(AppendIntended(len)) = ExpectedAfterAppend(len)
\* reading the torn file itself (before any append) yields the complete records, all genuine
Inv_ReadTornGenuine == Read(Torn(len)) = [i \in 1..Complete(len) |-> [rec |-> i, genuine |-> TRUE]]
\* (documentation of why Reopen is needed) lengths at which appending behind the torn tail
\* loses or invents a record
NaiveBroken(b) == Read(AppendNaive(b)) # ExpectedAfterAppend(b)
NaiveAppendBreaks == \A k \in 1..Len(Sizes) : \A b \in (EndOf(k - 1) + 1)..(EndOf(k) - 1) : NaiveBroken(b)
ASSUME NaiveAppendBreaks

\* expected reader output after reopen + append, for every torn length: number of old records kept
EmitAppend == (len = Total) => PrintT(ToJson([after_append |-> [b \in 1..(Total + 1) |-> Complete(b - 1) + 1]]))
=============================================================================
