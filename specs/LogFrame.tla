------------------------------ MODULE LogFrame ------------------------------
(***************************************************************************)
(* Append-only log framing (property C04, second sentence): a record is a  *)
(* 6-byte header (type, payload size) followed by the payload; an append   *)
(* is WriteHeader then WritePayload; a crash can leave the file torn at    *)
(* any byte length.  Reading yields exactly the records that were          *)
(* completely written - never a truncated, padded or invented record.      *)
(***************************************************************************)
EXTENDS Integers, Sequences, TLC, Json

CONSTANT Sizes     \* payload sizes of the records appended, in order (generated)

VARIABLES len,     \* current file length in bytes
          nrec     \* number of records whose append has been started

HeaderLen == 6
RECURSIVE EndOf(_)
EndOf(k) == IF k = 0 THEN 0 ELSE EndOf(k - 1) + HeaderLen + Sizes[k]
Total == EndOf(Len(Sizes))

\* what a reader must return for a file of length b: the number of complete records
Complete(b) == CHOOSE k \in 0..Len(Sizes) : EndOf(k) <= b /\ (k = Len(Sizes) \/ EndOf(k + 1) > b)

Init == len = 0 /\ nrec = 0
\* bytes reach the file one at a time (a crash can happen after any of them)
WriteByte == /\ len < Total
             /\ len' = len + 1
             /\ nrec' = IF \E k \in 0..(Len(Sizes) - 1) : EndOf(k) = len THEN nrec + 1 ELSE nrec
Next == WriteByte
Spec == Init /\ [][Next]_<<len, nrec>>

\* the reader never invents records and never loses a completely written one
Inv_ReadIsPrefix == Complete(len) <= nrec /\ (len = Total => Complete(len) = Len(Sizes))
\* a record still being written is not returned
Inv_NoPartial == \A k \in 1..Len(Sizes) : (len < EndOf(k)) => Complete(len) < k

Emit == (len = Total) => PrintT(ToJson([b \in 1..(Total + 1) |-> Complete(b - 1)]))
=============================================================================
