------------------------------ MODULE KeyLayout ------------------------------
(***************************************************************************)
(* Byte-level layout of DVID's data key space (property C06, first          *)
(* sentence).                                                               *)
(*                                                                         *)
(*   storage key = prefix | instance id | datum key (TKey) | version id |   *)
(*                 client id | marker                                        *)
(*                                                                         *)
(* A key is a sequence of bytes (0..255); keys are compared byte-wise,      *)
(* a proper prefix sorting first (bytes.Compare, the order of the store).   *)
(* TLC integers are 32-bit, so a 32-bit unsigned id is written as a pair    *)
(* <<hi, lo>> of 16-bit halves (numeric order = lexicographic order of the  *)
(* pairs), a 64-bit label as four 16-bit limbs, and a signed block          *)
(* coordinate as <<hi, lo>> with hi in -32768..32767 (as in GeometryKeys).  *)
(*                                                                         *)
(* This module holds the operators (the intended design).  KeyLayout_mc     *)
(* enumerates pairs of data (instance id, TKey) over a table of boundary    *)
(* ids and TKeys of every datatype key class, checks the claims on all key  *)
(* pairs and prints the expected byte strings, their order and the          *)
(* expected content of every instance / datum scan for the replay against   *)
(* storage.DataContext, datastore.VersionedCtx and a real Badger store.     *)
(***************************************************************************)
EXTENDS Integers, Sequences, FiniteSets

\* ---- integers as byte strings (big-endian) ----
B2(h)    == <<h \div 256, h % 256>>
B4(u)    == B2(u[1]) \o B2(u[2])                       \* u = <<hi, lo>>
UnB4(b)  == <<b[1] * 256 + b[2], b[3] * 256 + b[4]>>
B8(l)    == B2(l[1]) \o B2(l[2]) \o B2(l[3]) \o B2(l[4])  \* l = four 16-bit limbs
\* signed 32-bit block coordinate, offset binary (dvid.IndexZYX.Bytes)
BC(c)    == B2(c[1] + 32768) \o B2(c[2])

Zero32   == <<0, 0>>
Max32    == <<65535, 65535>>
ULess(a, b) == a[1] < b[1] \/ (a[1] = b[1] /\ a[2] < b[2])
\* uint32 successor with wrap-around (what `id++` does in Go)
Succ32(u) == IF u[2] < 65535 THEN <<u[1], u[2] + 1>>
             ELSE IF u[1] < 65535 THEN <<u[1] + 1, 0>> ELSE Zero32

IsBytes(s) == \A i \in 1..Len(s) : s[i] \in 0..255

\* ---- byte-wise order ----
RECURSIVE LexLessFrom(_, _, _)
LexLessFrom(a, b, i) == IF i > Len(a) \/ i > Len(b) THEN Len(a) < Len(b)
                        ELSE IF a[i] # b[i] THEN a[i] < b[i] ELSE LexLessFrom(a, b, i + 1)
LexLess(a, b) == LexLessFrom(a, b, 1)
LexLeq(a, b)  == a = b \/ LexLess(a, b)
IsPrefix(a, b) == Len(a) <= Len(b) /\ SubSeq(b, 1, Len(a)) = a
\* no datum key is a proper prefix of another one
PrefixFree(S) == \A a, b \in S : IsPrefix(a, b) => a = b

\* ---- key space partition and markers (storage/context.go) ----
MetaPrefix == 0
DataPrefix == 1
BlobPrefix == 2
MarkData   == 3
MarkTomb   == 79
Markers    == {MarkData, MarkTomb}

\* ---- datum keys (TKeys): class byte, "standard" byte 1, payload ----
TKeyStd == 1
NewTKey(class, payload) == <<class, TKeyStd>> \o payload
MinTKey(class) == <<class, 0>>
MaxTKey(class) == <<class, 255>>

\* constructors of the datatypes' key classes; strings are byte sequences without 0
KVTKey(s)          == NewTKey(177, s \o <<0>>)               \* keyvalue: key + terminator
NJTKey(s)          == NewTKey(179, s \o <<0>>)               \* neuronjson: body id string + terminator
AnnTagTKey(s)      == NewTKey(70, s \o <<0>>)                \* annotation: tag + terminator
AnnLabelTKey(l)    == NewTKey(71, B8(l))                     \* annotation: label
AnnBlockTKey(p)    == NewTKey(72, BC(p[3]) \o BC(p[2]) \o BC(p[1]))    \* p = <<x, y, z>>
ImgBlockTKey(p)    == NewTKey(23, BC(p[3]) \o BC(p[2]) \o BC(p[1]))
LMBlockTKey(sc, p) == NewTKey(186, <<sc>> \o BC(p[3]) \o BC(p[2]) \o BC(p[1]))
LMIndexTKey(l)     == NewTKey(187, B8(l))

\* growth (gap C06-5): the remaining key classes
U64Complement(l)   == <<65535 - l[1], 65535 - l[2], 65535 - l[3], 65535 - l[4]>>   \* MaxUint64 - l
U32Complement(u)   == <<65535 - u[1], 65535 - u[2]>>                               \* MaxUint32 - u
SzSizeLabelTKey(i, sz, l) == NewTKey(97, <<i>> \o B4(U32Complement(sz)) \o B8(l))    \* labelsz: index type, size (largest first), label
SzLabelTKey(i, l)  == NewTKey(98, <<i>> \o B8(l))                                  \* labelsz: index type, label
ROITKey(p, span)   == NewTKey(90, BC(p[3]) \o BC(p[2]) \o BC(p[1]) \o B4(span))     \* roi: run start <<x0, y, z>> and length
\* imagetile: not built by NewTKey - plane (7 bytes: dimensions, number of axes, axes), scaling,
\* the byte 3, tile coordinate; the plane of a 3d volume starts with 3, 2
PlaneBytes(a)      == <<3, 2, a[1], a[2], 0, 0, 0>>
TileTKey(a, sc, p) == PlaneBytes(a) \o <<sc, 3>> \o BC(p[3]) \o BC(p[2]) \o BC(p[1])
TarSVTKey(digits, ext) == NewTKey(133, digits \o <<46>> \o ext)                     \* tarsupervoxels: "<supervoxel>.<ext>", no terminator
LMAffinitiesTKey(l) == NewTKey(188, B8(l))
LMMutcacheTKey(l, m) == NewTKey(240, B8(l) \o B8(U64Complement(m)))                \* label, mutation id (newest first)
PayloadlessTKey(class) == NewTKey(class, <<>>)    \* labelmap 237 238 239, neuronjson 180 181 182, imageblk 24

\* ---- full keys ----
InstPrefix(i) == <<DataPrefix>> \o B4(i)
Key(i, tk, v, c, m) == InstPrefix(i) \o tk \o B4(v) \o B4(c) \o <<m>>
SuffixLen == 9   \* version + client + marker

\* decoding
InstOf(k)    == UnB4(SubSeq(k, 2, 5))
TKeyOf(k)    == SubSeq(k, 6, Len(k) - SuffixLen)
VersionOf(k) == UnB4(SubSeq(k, Len(k) - 8, Len(k) - 5))
ClientOf(k)  == UnB4(SubSeq(k, Len(k) - 4, Len(k) - 1))
MarkerOf(k)  == k[Len(k)]
Update(k, i, v, c) == Key(i, TKeyOf(k), v, c, MarkerOf(k))      \* storage.UpdateDataKey

\* the bounds of one datum's versions
MinVersionKey(i, tk) == InstPrefix(i) \o tk \o B4(Zero32) \o B4(Zero32) \o <<0>>
MaxVersionKey(i, tk) == InstPrefix(i) \o tk \o B4(Max32) \o B4(Max32) \o <<255>>

\* The smallest byte string that is greater than every string starting with p (drop the
\* trailing 255s, add one to the last byte): where a scan over prefix p may end.
RECURSIVE PrefixEnd(_)
PrefixEnd(p) == IF p[Len(p)] < 255 THEN [p EXCEPT ![Len(p)] = @ + 1]
                ELSE PrefixEnd(SubSeq(p, 1, Len(p) - 1))

\* the bounds (both inclusive, as the store's scans use them) of one instance's keys
InstanceMin(i) == InstPrefix(i)
InstanceMax(i) == PrefixEnd(InstPrefix(i))
\* what `id + 1` with 32-bit wrap-around gives (not the intended design: see WrapMaxBug)
InstanceMaxWrap(i) == InstPrefix(Succ32(i))

InRange(k, lo, hi) == LexLeq(lo, k) /\ LexLeq(k, hi)

\* component-wise order of the quintuples
TupleLess(i1, t1, v1, c1, m1, i2, t2, v2, c2, m2) ==
    \/ ULess(i1, i2)
    \/ i1 = i2 /\ LexLess(t1, t2)
    \/ i1 = i2 /\ t1 = t2 /\ ULess(v1, v2)
    \/ i1 = i2 /\ t1 = t2 /\ v1 = v2 /\ ULess(c1, c2)
    \/ i1 = i2 /\ t1 = t2 /\ v1 = v2 /\ c1 = c2 /\ m1 < m2
=============================================================================
