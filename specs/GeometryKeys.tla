--------------------------- MODULE GeometryKeys ---------------------------
(***************************************************************************)
(* Block-coordinate keys and the packed block index (property C18, first    *)
(* sentence).                                                               *)
(*                                                                         *)
(* TLC integers are 32-bit, so an int32 coordinate c is written as a pair   *)
(* <<hi, lo>> with c = hi * 65536 + lo, hi in -32768..32767, lo in 0..65535 *)
(* (numeric order = lexicographic order of the pairs).                      *)
(*                                                                         *)
(* Key(p): z, y, x each shifted by 2^31 to unsigned ("offset binary") and   *)
(* written big-endian, 12 bytes.  The claims: byte-wise lexicographic order *)
(* of keys = (z, y, x) order of points, and decoding returns the point.     *)
(*                                                                         *)
(* Packed block index: three 21-bit fields z, y, x (most significant        *)
(* first), each sign flag (bit 20) + magnitude, for |c| < 2^20.  The uint64 *)
(* is field[1] * 2^42 + field[2] * 2^21 + field[3]; TLC works on the fields.*)
(*                                                                         *)
(* Points and Small are supplied by the generated module GeometryKeysCases: *)
(* the boundary lattice plus seeded coordinates.  TLC checks the claims on  *)
(* all pairs and prints the expected key bytes, ranks and packed fields.    *)
(***************************************************************************)
EXTENDS Integers, Sequences, FiniteSets, TLC, Json

CONSTANTS Points,   \* sequence of <<x, y, z>>, each coordinate a pair <<hi, lo>>
          Small,    \* sequence of <<x, y, z>>, plain integers with |c| < 2^20
          FullPackedRange  \* BOOLEAN: check the packed field codec on every c with |c| < 2^20

VARIABLE dummy

\* ---- offset-binary big-endian keys ----
Bytes4(c) == LET h == c[1] + 32768 IN <<h \div 256, h % 256, c[2] \div 256, c[2] % 256>>
Key(p) == Bytes4(p[3]) \o Bytes4(p[2]) \o Bytes4(p[1])

UnBytes4(b) == <<b[1] * 256 + b[2] - 32768, b[3] * 256 + b[4]>>
DecodeKey(k) == <<UnBytes4(SubSeq(k, 9, 12)), UnBytes4(SubSeq(k, 5, 8)), UnBytes4(SubSeq(k, 1, 4))>>

RECURSIVE LexLessFrom(_, _, _)
LexLessFrom(a, b, i) == IF i > Len(a) \/ i > Len(b) THEN Len(a) < Len(b)
                        ELSE IF a[i] # b[i] THEN a[i] < b[i] ELSE LexLessFrom(a, b, i + 1)
LexLess(a, b) == LexLessFrom(a, b, 1)

CoordLess(c, d) == c[1] < d[1] \/ (c[1] = d[1] /\ c[2] < d[2])
ZYXLess(p, q) == \/ CoordLess(p[3], q[3])
                 \/ p[3] = q[3] /\ CoordLess(p[2], q[2])
                 \/ p[3] = q[3] /\ p[2] = q[2] /\ CoordLess(p[1], q[1])

NP == Len(Points)
Keys == [i \in 1..NP |-> Key(Points[i])]

Inv_C18_KeyOrder  == LET ks == Keys  ps == Points IN
                     \A i, j \in 1..NP : LexLess(ks[i], ks[j]) <=> ZYXLess(ps[i], ps[j])
Inv_C18_KeyDecode == LET ks == Keys  ps == Points IN
                     \A i \in 1..NP : /\ DecodeKey(ks[i]) = ps[i]
                                      /\ Len(ks[i]) = 12 /\ \A k \in 1..12 : ks[i][k] \in 0..255
\* distinct points have distinct keys (follows from decoding; stated for the record)
Inv_C18_KeyInjective == LET ks == Keys  ps == Points IN
                        \A i, j \in 1..NP : ks[i] = ks[j] => ps[i] = ps[j]

Ranks == LET ps == Points IN [i \in 1..NP |-> Cardinality({j \in 1..NP : ZYXLess(ps[j], ps[i])})]

\* ---- packed block index ----
Lim == 1048576   \* 2^20
Field(c)   == IF c < 0 THEN Lim + (-c) ELSE c
UnField(f) == IF f >= Lim THEN -(f - Lim) ELSE f
Pack(p)    == <<Field(p[3]), Field(p[2]), Field(p[1])>>
Unpack(f)  == <<UnField(f[3]), UnField(f[2]), UnField(f[1])>>

NS == Len(Small)
Inv_C18_Packed ==
    LET ss == Small  pk == [i \in 1..NS |-> Pack(ss[i])] IN
    /\ \A i \in 1..NS : Unpack(pk[i]) = ss[i] /\ \A k \in 1..3 : pk[i][k] \in 0..(2 * Lim - 1)
    /\ \A i, j \in 1..NS : pk[i] = pk[j] => ss[i] = ss[j]
    /\ FullPackedRange => \A c \in (1 - Lim)..(Lim - 1) : UnField(Field(c)) = c /\ Field(c) \in 0..(2 * Lim - 1)

\* a small coordinate as a <<hi, lo>> pair, to relate the packed index to the key
Pair(c) == <<(c - (c % 65536)) \div 65536, c % 65536>>

Emit == PrintT(ToJson([keys   |-> Keys,
                       rank   |-> Ranks,
                       packed |-> LET ss == Small IN [i \in 1..NS |-> Pack(ss[i])],
                       pkeys  |-> LET ss == Small IN [i \in 1..NS |-> Key(<<Pair(ss[i][1]), Pair(ss[i][2]), Pair(ss[i][3])>>)]]))

Init == dummy = 0
Next == UNCHANGED dummy
Spec == Init /\ [][Next]_dummy
=============================================================================
