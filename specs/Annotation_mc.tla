--------------------------- MODULE Annotation_mc ---------------------------
(* Model-checking / emission front end of Annotation (constants come from the generated
   modules LabelGeom and AnnGeom). *)
EXTENDS Annotation, LabelGeom, AnnGeom, Json

ASSUME WellFormed(InitElems)
ASSUME \A b \in FreshBlocks : WholeBlock(b) /\ \A r \in RegionsIn(b) : InitSV[r] = 0

AKey == [sv |-> sv, mp |-> mp, nxt |-> nxt, all |-> ElemSeq(elems), fresh |-> SetToSeq(fresh)]
\* one line per transition (exhaustive emission)
\* (every class from the initial state, the classes DeepClasses from the states below it)
ANextEmit == (\E c \in (IF depth = 0 THEN Classes ELSE DeepClasses) : ANextC(c))
             /\ PrintT(ToJson([s |-> AKey, l |-> last', t |-> AKey']))
ASpecEmit == AInit /\ [][ANextEmit]_allvars
\* one line per state: the expected observation; in simulation (one worker) the lines of a
\* behaviour follow each other, d = 0 starting a new behaviour
AEmitObs == PrintT(ToJson([k |-> AKey, d |-> depth, l |-> last, obs |-> AObs]))
AView == <<sv, mp, nxt, elems, tagIdx, labelIdx, cnt, fresh>>
=============================================================================
