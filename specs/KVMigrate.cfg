\* stand-alone configuration (the check generates its own: cmd/vcheck/c19_migrate.go)
SPECIFICATION Spec
CONSTANTS
  N = 4
  MaxParents = 3
  LastMergeOnly = FALSE
  LastFoundBug = FALSE
  SampleOnly = FALSE
  CountOutside = FALSE
  QSeq <- AllQ
INVARIANTS Inv_C19_MigAll Inv_C19_MigFlat Inv_C19_MigList Inv_C19_MigListNoConflict Inv_C19_MigListShape Inv_C19_MigListSingle
CHECK_DEADLOCK FALSE
