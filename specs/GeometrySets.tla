---------------------------- MODULE GeometrySets ----------------------------
(***************************************************************************)
(* Sets of block coordinates (property C18): dvid.IZYXSlice as a sorted     *)
(* sequence of block keys, labels.Index as a map from packed block indices  *)
(* to per-supervoxel voxel counts, and the operations DVID performs on      *)
(* them when it answers bounded / scaled sparse-volume requests.            *)
(*                                                                         *)
(* The lattice has cells (x, r), x in XMin..XMax, r an index into Rows (a   *)
(* sequence of <<y, z>> ascending in (z, y)): cells in index order are in   *)
(* key order (z, y, x).  A STATE is a set V of cells; TLC enumerates ALL     *)
(* subsets.  Every operation is defined on SETS (its meaning):              *)
(*   Merge / MergeCopy (A)     V \cup A, ascending, no duplicates           *)
(*   Delete / Split (A)        V \ A                                        *)
(*   FitToBounds (b)           the blocks inside the optional block box     *)
(*   Downres (s)               {floor(c / 2^s) : c in V}, ascending         *)
(*   GetBounds                 per-axis minimum and maximum                 *)
(*   Index.FitToBounds (b)     the index restricted to the box              *)
(*   Index.GetProcessedBlockIndices (s, b, sv)                              *)
(*                             blocks with a positive count (of sv, or of   *)
(*                             any supervoxel), down-sampled, then clipped  *)
(* Operands A come from a fixed mask family over the lattice (they need not *)
(* be subsets of V).  The index of a state gives every cell of V the voxel  *)
(* counts CountOf(v, sv) of two supervoxels (positive, explicit zero, or no *)
(* entry), so that cells whose counts are all zero occur.                   *)
(*                                                                         *)
(* The Inv_C18_* invariants are the set-algebra claims, checked on every    *)
(* state; Emit prints the expected result of every operation, replayed on   *)
(* the real code by cmd/vcheck/c18_sets.go.                                 *)
(***************************************************************************)
EXTENDS GeometryBounds, TLC, Json

CONSTANTS XMin, XMax,     \* x extent (block coordinates)
          Rows,           \* sequence of <<y, z>>, ascending in (z, y)
          Boxes,          \* sequence of optional block boxes <<minx, maxx, miny, maxy, minz, maxz>>
          NMasks,         \* members of the mask family used as operands
          Scales,         \* sequence of down-sampling scales (>= 1)
          ChunkSize       \* <<sx, sy, sz>> for VoxelOffset

VARIABLES V, stage
vars == <<V, stage>>

XS == XMin..XMax
NR == Len(Rows)
W  == XMax - XMin + 1
Y(r) == Rows[r][1]
Z(r) == Rows[r][2]
Cells == XS \X (1..NR)
Pt(v) == <<v[1], Y(v[2]), Z(v[2])>>
Coords(S) == {Pt(v) : v \in S}

Idx(v) == (v[2] - 1) * W + (v[1] - XMin)
RECURSIVE MaskFrom(_, _)
MaskFrom(S, i) == IF i = W * NR THEN 0
                  ELSE (IF <<XMin + (i % W), 1 + (i \div W)>> \in S THEN 2 ^ i ELSE 0) + MaskFrom(S, i + 1)
MaskOf(S) == MaskFrom(S, 0)

MaskPred(k, x, r) ==
    CASE k = 1 -> x % 2 = 0
      [] k = 2 -> x < 0
      [] k = 3 -> r = 1
      [] k = 4 -> x \in {-1, 0}
      [] k = 5 -> TRUE
      [] k = 6 -> (x + r) % 3 = 0
      [] k = 7 -> x >= 0 /\ r = NR
      [] k = 8 -> x = XMin \/ x = XMax
      [] OTHER -> FALSE
MaskSet(k) == {v \in Cells : MaskPred(k, v[1], v[2])}

\* ---- key order: (z, y, x) lexicographic = index order of the cells ----
PtLess(p, q) == \/ p[3] < q[3]
                \/ p[3] = q[3] /\ p[2] < q[2]
                \/ p[3] = q[3] /\ p[2] = q[2] /\ p[1] < q[1]

\* ---- operations on sets ----
FitSet(S, box) == {v \in S : InBox(Pt(v), box)}

Pow2(s) == 2 ^ s
DownPt(p, s) == <<FloorDiv(p[1], Pow2(s)), FloorDiv(p[2], Pow2(s)), FloorDiv(p[3], Pow2(s))>>
DownSet(P, s) == {DownPt(p, s) : p \in P}          \* on coordinate triples

MinOf(S) == CHOOSE m \in S : \A k \in S : m <= k
MaxOf(S) == CHOOSE m \in S : \A k \in S : m >= k
BoundsOf(P) == IF P = {} THEN [min |-> <<0, 0, 0>>, max |-> <<0, 0, 0>>]
               ELSE [min |-> [d \in 1..3 |-> MinOf({p[d] : p \in P})],
                     max |-> [d \in 1..3 |-> MaxOf({p[d] : p \in P})]]

\* ---- the label index of a state ----
SVA == 1
SVB == 2
\* voxel count of supervoxel sv in block v: > 0, 0 (explicit zero entry), -1 (no entry)
CountOf(v, sv) ==
    IF sv = SVA THEN (IF MaskPred(1, v[1], v[2]) THEN 5 ELSE IF MaskPred(4, v[1], v[2]) THEN 0 ELSE -1)
    ELSE IF sv = SVB THEN (IF MaskPred(6, v[1], v[2]) THEN 3 ELSE IF MaskPred(8, v[1], v[2]) THEN 0 ELSE -1)
    ELSE -1
HasSV(v, sv) == IF sv = 0 THEN \E s \in {SVA, SVB} : CountOf(v, s) > 0 ELSE CountOf(v, sv) > 0
\* sv = 0: every supervoxel; 3: a supervoxel the index does not hold
Processed(S, s, box, sv) ==
    LET live == Coords({v \in S : HasSV(v, sv)})
        down == IF s = 0 THEN live ELSE DownSet(live, s)
    IN  IF IsSet(box) THEN {p \in down : InBox(p, box)} ELSE down

\* ---- claims ----
Inv_C18_SetAlgebra ==
    \A k \in 1..NMasks :
      LET A == MaskSet(k) IN
        /\ (V \cup A) \ A = V \ A
        /\ (V \ A) \cup (V \cap A) = V
        /\ Cardinality(V \cup A) = Cardinality(V) + Cardinality(A) - Cardinality(V \cap A)

Inv_C18_FitBlocks ==
    \A i \in 1..Len(Boxes) :
      /\ FitSet(V, Boxes[i]) \subseteq V
      /\ \A v \in V \ FitSet(V, Boxes[i]) : Outside(Pt(v), Boxes[i])
      /\ \A v \in FitSet(V, Boxes[i]) : ~BeyondZ(Pt(v), Boxes[i])

\* down-sampling commutes with the key order weakly and never separates a block from its parent
Inv_C18_Downres ==
    \A j \in 1..Len(Scales) :
      LET s == Scales[j] IN
        /\ \A v \in V : DownPt(Pt(v), s) \in DownSet(Coords(V), s)
        /\ \A v \in V : \A d \in 1..3 : /\ DownPt(Pt(v), s)[d] * Pow2(s) <= Pt(v)[d]
                                         /\ Pt(v)[d] < (DownPt(Pt(v), s)[d] + 1) * Pow2(s)
        /\ s > 1 => DownSet(DownSet(Coords(V), 1), s - 1) = DownSet(Coords(V), s)
        /\ Cardinality(DownSet(Coords(V), s)) <= Cardinality(V)

Inv_C18_Bounds ==
    V # {} => LET b == BoundsOf(Coords(V)) IN
                /\ \A v \in V : \A d \in 1..3 : b.min[d] <= Pt(v)[d] /\ Pt(v)[d] <= b.max[d]
                /\ \A d \in 1..3 : (\E v \in V : Pt(v)[d] = b.min[d]) /\ (\E v \in V : Pt(v)[d] = b.max[d])

Inv_C18_Processed ==
    \A i \in 1..Len(Boxes) : \A sv \in 0..3 :
      /\ Processed(V, 0, Boxes[i], sv) \subseteq Coords(V)
      /\ Processed(V, 0, Boxes[i], sv) \subseteq Processed(V, 0, Boxes[i], 0)
      /\ sv = 3 => Processed(V, 0, Boxes[i], sv) = {}

\* ---- behaviours: one state per subset (stage 0 -> 1 spreads the evaluation over TLC's workers) ----
Init == V \in SUBSET Cells /\ stage = 0
Next == stage = 0 /\ stage' = 1 /\ UNCHANGED V
Spec == Init /\ [][Next]_vars

Claims == stage = 1 => (Inv_C18_SetAlgebra /\ Inv_C18_FitBlocks /\ Inv_C18_Downres /\ Inv_C18_Bounds /\ Inv_C18_Processed)

Emit == stage = 1 =>
    PrintT(ToJson(
      [vm      |-> MaskOf(V),
       union   |-> [k \in 1..NMasks |-> MaskOf(V \cup MaskSet(k))],
       diff    |-> [k \in 1..NMasks |-> MaskOf(V \ MaskSet(k))],
       fit     |-> [i \in 1..Len(Boxes) |-> MaskOf(FitSet(V, Boxes[i]))],
       down    |-> [j \in 1..Len(Scales) |-> DownSet(Coords(V), Scales[j])],
       bounds  |-> BoundsOf(Coords(V)),
       proc    |-> [i \in 1..Len(Boxes) |-> [j \in 1..(Len(Scales) + 1) |-> [sv \in 1..4 |->
                      Processed(V, IF j = 1 THEN 0 ELSE Scales[j - 1], Boxes[i], sv - 1)]]]]))

\* little-endian two's-complement bytes of an int32 (IndexZYX.MarshalBinary stores x, y, z)
Mod(a, b) == a - b * FloorDiv(a, b)
LE4(c) == <<Mod(c, 256), Mod(FloorDiv(c, 256), 256), Mod(FloorDiv(c, 65536), 256), Mod(FloorDiv(c, 16777216), 256)>>
LE12(p) == LE4(p[1]) \o LE4(p[2]) \o LE4(p[3])
CellAt(i) == <<XMin + ((i - 1) % W), 1 + ((i - 1) \div W)>>

\* printed once: the operands, the per-cell counts of the index, the voxel offsets, the
\* per-block down-sampling (IZYXString.Halfres / Downres) and the binary form of IndexZYX
EmitStatic ==
    (stage = 0 /\ V = {}) =>
      PrintT(ToJson([operands |-> [k \in 1..NMasks |-> MaskOf(MaskSet(k))],
                     counts   |-> [i \in 1..(W * NR) |->
                                     LET v == <<XMin + ((i - 1) % W), 1 + ((i - 1) \div W)>>
                                     IN  <<CountOf(v, SVA), CountOf(v, SVB)>>],
                     offsets  |-> [i \in 1..(W * NR) |->
                                     LET v == <<XMin + ((i - 1) % W), 1 + ((i - 1) \div W)>>
                                     IN  <<Pt(v)[1] * ChunkSize[1], Pt(v)[2] * ChunkSize[2], Pt(v)[3] * ChunkSize[3]>>],
                     downpt   |-> [i \in 1..(W * NR) |-> [j \in 1..Len(Scales) |-> DownPt(Pt(CellAt(i)), Scales[j])]],
                     le       |-> [i \in 1..(W * NR) |-> LE12(Pt(CellAt(i)))]]))
=============================================================================
