---------------------------- MODULE Concurrency ----------------------------
(***************************************************************************)
(* Critical sections of DVID's mutation requests (properties C11, C12).    *)
(*                                                                         *)
(* One process template per request kind, written as a PROGRAM: a sequence *)
(* of instructions at the grain of the code                                *)
(*     gate(site)   a dvid.VerifPoint call site ("start" = request entry)  *)
(*     acq(L)/rel(L) lock / unlock of the mutexes named in L               *)
(*     do(a)        one shared read, one shared write (a batch commit is   *)
(*                  one write), or a validation that may refuse            *)
(* Every template has two programs: the INTENDED locking (every            *)
(* read-modify-write covered by the lock the design names) and the locking *)
(* the CODE has today.  The atomic semantics of a request (Apply) is the   *)
(* sequential meaning of the endpoint; Inv_C11_Serializable says that when *)
(* all requests were acknowledged the final state is the result of Apply   *)
(* in some order.                                                          *)
(*                                                                         *)
(* Scheduling: every request starts parked at its "start" gate.  Pass(p)   *)
(* lets p run past the gate it is parked at; with GateGrain = TRUE a gate  *)
(* is opened only when no other request can move (all others parked, done  *)
(* or blocked on a lock) — exactly what the gate scheduler of the harness  *)
(* can force on the real server; `sched` (the order of Pass steps) is the  *)
(* schedule handed to it.  With GateGrain = FALSE every interleaving of    *)
(* the instructions is explored.                                           *)
(*                                                                         *)
(* Templates (tpl): kv, ann, lm, ver, nj, nl, mut, cli, mcli, vox, annsync, wc, verx *)
(* (wc: three requests, explored with NProc = 3 and Only).  Work a request  *)
(* leaves to other goroutines (block writers, the index goroutine of a      *)
(* voxel write, the sync handler of a subscriber) is part of its program:   *)
(* the harness schedules those goroutines as the request's own.  An         *)
(* instruction "dolk" is one step that needs locks computed from the state. *)
(* Observations (Obs) only use records, sets, integers and strings so that *)
(* their JSON form can be compared order-insensitively.                    *)
(***************************************************************************)
EXTENDS Integers, Sequences, FiniteSets, TLC, Json

CONSTANTS Tpls,       \* set of template names explored
          NProc,      \* number of concurrent requests (explore mode)
          Locking,    \* "intended" | "code"
          GateGrain,  \* BOOLEAN
          Emit,       \* BOOLEAN: print cases and terminal states as JSON
          Only,       \* set of <<tpl, catalog index tuple>> to explore ({} = all)
          Bursts      \* sequence of burst cases [tpl, n, rq, orders] (burst mode; <<>> = explore mode)

VARIABLES tpl, rq, pre, st, pc, loc, lk, mode, res, sched
vars == <<tpl, rq, pre, st, pc, loc, lk, mode, res, sched>>

Gate(s) == [i |-> "gate", site |-> s]
Acq(L)  == [i |-> "acq", l |-> L]
Rel(L)  == [i |-> "rel", l |-> L]
Do(a)   == [i |-> "do", a |-> a]
Dolk(a) == [i |-> "dolk", a |-> a]   \* one step that takes and releases the locks DynLocks names
Upd(L, new) == new @@ L
Out(S, L, ok) == [st |-> S, loc |-> L, ok |-> ok]
Max(a, b) == IF a > b THEN a ELSE b
\* The "code" programs follow the code as it is after these repairs (known_findings.json, status fixed);
\* with a switch FALSE the program is the one the code had before (used to reproduce the finding).
McMergeRereads == TRUE       \* merge-index-delta-lost
AsHandlersLocked == TRUE     \* annotation-sync-handlers-race-element-edits
WcAdmissionLocked == TRUE    \* commit-overtakes-admitted-mutation
AnnBlocksLocked == TRUE      \* annotation-post-blocks-unlocked
RECURSIVE SumSeq(_)
SumSeq(s) == IF s = <<>> THEN 0 ELSE Head(s) + SumSeq(Tail(s))

-----------------------------------------------------------------------------
(* kv: POST / DELETE key/<k> of a keyvalue instance: one store transaction. *)
KvCatalog == << [k |-> "put", who |-> 0], [k |-> "del", who |-> 0] >>
KvPre == << [k |-> 0], [k |-> 9] >>
KvApply(r, S) == Out([k |-> IF r.k = "put" THEN 10 + r.who ELSE 0], <<>>, TRUE)
KvExec(a, r, S, L) == Out(KvApply(r, S).st, L, TRUE)
KvProg(r) == << Gate("start"), Do("w") >>
KvObs(S) == [k |-> S.k]

-----------------------------------------------------------------------------
(* ann: annotation elements.  Element = [pos, tags, val]; block lists blk   *)
(* (primary) and tag lists tg (derived) are rewritten whole by every edit.  *)
BlockOf(pos) == (pos \div 100) + 1
AnnBlocks == {1, 2}
AnnTags == {1, 2}
E1 == [pos |-> 1, tags |-> {1}, val |-> 0]
E2 == [pos |-> 2, tags |-> {1, 2}, val |-> 0]
E3 == [pos |-> 104, tags |-> {2}, val |-> 0]
AnnPre == << [blk |-> [b \in AnnBlocks |-> IF b = 1 THEN {E1, E2} ELSE {E3}],
             tg  |-> [t \in AnnTags |-> {e \in {E1, E2, E3} : t \in e.tags}]] >>
AnnCatalog == <<
   [k |-> "post", elems |-> {[pos |-> 3, tags |-> {1}]}, who |-> 0],
   [k |-> "post", elems |-> {[pos |-> 6, tags |-> {1, 2}], [pos |-> 108, tags |-> {2}]}, who |-> 0],
   [k |-> "post", elems |-> {[pos |-> 1, tags |-> {1}]}, who |-> 0],
   [k |-> "del",  pos |-> 1, who |-> 0],
   [k |-> "del",  pos |-> 2, who |-> 0],
   [k |-> "move", from |-> 1, to |-> 7, who |-> 0],
   [k |-> "move", from |-> 2, to |-> 105, who |-> 0],
   [k |-> "del",  pos |-> 104, who |-> 0],
   \* POST blocks: the element list of block b is replaced wholesale (the tag lists are not touched: they
   \* are rebuilt by a later reload)
   [k |-> "blocks", b |-> 1, elems |-> {[pos |-> 9, tags |-> {}]}, who |-> 0] >>

ElemAt(S, pos) == {e \in S : e.pos = pos}
AddElems(S, E) == {e \in S : ~\E n \in E : n.pos = e.pos} \cup E
PostElems(r) == {[pos |-> x.pos, tags |-> x.tags, val |-> r.who] : x \in r.elems}
AddT(E, t) == {e \in E : t \in e.tags}
EraseT(E, cur, t) == {x.pos : x \in {y \in E : \E c \in cur[BlockOf(y.pos)] : c.pos = y.pos /\ t \in c.tags /\ t \notin y.tags}}
DeltaTags(E, cur) == {t \in AnnTags : AddT(E, t) # {} \/ EraseT(E, cur, t) # {}}
\* the three reads of StoreElements: cur1 (tag delta), cur2 (block lists), curT (tag lists)
PostWrite(S, E, cur1, cur2, curT) ==
    [blk |-> [b \in AnnBlocks |-> IF \E e \in E : BlockOf(e.pos) = b
                                   THEN AddElems(cur2[b], {e \in E : BlockOf(e.pos) = b}) ELSE S.blk[b]],
     tg  |-> [t \in AnnTags |-> IF t \in DeltaTags(E, cur1)
                                 THEN {x \in AddElems(curT[t], AddT(E, t)) : x.pos \notin EraseT(E, cur1, t)}
                                 ELSE S.tg[t]]]
DelBlk(S, b, cur, e) == [S EXCEPT !.blk[b] = cur \ {e}]
DelTags(S, e, curT) ==
    [S EXCEPT !.tg = [t \in AnnTags |-> IF t \in e.tags /\ ElemAt(curT[t], e.pos) # {}
                                         THEN {x \in curT[t] : x.pos # e.pos} ELSE S.tg[t]]]
MoveBlk(S, e, to, curF, curTo) ==
    LET bf == BlockOf(e.pos)  bt == BlockOf(to)  e2 == [e EXCEPT !.pos = to] IN
    IF bf = bt THEN [S EXCEPT !.blk[bf] = (curF \ {e}) \cup {e2}]
    ELSE [S EXCEPT !.blk[bf] = curF \ {e}, !.blk[bt] = AddElems(curTo, {e2})]
MoveTags(S, e, to, curT) ==
    [S EXCEPT !.tg = [t \in AnnTags |-> IF t \in e.tags /\ ElemAt(curT[t], e.pos) # {}
                                         THEN {IF x.pos = e.pos THEN [x EXCEPT !.pos = to] ELSE x : x \in curT[t]}
                                         ELSE S.tg[t]]]
AnnApply(r, S) ==
    CASE r.k = "post" -> Out(PostWrite(S, PostElems(r), S.blk, S.blk, S.tg), <<>>, TRUE)
      [] r.k = "blocks" -> Out([S EXCEPT !.blk[r.b] = PostElems(r)], <<>>, TRUE)
      [] r.k = "del"  -> LET b == BlockOf(r.pos) IN
                         IF ElemAt(S.blk[b], r.pos) = {} THEN Out(S, <<>>, FALSE)
                         ELSE LET e == CHOOSE x \in ElemAt(S.blk[b], r.pos) : TRUE
                                  S1 == DelBlk(S, b, S.blk[b], e) IN Out(DelTags(S1, e, S1.tg), <<>>, TRUE)
      [] r.k = "move" -> LET b == BlockOf(r.from) IN
                         IF ElemAt(S.blk[b], r.from) = {} THEN Out(S, <<>>, FALSE)
                         ELSE LET e == CHOOSE x \in ElemAt(S.blk[b], r.from) : TRUE
                                  S1 == MoveBlk(S, e, r.to, S.blk[b], S.blk[BlockOf(r.to)]) IN
                              Out(MoveTags(S1, e, r.to, S1.tg), <<>>, TRUE)
AnnExec(a, r, S, L) ==
    CASE a = "p_rd1" -> Out(S, Upd(L, [cur1 |-> S.blk]), TRUE)
      [] a = "p_rd2" -> Out(S, Upd(L, [cur2 |-> S.blk]), TRUE)
      [] a = "p_rdT" -> Out(S, Upd(L, [curT |-> S.tg]), TRUE)
      [] a = "p_wr"  -> Out(PostWrite(S, PostElems(r), L.cur1, L.cur2, L.curT), L, TRUE)
      [] a = "b_wr"  -> Out([S EXCEPT !.blk[r.b] = PostElems(r)], L, TRUE)
      [] a = "d_rd"  -> LET cur == S.blk[BlockOf(r.pos)] IN
                        IF ElemAt(cur, r.pos) = {} THEN Out(S, L, FALSE)
                        ELSE Out(S, Upd(L, [cur |-> cur, e |-> CHOOSE x \in ElemAt(cur, r.pos) : TRUE]), TRUE)
      [] a = "d_wrB" -> Out(DelBlk(S, BlockOf(r.pos), L.cur, L.e), L, TRUE)
      [] a = "d_rdT" -> Out(S, Upd(L, [curT |-> S.tg]), TRUE)
      [] a = "d_wrT" -> Out(DelTags(S, L.e, L.curT), L, TRUE)
      [] a = "m_rd"  -> LET cur == S.blk[BlockOf(r.from)] IN
                        IF ElemAt(cur, r.from) = {} THEN Out(S, L, FALSE)
                        ELSE Out(S, Upd(L, [curF |-> cur, curTo |-> S.blk[BlockOf(r.to)],
                                            e |-> CHOOSE x \in ElemAt(cur, r.from) : TRUE]), TRUE)
      [] a = "m_wrB" -> Out(MoveBlk(S, L.e, r.to, L.curF, L.curTo), L, TRUE)
      [] a = "m_rdT" -> Out(S, Upd(L, [curT |-> S.tg]), TRUE)
      [] a = "m_wrT" -> Out(MoveTags(S, L.e, r.to, L.curT), L, TRUE)
AnnBody(r) ==
    CASE r.k = "post" -> << Do("p_rd1"), Do("p_rd2"), Do("p_rdT"), Gate("annotation.StoreElements"), Do("p_wr") >>
      [] r.k = "del"  -> << Do("d_rd"), Gate("annotation.DeleteElement"), Do("d_wrB"), Do("d_rdT"),
                            Gate("annotation.DeleteElement.commit"), Do("d_wrT") >>
      [] r.k = "move" -> << Do("m_rd"), Gate("annotation.MoveElement"), Do("m_wrB"), Do("m_rdT"),
                            Gate("annotation.MoveElement.tags"), Do("m_wrT") >>
      [] r.k = "blocks" -> << Do("b_wr") >>
\* intended = code since the fix "annotation serializes element edits" (Data.editMu); before it the
\* instance lock was commented out around the three edits: << Gate("start") >> \o AnnBody(r)
\* POST blocks took no lock before the fix "annotation POST blocks takes the edit lock" (AnnBlocksLocked)
AnnProg(r) == IF r.k = "blocks" /\ Locking = "code" /\ ~AnnBlocksLocked THEN << Gate("start"), Do("b_wr") >>
              ELSE << Gate("start"), Acq({"ann.editMu"}) >> \o AnnBody(r) \o << Rel({"ann.editMu"}) >>
AnnObs(S) == [blk |-> {[b |-> b, e |-> S.blk[b]] : b \in AnnBlocks},
              tg  |-> {[t |-> t, e |-> S.tg[t]] : t \in AnnTags}]

-----------------------------------------------------------------------------
(* lm: labelmap body indices idx (label -> supervoxels), mapping mp         *)
(* (supervoxel -> label), label counter nxt.                                *)
LmNSV(S) == Cardinality(DOMAIN S.mp)
LmPreOf(nsv, nlab) ==
    [idx |-> [l \in 1..nlab |-> IF l = 1 THEN {1, 2, 3} ELSE IF l \in 4..nsv THEN {l} ELSE {}],
     mp  |-> [s \in 1..nsv |-> IF s \in {2, 3} THEN 1 ELSE s],
     nxt |-> nsv]
LmCatalog == <<
   [k |-> "merge", t |-> 1, m |-> {4}, who |-> 0],
   [k |-> "merge", t |-> 1, m |-> {5}, who |-> 0],
   [k |-> "merge", t |-> 4, m |-> {5}, who |-> 0],
   [k |-> "cleave", b |-> 1, s |-> {2}, who |-> 0],
   [k |-> "cleave", b |-> 1, s |-> {3}, who |-> 0],
   [k |-> "cleave", b |-> 1, s |-> {2, 3}, who |-> 0],
   [k |-> "merge", t |-> 5, m |-> {4}, who |-> 0] >>
IdxLock(l) == "idx" \o ToString(l)
MergedSVs(im, M) == UNION {im[m] : m \in M}
MergeMap(S, r, im) == [S EXCEPT !.mp = [s \in DOMAIN S.mp |-> IF s \in MergedSVs(im, r.m) THEN r.t ELSE S.mp[s]]]
MergeTarget(S, r, it, im) == [S EXCEPT !.idx[r.t] = it \cup MergedSVs(im, r.m)]
MergeDel(S, r) == [S EXCEPT !.idx = [l \in DOMAIN S.idx |-> IF l \in r.m THEN {} ELSE S.idx[l]]]
CleaveOK(ib, r) == ib # {} /\ r.s \subseteq ib /\ ib \ r.s # {}
CleaveIdx(S, r, ib, new) == [S EXCEPT !.idx[new] = r.s, !.idx[r.b] = ib \ r.s]
CleaveMap(S, r, new) == [S EXCEPT !.mp = [s \in DOMAIN S.mp |-> IF s \in r.s THEN new ELSE S.mp[s]]]
LmApply(r, S) ==
    CASE r.k = "merge" ->
           IF (\E m \in r.m : S.idx[m] = {}) \/ S.idx[r.t] = {} THEN Out(S, <<>>, FALSE)
           ELSE LET im == [m \in r.m |-> S.idx[m]] IN
                Out(MergeDel(MergeTarget(MergeMap(S, r, im), r, S.idx[r.t], im), r), <<>>, TRUE)
      [] r.k = "cleave" ->
           \* the label is allocated before the request is validated
           LET new == S.nxt + 1  S1 == [S EXCEPT !.nxt = new] IN
           IF ~CleaveOK(S.idx[r.b], r) THEN Out(S1, [new |-> new], FALSE)
           ELSE Out(CleaveMap(CleaveIdx(S1, r, S.idx[r.b], new), r, new), [new |-> new], TRUE)
LmExec(a, r, S, L) ==
    CASE a = "g_rdM" -> IF \E m \in r.m : S.idx[m] = {} THEN Out(S, L, FALSE)
                        ELSE Out(S, Upd(L, [im |-> [m \in r.m |-> S.idx[m]]]), TRUE)
      [] a = "g_rdT" -> IF S.idx[r.t] = {} THEN Out(S, L, FALSE) ELSE Out(S, Upd(L, [it |-> S.idx[r.t]]), TRUE)
      [] a = "g_wrMap" -> Out(MergeMap(S, r, L.im), L, TRUE)
      [] a = "g_wrT" -> Out(MergeTarget(S, r, L.it, L.im), L, TRUE)
      [] a = "g_delM" -> Out(MergeDel(S, r), L, TRUE)
      [] a = "c_inc" -> Out([S EXCEPT !.nxt = S.nxt + 1], Upd(L, [new |-> S.nxt + 1]), TRUE)
      [] a = "c_rd"  -> IF ~CleaveOK(S.idx[r.b], r) THEN Out(S, L, FALSE) ELSE Out(S, Upd(L, [ib |-> S.idx[r.b]]), TRUE)
      [] a = "c_wr"  -> Out(CleaveIdx(S, r, L.ib, L.new), L, TRUE)
      [] a = "c_wrMap" -> Out(CleaveMap(S, r, L.new), L, TRUE)
LmProg(r) ==
    CASE r.k = "merge" ->
           \* intended: the index locks of every label read or written cover the read-modify-write.
           \* code: target and merged indices are read under short shard read locks and written back
           \* under the shard lock again (single steps here); since the fix "labelmap serializes body
           \* mutations" the instance-wide Data.bodyMutMu covers the whole sequence (before it:
           \* no covering lock — merge||merge and merge||cleave lost index updates).
           IF Locking = "intended"
           THEN << Gate("start"), Acq({IdxLock(l) : l \in r.m \cup {r.t}}), Do("g_rdM"), Do("g_rdT"),
                   Gate("labelmap.MergeLabels"), Do("g_wrMap"), Do("g_wrT"), Do("g_delM"),
                   Rel({IdxLock(l) : l \in r.m \cup {r.t}}) >>
           ELSE << Gate("start"), Acq({"lm.bodyMutMu"}), Do("g_rdM"), Do("g_rdT"), Gate("labelmap.MergeLabels"),
                   Do("g_wrMap"), Do("g_wrT"), Do("g_delM"), Rel({"lm.bodyMutMu"}) >>
      [] r.k = "cleave" ->
           IF Locking = "intended"
           THEN << Gate("start"), Acq({"mlMu"}), Do("c_inc"), Gate("labelmap.newLabel"), Rel({"mlMu"}),
                   Acq({IdxLock(r.b)}), Do("c_rd"), Gate("labelmap.cleaveIndex"), Do("c_wr"), Do("c_wrMap"), Rel({IdxLock(r.b)}) >>
           ELSE << Gate("start"), Acq({"mlMu"}), Do("c_inc"), Gate("labelmap.newLabel"), Rel({"mlMu"}),
                   Acq({"lm.bodyMutMu"}), Acq({IdxLock(r.b)}), Do("c_rd"), Gate("labelmap.cleaveIndex"), Do("c_wr"),
                   Rel({IdxLock(r.b)}), Do("c_wrMap"), Rel({"lm.bodyMutMu"}) >>
LmObs(S) == [idx |-> {[l |-> l, s |-> S.idx[l]] : l \in {x \in DOMAIN S.idx : S.idx[x] # {}}},
             mp  |-> {[s |-> s, l |-> S.mp[s]] : s \in DOMAIN S.mp},
             nxt |-> S.nxt]

-----------------------------------------------------------------------------
(* ver: children of one committed parent, per branch name ("" = the         *)
(* parent's own branch).  At most one child per branch.                     *)
VerBranches == {""} \cup {"b" \o ToString(i) : i \in 1..8}
VerPre == << [kids |-> [b \in VerBranches |-> 0]] >>
VerCatalog == << [k |-> "newversion", b |-> "", who |-> 0], [k |-> "branch", b |-> "b1", who |-> 0],
                 [k |-> "branch", b |-> "b2", who |-> 0] >>
\* k = "log" (bursts only): POST repo log — another writer of the repo metadata, no effect on the children
VerApply(r, S) == IF r.k = "log" THEN Out(S, <<>>, TRUE)
                  ELSE IF S.kids[r.b] > 0 THEN Out(S, <<>>, FALSE) ELSE Out([S EXCEPT !.kids[r.b] = @ + 1], <<>>, TRUE)
VerExec(a, r, S, L) ==
    CASE a = "v_chk" -> Out(S, L, S.kids[r.b] = 0)
      [] a = "v_add" -> Out([S EXCEPT !.kids[r.b] = @ + 1], L, TRUE)
\* intended = code since the fix "serialize version creation" (repoManager.newVersionMutex); before it
\* the parent node was only read-locked (shared) between the sibling check and the append:
\* << Gate("start"), Do("v_chk"), Gate("datastore.newVersion"), Do("v_add") >>
VerProg(r) == << Gate("start"), Acq({"newVersionMutex"}), Do("v_chk"), Gate("datastore.newVersion"), Do("v_add"), Rel({"newVersionMutex"}) >>
VerObs(S) == [kids |-> {[b |-> b, n |-> S.kids[b]] : b \in {x \in VerBranches : S.kids[x] > 0}}]

-----------------------------------------------------------------------------
(* verx: repo-level requests on one version P of a repo that also holds a    *)
(* committed sibling Q: new version / branch off P, version merge of P and  *)
(* Q, commit of P, new data instance at P.  State: children of P per branch *)
(* (kids), P committed (lkd), merge children of P (mk), commits of P that   *)
(* were acknowledged (nc: each leaves a line in the node log), instances    *)
(* that exist (has) and creations acknowledged per name (nd: each leaves a  *)
(* line in the repo log).  nc and nd make an acknowledged request that a    *)
(* sequential run would have refused visible in the state.                  *)
VxNames == {"i1", "i2"}
VxBranches == {"", "b1"}
VxPreOf(l) == [kids |-> [b \in VxBranches |-> 0], lkd |-> l, mk |-> 0, nc |-> 0, nd |-> [x \in VxNames |-> 0], has |-> {}]
VxPre == << VxPreOf(TRUE), VxPreOf(FALSE) >>
VxCatalog == << [k |-> "newversion", b |-> "", who |-> 0], [k |-> "branch", b |-> "b1", who |-> 0],
                [k |-> "merge", who |-> 0], [k |-> "commit", who |-> 0],
                [k |-> "newdata", name |-> "i1", who |-> 0], [k |-> "newdata", name |-> "i2", who |-> 0] >>
\* The programs follow the code as it is after these repairs (known_findings.json, status fixed); with a
\* switch FALSE the program is the one the code had before.
VxCommitRechecks == TRUE      \* concurrent-commits-both-acknowledged
VxNewDataRechecks == TRUE     \* concurrent-newdata-same-name-both-acknowledged
VxApply(r, S) ==
    CASE r.k \in {"newversion", "branch"} ->
              IF ~S.lkd \/ S.kids[r.b] > 0 THEN Out(S, <<>>, FALSE) ELSE Out([S EXCEPT !.kids[r.b] = @ + 1], <<>>, TRUE)
      [] r.k = "merge"   -> IF ~S.lkd THEN Out(S, <<>>, FALSE) ELSE Out([S EXCEPT !.mk = @ + 1], <<>>, TRUE)
      [] r.k = "commit"  -> IF S.lkd THEN Out(S, <<>>, FALSE) ELSE Out([S EXCEPT !.lkd = TRUE, !.nc = @ + 1], <<>>, TRUE)
      [] r.k = "newdata" -> IF S.lkd \/ r.name \in S.has THEN Out(S, <<>>, FALSE)
                            ELSE Out([S EXCEPT !.has = @ \cup {r.name}, !.nd[r.name] = @ + 1], <<>>, TRUE)
VxExec(a, r, S, L) ==
    CASE a = "v_chk" -> Out(S, L, S.lkd /\ S.kids[r.b] = 0)
      [] a = "v_add" -> Out([S EXCEPT !.kids[r.b] = @ + 1], L, TRUE)
      [] a = "m_chk" -> Out(S, L, S.lkd)
      [] a = "m_add" -> Out([S EXCEPT !.mk = @ + 1], L, TRUE)
      [] a = "c_chk" -> Out(S, L, ~S.lkd)
      [] a = "c_set" -> IF VxCommitRechecks /\ S.lkd THEN Out(S, L, FALSE)
                        ELSE Out([S EXCEPT !.lkd = TRUE, !.nc = @ + 1], L, TRUE)
      [] a = "d_gate" -> Out(S, L, ~S.lkd)
      [] a = "d_chk" -> Out(S, L, r.name \notin S.has)
      [] a = "d_add" -> IF VxNewDataRechecks /\ r.name \in S.has THEN Out(S, L, FALSE)
                        ELSE Out([S EXCEPT !.has = @ \cup {r.name}, !.nd[r.name] = @ + 1], L, TRUE)
VxProg(r) ==
    CASE r.k \in {"newversion", "branch"} ->
              << Gate("start"), Acq({"newVersionMutex"}), Do("v_chk"), Gate("datastore.newVersion"), Do("v_add"), Rel({"newVersionMutex"}) >>
      [] r.k = "merge"   -> << Gate("start"), Do("m_chk"), Acq({"newVersionMutex"}), Gate("datastore.merge"), Do("m_add"), Rel({"newVersionMutex"}) >>
      [] r.k = "commit"  -> << Gate("start"), Do("c_chk"), Gate("datastore.commit"), Do("c_set") >>
      [] r.k = "newdata" -> << Gate("start"), Do("d_gate"), Do("d_chk"), Gate("datastore.newData"), Do("d_add") >>
VxObs(S) == [kids |-> {[b |-> b, n |-> S.kids[b]] : b \in {x \in VxBranches : S.kids[x] > 0}},
             lkd |-> S.lkd, mk |-> S.mk, nc |-> S.nc, has |-> S.has,
             nd |-> {[x |-> x, n |-> S.nd[x]] : x \in {y \in VxNames : S.nd[y] > 0}}]

-----------------------------------------------------------------------------
(* nj: one neuronjson annotation: fields -> [v, u] (v = 0: field absent),   *)
(* kept in the store and in the in-memory head database.                    *)
NjFields == {"a", "b", "c", "d", "e", "f", "g", "h"}
NjNone == [ex |-> FALSE, f |-> [x \in NjFields |-> [v |-> 0, u |-> 0]]]
NjSeed == [ex |-> TRUE, f |-> [x \in NjFields |-> IF x = "a" THEN [v |-> 9, u |-> 0] ELSE [v |-> 0, u |-> 0]]]
NjPre == << [store |-> NjNone, mem |-> NjNone], [store |-> NjSeed, mem |-> NjSeed] >>
\* f[x] = 9: the seeded value again (unchanged value keeps its user); otherwise base value + who
NjCatalog == << [k |-> "upd", f |-> [a |-> 10], who |-> 0], [k |-> "upd", f |-> [b |-> 20], who |-> 0],
                [k |-> "upd", f |-> [a |-> 9], who |-> 0], [k |-> "upd", f |-> [a |-> 10, b |-> 20], who |-> 0],
                [k |-> "del", f |-> <<>>, who |-> 0] >>   \* DELETE key/<id> (Data.DeleteData)
NjVal(r, x) == IF r.f[x] = 9 THEN 9 ELSE r.f[x] + r.who
NjMerge(orig, r) ==
    [ex |-> TRUE, f |-> [x \in NjFields |-> IF x \in DOMAIN r.f /\ orig.f[x].v # NjVal(r, x)
                                             THEN [v |-> NjVal(r, x), u |-> r.who] ELSE orig.f[x]]]
NjApply(r, S) == IF r.k = "del" THEN Out([store |-> NjNone, mem |-> NjNone], <<>>, TRUE)
                 ELSE Out([store |-> NjMerge(S.store, r), mem |-> NjMerge(S.store, r)], <<>>, TRUE)
NjExec(a, r, S, L) ==
    CASE a = "n_rd" -> Out(S, Upd(L, [orig |-> S.store]), TRUE)
      [] a = "n_wrMem" -> Out([S EXCEPT !.mem = NjMerge(L.orig, r)], L, TRUE)
      [] a = "n_wrStore" -> Out([S EXCEPT !.store = NjMerge(L.orig, r)], L, TRUE)
      [] a = "n_delMem" -> Out([S EXCEPT !.mem = NjNone], L, TRUE)
      [] a = "n_delStore" -> Out([S EXCEPT !.store = NjNone], L, TRUE)
\* intended = code since the fix "neuronjson serializes the read-merge-write" (Data.updateMu); before it
\* only the in-memory write was under the memdb mutex:
\* << Gate("start"), Do("n_rd"), Gate("neuronjson.storeAndUpdate"), Do("n_wrMem"), Do("n_wrStore") >>
\* a deletion removes the annotation from the in-memory database, then from the store, under the same lock
NjProg(r) == IF r.k = "del"
             THEN << Gate("start"), Acq({"nj.updateMu"}), Do("n_delMem"), Do("n_delStore"), Rel({"nj.updateMu"}) >>
             ELSE << Gate("start"), Acq({"nj.updateMu"}), Do("n_rd"), Gate("neuronjson.storeAndUpdate"), Do("n_wrMem"), Do("n_wrStore"), Rel({"nj.updateMu"}) >>
NjAnnObs(A) == [ex |-> A.ex, f |-> {[x |-> x, v |-> A.f[x].v, u |-> A.f[x].u] : x \in {y \in NjFields : A.f[y].v # 0}}]
NjObs(S) == [store |-> NjAnnObs(S.store), mem |-> NjAnnObs(S.mem)]

-----------------------------------------------------------------------------
(* nl: POST nextlabel/<n>: a contiguous fresh range (C12).                  *)
NlPre == << [max |-> 5, rets |-> {}] >>
NlCatalog == << [k |-> "next", n |-> 1, who |-> 0], [k |-> "next", n |-> 2, who |-> 0] >>
NlApply(r, S) == Out([max |-> S.max + r.n, rets |-> S.rets \cup {[who |-> r.who, b |-> S.max + 1, e |-> S.max + r.n]}],
                     [b |-> S.max + 1, e |-> S.max + r.n], TRUE)
NlExec(a, r, S, L) ==
    CASE a = "l_rd"  -> Out(S, Upd(L, [b |-> S.max + 1, e |-> S.max + r.n]), TRUE)
      [] a = "l_wr"  -> Out([S EXCEPT !.max = L.e], L, TRUE)
      [] a = "l_ret" -> Out([S EXCEPT !.rets = @ \cup {[who |-> r.who, b |-> L.b, e |-> L.e]}], L, TRUE)
\* begin/end are computed from the counter, the site sits before the counter is set to end
NlProg(r) == << Gate("start"), Acq({"mlMu"}), Do("l_rd"), Gate("labelmap.newLabels"), Do("l_wr"), Rel({"mlMu"}), Do("l_ret") >>
NlObs(S) == [max |-> S.max, rets |-> {[b |-> x.b, e |-> x.e] : x \in S.rets}, nret |-> Cardinality(S.rets)]

(* mut: the repo's mutation id counter, taken by every merge / cleave (C12). *)
MutPre == << [cur |-> 0, rets |-> {}] >>
MutCatalog == << [k |-> "mut", who |-> 0] >>
MutApply(r, S) == Out([cur |-> S.cur + 1, rets |-> S.rets \cup {[who |-> r.who, id |-> S.cur]}], [id |-> S.cur], TRUE)
MutExec(a, r, S, L) ==
    CASE a = "u_rd"  -> Out(S, Upd(L, [id |-> S.cur]), TRUE)
      [] a = "u_inc" -> Out([S EXCEPT !.cur = S.cur + 1], L, TRUE)
      [] a = "u_ret" -> Out([S EXCEPT !.rets = @ \cup {[who |-> r.who, id |-> L.id]}], L, TRUE)
\* the id is read, the site sits before the increment
MutProg(r) == << Gate("start"), Acq({"mutMu"}), Do("u_rd"), Gate("datastore.newMutationID"), Do("u_inc"), Rel({"mutMu"}), Do("u_ret") >>
MutObs(S) == [cur |-> S.cur, rets |-> {x.id : x \in S.rets}, nret |-> Cardinality(S.rets)]

(* cli: labelmap.ChangeLabelIndex — the per-block voxel counts of one body index, changed by  *)
(* deltas from voxel writes (block "A": already in the index, "B": not yet).                 *)
CliBlocks == {"A", "B"}
CliPre == << [cnt |-> [b \in CliBlocks |-> IF b = "A" THEN 4096 ELSE 0]] >>
CliCatalog == << [k |-> "delta", b |-> "A", n |-> 7, who |-> 0], [k |-> "delta", b |-> "B", n |-> 5, who |-> 0],
                 [k |-> "delta", b |-> "A", n |-> -3, who |-> 0] >>
CliApply(r, S) == IF S.cnt[r.b] + r.n < 0 THEN Out(S, <<>>, FALSE) ELSE Out([S EXCEPT !.cnt[r.b] = @ + r.n], <<>>, TRUE)
CliExec(a, r, S, L) ==
    CASE a = "i_rd" -> Out(S, Upd(L, [cur |-> S.cnt]), TRUE)
      [] a = "i_wr" -> IF L.cur[r.b] + r.n < 0 THEN Out(S, L, FALSE) ELSE Out([S EXCEPT !.cnt = [L.cur EXCEPT ![r.b] = @ + r.n]], L, TRUE)
\* the shard lock covers get .. put (intended = code)
CliProg(r) == << Gate("start"), Acq({"idxShard"}), Do("i_rd"), Gate("labelmap.ChangeLabelIndex"), Do("i_wr"), Rel({"idxShard"}) >>
CliObs(S) == [cnt |-> {[b |-> b, n |-> S.cnt[b]] : b \in {x \in CliBlocks : S.cnt[x] > 0}}]

-----------------------------------------------------------------------------
(* Stored body indices as a set of entries [l, s, b, n]: body l holds n voxels of     *)
(* supervoxel s in block b (templates mcli, vox).                                     *)
IxOf(I, l) == {e \in I : e.l = l}
IxSVs(I, l) == {e.s : e \in IxOf(I, l)}
IxRelabel(E, t) == {[e EXCEPT !.l = t] : e \in E}
\* labels.Index.ModifyBlocks for one label: ch = set of [s, b, n] changes; only supervoxels the index
\* already holds (a new index: only the label itself) are touched; a count that would go negative
\* fails the whole call (nothing is stored)
CliTouched(cur, l, ch) == {c \in ch : c.s \in (IF cur = {} THEN {l} ELSE {e.s : e \in cur})}
CliCount(cur, c) == IF \E e \in cur : e.s = c.s /\ e.b = c.b THEN (CHOOSE e \in cur : e.s = c.s /\ e.b = c.b).n ELSE 0
CliOK(cur, l, ch) == \A c \in CliTouched(cur, l, ch) : CliCount(cur, c) + c.n >= 0
CliNew(cur, l, ch) ==
    LET T == CliTouched(cur, l, ch) IN
    {e \in cur : ~\E c \in T : c.s = e.s /\ c.b = e.b}
      \cup {[l |-> l, s |-> c.s, b |-> c.b, n |-> CliCount(cur, c) + c.n] : c \in {x \in T : CliCount(cur, x) + x.n > 0}}
IxObs(I) == I
MpObs(M) == {[s |-> s, l |-> M[s]] : s \in {x \in DOMAIN M : M[x] # x}}

-----------------------------------------------------------------------------
(* mcli: a body mutation (merge, cleave) concurrent with labelmap.ChangeLabelIndex —   *)
(* the index delta a mutating voxel write applies from a background goroutine.  Five   *)
(* supervoxels, each one solid block (block k holds supervoxel k; block 9 is empty);   *)
(* body 1 = {1, 2, 3}.                                                                 *)
McU == 1..5 \cup 201..203
McPre == << [idx |-> {[l |-> (IF s \in {2, 3} THEN 1 ELSE s), s |-> s, b |-> s, n |-> 4096] : s \in 1..5},
             mp  |-> [s \in McU |-> IF s \in {2, 3} THEN 1 ELSE s]] >>
McCatalog == <<
   [k |-> "merge", t |-> 1, m |-> {4}, who |-> 0],
   [k |-> "merge", t |-> 4, m |-> {5}, who |-> 0],
   [k |-> "delta", l |-> 1, s |-> 1, b |-> 1, n |-> -7, who |-> 0],
   [k |-> "delta", l |-> 4, s |-> 4, b |-> 4, n |-> -5, who |-> 0],
   [k |-> "delta", l |-> 1, s |-> 2, b |-> 9, n |-> 3, who |-> 0],
   [k |-> "cleave", b |-> 1, s |-> {2}, who |-> 0],
   [k |-> "delta", l |-> 5, s |-> 5, b |-> 9, n |-> 11, who |-> 0] >>
McNew(r) == 200 + r.who
McMergeOK(S, r) == IxOf(S.idx, r.t) # {} /\ \A m \in r.m : IxOf(S.idx, m) # {}
McMergeMap(S, r, im) == [S EXCEPT !.mp = [s \in DOMAIN S.mp |-> IF s \in {e.s : e \in im} THEN r.t ELSE S.mp[s]]]
McMergeTarget(S, r, it, im) == [S EXCEPT !.idx = {e \in S.idx : e.l # r.t} \cup it \cup IxRelabel(im, r.t)]
McMergeDel(S, r) == [S EXCEPT !.idx = {e \in S.idx : e.l \notin r.m}]
McCleaveOK(ib, r) == ib # {} /\ r.s \subseteq {e.s : e \in ib} /\ {e.s : e \in ib} \ r.s # {}
McCleaveIdx(S, r, ib) ==
    [S EXCEPT !.idx = {e \in S.idx : e.l # r.b} \cup {e \in ib : e.s \notin r.s} \cup IxRelabel({e \in ib : e.s \in r.s}, McNew(r))]
McCleaveMap(S, r) == [S EXCEPT !.mp = [s \in DOMAIN S.mp |-> IF s \in r.s THEN McNew(r) ELSE S.mp[s]]]
McCh(r) == {[s |-> r.s, b |-> r.b, n |-> r.n]}
McApply(r, S) ==
    CASE r.k = "merge" ->
           IF ~McMergeOK(S, r) THEN Out(S, <<>>, FALSE)
           ELSE LET im == UNION {IxOf(S.idx, m) : m \in r.m} IN
                Out(McMergeDel(McMergeTarget(McMergeMap(S, r, im), r, IxOf(S.idx, r.t), im), r), <<>>, TRUE)
      [] r.k = "cleave" ->
           IF ~McCleaveOK(IxOf(S.idx, r.b), r) THEN Out(S, <<>>, FALSE)
           ELSE Out(McCleaveMap(McCleaveIdx(S, r, IxOf(S.idx, r.b)), r), <<>>, TRUE)
      [] r.k = "delta" ->
           LET cur == IxOf(S.idx, r.l) IN
           IF ~CliOK(cur, r.l, McCh(r)) THEN Out(S, <<>>, FALSE)
           ELSE Out([S EXCEPT !.idx = {e \in S.idx : e.l # r.l} \cup CliNew(cur, r.l, McCh(r))], <<>>, TRUE)
McExec(a, r, S, L) ==
    CASE a = "g_rdM" -> IF \E m \in r.m : IxOf(S.idx, m) = {} THEN Out(S, L, FALSE)
                        ELSE Out(S, Upd(L, [im |-> UNION {IxOf(S.idx, m) : m \in r.m}]), TRUE)
      [] a = "g_rdT" -> IF IxOf(S.idx, r.t) = {} THEN Out(S, L, FALSE) ELSE Out(S, Upd(L, [it |-> IxOf(S.idx, r.t)]), TRUE)
      [] a = "g_wrMap" -> Out(McMergeMap(S, r, L.im), L, TRUE)
      \* the final read-modify-write of the target and merged indices under their shard locks (since the
      \* fix "labelmap merge re-reads the indices under their locks"): the indices are read again
      [] a = "g_rd2" -> Out(S, Upd(L, [im |-> UNION {IxOf(S.idx, m) : m \in r.m}, it |-> IxOf(S.idx, r.t)]), TRUE)
      [] a = "g_wrT" -> Out(McMergeTarget(S, r, L.it, L.im), L, TRUE)
      [] a = "g_delM" -> Out(McMergeDel(S, r), L, TRUE)
      [] a = "c_rd"  -> IF ~McCleaveOK(IxOf(S.idx, r.b), r) THEN Out(S, L, FALSE) ELSE Out(S, Upd(L, [ib |-> IxOf(S.idx, r.b)]), TRUE)
      [] a = "c_wr"  -> Out(McCleaveIdx(S, r, L.ib), L, TRUE)
      [] a = "c_wrMap" -> Out(McCleaveMap(S, r), L, TRUE)
      [] a = "i_rd" -> Out(S, Upd(L, [cur |-> IxOf(S.idx, r.l)]), TRUE)
      [] a = "i_wr" -> IF ~CliOK(L.cur, r.l, McCh(r)) THEN Out(S, L, FALSE)
                       ELSE Out([S EXCEPT !.idx = {e \in S.idx : e.l # r.l} \cup CliNew(L.cur, r.l, McCh(r))], L, TRUE)
McIdxLocks(r) == {IdxLock(l) : l \in r.m \cup {r.t}}
McProg(r) ==
    CASE r.k = "merge" ->
           \* intended: the index locks of every label read or written cover the read-modify-write.
           \* code: Data.bodyMutMu covers the request (it excludes other body mutations, not the index
           \* deltas of voxel writes); the indices are validated early and, after the mapping update,
           \* read again and written back under their shard locks.
           IF Locking = "intended"
           THEN << Gate("start"), Acq(McIdxLocks(r)), Do("g_rdM"), Do("g_rdT"), Gate("labelmap.MergeLabels"),
                   Do("g_wrMap"), Do("g_wrT"), Do("g_delM"), Rel(McIdxLocks(r)) >>
           ELSE IF McMergeRereads
           THEN << Gate("start"), Acq({"lm.bodyMutMu"}), Do("g_rdM"), Do("g_rdT"), Gate("labelmap.MergeLabels"),
                   Do("g_wrMap"), Acq(McIdxLocks(r)), Do("g_rd2"), Do("g_wrT"), Do("g_delM"), Rel(McIdxLocks(r)),
                   Rel({"lm.bodyMutMu"}) >>
           ELSE << Gate("start"), Acq({"lm.bodyMutMu"}), Do("g_rdM"), Do("g_rdT"), Gate("labelmap.MergeLabels"),
                   Do("g_wrMap"), Do("g_wrT"), Do("g_delM"), Rel({"lm.bodyMutMu"}) >>
      [] r.k = "cleave" ->
           << Gate("start"), Acq({"lm.bodyMutMu"}), Acq({IdxLock(r.b)}), Do("c_rd"), Gate("labelmap.cleaveIndex"), Do("c_wr"),
              Rel({IdxLock(r.b)}), Do("c_wrMap"), Rel({"lm.bodyMutMu"}) >>
      [] r.k = "delta" ->
           << Gate("start"), Acq({IdxLock(r.l)}), Do("i_rd"), Gate("labelmap.ChangeLabelIndex"), Do("i_wr"), Rel({IdxLock(r.l)}) >>
McObs(S) == [idx |-> IxObs(S.idx), mp |-> MpObs(S.mp)]

-----------------------------------------------------------------------------
(* vox: voxel-level mutations of a labelmap over a region geometry.  Three blocks of   *)
(* 16^3 voxels; regions 1, 2 = the two halves of block 1, region 3 = block 2, regions  *)
(* 4, 5 = the two halves of block 3.  State: sv[r] the supervoxel stored in the voxels *)
(* of region r (primary data), mp the mapping supervoxel -> body (identity unless      *)
(* changed; 0 = split away), idx the STORED body indices (entries [l, s, b, n]), which *)
(* every request maintains by its own read-modify-write — "no derived index disagrees  *)
(* with its primary data" is idx = VoxDerived(sv, mp).                                 *)
(* Labels: 1..4 ingested (supervoxel 1 = regions 1, 2; body 1 = supervoxels 1, 2);     *)
(* a write of request w stores the client-chosen label x + 10w; the server-allocated   *)
(* labels carry symbolic names: split-supervoxel of request w gives 100+2w (split) and *)
(* 101+2w (remainder), cleave 200+w; renumber targets the client-chosen 5000+10w.      *)
VoxRegions == 1..5
VoxBlocks == 1..3
VoxBlockOf(r) == IF r \in {1, 2} THEN 1 ELSE IF r = 3 THEN 2 ELSE 3
VoxSize(r) == IF r = 3 THEN 4096 ELSE 2048
VoxIn(K) == {r \in VoxRegions : VoxBlockOf(r) \in K}
VoxU == 1..4 \cup {x + 10 * w : x \in {1000, 2000, 3000, 5000}, w \in 1..3} \cup 102..107 \cup 201..203
VoxSVU == VoxU \ (201..203 \cup {5000 + 10 * w : w \in 1..3})    \* ids that can be supervoxels (domain of GET mapping)
VoxCount(svf, s, b) == SumSeq([r \in VoxRegions |-> IF svf[r] = s /\ VoxBlockOf(r) = b THEN VoxSize(r) ELSE 0])
VoxDerived(svf, mpf) ==
    {[l |-> mpf[s], s |-> s, b |-> b, n |-> VoxCount(svf, s, b)] :
        <<s, b>> \in {x \in ({svf[r] : r \in VoxRegions} \ {0}) \X VoxBlocks : VoxCount(svf, x[1], x[2]) > 0}}
VoxPre == << [sv  |-> <<1, 1, 2, 3, 4>>,
              mp  |-> [s \in VoxU |-> IF s = 2 THEN 1 ELSE s],
              idx |-> VoxDerived(<<1, 1, 2, 3, 4>>, [s \in VoxU |-> IF s = 2 THEN 1 ELSE s])] >>
VoxCatalog == <<
   [k |-> "write", blocks |-> {1}, x |-> 1000, who |-> 0],
   [k |-> "write", blocks |-> {1, 2}, x |-> 2000, who |-> 0],
   [k |-> "write", blocks |-> {3}, x |-> 3000, who |-> 0],
   [k |-> "splitsv", s |-> 1, body |-> 1, S |-> {1}, who |-> 0],
   [k |-> "merge", t |-> 1, m |-> {3}, who |-> 0],
   [k |-> "merge", t |-> 4, m |-> {1}, who |-> 0],
   [k |-> "cleave", b |-> 1, s |-> {2}, who |-> 0],
   [k |-> "renumber", old |-> 1, who |-> 0] >>
VoxX(r) == r.x + 10 * r.who
VoxSplit(r) == 100 + 2 * r.who
VoxRemain(r) == 101 + 2 * r.who
VoxNewBody(r) == 200 + r.who
VoxRenum(r) == 5000 + 10 * r.who
VoxSetSV(S, f) == [S EXCEPT !.sv = [q \in VoxRegions |-> f[q]]]
VoxReindex(S) == [S EXCEPT !.idx = VoxDerived(S.sv, S.mp)]
VoxSVSize(I, s) == SumSeq([b \in VoxBlocks |-> IF \E e \in I : e.s = s /\ e.b = b THEN (CHOOSE e \in I : e.s = s /\ e.b = b).n ELSE 0])
VoxSplitSize(r) == SumSeq([q \in VoxRegions |-> IF q \in r.S THEN VoxSize(q) ELSE 0])
\* split-supervoxel is accepted when the body index holds at least the posted number of voxels of the supervoxel
VoxSplitOK(S, r) == S.mp[r.s] # 0 /\ IxOf(S.idx, S.mp[r.s]) # {} /\ VoxSplitSize(r) <= VoxSVSize(IxOf(S.idx, S.mp[r.s]), r.s)
VoxSplitSV(f, r) == [q \in DOMAIN f |-> IF f[q] = r.s THEN (IF q \in r.S THEN VoxSplit(r) ELSE VoxRemain(r)) ELSE f[q]]
VoxSplitMap(S, r, body) == [S EXCEPT !.mp = [s \in DOMAIN S.mp |-> IF s = r.s THEN 0 ELSE IF s \in {VoxSplit(r), VoxRemain(r)} THEN body ELSE S.mp[s]]]
VoxMergeOK(S, r) == IxOf(S.idx, r.t) # {} /\ \A m \in r.m : IxOf(S.idx, m) # {}
VoxRenumOK(S, r) == IxOf(S.idx, VoxRenum(r)) = {} /\ IxOf(S.idx, r.old) # {}
VoxRenumMap(S, r, io) == [S EXCEPT !.mp = [s \in DOMAIN S.mp |-> IF s \in {e.s : e \in io} THEN VoxRenum(r) ELSE IF s = VoxRenum(r) THEN 0 ELSE S.mp[s]]]
VoxCleaveMap(S, r) == [S EXCEPT !.mp = [s \in DOMAIN S.mp |-> IF s \in r.s THEN VoxNewBody(r) ELSE S.mp[s]]]
VoxApply(r, S) ==
    CASE r.k = "write" ->
           Out(VoxReindex(VoxSetSV(S, [q \in VoxRegions |-> IF q \in VoxIn(r.blocks) THEN VoxX(r) ELSE S.sv[q]])), <<>>, TRUE)
      [] r.k = "splitsv" ->
           IF ~VoxSplitOK(S, r) \/ \E q \in r.S : S.sv[q] # r.s THEN Out(S, <<>>, FALSE)
           ELSE Out(VoxReindex(VoxSplitMap(VoxSetSV(S, VoxSplitSV(S.sv, r)), r, S.mp[r.s])), <<>>, TRUE)
      [] r.k = "merge" ->
           IF ~VoxMergeOK(S, r) THEN Out(S, <<>>, FALSE)
           ELSE Out(VoxReindex(McMergeMap(S, r, UNION {IxOf(S.idx, m) : m \in r.m})), <<>>, TRUE)
      [] r.k = "cleave" ->
           IF ~McCleaveOK(IxOf(S.idx, r.b), r) THEN Out(S, <<>>, FALSE)
           ELSE Out(VoxReindex(VoxCleaveMap(S, r)), <<>>, TRUE)
      [] r.k = "renumber" ->
           IF ~VoxRenumOK(S, r) THEN Out(S, <<>>, FALSE)
           ELSE Out(VoxReindex(VoxRenumMap(S, r, IxOf(S.idx, r.old))), <<>>, TRUE)
\* the index changes of a write: per supervoxel and block, new count minus the count in the block as it was READ
VoxChanges(r, old) ==
    LET newf == [q \in VoxRegions |-> IF q \in VoxIn(r.blocks) THEN VoxX(r) ELSE 0]
        oldf == [q \in VoxRegions |-> IF q \in VoxIn(r.blocks) THEN old[q] ELSE 0]
        svs  == ({newf[q] : q \in VoxRegions} \cup {oldf[q] : q \in VoxRegions}) \ {0}
    IN {[s |-> x[1], b |-> x[2], n |-> VoxCount(newf, x[1], x[2]) - VoxCount(oldf, x[1], x[2])] :
          x \in {y \in svs \X r.blocks : VoxCount(newf, y[1], y[2]) # VoxCount(oldf, y[1], y[2])}}
VoxMapLabel(M, s) == M[s]
VoxCliAll(I, labs, ch) ==
    LET okl == {l \in labs : CliOK(IxOf(I, l), l, ch)} IN
    {e \in I : e.l \notin okl} \cup UNION {CliNew(IxOf(I, l), l, ch) : l \in okl}
VoxExec(a, r, S, L) ==
    CASE a = "w_rd"  -> Out(S, Upd(L, [old |-> S.sv]), TRUE)
      \* the block is stored; the labels whose indices change are looked up in the mapping as it is now
      [] a = "w_wr"  -> LET ch == VoxChanges(r, L.old) IN
                        Out(VoxSetSV(S, [q \in VoxRegions |-> IF q \in VoxIn(r.blocks) THEN VoxX(r) ELSE S.sv[q]]),
                            Upd(L, [ch |-> ch, labs |-> {VoxMapLabel(S.mp, c.s) : c \in ch} \ {0}]), TRUE)
      \* ChangeLabelIndex of every label (each under its own shard lock; they touch disjoint entries)
      [] a = "w_idx" -> Out([S EXCEPT !.idx = VoxCliAll(S.idx, L.labs, L.ch)], L, TRUE)
      [] a = "s_rdIdx" -> IF ~VoxSplitOK(S, r) THEN Out(S, L, FALSE)
                          ELSE Out(S, Upd(L, [body |-> S.mp[r.s], cur |-> IxOf(S.idx, S.mp[r.s])]), TRUE)
      [] a = "s_rdBlk" -> IF \E q \in r.S : S.sv[q] # r.s THEN Out(S, L, FALSE) ELSE Out(S, Upd(L, [blk |-> S.sv]), TRUE)
      \* the blocks of the supervoxel are written back from what was read
      [] a = "s_wrBlk" -> LET B == {VoxBlockOf(q) : q \in {x \in VoxRegions : L.blk[x] = r.s}}
                              nf == VoxSplitSV(L.blk, r) IN
                          Out(VoxSetSV(S, [q \in VoxRegions |-> IF VoxBlockOf(q) \in B THEN nf[q] ELSE S.sv[q]]), L, TRUE)
      [] a = "s_wrMap" -> Out(VoxSplitMap(S, r, L.body), L, TRUE)
      [] a = "s_wrIdx" -> LET nf == VoxSplitSV(L.blk, r)
                              keep == {e \in L.cur : e.s # r.s}
                              add == {[l |-> L.body, s |-> x[1], b |-> x[2], n |-> VoxCount(nf, x[1], x[2])] :
                                        x \in {y \in {VoxSplit(r), VoxRemain(r)} \X VoxBlocks : VoxCount(nf, y[1], y[2]) > 0}} IN
                          Out([S EXCEPT !.idx = {e \in S.idx : e.l # L.body} \cup keep \cup add], L, TRUE)
      [] a = "g_rdM" -> IF \E m \in r.m : IxOf(S.idx, m) = {} THEN Out(S, L, FALSE)
                        ELSE Out(S, Upd(L, [im |-> UNION {IxOf(S.idx, m) : m \in r.m}]), TRUE)
      [] a = "g_rdT" -> IF IxOf(S.idx, r.t) = {} THEN Out(S, L, FALSE) ELSE Out(S, Upd(L, [it |-> IxOf(S.idx, r.t)]), TRUE)
      [] a = "g_wrMap" -> Out(McMergeMap(S, r, L.im), L, TRUE)
      [] a = "g_rd2" -> Out(S, Upd(L, [im |-> UNION {IxOf(S.idx, m) : m \in r.m}, it |-> IxOf(S.idx, r.t)]), TRUE)
      [] a = "g_wrT" -> Out(McMergeTarget(S, r, L.it, L.im), L, TRUE)
      [] a = "g_delM" -> Out(McMergeDel(S, r), L, TRUE)
      [] a = "c_rd"  -> IF ~McCleaveOK(IxOf(S.idx, r.b), r) THEN Out(S, L, FALSE) ELSE Out(S, Upd(L, [ib |-> IxOf(S.idx, r.b)]), TRUE)
      [] a = "c_wr"  -> Out([S EXCEPT !.idx = {e \in S.idx : e.l # r.b} \cup {e \in L.ib : e.s \notin r.s}
                                               \cup IxRelabel({e \in L.ib : e.s \in r.s}, VoxNewBody(r))], L, TRUE)
      [] a = "c_wrMap" -> Out(VoxCleaveMap(S, r), L, TRUE)
      [] a = "n_rd"  -> IF ~VoxRenumOK(S, r) THEN Out(S, L, FALSE) ELSE Out(S, Upd(L, [io |-> IxOf(S.idx, r.old)]), TRUE)
      [] a = "n_wrMap" -> Out(VoxRenumMap(S, r, L.io), L, TRUE)
      [] a = "n_wr"  -> Out([S EXCEPT !.idx = {e \in S.idx : e.l # VoxRenum(r)} \cup IxRelabel(L.io, VoxRenum(r))], L, TRUE)
      [] a = "n_del" -> Out([S EXCEPT !.idx = {e \in S.idx : e.l # r.old}], L, TRUE)
VoxDynLocks(a, r, S, L) == IF a = "w_idx" THEN {IdxLock(l) : l \in L.labs} ELSE {}
\* The locking of the code (Data.voxelMu around every block read .. block write, Data.bodyMutMu around body
\* mutations, the index shard lock around an index read-modify-write) is the intended one, except for the
\* index changes of a voxel write: the code applies them from a goroutine that outlives the request and
\* holds neither lock (known findings voxel-write-index-*); intended: they are applied before the write
\* lets the next voxel or body mutation in.
VoxProg(r) ==
    CASE r.k = "write" ->
           IF Locking = "intended"
           THEN << Gate("start"), Acq({"lm.bodyMutMu"}), Acq({"lm.voxelMu"}), Do("w_rd"), Gate("labelmap.putChunk"), Do("w_wr"),
                   Gate("labelmap.aggregateBlockChanges"), Dolk("w_idx"), Rel({"lm.voxelMu", "lm.bodyMutMu"}) >>
           ELSE << Gate("start"), Acq({"lm.voxelMu"}), Do("w_rd"), Gate("labelmap.putChunk"), Do("w_wr"), Rel({"lm.voxelMu"}),
                   Gate("labelmap.aggregateBlockChanges"), Dolk("w_idx") >>
      [] r.k = "splitsv" ->
           << Gate("start"), Acq({"lm.bodyMutMu"}), Acq({IdxLock(r.body)}), Do("s_rdIdx"), Acq({"lm.voxelMu"}), Do("s_rdBlk"),
              Gate("labelmap.SplitSupervoxel"), Do("s_wrBlk"), Do("s_wrMap"), Do("s_wrIdx"),
              Rel({"lm.voxelMu", IdxLock(r.body), "lm.bodyMutMu"}) >>
      [] r.k = "merge" ->
           << Gate("start"), Acq({"lm.bodyMutMu"}), Do("g_rdM"), Do("g_rdT"), Gate("labelmap.MergeLabels"),
              Do("g_wrMap"), Acq(McIdxLocks(r)), Do("g_rd2"), Do("g_wrT"), Do("g_delM"), Rel(McIdxLocks(r)), Rel({"lm.bodyMutMu"}) >>
      [] r.k = "cleave" ->
           << Gate("start"), Acq({"lm.bodyMutMu"}), Acq({IdxLock(r.b)}), Do("c_rd"), Gate("labelmap.cleaveIndex"), Do("c_wr"),
              Rel({IdxLock(r.b)}), Do("c_wrMap"), Rel({"lm.bodyMutMu"}) >>
      [] r.k = "renumber" ->
           << Gate("start"), Acq({"lm.bodyMutMu"}), Do("n_rd"), Gate("labelmap.RenumberLabels"), Do("n_wrMap"), Do("n_wr"), Do("n_del"),
              Rel({"lm.bodyMutMu"}) >>
\* GET mapping: the recorded body of a supervoxel that was ever remapped (0 = split away); an id without a
\* mapping entry is its own body if the index of that body holds it, otherwise 0 (no such supervoxel)
VoxMapRead(S, s) == IF S.mp[s] # s THEN S.mp[s] ELSE IF \E e \in S.idx : e.s = s /\ e.l = s THEN s ELSE 0
VoxObs(S) == [sv  |-> {[r |-> q, s |-> S.sv[q]] : q \in VoxRegions},
              idx |-> S.idx,
              mp  |-> {[s |-> s, l |-> VoxMapRead(S, s)] : s \in {x \in VoxSVU : VoxMapRead(S, x) # 0}}]
\* the observation in the shape of Labelmap.tla's Obs (what lmm.Compare reads through every endpoint)
RECURSIVE SetSeqAsc(_)
SetSeqAsc(T) == IF T = {} THEN <<>> ELSE LET x == CHOOSE y \in T : \A z \in T : y <= z IN <<x>> \o SetSeqAsc(T \ {x})
VoxLmObs(S) ==
    LET svs == {S.sv[q] : q \in VoxRegions} \ {0}
        bodies == {S.mp[s] : s \in svs}
        svsOf(b) == {s \in svs : S.mp[s] = b}
        regsOf(b) == {q \in VoxRegions : S.sv[q] # 0 /\ S.mp[S.sv[q]] = b}
        blocksOf(b) == {VoxBlockOf(q) : q \in regsOf(b)}
        size(T) == SumSeq([q \in VoxRegions |-> IF q \in T THEN VoxSize(q) ELSE 0])
    IN [sv |-> S.sv,
        body |-> [q \in VoxRegions |-> IF S.sv[q] = 0 THEN 0 ELSE S.mp[S.sv[q]]],
        nxt |-> 0,
        bodies |-> [i \in 1..Cardinality(bodies) |->
                      LET b == SetSeqAsc(bodies)[i] IN
                      [label |-> b, size |-> size(regsOf(b)), svs |-> SetSeqAsc(svsOf(b)), regions |-> SetSeqAsc(regsOf(b)),
                       blocks |-> SetSeqAsc(blocksOf(b)),
                       index |-> [k \in 1..Cardinality(blocksOf(b)) |->
                                    LET blk == SetSeqAsc(blocksOf(b))[k]
                                        ss == {s \in svsOf(b) : VoxCount(S.sv, s, blk) > 0} IN
                                    [block |-> blk, counts |-> [j \in 1..Cardinality(ss) |-> [sv |-> SetSeqAsc(ss)[j], n |-> VoxCount(S.sv, SetSeqAsc(ss)[j], blk)]]]]]],
        svsizes |-> [i \in 1..Cardinality(svs) |-> [sv |-> SetSeqAsc(svs)[i], size |-> size({q \in VoxRegions : S.sv[q] = SetSeqAsc(svs)[i]})]]]

-----------------------------------------------------------------------------
(* annsync: element edits of an annotation instance against the label sync events of   *)
(* the labelmap it is synced with (and a labelsz instance counting elements per body). *)
(* Blocks 1..3 hold supervoxels 1..3; body 1 = supervoxels {1, 2}, body 3 = {3}.       *)
(* Positions 1, 4 lie in block 1, position 2 in block 2, positions 3, 5 in block 3;    *)
(* elements 1, 2 (tag 1) and 3 (tag 2) exist.  State: the stored copies                *)
(*    blk  positions holding an element (block lists, primary)                         *)
(*    lbl  entries [l, p]: the element list of body l holds position p                 *)
(*    tg   entries [t, p]                                                               *)
(*    cnt  labelsz count per body                                                      *)
(*    mp   supervoxel -> body (the labelmap)                                           *)
(* A label operation is the labelmap request (mapping change, acknowledged) followed   *)
(* by its sync event, handled by the annotation's event goroutine (the asynchronous    *)
(* tail of the request): the body lists are read, re-partitioned and written back.     *)
AsPos == 1..5
AsBlockOf(p) == IF p \in {1, 4} THEN 1 ELSE IF p = 2 THEN 2 ELSE 3
AsTagOf(p) == IF p \in {3, 5} THEN 2 ELSE 1
AsLU == {1, 2, 3} \cup 201..203
AsBody(S, p) == S.mp[AsBlockOf(p)]
AsPre == << [blk |-> {1, 2, 3},
             lbl |-> {[l |-> 1, p |-> 1], [l |-> 1, p |-> 2], [l |-> 3, p |-> 3]},
             tg  |-> {[t |-> 1, p |-> 1], [t |-> 1, p |-> 2], [t |-> 2, p |-> 3]},
             cnt |-> [l \in AsLU |-> IF l = 1 THEN 2 ELSE IF l = 3 THEN 1 ELSE 0],
             mp  |-> <<1, 1, 3>>] >>
AsCatalog == <<
   [k |-> "post", p |-> 4, who |-> 0],
   [k |-> "post", p |-> 5, who |-> 0],
   [k |-> "del", p |-> 1, who |-> 0],
   \* (not in the catalog: DELETE of an element of the MERGED body, or POST of an element into the CLEAVED
   \* supervoxel, between the acknowledgement of the label request and the handling of its sync event: the
   \* handler then works on lists the edit could not know about - the element stays listed after its
   \* deletion / is dropped from the new body's list - whatever lock it takes; the sequential meaning of
   \* "label request + its event" is not available to an edit that arrives in between)
   [k |-> "merge", t |-> 1, m |-> 3, who |-> 0],
   [k |-> "cleave", b |-> 1, s |-> 2, who |-> 0] >>
AsNew(r) == 200 + r.who
AsL(I, l) == {e \in I : e.l = l}
AsBump(c, l, n) == [c EXCEPT ![l] = @ + n]
\* the writes of the requests, from the values they read
AsPostWr(S, r, L, ll, tt, bb) ==
    [S EXCEPT !.blk = {q \in S.blk : AsBlockOf(q) # AsBlockOf(r.p)} \cup bb \cup {r.p},
              !.lbl = {e \in S.lbl : e.l # L} \cup ll \cup {[l |-> L, p |-> r.p]},
              !.tg  = {e \in S.tg : e.t # AsTagOf(r.p)} \cup tt \cup {[t |-> AsTagOf(r.p), p |-> r.p]},
              !.cnt = AsBump(S.cnt, L, IF [l |-> L, p |-> r.p] \in ll THEN 0 ELSE 1)]
AsDelWrB(S, r, bb) == [S EXCEPT !.blk = {q \in S.blk : AsBlockOf(q) # AsBlockOf(r.p)} \cup (bb \ {r.p})]
AsDelWrL(S, r, L, ll, tt) ==
    [S EXCEPT !.lbl = {e \in S.lbl : e.l # L} \cup (ll \ {[l |-> L, p |-> r.p]}),
              !.tg  = {e \in S.tg : e.t # AsTagOf(r.p)} \cup (tt \ {[t |-> AsTagOf(r.p), p |-> r.p]}),
              !.cnt = AsBump(S.cnt, L, IF [l |-> L, p |-> r.p] \in ll THEN -1 ELSE 0)]
AsMergeWr(S, r, lt, lm) ==
    IF lm = {} THEN S
    ELSE [S EXCEPT !.lbl = {e \in S.lbl : e.l \notin {r.t, r.m}} \cup lt \cup {[e EXCEPT !.l = r.t] : e \in lm},
                   !.cnt = AsBump(AsBump(S.cnt, r.t, Cardinality(lm)), r.m, 0 - Cardinality(lm))]
AsCleaveWr(S, r, lb, in) ==
    IF lb = {} THEN S
    ELSE LET mv == {e \in lb : e.p \in in} IN
         [S EXCEPT !.lbl = {e \in S.lbl : e.l \notin {r.b, AsNew(r)}} \cup (lb \ mv) \cup {[e EXCEPT !.l = AsNew(r)] : e \in mv},
                   !.cnt = AsBump(AsBump(S.cnt, AsNew(r), Cardinality(mv)), r.b, 0 - Cardinality(mv))]
AsMap(S, f) == [S EXCEPT !.mp = [b \in 1..3 |-> f[b]]]
AsBlkOf(S, p) == {q \in S.blk : AsBlockOf(q) = AsBlockOf(p)}
AsTg(S, p) == {e \in S.tg : e.t = AsTagOf(p)}
AsBodyHas(S, l) == \E b \in 1..3 : S.mp[b] = l
AsApply(r, S) ==
    CASE r.k = "post" -> Out(AsPostWr(S, r, AsBody(S, r.p), AsL(S.lbl, AsBody(S, r.p)), AsTg(S, r.p), AsBlkOf(S, r.p)), <<>>, TRUE)
      [] r.k = "del"  -> IF r.p \notin S.blk THEN Out(S, <<>>, FALSE)
                         ELSE Out(AsDelWrL(AsDelWrB(S, r, AsBlkOf(S, r.p)), r, AsBody(S, r.p), AsL(S.lbl, AsBody(S, r.p)), AsTg(S, r.p)), <<>>, TRUE)
      [] r.k = "merge" -> IF ~AsBodyHas(S, r.t) \/ ~AsBodyHas(S, r.m) THEN Out(S, <<>>, FALSE)
                          ELSE LET S1 == AsMap(S, [b \in 1..3 |-> IF S.mp[b] = r.m THEN r.t ELSE S.mp[b]]) IN
                               Out(AsMergeWr(S1, r, AsL(S.lbl, r.t), AsL(S.lbl, r.m)), <<>>, TRUE)
      [] r.k = "cleave" -> IF S.mp[r.s] # r.b \/ ~\E b \in 1..3 : b # r.s /\ S.mp[b] = r.b THEN Out(S, <<>>, FALSE)
                           ELSE LET S1 == AsMap(S, [b \in 1..3 |-> IF b = r.s THEN AsNew(r) ELSE S.mp[b]]) IN
                                Out(AsCleaveWr(S1, r, AsL(S.lbl, r.b), {q \in AsPos : AsBlockOf(q) = r.s}), <<>>, TRUE)
AsExec(a, r, S, L) ==
    CASE a = "p_rd"  -> LET lab == AsBody(S, r.p) IN
                        Out(S, Upd(L, [lab |-> lab, ll |-> AsL(S.lbl, lab), tt |-> AsTg(S, r.p), bb |-> AsBlkOf(S, r.p)]), TRUE)
      [] a = "p_wr"  -> Out(AsPostWr(S, r, L.lab, L.ll, L.tt, L.bb), L, TRUE)
      [] a = "d_rdB" -> IF r.p \notin S.blk THEN Out(S, L, FALSE) ELSE Out(S, Upd(L, [bb |-> AsBlkOf(S, r.p)]), TRUE)
      [] a = "d_wrB" -> Out(AsDelWrB(S, r, L.bb), L, TRUE)
      [] a = "d_rdL" -> LET lab == AsBody(S, r.p) IN Out(S, Upd(L, [lab |-> lab, ll |-> AsL(S.lbl, lab), tt |-> AsTg(S, r.p)]), TRUE)
      [] a = "d_wrL" -> Out(AsDelWrL(S, r, L.lab, L.ll, L.tt), L, TRUE)
      [] a = "m_map" -> IF ~AsBodyHas(S, r.t) \/ ~AsBodyHas(S, r.m) THEN Out(S, L, FALSE)
                        ELSE Out(AsMap(S, [b \in 1..3 |-> IF S.mp[b] = r.m THEN r.t ELSE S.mp[b]]), L, TRUE)
      [] a = "y_rd"  -> Out(S, Upd(L, [lt |-> AsL(S.lbl, r.t), lm |-> AsL(S.lbl, r.m)]), TRUE)
      [] a = "y_wr"  -> Out(AsMergeWr(S, r, L.lt, L.lm), L, TRUE)
      [] a = "c_map" -> IF S.mp[r.s] # r.b \/ ~\E b \in 1..3 : b # r.s /\ S.mp[b] = r.b THEN Out(S, L, FALSE)
                        ELSE Out(AsMap(S, [b \in 1..3 |-> IF b = r.s THEN AsNew(r) ELSE S.mp[b]]), L, TRUE)
      \* the handler asks the labelmap which points of the body list lie in the cleaved supervoxels
      [] a = "z_rd"  -> Out(S, Upd(L, [lb |-> AsL(S.lbl, r.b), in |-> {q \in AsPos : AsBlockOf(q) = r.s}]), TRUE)
      [] a = "z_wr"  -> Out(AsCleaveWr(S, r, L.lb, L.in), L, TRUE)
\* intended: a sync handler rewrites body lists under the lock the element edits hold (Data.editMu);
\* the handlers of the code took no lock before the fix "annotation sync handlers take the edit lock"
AsTail(body) == IF Locking = "intended" \/ AsHandlersLocked THEN << Acq({"ann.editMu"}) >> \o body \o << Rel({"ann.editMu"}) >> ELSE body
AsProg(r) ==
    CASE r.k = "post" -> << Gate("start"), Acq({"ann.editMu"}), Do("p_rd"), Gate("annotation.StoreElements"), Do("p_wr"), Rel({"ann.editMu"}) >>
      [] r.k = "del"  -> << Gate("start"), Acq({"ann.editMu"}), Do("d_rdB"), Gate("annotation.DeleteElement"), Do("d_wrB"), Do("d_rdL"),
                            Gate("annotation.DeleteElement.commit"), Do("d_wrL"), Rel({"ann.editMu"}) >>
      [] r.k = "merge" -> << Gate("start"), Acq({"lm.bodyMutMu"}), Do("m_map"), Rel({"lm.bodyMutMu"}) >>
                            \o AsTail(<< Do("y_rd"), Gate("annotation.sync.mergeLabels"), Do("y_wr") >>)
      [] r.k = "cleave" -> << Gate("start"), Acq({"lm.bodyMutMu"}), Do("c_map"), Rel({"lm.bodyMutMu"}) >>
                            \o AsTail(<< Do("z_rd"), Gate("annotation.sync.cleaveLabels"), Do("z_wr") >>)
AsObs(S) == [blk |-> S.blk, lbl |-> S.lbl, tg |-> S.tg,
             cnt |-> {[l |-> l, n |-> S.cnt[l]] : l \in {x \in AsLU : S.cnt[x] # 0}},
             mp  |-> {[s |-> b, l |-> S.mp[b]] : b \in 1..3}]

-----------------------------------------------------------------------------
(* wc: a write to an open version raced with the commit of that version (property C02: *)
(* what is readable at a committed version never changes).  Three requests: a write    *)
(* (keyvalue key / labelmap mutating voxel write / annotation element), the commit,    *)
(* and a reader that first asks whether the version is committed and then reads the    *)
(* content.  State: val = the primary content (0 / 1 = written), der = the derived     *)
(* content the write's background work maintains (labelmap body index, labelsz count), *)
(* com = committed, seen = what the reader saw.  The write is refused on a committed   *)
(* version; a reader that saw the version committed must have seen its final content.  *)
WcPre == << [val |-> 0, der |-> 0, com |-> FALSE, seen |-> {}] >>
WcCatalog == << [k |-> "write", kind |-> "kv", who |-> 0], [k |-> "write", kind |-> "lm", who |-> 0],
                [k |-> "write", kind |-> "ann", who |-> 0], [k |-> "commit", who |-> 0], [k |-> "read", who |-> 0] >>
WcApply(r, S) ==
    CASE r.k = "write"  -> IF S.com THEN Out(S, <<>>, FALSE) ELSE Out([S EXCEPT !.val = 1, !.der = 1], <<>>, TRUE)
      [] r.k = "commit" -> IF S.com THEN Out(S, <<>>, FALSE) ELSE Out([S EXCEPT !.com = TRUE], <<>>, TRUE)
      [] r.k = "read"   -> Out([S EXCEPT !.seen = @ \cup {[c |-> S.com, v |-> S.val, d |-> S.der]}], <<>>, TRUE)
WcExec(a, r, S, L) ==
    CASE a = "a_chk"  -> Out(S, L, ~S.com)                          \* the mutation gate at request entry
      [] a = "w_val"  -> Out([S EXCEPT !.val = 1], L, TRUE)
      [] a = "w_der"  -> Out([S EXCEPT !.der = 1], L, TRUE)
      [] a = "w_both" -> Out([S EXCEPT !.val = 1, !.der = 1], L, TRUE)
      [] a = "c_chk"  -> Out(S, L, ~S.com)
      [] a = "c_set"  -> Out([S EXCEPT !.com = TRUE], L, TRUE)
      [] a = "r_flag" -> Out(S, Upd(L, [c |-> S.com]), TRUE)
      [] a = "r_val"  -> Out([S EXCEPT !.seen = @ \cup {[c |-> L.c, v |-> S.val, d |-> S.der]}], L, TRUE)
\* intended: a mutation holds the version open (node.mut) from its admission until everything it started
\* has been applied; commit takes the same lock.  code: WcAdmissionLocked = the request holds it until its
\* handler returns (fix "commit waits for admitted mutations"); work left to background goroutines (labelmap
\* index changes, annotation -> labelsz events) is outside it (known finding commit-does-not-wait-for-background-work)
WcHold(body, tail) ==
    IF Locking = "intended" THEN << Acq({"node.mut"}) >> \o body \o tail \o << Rel({"node.mut"}) >>
    ELSE IF WcAdmissionLocked THEN << Acq({"node.mut"}) >> \o body \o << Rel({"node.mut"}) >> \o tail
    ELSE body \o tail
WcProg(r) ==
    CASE r.k = "write" /\ r.kind = "kv" ->
           << Gate("start") >> \o WcHold(<< Do("a_chk"), Gate("server.mutationAdmitted"), Do("w_both") >>, << >>)
      [] r.k = "write" /\ r.kind = "lm" ->
           << Gate("start") >> \o WcHold(<< Do("a_chk"), Gate("server.mutationAdmitted"), Acq({"lm.voxelMu"}), Gate("labelmap.putChunk"),
                                            Do("w_val"), Rel({"lm.voxelMu"}) >>,
                                         << Gate("labelmap.aggregateBlockChanges"), Do("w_der") >>)
      [] r.k = "write" /\ r.kind = "ann" ->
           << Gate("start") >> \o WcHold(<< Do("a_chk"), Gate("server.mutationAdmitted"), Acq({"ann.editMu"}), Gate("annotation.StoreElements"),
                                            Do("w_both"), Rel({"ann.editMu"}) >>,
                                         << >>)   \* (the labelsz count follows by an event no gate controls: not observed here)
      [] r.k = "commit" ->
           << Gate("start") >> \o (IF Locking = "intended" \/ WcAdmissionLocked
                                   THEN << Do("c_chk"), Gate("datastore.commit"), Acq({"node.mut"}), Do("c_set"), Rel({"node.mut"}) >>
                                   ELSE << Do("c_chk"), Gate("datastore.commit"), Do("c_set") >>)
      [] r.k = "read" -> << Gate("start"), Do("r_flag"), Do("r_val") >>
\* observation: the final content and whether every reader that saw the version committed saw exactly it
\* (what a reader sees of an OPEN version while a write is in progress is not constrained)
WcObs(S) == [val |-> S.val, der |-> S.der, com |-> S.com,
             frozen |-> \A x \in S.seen : x.c => (x.v = S.val /\ x.d = S.der)]

-----------------------------------------------------------------------------
Catalog(t) == CASE t = "kv" -> KvCatalog [] t = "ann" -> AnnCatalog [] t = "lm" -> LmCatalog [] t = "ver" -> VerCatalog
                [] t = "nj" -> NjCatalog [] t = "nl" -> NlCatalog [] t = "mut" -> MutCatalog [] t = "cli" -> CliCatalog
                [] t = "mcli" -> McCatalog [] t = "vox" -> VoxCatalog [] t = "annsync" -> AsCatalog [] t = "wc" -> WcCatalog
                [] t = "verx" -> VxCatalog
PreSeq(t, n) == CASE t = "kv" -> KvPre [] t = "ann" -> AnnPre [] t = "lm" -> <<LmPreOf(5, 5 + n)>> [] t = "ver" -> VerPre
                  [] t = "nj" -> NjPre [] t = "nl" -> NlPre [] t = "mut" -> MutPre [] t = "cli" -> CliPre
                  [] t = "mcli" -> McPre [] t = "vox" -> VoxPre [] t = "annsync" -> AsPre [] t = "wc" -> WcPre
                  [] t = "verx" -> VxPre
PreStates(t, n) == {PreSeq(t, n)[i] : i \in 1..Len(PreSeq(t, n))}
Apply(t, r, S) == CASE t = "kv" -> KvApply(r, S) [] t = "ann" -> AnnApply(r, S) [] t = "lm" -> LmApply(r, S)
                    [] t = "ver" -> VerApply(r, S) [] t = "nj" -> NjApply(r, S) [] t = "nl" -> NlApply(r, S)
                    [] t = "mut" -> MutApply(r, S) [] t = "cli" -> CliApply(r, S)
                    [] t = "mcli" -> McApply(r, S) [] t = "vox" -> VoxApply(r, S) [] t = "annsync" -> AsApply(r, S) [] t = "wc" -> WcApply(r, S)
                    [] t = "verx" -> VxApply(r, S)
Exec(t, a, r, S, L) == CASE t = "kv" -> KvExec(a, r, S, L) [] t = "ann" -> AnnExec(a, r, S, L) [] t = "lm" -> LmExec(a, r, S, L)
                         [] t = "ver" -> VerExec(a, r, S, L) [] t = "nj" -> NjExec(a, r, S, L) [] t = "nl" -> NlExec(a, r, S, L)
                         [] t = "mut" -> MutExec(a, r, S, L) [] t = "cli" -> CliExec(a, r, S, L)
                         [] t = "mcli" -> McExec(a, r, S, L) [] t = "vox" -> VoxExec(a, r, S, L) [] t = "annsync" -> AsExec(a, r, S, L) [] t = "wc" -> WcExec(a, r, S, L)
                         [] t = "verx" -> VxExec(a, r, S, L)
Prog(t, r) == CASE t = "kv" -> KvProg(r) [] t = "ann" -> AnnProg(r) [] t = "lm" -> LmProg(r) [] t = "ver" -> VerProg(r)
                [] t = "nj" -> NjProg(r) [] t = "nl" -> NlProg(r) [] t = "mut" -> MutProg(r) [] t = "cli" -> CliProg(r)
                [] t = "mcli" -> McProg(r) [] t = "vox" -> VoxProg(r) [] t = "annsync" -> AsProg(r) [] t = "wc" -> WcProg(r)
                [] t = "verx" -> VxProg(r)
Obs(t, S) == CASE t = "kv" -> KvObs(S) [] t = "ann" -> AnnObs(S) [] t = "lm" -> LmObs(S) [] t = "ver" -> VerObs(S)
               [] t = "nj" -> NjObs(S) [] t = "nl" -> NlObs(S) [] t = "mut" -> MutObs(S) [] t = "cli" -> CliObs(S)
               [] t = "mcli" -> McObs(S) [] t = "vox" -> VoxObs(S) [] t = "annsync" -> AsObs(S) [] t = "wc" -> WcObs(S)
               [] t = "verx" -> VxObs(S)
\* locks an atomic step needs (instruction "dolk"): taken and released within the step
DynLocks(t, a, r, S, L) == IF t = "vox" THEN VoxDynLocks(a, r, S, L) ELSE {}
\* the full read set of the final state, for templates that have one (compared through lmm.Compare)
LmObsOf(t, S) == IF t = "vox" THEN VoxLmObs(S) ELSE <<>>

-----------------------------------------------------------------------------
(* Atomic (serial) executions. *)
RECURSIVE ApplySeq(_, _, _, _)
ApplySeq(t, R, order, S) == IF order = <<>> THEN S ELSE ApplySeq(t, R, Tail(order), Apply(t, R[Head(order)], S).st)
\* which requests are accepted, and what they return, in a serial execution
RECURSIVE SerialTrace(_, _, _, _)
SerialTrace(t, R, order, S) ==
    IF order = <<>> THEN <<>>
    ELSE LET x == Apply(t, R[Head(order)], S) IN
         << [p |-> Head(order), ok |-> x.ok, ret |-> x.loc] >> \o SerialTrace(t, R, Tail(order), x.st)
PermsOf(T) == {s \in [1..Cardinality(T) -> T] : \A i, j \in 1..Cardinality(T) : i # j => s[i] # s[j]}
SerialFinals(t, R, T, S) == {Obs(t, ApplySeq(t, R, s, S)) : s \in PermsOf(T)}

Procs == DOMAIN rq
AllDone == \A p \in Procs : mode[p] = "done"
Accepted == {p \in Procs : res[p] = "ok"}

\* Property C11 on the model: all acknowledged => some sequential order explains the state.
Inv_C11_Serializable ==
    (AllDone /\ Accepted = Procs) => Obs(tpl, st) \in SerialFinals(tpl, rq, Procs, pre)
\* weaker reading used for diagnostics when some request was refused: the acknowledged requests
\* plus any subset of the refused ones, applied atomically in some order
Explained == \E T \in SUBSET Procs : Accepted \subseteq T /\ Obs(tpl, st) \in SerialFinals(tpl, rq, T, pre)
\* "no derived index disagrees with its primary data": the stored body indices are the voxel counts
Inv_C11_IndexMatchesVoxels == (tpl = "vox" /\ AllDone /\ Accepted = Procs) => st.idx = VoxDerived(st.sv, st.mp)
\* Property C02 on the model: whoever saw the version committed saw its final content
Inv_C02_CommittedFrozen ==
    (tpl = "wc" /\ AllDone) => \A x \in st.seen : x.c => (x.v = st.val /\ x.d = st.der)
\* Property C12 (concurrent allocation): identifiers handed out are pairwise distinct
Inv_C12_Unique ==
    /\ tpl = "nl"  => \A x, y \in st.rets : x.who # y.who => (x.e < y.b \/ y.e < x.b)
    /\ tpl = "mut" => \A x, y \in st.rets : x.who # y.who => x.id # y.id
    /\ tpl = "lm"  => \A p, q \in Procs : (p # q /\ "new" \in DOMAIN loc[p] /\ "new" \in DOMAIN loc[q]) => loc[p].new # loc[q].new

-----------------------------------------------------------------------------
(* Interpreter and gate scheduler. *)
P(p) == Prog(tpl, rq[p])
Instr(p) == P(p)[pc[p]]
HeldByOther(L, p) == \E l \in L : \E q \in Procs \ {p} : <<l, q>> \in lk
CanStep(p) == /\ mode[p] = "run"
              /\ Instr(p).i = "acq" => ~HeldByOther(Instr(p).l, p)
              /\ Instr(p).i = "dolk" => ~HeldByOther(DynLocks(tpl, Instr(p).a, rq[p], st, loc[p]), p)
ModeAt(p, k) == IF k > Len(P(p)) THEN "done" ELSE IF P(p)[k].i = "gate" THEN "parked" ELSE "run"
Advance(p) ==
    /\ pc' = [pc EXCEPT ![p] = pc[p] + 1]
    /\ mode' = [mode EXCEPT ![p] = ModeAt(p, pc[p] + 1)]
    /\ res' = [res EXCEPT ![p] = IF pc[p] + 1 > Len(P(p)) THEN "ok" ELSE @]

Pass(p) ==
    /\ mode[p] = "parked"
    /\ GateGrain => \A q \in Procs : ~CanStep(q)
    /\ sched' = Append(sched, p)
    /\ Advance(p)
    /\ UNCHANGED <<tpl, rq, pre, st, loc, lk>>

Step(p) ==
    /\ CanStep(p)
    /\ LET ins == Instr(p) IN
       CASE ins.i = "acq" -> /\ lk' = lk \cup {<<l, p>> : l \in ins.l}
                             /\ Advance(p) /\ UNCHANGED <<st, loc>>
         [] ins.i = "rel" -> /\ lk' = lk \ {<<l, p>> : l \in ins.l}
                             /\ Advance(p) /\ UNCHANGED <<st, loc>>
         [] ins.i \in {"do", "dolk"} -> LET x == Exec(tpl, ins.a, rq[p], st, loc[p]) IN
                             /\ st' = x.st
                             /\ loc' = [loc EXCEPT ![p] = x.loc]
                             /\ IF x.ok THEN Advance(p) /\ UNCHANGED lk
                                ELSE \* refused: deferred unlocks run, the request returns an error
                                     /\ lk' = {h \in lk : h[2] # p}
                                     /\ mode' = [mode EXCEPT ![p] = "done"]
                                     /\ res' = [res EXCEPT ![p] = "fail"]
                                     /\ UNCHANGED pc
    /\ UNCHANGED <<tpl, rq, pre, sched>>

Finished == AllDone /\ UNCHANGED vars

Next == (\E p \in Procs : Pass(p) \/ Step(p)) \/ Finished

\* catalog index tuples, nondecreasing (requests are symmetric up to `who`)
Tuples(t, n) == {s \in [1..n -> 1..Len(Catalog(t))] : \A i \in 1..(n - 1) : s[i] <= s[i + 1]}
Wanted(t, s) == Only = {} \/ <<t, s>> \in Only

InitProcs(n) ==
    /\ pc = [p \in 1..n |-> 1]
    /\ loc = [p \in 1..n |-> [z |-> 0]]
    /\ lk = {}
    /\ mode = [p \in 1..n |-> "parked"]
    /\ res = [p \in 1..n |-> "none"]
    /\ sched = <<>>

Init ==
    /\ tpl \in Tpls
    /\ \E s \in Tuples(tpl, NProc) :
          /\ Wanted(tpl, s)
          /\ rq = [p \in 1..NProc |-> [Catalog(tpl)[s[p]] EXCEPT !.who = p]]
    /\ pre \in PreStates(tpl, NProc)
    /\ st = pre
    /\ InitProcs(NProc)

Spec == Init /\ [][Next]_vars

\* no request holds a lock when it is done, and nobody waits forever (deadlock check is on)
Inv_LocksReleased == AllDone => lk = {}

-----------------------------------------------------------------------------
(* Emission (Emit = TRUE): one line per case (initial state) with the serial *)
(* outcomes, one line per terminal state with the schedule.                  *)
CaseKey == [tpl |-> tpl, rq |-> rq, pre |-> Obs(tpl, pre)]
EmitInv ==
    /\ (Emit /\ sched = <<>> /\ \A p \in Procs : pc[p] = 1) =>
         PrintT(ToJson([type |-> "case", key |-> CaseKey,
                        tuple |-> [p \in Procs |-> CHOOSE i \in 1..Len(Catalog(tpl)) : [Catalog(tpl)[i] EXCEPT !.who = p] = rq[p]],
                        progs |-> [p \in Procs |-> [j \in 1..Len(P(p)) |-> IF P(p)[j].i = "gate" THEN P(p)[j].site ELSE IF P(p)[j].i = "dolk" THEN "do" ELSE P(p)[j].i]],
                        serial |-> {[t |-> T, finals |-> SerialFinals(tpl, rq, T, pre)] : T \in SUBSET Procs},
                        lm |-> IF LmObsOf(tpl, pre) = <<>> THEN {}
                               ELSE {[f |-> Obs(tpl, F), lm |-> LmObsOf(tpl, F)] : F \in {ApplySeq(tpl, rq, o, pre) : o \in PermsOf(Procs)}}]))
    /\ (Emit /\ AllDone) =>
         PrintT(ToJson([type |-> "end", key |-> CaseKey, sched |-> sched, accepted |-> Accepted,
                        final |-> Obs(tpl, st),
                        serializable |-> (Obs(tpl, st) \in SerialFinals(tpl, rq, Procs, pre)),
                        explained |-> Explained]))

-----------------------------------------------------------------------------
(* Burst mode: cases recorded from ungated concurrent runs.  A case gives the *)
(* requests (with the identifiers the server returned) and candidate serial   *)
(* orders; TLC computes, for every order, the final observation and the       *)
(* accept/return of every request.  Nothing is explored.                      *)
BurstPre(c) == IF c.tpl = "lm" THEN LmPreOf(c.nsv, c.nlab) ELSE PreSeq(c.tpl, c.n)[c.pre]
BurstOrders(c) == IF c.all THEN PermsOf(1..c.n) ELSE {c.orders[i] : i \in 1..Len(c.orders)}
BurstOne(c, o) ==
    LET tr == SerialTrace(c.tpl, c.rq, o, BurstPre(c))
        oks == {j \in 1..Len(tr) : tr[j].ok} IN
    [final |-> Obs(c.tpl, ApplySeq(c.tpl, c.rq, o, BurstPre(c))),
     acc   |-> {tr[j].p : j \in oks},
     rets  |-> {[p |-> tr[j].p, ret |-> tr[j].ret] : j \in {i \in oks : DOMAIN tr[i].ret # {}}}]
BurstOut(c) == {BurstOne(c, o) : o \in BurstOrders(c)}
BurstInit == tpl = "none" /\ rq = <<>> /\ pre = 0 /\ st = 0 /\ InitProcs(0)
BurstNext == UNCHANGED vars
EmitBursts == PrintT(ToJson([type |-> "bursts", out |-> [i \in 1..Len(Bursts) |-> BurstOut(Bursts[i])]]))
=============================================================================
