---------------------------- MODULE Concurrency ----------------------------
(***************************************************************************)
(* Critical sections of DVID's mutation requests (properties C11, C12).    *)
(*                                                                         *)
(* One process template per request kind, written as a PROGRAM: a sequence *)
(* of instructions at the grain of the code                                *)
(*     gate(site)   a dvid.VerifPoint call site ("start" = request entry)  *)
(*     acq(L)/rel(L) lock / unlock of the mutexes named in L               *)
(*     do(a)        one shared read, one shared write (a batch commit is   *)
(*                  one write), or a validation that may refuse            *)
(* Every template has two programs: the INTENDED locking (every            *)
(* read-modify-write covered by the lock the design names) and the locking *)
(* the CODE has today.  The atomic semantics of a request (Apply) is the   *)
(* sequential meaning of the endpoint; Inv_C11_Serializable says that when *)
(* all requests were acknowledged the final state is the result of Apply   *)
(* in some order.                                                          *)
(*                                                                         *)
(* Scheduling: every request starts parked at its "start" gate.  Pass(p)   *)
(* lets p run past the gate it is parked at; with GateGrain = TRUE a gate  *)
(* is opened only when no other request can move (all others parked, done  *)
(* or blocked on a lock) — exactly what the gate scheduler of the harness  *)
(* can force on the real server; `sched` (the order of Pass steps) is the  *)
(* schedule handed to it.  With GateGrain = FALSE every interleaving of    *)
(* the instructions is explored.                                           *)
(*                                                                         *)
(* Templates (tpl): kv, ann, lm, ver, nj, nl, mut, cli.                     *)
(* Observations (Obs) only use records, sets, integers and strings so that *)
(* their JSON form can be compared order-insensitively.                    *)
(***************************************************************************)
EXTENDS Integers, Sequences, FiniteSets, TLC, Json

CONSTANTS Tpls,       \* set of template names explored
          NProc,      \* number of concurrent requests (explore mode)
          Locking,    \* "intended" | "code"
          GateGrain,  \* BOOLEAN
          Emit,       \* BOOLEAN: print cases and terminal states as JSON
          Only,       \* set of <<tpl, catalog index tuple>> to explore ({} = all)
          Bursts      \* sequence of burst cases [tpl, n, rq, orders] (burst mode; <<>> = explore mode)

VARIABLES tpl, rq, pre, st, pc, loc, lk, mode, res, sched
vars == <<tpl, rq, pre, st, pc, loc, lk, mode, res, sched>>

Gate(s) == [i |-> "gate", site |-> s]
Acq(L)  == [i |-> "acq", l |-> L]
Rel(L)  == [i |-> "rel", l |-> L]
Do(a)   == [i |-> "do", a |-> a]
Upd(L, new) == new @@ L
Out(S, L, ok) == [st |-> S, loc |-> L, ok |-> ok]
Max(a, b) == IF a > b THEN a ELSE b
RECURSIVE SumSeq(_)
SumSeq(s) == IF s = <<>> THEN 0 ELSE Head(s) + SumSeq(Tail(s))

-----------------------------------------------------------------------------
(* kv: POST / DELETE key/<k> of a keyvalue instance: one store transaction. *)
KvCatalog == << [k |-> "put", who |-> 0], [k |-> "del", who |-> 0] >>
KvPre == << [k |-> 0], [k |-> 9] >>
KvApply(r, S) == Out([k |-> IF r.k = "put" THEN 10 + r.who ELSE 0], <<>>, TRUE)
KvExec(a, r, S, L) == Out(KvApply(r, S).st, L, TRUE)
KvProg(r) == << Gate("start"), Do("w") >>
KvObs(S) == [k |-> S.k]

-----------------------------------------------------------------------------
(* ann: annotation elements.  Element = [pos, tags, val]; block lists blk   *)
(* (primary) and tag lists tg (derived) are rewritten whole by every edit.  *)
BlockOf(pos) == (pos \div 100) + 1
AnnBlocks == {1, 2}
AnnTags == {1, 2}
E1 == [pos |-> 1, tags |-> {1}, val |-> 0]
E2 == [pos |-> 2, tags |-> {1, 2}, val |-> 0]
E3 == [pos |-> 104, tags |-> {2}, val |-> 0]
AnnPre == << [blk |-> [b \in AnnBlocks |-> IF b = 1 THEN {E1, E2} ELSE {E3}],
             tg  |-> [t \in AnnTags |-> {e \in {E1, E2, E3} : t \in e.tags}]] >>
AnnCatalog == <<
   [k |-> "post", elems |-> {[pos |-> 3, tags |-> {1}]}, who |-> 0],
   [k |-> "post", elems |-> {[pos |-> 6, tags |-> {1, 2}], [pos |-> 108, tags |-> {2}]}, who |-> 0],
   [k |-> "post", elems |-> {[pos |-> 1, tags |-> {1}]}, who |-> 0],
   [k |-> "del",  pos |-> 1, who |-> 0],
   [k |-> "del",  pos |-> 2, who |-> 0],
   [k |-> "move", from |-> 1, to |-> 7, who |-> 0],
   [k |-> "move", from |-> 2, to |-> 105, who |-> 0],
   [k |-> "del",  pos |-> 104, who |-> 0] >>

ElemAt(S, pos) == {e \in S : e.pos = pos}
AddElems(S, E) == {e \in S : ~\E n \in E : n.pos = e.pos} \cup E
PostElems(r) == {[pos |-> x.pos, tags |-> x.tags, val |-> r.who] : x \in r.elems}
AddT(E, t) == {e \in E : t \in e.tags}
EraseT(E, cur, t) == {x.pos : x \in {y \in E : \E c \in cur[BlockOf(y.pos)] : c.pos = y.pos /\ t \in c.tags /\ t \notin y.tags}}
DeltaTags(E, cur) == {t \in AnnTags : AddT(E, t) # {} \/ EraseT(E, cur, t) # {}}
\* the three reads of StoreElements: cur1 (tag delta), cur2 (block lists), curT (tag lists)
PostWrite(S, E, cur1, cur2, curT) ==
    [blk |-> [b \in AnnBlocks |-> IF \E e \in E : BlockOf(e.pos) = b
                                   THEN AddElems(cur2[b], {e \in E : BlockOf(e.pos) = b}) ELSE S.blk[b]],
     tg  |-> [t \in AnnTags |-> IF t \in DeltaTags(E, cur1)
                                 THEN {x \in AddElems(curT[t], AddT(E, t)) : x.pos \notin EraseT(E, cur1, t)}
                                 ELSE S.tg[t]]]
DelBlk(S, b, cur, e) == [S EXCEPT !.blk[b] = cur \ {e}]
DelTags(S, e, curT) ==
    [S EXCEPT !.tg = [t \in AnnTags |-> IF t \in e.tags /\ ElemAt(curT[t], e.pos) # {}
                                         THEN {x \in curT[t] : x.pos # e.pos} ELSE S.tg[t]]]
MoveBlk(S, e, to, curF, curTo) ==
    LET bf == BlockOf(e.pos)  bt == BlockOf(to)  e2 == [e EXCEPT !.pos = to] IN
    IF bf = bt THEN [S EXCEPT !.blk[bf] = (curF \ {e}) \cup {e2}]
    ELSE [S EXCEPT !.blk[bf] = curF \ {e}, !.blk[bt] = AddElems(curTo, {e2})]
MoveTags(S, e, to, curT) ==
    [S EXCEPT !.tg = [t \in AnnTags |-> IF t \in e.tags /\ ElemAt(curT[t], e.pos) # {}
                                         THEN {IF x.pos = e.pos THEN [x EXCEPT !.pos = to] ELSE x : x \in curT[t]}
                                         ELSE S.tg[t]]]
AnnApply(r, S) ==
    CASE r.k = "post" -> Out(PostWrite(S, PostElems(r), S.blk, S.blk, S.tg), <<>>, TRUE)
      [] r.k = "del"  -> LET b == BlockOf(r.pos) IN
                         IF ElemAt(S.blk[b], r.pos) = {} THEN Out(S, <<>>, FALSE)
                         ELSE LET e == CHOOSE x \in ElemAt(S.blk[b], r.pos) : TRUE
                                  S1 == DelBlk(S, b, S.blk[b], e) IN Out(DelTags(S1, e, S1.tg), <<>>, TRUE)
      [] r.k = "move" -> LET b == BlockOf(r.from) IN
                         IF ElemAt(S.blk[b], r.from) = {} THEN Out(S, <<>>, FALSE)
                         ELSE LET e == CHOOSE x \in ElemAt(S.blk[b], r.from) : TRUE
                                  S1 == MoveBlk(S, e, r.to, S.blk[b], S.blk[BlockOf(r.to)]) IN
                              Out(MoveTags(S1, e, r.to, S1.tg), <<>>, TRUE)
AnnExec(a, r, S, L) ==
    CASE a = "p_rd1" -> Out(S, Upd(L, [cur1 |-> S.blk]), TRUE)
      [] a = "p_rd2" -> Out(S, Upd(L, [cur2 |-> S.blk]), TRUE)
      [] a = "p_rdT" -> Out(S, Upd(L, [curT |-> S.tg]), TRUE)
      [] a = "p_wr"  -> Out(PostWrite(S, PostElems(r), L.cur1, L.cur2, L.curT), L, TRUE)
      [] a = "d_rd"  -> LET cur == S.blk[BlockOf(r.pos)] IN
                        IF ElemAt(cur, r.pos) = {} THEN Out(S, L, FALSE)
                        ELSE Out(S, Upd(L, [cur |-> cur, e |-> CHOOSE x \in ElemAt(cur, r.pos) : TRUE]), TRUE)
      [] a = "d_wrB" -> Out(DelBlk(S, BlockOf(r.pos), L.cur, L.e), L, TRUE)
      [] a = "d_rdT" -> Out(S, Upd(L, [curT |-> S.tg]), TRUE)
      [] a = "d_wrT" -> Out(DelTags(S, L.e, L.curT), L, TRUE)
      [] a = "m_rd"  -> LET cur == S.blk[BlockOf(r.from)] IN
                        IF ElemAt(cur, r.from) = {} THEN Out(S, L, FALSE)
                        ELSE Out(S, Upd(L, [curF |-> cur, curTo |-> S.blk[BlockOf(r.to)],
                                            e |-> CHOOSE x \in ElemAt(cur, r.from) : TRUE]), TRUE)
      [] a = "m_wrB" -> Out(MoveBlk(S, L.e, r.to, L.curF, L.curTo), L, TRUE)
      [] a = "m_rdT" -> Out(S, Upd(L, [curT |-> S.tg]), TRUE)
      [] a = "m_wrT" -> Out(MoveTags(S, L.e, r.to, L.curT), L, TRUE)
AnnBody(r) ==
    CASE r.k = "post" -> << Do("p_rd1"), Do("p_rd2"), Do("p_rdT"), Gate("annotation.StoreElements"), Do("p_wr") >>
      [] r.k = "del"  -> << Do("d_rd"), Gate("annotation.DeleteElement"), Do("d_wrB"), Do("d_rdT"),
                            Gate("annotation.DeleteElement.commit"), Do("d_wrT") >>
      [] r.k = "move" -> << Do("m_rd"), Gate("annotation.MoveElement"), Do("m_wrB"), Do("m_rdT"),
                            Gate("annotation.MoveElement.tags"), Do("m_wrT") >>
\* intended = code since the fix "annotation serializes element edits" (Data.editMu); before it the
\* instance lock was commented out around the three edits: << Gate("start") >> \o AnnBody(r)
AnnProg(r) == << Gate("start"), Acq({"ann.editMu"}) >> \o AnnBody(r) \o << Rel({"ann.editMu"}) >>
AnnObs(S) == [blk |-> {[b |-> b, e |-> S.blk[b]] : b \in AnnBlocks},
              tg  |-> {[t |-> t, e |-> S.tg[t]] : t \in AnnTags}]

-----------------------------------------------------------------------------
(* lm: labelmap body indices idx (label -> supervoxels), mapping mp         *)
(* (supervoxel -> label), label counter nxt.                                *)
LmNSV(S) == Cardinality(DOMAIN S.mp)
LmPreOf(nsv, nlab) ==
    [idx |-> [l \in 1..nlab |-> IF l = 1 THEN {1, 2, 3} ELSE IF l \in 4..nsv THEN {l} ELSE {}],
     mp  |-> [s \in 1..nsv |-> IF s \in {2, 3} THEN 1 ELSE s],
     nxt |-> nsv]
LmCatalog == <<
   [k |-> "merge", t |-> 1, m |-> {4}, who |-> 0],
   [k |-> "merge", t |-> 1, m |-> {5}, who |-> 0],
   [k |-> "merge", t |-> 4, m |-> {5}, who |-> 0],
   [k |-> "cleave", b |-> 1, s |-> {2}, who |-> 0],
   [k |-> "cleave", b |-> 1, s |-> {3}, who |-> 0],
   [k |-> "cleave", b |-> 1, s |-> {2, 3}, who |-> 0],
   [k |-> "merge", t |-> 5, m |-> {4}, who |-> 0] >>
IdxLock(l) == "idx" \o ToString(l)
MergedSVs(im, M) == UNION {im[m] : m \in M}
MergeMap(S, r, im) == [S EXCEPT !.mp = [s \in DOMAIN S.mp |-> IF s \in MergedSVs(im, r.m) THEN r.t ELSE S.mp[s]]]
MergeTarget(S, r, it, im) == [S EXCEPT !.idx[r.t] = it \cup MergedSVs(im, r.m)]
MergeDel(S, r) == [S EXCEPT !.idx = [l \in DOMAIN S.idx |-> IF l \in r.m THEN {} ELSE S.idx[l]]]
CleaveOK(ib, r) == ib # {} /\ r.s \subseteq ib /\ ib \ r.s # {}
CleaveIdx(S, r, ib, new) == [S EXCEPT !.idx[new] = r.s, !.idx[r.b] = ib \ r.s]
CleaveMap(S, r, new) == [S EXCEPT !.mp = [s \in DOMAIN S.mp |-> IF s \in r.s THEN new ELSE S.mp[s]]]
LmApply(r, S) ==
    CASE r.k = "merge" ->
           IF (\E m \in r.m : S.idx[m] = {}) \/ S.idx[r.t] = {} THEN Out(S, <<>>, FALSE)
           ELSE LET im == [m \in r.m |-> S.idx[m]] IN
                Out(MergeDel(MergeTarget(MergeMap(S, r, im), r, S.idx[r.t], im), r), <<>>, TRUE)
      [] r.k = "cleave" ->
           \* the label is allocated before the request is validated
           LET new == S.nxt + 1  S1 == [S EXCEPT !.nxt = new] IN
           IF ~CleaveOK(S.idx[r.b], r) THEN Out(S1, [new |-> new], FALSE)
           ELSE Out(CleaveMap(CleaveIdx(S1, r, S.idx[r.b], new), r, new), [new |-> new], TRUE)
LmExec(a, r, S, L) ==
    CASE a = "g_rdM" -> IF \E m \in r.m : S.idx[m] = {} THEN Out(S, L, FALSE)
                        ELSE Out(S, Upd(L, [im |-> [m \in r.m |-> S.idx[m]]]), TRUE)
      [] a = "g_rdT" -> IF S.idx[r.t] = {} THEN Out(S, L, FALSE) ELSE Out(S, Upd(L, [it |-> S.idx[r.t]]), TRUE)
      [] a = "g_wrMap" -> Out(MergeMap(S, r, L.im), L, TRUE)
      [] a = "g_wrT" -> Out(MergeTarget(S, r, L.it, L.im), L, TRUE)
      [] a = "g_delM" -> Out(MergeDel(S, r), L, TRUE)
      [] a = "c_inc" -> Out([S EXCEPT !.nxt = S.nxt + 1], Upd(L, [new |-> S.nxt + 1]), TRUE)
      [] a = "c_rd"  -> IF ~CleaveOK(S.idx[r.b], r) THEN Out(S, L, FALSE) ELSE Out(S, Upd(L, [ib |-> S.idx[r.b]]), TRUE)
      [] a = "c_wr"  -> Out(CleaveIdx(S, r, L.ib, L.new), L, TRUE)
      [] a = "c_wrMap" -> Out(CleaveMap(S, r, L.new), L, TRUE)
LmProg(r) ==
    CASE r.k = "merge" ->
           \* intended: the index locks of every label read or written cover the read-modify-write.
           \* code: target and merged indices are read under short shard read locks and written back
           \* under the shard lock again (single steps here); since the fix "labelmap serializes body
           \* mutations" the instance-wide Data.bodyMutMu covers the whole sequence (before it:
           \* no covering lock — merge||merge and merge||cleave lost index updates).
           IF Locking = "intended"
           THEN << Gate("start"), Acq({IdxLock(l) : l \in r.m \cup {r.t}}), Do("g_rdM"), Do("g_rdT"),
                   Gate("labelmap.MergeLabels"), Do("g_wrMap"), Do("g_wrT"), Do("g_delM"),
                   Rel({IdxLock(l) : l \in r.m \cup {r.t}}) >>
           ELSE << Gate("start"), Acq({"lm.bodyMutMu"}), Do("g_rdM"), Do("g_rdT"), Gate("labelmap.MergeLabels"),
                   Do("g_wrMap"), Do("g_wrT"), Do("g_delM"), Rel({"lm.bodyMutMu"}) >>
      [] r.k = "cleave" ->
           IF Locking = "intended"
           THEN << Gate("start"), Acq({"mlMu"}), Do("c_inc"), Gate("labelmap.newLabel"), Rel({"mlMu"}),
                   Acq({IdxLock(r.b)}), Do("c_rd"), Gate("labelmap.cleaveIndex"), Do("c_wr"), Do("c_wrMap"), Rel({IdxLock(r.b)}) >>
           ELSE << Gate("start"), Acq({"mlMu"}), Do("c_inc"), Gate("labelmap.newLabel"), Rel({"mlMu"}),
                   Acq({"lm.bodyMutMu"}), Acq({IdxLock(r.b)}), Do("c_rd"), Gate("labelmap.cleaveIndex"), Do("c_wr"),
                   Rel({IdxLock(r.b)}), Do("c_wrMap"), Rel({"lm.bodyMutMu"}) >>
LmObs(S) == [idx |-> {[l |-> l, s |-> S.idx[l]] : l \in {x \in DOMAIN S.idx : S.idx[x] # {}}},
             mp  |-> {[s |-> s, l |-> S.mp[s]] : s \in DOMAIN S.mp},
             nxt |-> S.nxt]

-----------------------------------------------------------------------------
(* ver: children of one committed parent, per branch name ("" = the         *)
(* parent's own branch).  At most one child per branch.                     *)
VerBranches == {""} \cup {"b" \o ToString(i) : i \in 1..8}
VerPre == << [kids |-> [b \in VerBranches |-> 0]] >>
VerCatalog == << [k |-> "newversion", b |-> "", who |-> 0], [k |-> "branch", b |-> "b1", who |-> 0],
                 [k |-> "branch", b |-> "b2", who |-> 0] >>
\* k = "log" (bursts only): POST repo log — another writer of the repo metadata, no effect on the children
VerApply(r, S) == IF r.k = "log" THEN Out(S, <<>>, TRUE)
                  ELSE IF S.kids[r.b] > 0 THEN Out(S, <<>>, FALSE) ELSE Out([S EXCEPT !.kids[r.b] = @ + 1], <<>>, TRUE)
VerExec(a, r, S, L) ==
    CASE a = "v_chk" -> Out(S, L, S.kids[r.b] = 0)
      [] a = "v_add" -> Out([S EXCEPT !.kids[r.b] = @ + 1], L, TRUE)
\* intended = code since the fix "serialize version creation" (repoManager.newVersionMutex); before it
\* the parent node was only read-locked (shared) between the sibling check and the append:
\* << Gate("start"), Do("v_chk"), Gate("datastore.newVersion"), Do("v_add") >>
VerProg(r) == << Gate("start"), Acq({"newVersionMutex"}), Do("v_chk"), Gate("datastore.newVersion"), Do("v_add"), Rel({"newVersionMutex"}) >>
VerObs(S) == [kids |-> {[b |-> b, n |-> S.kids[b]] : b \in {x \in VerBranches : S.kids[x] > 0}}]

-----------------------------------------------------------------------------
(* nj: one neuronjson annotation: fields -> [v, u] (v = 0: field absent),   *)
(* kept in the store and in the in-memory head database.                    *)
NjFields == {"a", "b", "c", "d", "e", "f", "g", "h"}
NjNone == [ex |-> FALSE, f |-> [x \in NjFields |-> [v |-> 0, u |-> 0]]]
NjSeed == [ex |-> TRUE, f |-> [x \in NjFields |-> IF x = "a" THEN [v |-> 9, u |-> 0] ELSE [v |-> 0, u |-> 0]]]
NjPre == << [store |-> NjNone, mem |-> NjNone], [store |-> NjSeed, mem |-> NjSeed] >>
\* f[x] = 9: the seeded value again (unchanged value keeps its user); otherwise base value + who
NjCatalog == << [k |-> "upd", f |-> [a |-> 10], who |-> 0], [k |-> "upd", f |-> [b |-> 20], who |-> 0],
                [k |-> "upd", f |-> [a |-> 9], who |-> 0], [k |-> "upd", f |-> [a |-> 10, b |-> 20], who |-> 0] >>
NjVal(r, x) == IF r.f[x] = 9 THEN 9 ELSE r.f[x] + r.who
NjMerge(orig, r) ==
    [ex |-> TRUE, f |-> [x \in NjFields |-> IF x \in DOMAIN r.f /\ orig.f[x].v # NjVal(r, x)
                                             THEN [v |-> NjVal(r, x), u |-> r.who] ELSE orig.f[x]]]
NjApply(r, S) == Out([store |-> NjMerge(S.store, r), mem |-> NjMerge(S.store, r)], <<>>, TRUE)
NjExec(a, r, S, L) ==
    CASE a = "n_rd" -> Out(S, Upd(L, [orig |-> S.store]), TRUE)
      [] a = "n_wrMem" -> Out([S EXCEPT !.mem = NjMerge(L.orig, r)], L, TRUE)
      [] a = "n_wrStore" -> Out([S EXCEPT !.store = NjMerge(L.orig, r)], L, TRUE)
\* intended = code since the fix "neuronjson serializes the read-merge-write" (Data.updateMu); before it
\* only the in-memory write was under the memdb mutex:
\* << Gate("start"), Do("n_rd"), Gate("neuronjson.storeAndUpdate"), Do("n_wrMem"), Do("n_wrStore") >>
NjProg(r) == << Gate("start"), Acq({"nj.updateMu"}), Do("n_rd"), Gate("neuronjson.storeAndUpdate"), Do("n_wrMem"), Do("n_wrStore"), Rel({"nj.updateMu"}) >>
NjAnnObs(A) == [ex |-> A.ex, f |-> {[x |-> x, v |-> A.f[x].v, u |-> A.f[x].u] : x \in {y \in NjFields : A.f[y].v # 0}}]
NjObs(S) == [store |-> NjAnnObs(S.store), mem |-> NjAnnObs(S.mem)]

-----------------------------------------------------------------------------
(* nl: POST nextlabel/<n>: a contiguous fresh range (C12).                  *)
NlPre == << [max |-> 5, rets |-> {}] >>
NlCatalog == << [k |-> "next", n |-> 1, who |-> 0], [k |-> "next", n |-> 2, who |-> 0] >>
NlApply(r, S) == Out([max |-> S.max + r.n, rets |-> S.rets \cup {[who |-> r.who, b |-> S.max + 1, e |-> S.max + r.n]}],
                     [b |-> S.max + 1, e |-> S.max + r.n], TRUE)
NlExec(a, r, S, L) ==
    CASE a = "l_rd"  -> Out(S, Upd(L, [b |-> S.max + 1, e |-> S.max + r.n]), TRUE)
      [] a = "l_wr"  -> Out([S EXCEPT !.max = L.e], L, TRUE)
      [] a = "l_ret" -> Out([S EXCEPT !.rets = @ \cup {[who |-> r.who, b |-> L.b, e |-> L.e]}], L, TRUE)
\* begin/end are computed from the counter, the site sits before the counter is set to end
NlProg(r) == << Gate("start"), Acq({"mlMu"}), Do("l_rd"), Gate("labelmap.newLabels"), Do("l_wr"), Rel({"mlMu"}), Do("l_ret") >>
NlObs(S) == [max |-> S.max, rets |-> {[b |-> x.b, e |-> x.e] : x \in S.rets}, nret |-> Cardinality(S.rets)]

(* mut: the repo's mutation id counter, taken by every merge / cleave (C12). *)
MutPre == << [cur |-> 0, rets |-> {}] >>
MutCatalog == << [k |-> "mut", who |-> 0] >>
MutApply(r, S) == Out([cur |-> S.cur + 1, rets |-> S.rets \cup {[who |-> r.who, id |-> S.cur]}], [id |-> S.cur], TRUE)
MutExec(a, r, S, L) ==
    CASE a = "u_rd"  -> Out(S, Upd(L, [id |-> S.cur]), TRUE)
      [] a = "u_inc" -> Out([S EXCEPT !.cur = S.cur + 1], L, TRUE)
      [] a = "u_ret" -> Out([S EXCEPT !.rets = @ \cup {[who |-> r.who, id |-> L.id]}], L, TRUE)
\* the id is read, the site sits before the increment
MutProg(r) == << Gate("start"), Acq({"mutMu"}), Do("u_rd"), Gate("datastore.newMutationID"), Do("u_inc"), Rel({"mutMu"}), Do("u_ret") >>
MutObs(S) == [cur |-> S.cur, rets |-> {x.id : x \in S.rets}, nret |-> Cardinality(S.rets)]

(* cli: labelmap.ChangeLabelIndex — the per-block voxel counts of one body index, changed by  *)
(* deltas from voxel writes (block "A": already in the index, "B": not yet).                 *)
CliBlocks == {"A", "B"}
CliPre == << [cnt |-> [b \in CliBlocks |-> IF b = "A" THEN 4096 ELSE 0]] >>
CliCatalog == << [k |-> "delta", b |-> "A", n |-> 7, who |-> 0], [k |-> "delta", b |-> "B", n |-> 5, who |-> 0],
                 [k |-> "delta", b |-> "A", n |-> -3, who |-> 0] >>
CliApply(r, S) == IF S.cnt[r.b] + r.n < 0 THEN Out(S, <<>>, FALSE) ELSE Out([S EXCEPT !.cnt[r.b] = @ + r.n], <<>>, TRUE)
CliExec(a, r, S, L) ==
    CASE a = "i_rd" -> Out(S, Upd(L, [cur |-> S.cnt]), TRUE)
      [] a = "i_wr" -> IF L.cur[r.b] + r.n < 0 THEN Out(S, L, FALSE) ELSE Out([S EXCEPT !.cnt = [L.cur EXCEPT ![r.b] = @ + r.n]], L, TRUE)
\* the shard lock covers get .. put (intended = code)
CliProg(r) == << Gate("start"), Acq({"idxShard"}), Do("i_rd"), Gate("labelmap.ChangeLabelIndex"), Do("i_wr"), Rel({"idxShard"}) >>
CliObs(S) == [cnt |-> {[b |-> b, n |-> S.cnt[b]] : b \in {x \in CliBlocks : S.cnt[x] > 0}}]

-----------------------------------------------------------------------------
Catalog(t) == CASE t = "kv" -> KvCatalog [] t = "ann" -> AnnCatalog [] t = "lm" -> LmCatalog [] t = "ver" -> VerCatalog
                [] t = "nj" -> NjCatalog [] t = "nl" -> NlCatalog [] t = "mut" -> MutCatalog [] t = "cli" -> CliCatalog
PreSeq(t, n) == CASE t = "kv" -> KvPre [] t = "ann" -> AnnPre [] t = "lm" -> <<LmPreOf(5, 5 + n)>> [] t = "ver" -> VerPre
                  [] t = "nj" -> NjPre [] t = "nl" -> NlPre [] t = "mut" -> MutPre [] t = "cli" -> CliPre
PreStates(t, n) == {PreSeq(t, n)[i] : i \in 1..Len(PreSeq(t, n))}
Apply(t, r, S) == CASE t = "kv" -> KvApply(r, S) [] t = "ann" -> AnnApply(r, S) [] t = "lm" -> LmApply(r, S)
                    [] t = "ver" -> VerApply(r, S) [] t = "nj" -> NjApply(r, S) [] t = "nl" -> NlApply(r, S)
                    [] t = "mut" -> MutApply(r, S) [] t = "cli" -> CliApply(r, S)
Exec(t, a, r, S, L) == CASE t = "kv" -> KvExec(a, r, S, L) [] t = "ann" -> AnnExec(a, r, S, L) [] t = "lm" -> LmExec(a, r, S, L)
                         [] t = "ver" -> VerExec(a, r, S, L) [] t = "nj" -> NjExec(a, r, S, L) [] t = "nl" -> NlExec(a, r, S, L)
                         [] t = "mut" -> MutExec(a, r, S, L) [] t = "cli" -> CliExec(a, r, S, L)
Prog(t, r) == CASE t = "kv" -> KvProg(r) [] t = "ann" -> AnnProg(r) [] t = "lm" -> LmProg(r) [] t = "ver" -> VerProg(r)
                [] t = "nj" -> NjProg(r) [] t = "nl" -> NlProg(r) [] t = "mut" -> MutProg(r) [] t = "cli" -> CliProg(r)
Obs(t, S) == CASE t = "kv" -> KvObs(S) [] t = "ann" -> AnnObs(S) [] t = "lm" -> LmObs(S) [] t = "ver" -> VerObs(S)
               [] t = "nj" -> NjObs(S) [] t = "nl" -> NlObs(S) [] t = "mut" -> MutObs(S) [] t = "cli" -> CliObs(S)

-----------------------------------------------------------------------------
(* Atomic (serial) executions. *)
RECURSIVE ApplySeq(_, _, _, _)
ApplySeq(t, R, order, S) == IF order = <<>> THEN S ELSE ApplySeq(t, R, Tail(order), Apply(t, R[Head(order)], S).st)
\* which requests are accepted, and what they return, in a serial execution
RECURSIVE SerialTrace(_, _, _, _)
SerialTrace(t, R, order, S) ==
    IF order = <<>> THEN <<>>
    ELSE LET x == Apply(t, R[Head(order)], S) IN
         << [p |-> Head(order), ok |-> x.ok, ret |-> x.loc] >> \o SerialTrace(t, R, Tail(order), x.st)
PermsOf(T) == {s \in [1..Cardinality(T) -> T] : \A i, j \in 1..Cardinality(T) : i # j => s[i] # s[j]}
SerialFinals(t, R, T, S) == {Obs(t, ApplySeq(t, R, s, S)) : s \in PermsOf(T)}

Procs == DOMAIN rq
AllDone == \A p \in Procs : mode[p] = "done"
Accepted == {p \in Procs : res[p] = "ok"}

\* Property C11 on the model: all acknowledged => some sequential order explains the state.
Inv_C11_Serializable ==
    (AllDone /\ Accepted = Procs) => Obs(tpl, st) \in SerialFinals(tpl, rq, Procs, pre)
\* weaker reading used for diagnostics when some request was refused: the acknowledged requests
\* plus any subset of the refused ones, applied atomically in some order
Explained == \E T \in SUBSET Procs : Accepted \subseteq T /\ Obs(tpl, st) \in SerialFinals(tpl, rq, T, pre)
\* Property C12 (concurrent allocation): identifiers handed out are pairwise distinct
Inv_C12_Unique ==
    /\ tpl = "nl"  => \A x, y \in st.rets : x.who # y.who => (x.e < y.b \/ y.e < x.b)
    /\ tpl = "mut" => \A x, y \in st.rets : x.who # y.who => x.id # y.id
    /\ tpl = "lm"  => \A p, q \in Procs : (p # q /\ "new" \in DOMAIN loc[p] /\ "new" \in DOMAIN loc[q]) => loc[p].new # loc[q].new

-----------------------------------------------------------------------------
(* Interpreter and gate scheduler. *)
P(p) == Prog(tpl, rq[p])
Instr(p) == P(p)[pc[p]]
HeldByOther(L, p) == \E l \in L : \E q \in Procs \ {p} : <<l, q>> \in lk
CanStep(p) == mode[p] = "run" /\ (Instr(p).i = "acq" => ~HeldByOther(Instr(p).l, p))
ModeAt(p, k) == IF k > Len(P(p)) THEN "done" ELSE IF P(p)[k].i = "gate" THEN "parked" ELSE "run"
Advance(p) ==
    /\ pc' = [pc EXCEPT ![p] = pc[p] + 1]
    /\ mode' = [mode EXCEPT ![p] = ModeAt(p, pc[p] + 1)]
    /\ res' = [res EXCEPT ![p] = IF pc[p] + 1 > Len(P(p)) THEN "ok" ELSE @]

Pass(p) ==
    /\ mode[p] = "parked"
    /\ GateGrain => \A q \in Procs : ~CanStep(q)
    /\ sched' = Append(sched, p)
    /\ Advance(p)
    /\ UNCHANGED <<tpl, rq, pre, st, loc, lk>>

Step(p) ==
    /\ CanStep(p)
    /\ LET ins == Instr(p) IN
       CASE ins.i = "acq" -> /\ lk' = lk \cup {<<l, p>> : l \in ins.l}
                             /\ Advance(p) /\ UNCHANGED <<st, loc>>
         [] ins.i = "rel" -> /\ lk' = lk \ {<<l, p>> : l \in ins.l}
                             /\ Advance(p) /\ UNCHANGED <<st, loc>>
         [] ins.i = "do"  -> LET x == Exec(tpl, ins.a, rq[p], st, loc[p]) IN
                             /\ st' = x.st
                             /\ loc' = [loc EXCEPT ![p] = x.loc]
                             /\ IF x.ok THEN Advance(p) /\ UNCHANGED lk
                                ELSE \* refused: deferred unlocks run, the request returns an error
                                     /\ lk' = {h \in lk : h[2] # p}
                                     /\ mode' = [mode EXCEPT ![p] = "done"]
                                     /\ res' = [res EXCEPT ![p] = "fail"]
                                     /\ UNCHANGED pc
    /\ UNCHANGED <<tpl, rq, pre, sched>>

Finished == AllDone /\ UNCHANGED vars

Next == (\E p \in Procs : Pass(p) \/ Step(p)) \/ Finished

\* catalog index tuples, nondecreasing (requests are symmetric up to `who`)
Tuples(t, n) == {s \in [1..n -> 1..Len(Catalog(t))] : \A i \in 1..(n - 1) : s[i] <= s[i + 1]}
Wanted(t, s) == Only = {} \/ <<t, s>> \in Only

InitProcs(n) ==
    /\ pc = [p \in 1..n |-> 1]
    /\ loc = [p \in 1..n |-> [z |-> 0]]
    /\ lk = {}
    /\ mode = [p \in 1..n |-> "parked"]
    /\ res = [p \in 1..n |-> "none"]
    /\ sched = <<>>

Init ==
    /\ tpl \in Tpls
    /\ \E s \in Tuples(tpl, NProc) :
          /\ Wanted(tpl, s)
          /\ rq = [p \in 1..NProc |-> [Catalog(tpl)[s[p]] EXCEPT !.who = p]]
    /\ pre \in PreStates(tpl, NProc)
    /\ st = pre
    /\ InitProcs(NProc)

Spec == Init /\ [][Next]_vars

\* no request holds a lock when it is done, and nobody waits forever (deadlock check is on)
Inv_LocksReleased == AllDone => lk = {}

-----------------------------------------------------------------------------
(* Emission (Emit = TRUE): one line per case (initial state) with the serial *)
(* outcomes, one line per terminal state with the schedule.                  *)
CaseKey == [tpl |-> tpl, rq |-> rq, pre |-> Obs(tpl, pre)]
EmitInv ==
    /\ (Emit /\ sched = <<>> /\ \A p \in Procs : pc[p] = 1) =>
         PrintT(ToJson([type |-> "case", key |-> CaseKey,
                        progs |-> [p \in Procs |-> [j \in 1..Len(P(p)) |-> IF P(p)[j].i = "gate" THEN P(p)[j].site ELSE P(p)[j].i]],
                        serial |-> {[t |-> T, finals |-> SerialFinals(tpl, rq, T, pre)] : T \in SUBSET Procs}]))
    /\ (Emit /\ AllDone) =>
         PrintT(ToJson([type |-> "end", key |-> CaseKey, sched |-> sched, accepted |-> Accepted,
                        final |-> Obs(tpl, st),
                        serializable |-> (Obs(tpl, st) \in SerialFinals(tpl, rq, Procs, pre)),
                        explained |-> Explained]))

-----------------------------------------------------------------------------
(* Burst mode: cases recorded from ungated concurrent runs.  A case gives the *)
(* requests (with the identifiers the server returned) and candidate serial   *)
(* orders; TLC computes, for every order, the final observation and the       *)
(* accept/return of every request.  Nothing is explored.                      *)
BurstPre(c) == IF c.tpl = "lm" THEN LmPreOf(c.nsv, c.nlab) ELSE PreSeq(c.tpl, c.n)[c.pre]
BurstOrders(c) == IF c.all THEN PermsOf(1..c.n) ELSE {c.orders[i] : i \in 1..Len(c.orders)}
BurstOne(c, o) ==
    LET tr == SerialTrace(c.tpl, c.rq, o, BurstPre(c))
        oks == {j \in 1..Len(tr) : tr[j].ok} IN
    [final |-> Obs(c.tpl, ApplySeq(c.tpl, c.rq, o, BurstPre(c))),
     acc   |-> {tr[j].p : j \in oks},
     rets  |-> {[p |-> tr[j].p, ret |-> tr[j].ret] : j \in {i \in oks : DOMAIN tr[i].ret # {}}}]
BurstOut(c) == {BurstOne(c, o) : o \in BurstOrders(c)}
BurstInit == tpl = "none" /\ rq = <<>> /\ pre = 0 /\ st = 0 /\ InitProcs(0)
BurstNext == UNCHANGED vars
EmitBursts == PrintT(ToJson([type |-> "bursts", out |-> [i \in 1..Len(Bursts) |-> BurstOut(Bursts[i])]]))
=============================================================================
