---------------------------- MODULE LabelBlockBounds ----------------------------
(***************************************************************************)
(* Bounded sparse views of label blocks (property C09): WriteRLEs /         *)
(* WriteBinaryBlocks with a non-empty dvid.Bounds.                          *)
(*                                                                         *)
(* A request for the voxels of a label set inside an optional voxel box is  *)
(* answered in two steps: the block-level screen keeps the blocks that      *)
(* intersect the box (GeometryBounds!Passes: the box divided by the block   *)
(* size), and every kept block is cut to the box voxel by voxel             *)
(* (GeometryBounds!Cut) when the bounds are EXACT; when they are not, whole *)
(* blocks may be returned.  Expected output = the foreground of the label   *)
(* set inside the cut of every passing block.                               *)
(*                                                                         *)
(* The class table gives, per axis, where the bounds fall relative to the   *)
(* voxel extent of ONE block (y, z) or of NB x-adjacent blocks (x): open,   *)
(* minimum / maximum only, both; unaligned to the 8-voxel sub-blocks,       *)
(* aligned, on the block boundary, a single column, inside one sub-block,   *)
(* across the two blocks, larger than the extent.  The harness supplies the *)
(* concrete cases (module LabelBlockBoundsCases: block size, block          *)
(* coordinate, NB, class per axis, exact flag - every class of every axis   *)
(* occurs); TLC computes for each the concrete box, the blocks that pass    *)
(* and their cuts, and checks the claims.                                   *)
(***************************************************************************)
EXTENDS GeometryBounds, LabelBlockBoundsCases, TLC, Json

\* x classes: <<lo, hi>> as offsets from the first voxel of the first block (n = block size, nb blocks)
XClass(i, n, nb) ==
    CASE i = 1  -> <<None, None>>
      [] i = 2  -> <<3, None>>                 \* minimum inside a sub-block of the first block
      [] i = 3  -> <<8, None>>                 \* minimum on a sub-block boundary
      [] i = 4  -> <<None, 4>>                 \* maximum inside the first sub-block
      [] i = 5  -> <<None, 7>>                 \* maximum on the last voxel of a sub-block
      [] i = 6  -> <<None, n - 1>>             \* maximum on the last voxel of the first block
      [] i = 7  -> <<n, None>>                 \* minimum on the first voxel of the second block
      [] i = 8  -> <<n + 5, None>>             \* minimum inside the second block
      [] i = 9  -> <<None, n + 2>>             \* maximum inside the second block
      [] i = 10 -> <<5, 5>>                    \* one column
      [] i = 11 -> <<9, 14>>                   \* inside one sub-block
      [] i = 12 -> <<5, n + 10>>               \* across the block boundary
      [] i = 13 -> <<-5, nb * n + 5>>          \* larger than the extent
      [] i = 14 -> <<n - 1, n>>                \* the two columns at the block boundary
      [] i = 15 -> <<0, nb * n - 1>>           \* exactly the extent
      [] i = 16 -> <<n - 3, n - 3>>            \* one column in the last sub-block
      [] OTHER  -> <<10, n - 5>>               \* from the second to the last sub-block
NXClasses == 17
\* y / z classes: offsets from the first voxel of the block
YClass(i, n) ==
    CASE i = 1 -> <<None, None>>
      [] i = 2 -> <<3, None>>
      [] i = 3 -> <<None, 12>>
      [] i = 4 -> <<5, 10>>
      [] i = 5 -> <<9, 9>>
      [] i = 6 -> <<8, 15>>
      [] i = 7 -> <<-3, n + 3>>
      [] OTHER -> <<n - 1, None>>
NYClasses == 8

Shift(o, base) == IF Open(o) THEN None ELSE base + o

BoxOf(k) ==
    LET xc == XClass(k.xc, k.size[1], k.nb)
        yc == YClass(k.yc, k.size[2])
        zc == YClass(k.zc, k.size[3])
        x0 == k.bc[1] * k.size[1]
        y0 == k.bc[2] * k.size[2]
        z0 == k.bc[3] * k.size[3]
    IN  <<Shift(xc[1], x0), Shift(xc[2], x0), Shift(yc[1], y0), Shift(yc[2], y0), Shift(zc[1], z0), Shift(zc[2], z0)>>

BlockCoord(k, i) == <<k.bc[1] + i, k.bc[2], k.bc[3]>>      \* i = 0 .. nb-1
PassSet(k) == {i \in 0..(k.nb - 1) : Passes(BlockCoord(k, i), k.size, BoxOf(k))}

VARIABLES idx, stage
Init == idx \in 1..Len(Cases) /\ stage = 0
Next == stage = 0 /\ stage' = 1 /\ UNCHANGED idx
Spec == Init /\ [][Next]_<<idx, stage>>

\* voxel columns (x) of the row of blocks that are inside the box
XIn(k) == {x \in (k.bc[1] * k.size[1])..((k.bc[1] + k.nb) * k.size[1] - 1) : InAxis(x, BoxOf(k)[1], BoxOf(k)[2])}

CaseClaims(k) ==
    LET box == BoxOf(k) IN
    /\ WellFormed(box) /\ IsSet(box) = (k.xc # 1 \/ k.yc # 1 \/ k.zc # 1)
    /\ \A i \in 0..(k.nb - 1) :
          /\ Passes(BlockCoord(k, i), k.size, box) <=> Intersects(BlockCoord(k, i), k.size, box)
          /\ i \in PassSet(k) => LET c == Cut(BlockCoord(k, i), k.size, box) IN \A d \in 1..3 : c.min[d] <= c.max[d]
    \* the cuts of the passing blocks cover exactly the columns of the box
    /\ UNION {LET c == Cut(BlockCoord(k, i), k.size, box) IN c.min[1]..c.max[1] : i \in PassSet(k)} = XIn(k)

AllClaims == stage = 1 => CaseClaims(Cases[idx])

Emit == stage = 1 =>
    LET k == Cases[idx]
        box == BoxOf(k)
        ps == PassSet(k)
    IN  PrintT(ToJson([i |-> idx, box |-> box,
                       pass |-> [i \in 1..k.nb |-> (i - 1) \in ps],
                       cut |-> [i \in 1..k.nb |-> Cut(BlockCoord(k, i - 1), k.size, box)]]))
=============================================================================
