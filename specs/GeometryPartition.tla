-------------------------- MODULE GeometryPartition --------------------------
(***************************************************************************)
(* Partition of a region of interest into subvolumes (property C18, ROI    *)
(* part; GET <roi>/partition?batchsize=k[&optimized=true]).                *)
(*                                                                         *)
(* A region of interest is a set B of blocks <<x, y, z>>.  A partition is  *)
(* a function (a sequence, or any finite family) of subvolumes             *)
(*    [lo, hi       inclusive corner blocks,                               *)
(*     active       the number of blocks of the region it reports inside,  *)
(*     total        the number of blocks of the box]                       *)
(* The claims (PartitionOK): the subvolumes are well formed boxes that are *)
(* pairwise disjoint, every block of the region lies in one of them, every *)
(* subvolume reports exactly the blocks of the region inside it - so the   *)
(* active counts add up to the number of blocks of the region - and the    *)
(* totals are the box volumes.                                             *)
(*                                                                         *)
(* GridPartition is the intended design of the default partition: layers   *)
(* of k blocks in Z starting half the remainder above the lowest block,    *)
(* inside a layer bands of k blocks in Y over the Y extent of the layer's  *)
(* blocks, inside a band boxes of k blocks in X over the X extent of the   *)
(* band's blocks; boxes without a block of the region are dropped.         *)
(* Geometry.tla checks PartitionOK(B, GridPartition(B, k)) for every state *)
(* of its lattices; GeometryPartition_cases evaluates the same claims on   *)
(* the partitions the real code returned.                                  *)
(***************************************************************************)
EXTENDS Integers, Sequences, FiniteSets

SetMin(S) == CHOOSE m \in S : \A x \in S : m <= x
SetMax(S) == CHOOSE m \in S : \A x \in S : m >= x

InSub(b, sv) == \A a \in 1..3 : sv.lo[a] <= b[a] /\ b[a] <= sv.hi[a]
BoxesMeet(p, q) == \A a \in 1..3 : p.lo[a] <= q.hi[a] /\ q.lo[a] <= p.hi[a]
Volume(sv) == (sv.hi[1] - sv.lo[1] + 1) * (sv.hi[2] - sv.lo[2] + 1) * (sv.hi[3] - sv.lo[3] + 1)
Inside(B, sv) == {b \in B : InSub(b, sv)}

RECURSIVE SumOver(_, _)
SumOver(f, D) == IF D = {} THEN 0 ELSE LET i == CHOOSE j \in D : TRUE IN f[i] + SumOver(f, D \ {i})

\* the claims, one by one
WellFormed(P)   == \A i \in DOMAIN P : \A a \in 1..3 : P[i].lo[a] <= P[i].hi[a]
Disjoint(P)     == \A i, j \in DOMAIN P : i # j => ~BoxesMeet(P[i], P[j])
Covers(B, P)    == \A b \in B : \E i \in DOMAIN P : InSub(b, P[i])
ActiveRight(B, P) == \A i \in DOMAIN P : P[i].active = Cardinality(Inside(B, P[i]))
TotalRight(P)   == \A i \in DOMAIN P : P[i].total = Volume(P[i])
ActiveSum(B, P) == SumOver([i \in DOMAIN P |-> P[i].active], DOMAIN P) = Cardinality(B)
NoEmpty(B, P)   == \A i \in DOMAIN P : Inside(B, P[i]) # {}

PartitionOK(B, P) == WellFormed(P) /\ Disjoint(P) /\ Covers(B, P) /\ ActiveRight(B, P) /\ TotalRight(P) /\ ActiveSum(B, P)

\* the verdict on a partition returned by an implementation, claim by claim; nactive is the sum
\* the answer reports itself (the reported sum of totals also counts boxes that were dropped
\* because they hold no block of the region and is not judged)
Verdict(B, P, nactive, ntotal) ==
    [wellformed |-> WellFormed(P),
     disjoint   |-> WellFormed(P) => Disjoint(P),
     covers     |-> Covers(B, P),
     active     |-> ActiveRight(B, P),
     total      |-> WellFormed(P) => TotalRight(P),
     sum        |-> ActiveSum(B, P) /\ nactive = Cardinality(B)]

\* the voxel corners an answer reports for a subvolume are those of its corner blocks
VoxelRight(P, bs) == \A i \in DOMAIN P : \A a \in 1..3 :
                        P[i].vlo[a] = P[i].lo[a] * bs[a] /\ P[i].vhi[a] = (P[i].hi[a] + 1) * bs[a] - 1

---------------------------------------------------------------------------
\* The intended default partition.
GridStart(lo, hi, k) == lo - (((hi - lo + 1) % k) \div 2)
GridIdx(c, g, k) == (c - g) \div k          \* c >= g

GridPartition(B, k) ==
    IF B = {} THEN << >>
    ELSE
    LET gz == GridStart(SetMin({b[3] : b \in B}), SetMax({b[3] : b \in B}), k)
        LayerOf(b) == GridIdx(b[3], gz, k)
        Layer(l) == {b \in B : LayerOf(b) = l}
        gy(l) == GridStart(SetMin({b[2] : b \in Layer(l)}), SetMax({b[2] : b \in Layer(l)}), k)
        BandOf(b) == GridIdx(b[2], gy(LayerOf(b)), k)
        Band(l, m) == {b \in Layer(l) : BandOf(b) = m}
        gx(l, m) == GridStart(SetMin({b[1] : b \in Band(l, m)}), SetMax({b[1] : b \in Band(l, m)}), k)
        CellOf(b) == GridIdx(b[1], gx(LayerOf(b), BandOf(b)), k)
        Keys == {<<LayerOf(b), BandOf(b), CellOf(b)>> : b \in B}
        Sub(key) == LET lo == <<gx(key[1], key[2]) + key[3] * k, gy(key[1]) + key[2] * k, gz + key[1] * k>>
                        hi == <<lo[1] + k - 1, lo[2] + k - 1, lo[3] + k - 1>>
                        sv == [lo |-> lo, hi |-> hi]
                    IN  [lo |-> lo, hi |-> hi, active |-> Cardinality(Inside(B, sv)), total |-> k * k * k]
    IN [key \in Keys |-> Sub(key)]
=============================================================================
