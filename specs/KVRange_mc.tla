---------------------------- MODULE KVRange_mc ----------------------------
EXTENDS KVRange, KVRangeCases

AllClaims == \A i \in 1..Len(Cases) : DeleteRangeClaims(Cases[i])

Emit == PrintT(ToJson([i \in 1..Len(Cases) |-> [reads |-> Reads1(Cases[i]), drfails |-> DRFails(Cases[i])]]))
=============================================================================
