---------------------------- MODULE KVRange_mc ----------------------------
EXTENDS KVRange, KVRangeCases

AllClaims == \A i \in 1..Len(Cases) : DeleteRangeClaims(Cases[i]) /\ RewriteClaims(Cases[i])

Emit == PrintT(ToJson([i \in 1..Len(Cases) |-> [reads |-> Reads2(Cases[i]), ureads |-> UReads(Cases[i]), drfails |-> DRFails(Cases[i])]]))
=============================================================================
