------------------------------- MODULE Gate -------------------------------
(***************************************************************************)
(* The mutation gate of a DVID server and the immutability of committed    *)
(* versions (property C02).                                                *)
(*                                                                         *)
(* Part 1 is the request classifier: every HTTP request under              *)
(* /api/node/<uuid>/... and /api/repo/<uuid>/... falls into a request      *)
(* class; Outcome(rq, locked, mode, priv) says whether the gate hands the  *)
(* request to its handler ("pass") or refuses it, as a function of the     *)
(* commit state of the addressed node, the server mode and the caller's    *)
(* privilege.  Table is the complete decision table; the harness expands   *)
(* every row into the concrete (datatype, keyword, method) requests that   *)
(* the source tree serves and replays them on a committed node.  The       *)
(* commands of the RPC path (scope "rpc") are request classes too: each is *)
(* decided like its HTTP twin, and no command can carry the admin token.   *)
(*                                                                         *)
(* Part 2 is a state machine over a small version DAG with one versioned   *)
(* datum, node notes/logs and a second data instance: every request class  *)
(* at every node with every token, the handlers' effects when the gate     *)
(* lets them run, run-time mode switches, restart, and the later history   *)
(* of a repository (writes in children and siblings, commits, merges, new  *)
(* instances, instance deletion).  TLC checks Act_C02_Frozen on it: unless *)
(* the step is an exception (full-write mode or admin token) nothing       *)
(* readable at a committed node, nor its note, log or commit flag,         *)
(* changes.  Behaviours of this machine are replayed on the real server.   *)
(*                                                                         *)
(* Intended semantics only: deviations of the code are never modelled      *)
(* here.                                                                   *)
(***************************************************************************)
EXTENDS Integers, Sequences, FiniteSets, TLC, Json

CONSTANTS
    MaxNodes,       \* bound on the number of version nodes
    StartModes,     \* configured server modes explored (subset of Modes)
    TokenSet,       \* TRUE: the server was started with an admin token
    Toks,           \* tokens a caller may present (subset of Tokens)
    AllClasses,     \* TRUE: requests of every class (gate model); FALSE: only the effective ones (history model)
    ModeSwitches,   \* TRUE: run-time SetReadOnly / SetFullWrite calls
    History,        \* TRUE: merges, second instance, restart
    EffNote,        \* TRUE: POST note is among the effective requests of the history model
    HistLen         \* > 0: record the steps in hist and stop after HistLen steps (simulation for replay)

KV == INSTANCE KVRead WITH LastFoundBug <- FALSE

Modes   == {"default", "readonly", "fullwrite"}
Methods == {"GET", "HEAD", "POST", "PUT", "DELETE"}
Tokens  == {"none", "wrong", "right"}     \* ?admintoken absent / not the server's / the server's
ReadMethod(m) == m \in {"GET", "HEAD"}

NodeActions  == {"note", "log", "commit", "status", "branch", "newversion", "tag", "other"}
ChildActions == {"branch", "newversion", "tag"}
RepoActions  == {"info", "instance", "log", "merge", "resolve", "branch-versions", "other"}

(***************************************************************************)
(* Part 1: request classes and the gate                                    *)
(***************************************************************************)
\* versioned: the instance is versioned; declared: the datatype declares (method, keyword)
\* a mutation request (DataService.IsMutationRequest); blob: the blobstore keyword
InstanceClasses ==
    {[scope |-> "instance", method |-> m, action |-> "", versioned |-> vs, declared |-> d, blob |-> b] :
        m \in Methods, vs \in BOOLEAN, d \in BOOLEAN, b \in BOOLEAN}
NodeClasses ==
    {[scope |-> "node", method |-> m, action |-> a, versioned |-> TRUE, declared |-> FALSE, blob |-> FALSE] :
        m \in Methods, a \in NodeActions}
RepoClasses ==
    {[scope |-> "repo", method |-> m, action |-> a, versioned |-> TRUE, declared |-> FALSE, blob |-> FALSE] :
        m \in Methods, a \in RepoActions}

\* Commands of the RPC path ("dvid node <uuid> <data> <command> ...", "dvid repo <uuid> <command> ...",
\* server/rpc.go handleCommand and the datatypes' DoRPC).  A command has no HTTP method ("CMD") and
\* cannot carry an admin token.  action is what the command does:
\*   data-write    a datatype command that writes the instance's data at the addressed version
\*                 (keyvalue put, neuronjson put / import-kv / ingest-neuronjson, load of image or label
\*                 slices, annotation reload, imagetile generate, ...)
\*   data-read     a datatype command that writes nothing at the version (help, dumps, unknown commands)
\*   new-instance  repo <uuid> new <type> <name>             (twin of POST /api/repo/<uuid>/instance)
\*   child         repo <uuid> branch | newversion | merge    (twins of POST /api/node/<uuid>/branch ...)
\*   repo-admin    repo <uuid> rename | delete | copy ...     (whole instances / repo metadata, no version)
\*   read          help, types, storage-details
RpcActions == {"data-write", "data-read", "new-instance", "child", "repo-admin", "read"}
RpcClasses ==
    {[scope |-> "rpc", method |-> "CMD", action |-> a, versioned |-> vs, declared |-> FALSE, blob |-> FALSE] :
        a \in RpcActions, vs \in BOOLEAN}
RequestClasses == InstanceClasses \cup NodeClasses \cup RepoClasses \cup RpcClasses

PrivOf(ts, tok) == ts /\ tok = "right"
\* the privilege a request of class rq gets from presenting tok: the RPC path has no token
PrivFor(rq, ts, tok) == rq.scope # "rpc" /\ PrivOf(ts, tok)

\* Read-only mode is defined for the HTTP API ("ignores all HTTP requests but GET and HEAD",
\* server/server.go); what C02 requires of a command is the commit gate, in every mode.
GateReadOnly(rq, md, pv) == md = "readonly" /\ ~pv /\ rq.scope # "rpc" /\ ~ReadMethod(rq.method)

GateLocked(rq, locked, md, pv) ==
    /\ locked /\ md # "fullwrite" /\ ~pv
    /\ \/ rq.scope = "instance" /\ rq.versioned /\ ~rq.blob /\ rq.declared
       \/ rq.scope = "node" /\ ~ReadMethod(rq.method) /\ rq.action \notin ChildActions
       \/ rq.scope = "repo" /\ rq.action = "instance" /\ ~ReadMethod(rq.method)
       \/ rq.scope = "rpc" /\ rq.action = "data-write" /\ rq.versioned
       \/ rq.scope = "rpc" /\ rq.action = "new-instance"

Outcome(rq, locked, md, pv) ==
    IF GateReadOnly(rq, md, pv) THEN "refused-readonly"
    ELSE IF GateLocked(rq, locked, md, pv) THEN "refused-locked"
    ELSE "pass"

\* the step is one of the two exceptions the property allows
Exception(md, pv) == md = "fullwrite" \/ pv

\* creating child versions of a committed node stays allowed
ChildAllowed(rq, locked, md, pv) ==
    \/ rq.scope = "node" /\ rq.action \in ChildActions /\ rq.method = "POST" /\ locked /\ (md # "readonly" \/ pv)
    \/ rq.scope = "rpc" /\ rq.action = "child" /\ locked

Table ==
    {[rq |-> rq, locked |-> l, mode |-> md, tokenset |-> ts, tok |-> tk,
      out |-> Outcome(rq, l, md, PrivFor(rq, ts, tk)),
      exc |-> Exception(md, PrivFor(rq, ts, tk)),
      frozen |-> l /\ ~Exception(md, PrivFor(rq, ts, tk)),
      child |-> ChildAllowed(rq, l, md, PrivFor(rq, ts, tk))] :
        rq \in RequestClasses, l \in BOOLEAN, md \in Modes, ts \in BOOLEAN, tk \in Tokens}

\* Claims about the table itself
Claim_ChildCreationNotGated ==
    \A r \in Table : r.child => r.out = "pass"
Claim_ReadsPass ==
    \A r \in Table : ReadMethod(r.rq.method) /\ ~(r.rq.scope = "instance" /\ r.rq.declared) => r.out = "pass"
Claim_TokenNeedsServerToken ==
    \A r \in Table : ~r.tokenset => (r.exc <=> r.mode = "fullwrite")
Claim_WrongTokenIsNoToken ==
    \A r \in Table : r.tok = "wrong" =>
        \E q \in Table : /\ q.tok = "none" /\ q.rq = r.rq /\ q.locked = r.locked /\ q.mode = r.mode
                         /\ q.tokenset = r.tokenset /\ q.out = r.out /\ q.exc = r.exc
Claim_ExceptionsNeverLockedRefused ==
    \A r \in Table : r.exc => r.out # "refused-locked"
\* the RPC path has no token: the row of a command does not depend on what is presented
Claim_RpcHasNoToken ==
    \A r \in Table : r.rq.scope = "rpc" =>
        /\ (r.exc <=> r.mode = "fullwrite")
        /\ \A q \in Table : (q.rq = r.rq /\ q.locked = r.locked /\ q.mode = r.mode) => q.out = r.out
\* every command is decided like its HTTP twin sent without a token (in read-only mode: like the
\* twin on a server in default mode)
RpcTwin(rq) ==
    CASE rq.action = "data-write"   -> [scope |-> "instance", method |-> "POST", action |-> "", versioned |-> rq.versioned, declared |-> TRUE, blob |-> FALSE]
      [] rq.action = "data-read"    -> [scope |-> "instance", method |-> "GET", action |-> "", versioned |-> rq.versioned, declared |-> FALSE, blob |-> FALSE]
      [] rq.action = "new-instance" -> [scope |-> "repo", method |-> "POST", action |-> "instance", versioned |-> TRUE, declared |-> FALSE, blob |-> FALSE]
      [] rq.action = "child"        -> [scope |-> "node", method |-> "POST", action |-> "newversion", versioned |-> TRUE, declared |-> FALSE, blob |-> FALSE]
      [] rq.action = "repo-admin"   -> [scope |-> "repo", method |-> "POST", action |-> "other", versioned |-> TRUE, declared |-> FALSE, blob |-> FALSE]
      [] OTHER                      -> [scope |-> "repo", method |-> "GET", action |-> "info", versioned |-> TRUE, declared |-> FALSE, blob |-> FALSE]
Claim_RpcDecidedLikeHTTPTwin ==
    \A r \in Table : r.rq.scope = "rpc" =>
        \E q \in Table : /\ q.rq = RpcTwin(r.rq) /\ q.tok = "none" /\ q.locked = r.locked
                         /\ q.mode = (IF r.mode = "readonly" THEN "default" ELSE r.mode)
                         /\ q.tokenset = r.tokenset /\ q.out = r.out /\ q.child = r.child /\ q.frozen = r.frozen
\* every command that writes versioned data at a committed version is refused unless the server runs full-write
Claim_RpcWritesRefusedWhenCommitted ==
    \A r \in Table : (r.rq.scope = "rpc" /\ r.locked /\ r.mode # "fullwrite"
                        /\ (r.rq.action = "new-instance" \/ (r.rq.action = "data-write" /\ r.rq.versioned))) => r.out # "pass"
TableClaims ==
    /\ Claim_ChildCreationNotGated /\ Claim_ReadsPass /\ Claim_TokenNeedsServerToken
    /\ Claim_WrongTokenIsNoToken /\ Claim_ExceptionsNeverLockedRefused
    /\ Claim_RpcHasNoToken /\ Claim_RpcDecidedLikeHTTPTwin /\ Claim_RpcWritesRefusedWhenCommitted

(***************************************************************************)
(* Part 2: the state machine                                               *)
(***************************************************************************)
VARIABLES
    nn,      \* number of version nodes (1 = root)
    par,     \* par[n]: sequence of parents
    lk,      \* lk[n]: committed?
    ent,     \* entries of the versioned datum: function from a subset of nodes to 0 (tombstone) or a value id
    meta,    \* meta[n]: abstract content of the node's note and log
    other,   \* the second data instance: "absent", "present", "deleted"
    mode,    \* current server mode
    cfg,     \* configured (start-up) mode
    last,    \* the last step and its outcome
    hist     \* recorded steps (only when HistLen > 0)

vars == <<nn, par, lk, ent, meta, other, mode, cfg, last, hist>>
\* exhaustive runs identify states that differ only in the output variables
View == <<nn, par, lk, ent, meta, other, mode, cfg>>

Nodes == 1..nn
Content(v) == KV!Read(par, ent, v)         \* what a read of the datum at v returns (0 none, -1 conflict)
Priv(tok) == PrivOf(TokenSet, tok)
PrivRq(rq, tok) == PrivFor(rq, TokenSet, tok)

Rec(r) == IF HistLen > 0 THEN Append(hist, r) ELSE hist

Init ==
    /\ nn = 1 /\ par = <<(<<>>)>> /\ lk = <<FALSE>> /\ ent = <<>> /\ meta = <<0>>
    /\ other = "absent"
    /\ cfg \in StartModes /\ mode = cfg
    /\ last = [op |-> "init"] /\ hist = <<>>

AddChild(parents) ==
    /\ nn' = nn + 1
    /\ par' = Append(par, parents)
    /\ lk' = Append(lk, FALSE)
    /\ meta' = Append(meta, 0)

\* a value that differs from what is read now, so that an executed write is observable
Fresh(v) == IF Content(v) = 1 THEN 2 ELSE 1

\* What the handler of request class rq does at node v when the gate lets it run.
\* Assumption A1 (checked on the real code by state comparison, not trusted): a handler
\* that changes versioned data is declared a mutation request by its datatype.
Handler(rq, v) ==
    CASE rq.scope = "rpc" /\ rq.action = "data-write" /\ rq.versioned ->
            /\ ent' = [n \in (DOMAIN ent) \cup {v} |-> IF n = v THEN Fresh(v) ELSE ent[n]]
            /\ UNCHANGED <<nn, par, lk, meta, other>>
      [] rq.scope = "rpc" /\ rq.action = "child" /\ lk[v] /\ nn < MaxNodes ->
            /\ AddChild(<<v>>)
            /\ UNCHANGED <<ent, other>>
      [] rq.scope = "rpc" /\ rq.action = "new-instance" /\ other = "absent" ->
            /\ other' = "present"
            /\ UNCHANGED <<nn, par, lk, ent, meta>>
      [] rq.scope = "instance" /\ rq.versioned /\ ~rq.blob /\ rq.declared /\ ~ReadMethod(rq.method) ->
            /\ ent' = [n \in (DOMAIN ent) \cup {v} |->
                          IF n = v THEN (IF rq.method = "DELETE" THEN 0 ELSE Fresh(v)) ELSE ent[n]]
            /\ UNCHANGED <<nn, par, lk, meta, other>>
      [] rq.scope = "node" /\ rq.method = "POST" /\ rq.action \in {"note", "log"} ->
            /\ meta' = [meta EXCEPT ![v] = 1 - @]
            /\ UNCHANGED <<nn, par, lk, ent, other>>
      [] rq.scope = "node" /\ rq.method = "POST" /\ rq.action = "commit" /\ ~lk[v] ->
            /\ lk' = [lk EXCEPT ![v] = TRUE]
            /\ UNCHANGED <<nn, par, ent, meta, other>>
      [] rq.scope = "node" /\ rq.method = "POST" /\ rq.action \in ChildActions /\ lk[v] /\ nn < MaxNodes ->
            /\ AddChild(<<v>>)
            /\ UNCHANGED <<ent, other>>
      [] rq.scope = "repo" /\ rq.method = "POST" /\ rq.action = "instance" /\ other = "absent" ->
            /\ other' = "present"
            /\ UNCHANGED <<nn, par, lk, ent, meta>>
      [] OTHER -> UNCHANGED <<nn, par, lk, ent, meta, other>>   \* reads, unversioned data, blobs, repo metadata, refusals by the handler

Request(rq, v, tok) ==
    LET out == Outcome(rq, lk[v], mode, PrivRq(rq, tok))
        rec == [op |-> "req", rq |-> rq, v |-> v, tok |-> tok, mode |-> mode, locked |-> lk[v],
                out |-> out, exc |-> Exception(mode, PrivRq(rq, tok)), nn2 |-> nn', lk2 |-> lk']
    IN  /\ IF out = "pass" THEN Handler(rq, v) ELSE UNCHANGED <<nn, par, lk, ent, meta, other>>
        /\ last' = rec /\ hist' = Rec(rec)
        /\ UNCHANGED <<mode, cfg>>

\* the request classes whose handlers have an effect in this model (history model)
Effective ==
    {rq \in RequestClasses :
        \/ rq.scope = "instance" /\ rq.versioned /\ ~rq.blob /\ rq.declared /\ rq.method \in {"POST", "DELETE"}
        \/ rq.scope = "node" /\ rq.method = "POST" /\ rq.action \in {"commit", "newversion"}
        \/ rq.scope = "node" /\ rq.method = "POST" /\ rq.action = "note" /\ EffNote
        \/ rq.scope = "repo" /\ rq.method = "POST" /\ rq.action = "instance"
        \/ rq.scope = "rpc" /\ rq.action = "data-write" /\ rq.versioned
        \/ rq.scope = "rpc" /\ rq.action \in {"child", "new-instance"} /\ rq.versioned}

\* POST /api/repo/<root>/merge of two committed nodes
Merge(p, q) ==
    /\ History /\ nn < MaxNodes /\ p # q /\ lk[p] /\ lk[q] /\ mode # "readonly"
    /\ p \notin KV!Anc(par, q) /\ q \notin KV!Anc(par, p)
    /\ AddChild(<<p, q>>)
    /\ LET rec == [op |-> "merge", p |-> p, q |-> q, mode |-> mode, exc |-> Exception(mode, FALSE), nn2 |-> nn', lk2 |-> lk']
       IN last' = rec /\ hist' = Rec(rec)
    /\ UNCHANGED <<ent, other, mode, cfg>>

\* "repo <uuid> delete <name>" of the second instance (a command, not gated)
DeleteOther ==
    /\ History /\ other = "present"
    /\ other' = "deleted"
    /\ LET rec == [op |-> "deleteinstance", mode |-> mode, exc |-> FALSE, nn2 |-> nn, lk2 |-> lk]
       IN last' = rec /\ hist' = Rec(rec)
    /\ UNCHANGED <<nn, par, lk, ent, meta, mode, cfg>>

\* stop and start on the same stores: the configured mode is back
Restart ==
    /\ History \/ ModeSwitches
    /\ mode' = cfg
    /\ LET rec == [op |-> "restart", mode |-> cfg, exc |-> FALSE, nn2 |-> nn, lk2 |-> lk]
       IN last' = rec /\ hist' = Rec(rec)
    /\ UNCHANGED <<nn, par, lk, ent, meta, other, cfg>>

\* server.SetReadOnly(on) / server.SetFullWrite(on): switching a mode off returns to default
SetMode(fn, on) ==
    /\ ModeSwitches
    /\ mode' = IF on THEN fn ELSE (IF mode = fn THEN "default" ELSE mode)
    /\ LET rec == [op |-> "setmode", fn |-> fn, on |-> on, mode |-> mode', exc |-> FALSE, nn2 |-> nn, lk2 |-> lk]
       IN last' = rec /\ hist' = Rec(rec)
    /\ UNCHANGED <<nn, par, lk, ent, meta, other, cfg>>

\* end of a recorded behaviour: print it (from an action, so that only the behaviour the
\* simulator actually chose is printed, not every candidate successor)
Done ==
    /\ HistLen > 0 /\ Len(hist) = HistLen /\ last.op # "done"
    /\ PrintT(ToJson([hist |-> hist, cfg |-> cfg]))
    /\ last' = [op |-> "done", exc |-> TRUE]
    /\ UNCHANGED <<nn, par, lk, ent, meta, other, mode, cfg, hist>>

Next ==
  \/ Done
  \/
    /\ HistLen > 0 => Len(hist) < HistLen
    /\ \/ \E v \in Nodes, tok \in Toks, rq \in (IF AllClasses THEN RequestClasses ELSE Effective) : Request(rq, v, tok)
       \/ \E p, q \in Nodes : Merge(p, q)
       \/ DeleteOther
       \/ Restart
       \/ \E fn \in {"readonly", "fullwrite"}, on \in BOOLEAN : SetMode(fn, on)

Spec == Init /\ [][Next]_vars

(***************************************************************************)
(* Properties                                                              *)
(***************************************************************************)
TypeOK ==
    /\ nn \in 1..MaxNodes /\ Len(par) = nn /\ Len(lk) = nn /\ Len(meta) = nn
    /\ DOMAIN ent \subseteq Nodes
    /\ mode \in Modes /\ cfg \in StartModes
    /\ other \in {"absent", "present", "deleted"}

\* every parent of a node is committed (so a write never lands above a committed node's view ...)
Inv_ParentsCommitted == \A n \in Nodes : \A i \in 1..Len(par[n]) : lk[par[n][i]]

\* ... and therefore, outside the exceptions, entries exist only where a write was allowed
Frozen(v) ==
    /\ lk'[v]
    /\ meta'[v] = meta[v]
    /\ Content(v)' = Content(v)

Act_C02_Frozen ==
    [][~last'.exc => \A v \in Nodes : lk[v] => Frozen(v)]_vars

\* a refused request changes nothing at all
Act_RefusedIsStutter ==
    [][(last'.op = "req" /\ last'.out # "pass") => UNCHANGED <<nn, par, lk, ent, meta, other, mode, cfg>>]_vars

\* commit state is permanent even under the exceptions
Act_CommitIsPermanent == [][\A v \in Nodes : lk[v] => lk'[v]]_vars

\* a mode that was switched on and off again leaves the configured gate (no silent full-write)
Inv_ModeIsConfiguredOrSwitched == ~ModeSwitches => mode = cfg

(***************************************************************************)
(* Emission                                                                *)
(***************************************************************************)
\* decision table, printed once (initial state of the first start mode)
EmitTable ==
    (nn = 1 /\ ~lk[1] /\ last.op = "init") =>
        /\ TableClaims
        /\ PrintT(ToJson([table |-> Table]))

=============================================================================
