------------------------------- MODULE Gate -------------------------------
(***************************************************************************)
(* The mutation gate of a DVID server and the immutability of committed    *)
(* versions (property C02).                                                *)
(*                                                                         *)
(* Part 1 is the request classifier: every HTTP request under              *)
(* /api/node/<uuid>/... and /api/repo/<uuid>/... falls into a request      *)
(* class; Outcome(rq, locked, mode, priv) says whether the gate hands the  *)
(* request to its handler ("pass") or refuses it, as a function of the     *)
(* commit state of the addressed node, the server mode and the caller's    *)
(* privilege.  Table is the complete decision table; the harness expands   *)
(* every row into the concrete (datatype, keyword, method) requests that   *)
(* the source tree serves and replays them on a committed node.            *)
(*                                                                         *)
(* Part 2 is a state machine over a small version DAG with one versioned   *)
(* datum, node notes/logs and a second data instance: every request class  *)
(* at every node with every token, the handlers' effects when the gate     *)
(* lets them run, run-time mode switches, restart, and the later history   *)
(* of a repository (writes in children and siblings, commits, merges, new  *)
(* instances, instance deletion).  TLC checks Act_C02_Frozen on it: unless *)
(* the step is an exception (full-write mode or admin token) nothing       *)
(* readable at a committed node, nor its note, log or commit flag,         *)
(* changes.  Behaviours of this machine are replayed on the real server.   *)
(*                                                                         *)
(* Intended semantics only: deviations of the code are never modelled      *)
(* here.                                                                   *)
(***************************************************************************)
EXTENDS Integers, Sequences, FiniteSets, TLC, Json

CONSTANTS
    MaxNodes,       \* bound on the number of version nodes
    StartModes,     \* configured server modes explored (subset of Modes)
    TokenSet,       \* TRUE: the server was started with an admin token
    Toks,           \* tokens a caller may present (subset of Tokens)
    AllClasses,     \* TRUE: requests of every class (gate model); FALSE: only the effective ones (history model)
    ModeSwitches,   \* TRUE: run-time SetReadOnly / SetFullWrite calls
    History,        \* TRUE: merges, second instance, restart
    EffNote,        \* TRUE: POST note is among the effective requests of the history model
    HistLen         \* > 0: record the steps in hist and stop after HistLen steps (simulation for replay)

KV == INSTANCE KVRead WITH LastFoundBug <- FALSE

Modes   == {"default", "readonly", "fullwrite"}
Methods == {"GET", "HEAD", "POST", "PUT", "DELETE"}
Tokens  == {"none", "wrong", "right"}     \* ?admintoken absent / not the server's / the server's
ReadMethod(m) == m \in {"GET", "HEAD"}

NodeActions  == {"note", "log", "commit", "status", "branch", "newversion", "tag", "other"}
ChildActions == {"branch", "newversion", "tag"}
RepoActions  == {"info", "instance", "log", "merge", "resolve", "branch-versions", "other"}

(***************************************************************************)
(* Part 1: request classes and the gate                                    *)
(***************************************************************************)
\* versioned: the instance is versioned; declared: the datatype declares (method, keyword)
\* a mutation request (DataService.IsMutationRequest); blob: the blobstore keyword
InstanceClasses ==
    {[scope |-> "instance", method |-> m, action |-> "", versioned |-> vs, declared |-> d, blob |-> b] :
        m \in Methods, vs \in BOOLEAN, d \in BOOLEAN, b \in BOOLEAN}
NodeClasses ==
    {[scope |-> "node", method |-> m, action |-> a, versioned |-> TRUE, declared |-> FALSE, blob |-> FALSE] :
        m \in Methods, a \in NodeActions}
RepoClasses ==
    {[scope |-> "repo", method |-> m, action |-> a, versioned |-> TRUE, declared |-> FALSE, blob |-> FALSE] :
        m \in Methods, a \in RepoActions}
RequestClasses == InstanceClasses \cup NodeClasses \cup RepoClasses

PrivOf(ts, tok) == ts /\ tok = "right"

GateReadOnly(rq, md, pv) == md = "readonly" /\ ~pv /\ ~ReadMethod(rq.method)

GateLocked(rq, locked, md, pv) ==
    /\ locked /\ md # "fullwrite" /\ ~pv
    /\ \/ rq.scope = "instance" /\ rq.versioned /\ ~rq.blob /\ rq.declared
       \/ rq.scope = "node" /\ ~ReadMethod(rq.method) /\ rq.action \notin ChildActions
       \/ rq.scope = "repo" /\ rq.action = "instance" /\ ~ReadMethod(rq.method)

Outcome(rq, locked, md, pv) ==
    IF GateReadOnly(rq, md, pv) THEN "refused-readonly"
    ELSE IF GateLocked(rq, locked, md, pv) THEN "refused-locked"
    ELSE "pass"

\* the step is one of the two exceptions the property allows
Exception(md, pv) == md = "fullwrite" \/ pv

\* creating child versions of a committed node stays allowed
ChildAllowed(rq, locked, md, pv) ==
    rq.scope = "node" /\ rq.action \in ChildActions /\ rq.method = "POST" /\ locked /\ (md # "readonly" \/ pv)

Table ==
    {[rq |-> rq, locked |-> l, mode |-> md, tokenset |-> ts, tok |-> tk,
      out |-> Outcome(rq, l, md, PrivOf(ts, tk)),
      exc |-> Exception(md, PrivOf(ts, tk)),
      frozen |-> l /\ ~Exception(md, PrivOf(ts, tk)),
      child |-> ChildAllowed(rq, l, md, PrivOf(ts, tk))] :
        rq \in RequestClasses, l \in BOOLEAN, md \in Modes, ts \in BOOLEAN, tk \in Tokens}

\* Claims about the table itself
Claim_ChildCreationNotGated ==
    \A r \in Table : r.child => r.out = "pass"
Claim_ReadsPass ==
    \A r \in Table : ReadMethod(r.rq.method) /\ ~(r.rq.scope = "instance" /\ r.rq.declared) => r.out = "pass"
Claim_TokenNeedsServerToken ==
    \A r \in Table : ~r.tokenset => (r.exc <=> r.mode = "fullwrite")
Claim_WrongTokenIsNoToken ==
    \A r \in Table : r.tok = "wrong" =>
        \E q \in Table : /\ q.tok = "none" /\ q.rq = r.rq /\ q.locked = r.locked /\ q.mode = r.mode
                         /\ q.tokenset = r.tokenset /\ q.out = r.out /\ q.exc = r.exc
Claim_ExceptionsNeverLockedRefused ==
    \A r \in Table : r.exc => r.out # "refused-locked"
TableClaims ==
    /\ Claim_ChildCreationNotGated /\ Claim_ReadsPass /\ Claim_TokenNeedsServerToken
    /\ Claim_WrongTokenIsNoToken /\ Claim_ExceptionsNeverLockedRefused

(***************************************************************************)
(* Part 2: the state machine                                               *)
(***************************************************************************)
VARIABLES
    nn,      \* number of version nodes (1 = root)
    par,     \* par[n]: sequence of parents
    lk,      \* lk[n]: committed?
    ent,     \* entries of the versioned datum: function from a subset of nodes to 0 (tombstone) or a value id
    meta,    \* meta[n]: abstract content of the node's note and log
    other,   \* the second data instance: "absent", "present", "deleted"
    mode,    \* current server mode
    cfg,     \* configured (start-up) mode
    last,    \* the last step and its outcome
    hist     \* recorded steps (only when HistLen > 0)

vars == <<nn, par, lk, ent, meta, other, mode, cfg, last, hist>>
\* exhaustive runs identify states that differ only in the output variables
View == <<nn, par, lk, ent, meta, other, mode, cfg>>

Nodes == 1..nn
Content(v) == KV!Read(par, ent, v)         \* what a read of the datum at v returns (0 none, -1 conflict)
Priv(tok) == PrivOf(TokenSet, tok)

Rec(r) == IF HistLen > 0 THEN Append(hist, r) ELSE hist

Init ==
    /\ nn = 1 /\ par = <<(<<>>)>> /\ lk = <<FALSE>> /\ ent = <<>> /\ meta = <<0>>
    /\ other = "absent"
    /\ cfg \in StartModes /\ mode = cfg
    /\ last = [op |-> "init"] /\ hist = <<>>

AddChild(parents) ==
    /\ nn' = nn + 1
    /\ par' = Append(par, parents)
    /\ lk' = Append(lk, FALSE)
    /\ meta' = Append(meta, 0)

\* a value that differs from what is read now, so that an executed write is observable
Fresh(v) == IF Content(v) = 1 THEN 2 ELSE 1

\* What the handler of request class rq does at node v when the gate lets it run.
\* Assumption A1 (checked on the real code by state comparison, not trusted): a handler
\* that changes versioned data is declared a mutation request by its datatype.
Handler(rq, v) ==
    CASE rq.scope = "instance" /\ rq.versioned /\ ~rq.blob /\ rq.declared /\ ~ReadMethod(rq.method) ->
            /\ ent' = [n \in (DOMAIN ent) \cup {v} |->
                          IF n = v THEN (IF rq.method = "DELETE" THEN 0 ELSE Fresh(v)) ELSE ent[n]]
            /\ UNCHANGED <<nn, par, lk, meta, other>>
      [] rq.scope = "node" /\ rq.method = "POST" /\ rq.action \in {"note", "log"} ->
            /\ meta' = [meta EXCEPT ![v] = 1 - @]
            /\ UNCHANGED <<nn, par, lk, ent, other>>
      [] rq.scope = "node" /\ rq.method = "POST" /\ rq.action = "commit" /\ ~lk[v] ->
            /\ lk' = [lk EXCEPT ![v] = TRUE]
            /\ UNCHANGED <<nn, par, ent, meta, other>>
      [] rq.scope = "node" /\ rq.method = "POST" /\ rq.action \in ChildActions /\ lk[v] /\ nn < MaxNodes ->
            /\ AddChild(<<v>>)
            /\ UNCHANGED <<ent, other>>
      [] rq.scope = "repo" /\ rq.method = "POST" /\ rq.action = "instance" /\ other = "absent" ->
            /\ other' = "present"
            /\ UNCHANGED <<nn, par, lk, ent, meta>>
      [] OTHER -> UNCHANGED <<nn, par, lk, ent, meta, other>>   \* reads, unversioned data, blobs, repo metadata, refusals by the handler

Request(rq, v, tok) ==
    LET out == Outcome(rq, lk[v], mode, Priv(tok))
        rec == [op |-> "req", rq |-> rq, v |-> v, tok |-> tok, mode |-> mode, locked |-> lk[v],
                out |-> out, exc |-> Exception(mode, Priv(tok)), nn2 |-> nn', lk2 |-> lk']
    IN  /\ IF out = "pass" THEN Handler(rq, v) ELSE UNCHANGED <<nn, par, lk, ent, meta, other>>
        /\ last' = rec /\ hist' = Rec(rec)
        /\ UNCHANGED <<mode, cfg>>

\* the request classes whose handlers have an effect in this model (history model)
Effective ==
    {rq \in RequestClasses :
        \/ rq.scope = "instance" /\ rq.versioned /\ ~rq.blob /\ rq.declared /\ rq.method \in {"POST", "DELETE"}
        \/ rq.scope = "node" /\ rq.method = "POST" /\ rq.action \in {"commit", "newversion"}
        \/ rq.scope = "node" /\ rq.method = "POST" /\ rq.action = "note" /\ EffNote
        \/ rq.scope = "repo" /\ rq.method = "POST" /\ rq.action = "instance"}

\* POST /api/repo/<root>/merge of two committed nodes
Merge(p, q) ==
    /\ History /\ nn < MaxNodes /\ p # q /\ lk[p] /\ lk[q] /\ mode # "readonly"
    /\ p \notin KV!Anc(par, q) /\ q \notin KV!Anc(par, p)
    /\ AddChild(<<p, q>>)
    /\ LET rec == [op |-> "merge", p |-> p, q |-> q, mode |-> mode, exc |-> Exception(mode, FALSE), nn2 |-> nn', lk2 |-> lk']
       IN last' = rec /\ hist' = Rec(rec)
    /\ UNCHANGED <<ent, other, mode, cfg>>

\* "repo <uuid> delete <name>" of the second instance (a command, not gated)
DeleteOther ==
    /\ History /\ other = "present"
    /\ other' = "deleted"
    /\ LET rec == [op |-> "deleteinstance", mode |-> mode, exc |-> FALSE, nn2 |-> nn, lk2 |-> lk]
       IN last' = rec /\ hist' = Rec(rec)
    /\ UNCHANGED <<nn, par, lk, ent, meta, mode, cfg>>

\* stop and start on the same stores: the configured mode is back
Restart ==
    /\ History \/ ModeSwitches
    /\ mode' = cfg
    /\ LET rec == [op |-> "restart", mode |-> cfg, exc |-> FALSE, nn2 |-> nn, lk2 |-> lk]
       IN last' = rec /\ hist' = Rec(rec)
    /\ UNCHANGED <<nn, par, lk, ent, meta, other, cfg>>

\* server.SetReadOnly(on) / server.SetFullWrite(on): switching a mode off returns to default
SetMode(fn, on) ==
    /\ ModeSwitches
    /\ mode' = IF on THEN fn ELSE (IF mode = fn THEN "default" ELSE mode)
    /\ LET rec == [op |-> "setmode", fn |-> fn, on |-> on, mode |-> mode', exc |-> FALSE, nn2 |-> nn, lk2 |-> lk]
       IN last' = rec /\ hist' = Rec(rec)
    /\ UNCHANGED <<nn, par, lk, ent, meta, other, cfg>>

\* end of a recorded behaviour: print it (from an action, so that only the behaviour the
\* simulator actually chose is printed, not every candidate successor)
Done ==
    /\ HistLen > 0 /\ Len(hist) = HistLen /\ last.op # "done"
    /\ PrintT(ToJson([hist |-> hist, cfg |-> cfg]))
    /\ last' = [op |-> "done", exc |-> TRUE]
    /\ UNCHANGED <<nn, par, lk, ent, meta, other, mode, cfg, hist>>

Next ==
  \/ Done
  \/
    /\ HistLen > 0 => Len(hist) < HistLen
    /\ \/ \E v \in Nodes, tok \in Toks, rq \in (IF AllClasses THEN RequestClasses ELSE Effective) : Request(rq, v, tok)
       \/ \E p, q \in Nodes : Merge(p, q)
       \/ DeleteOther
       \/ Restart
       \/ \E fn \in {"readonly", "fullwrite"}, on \in BOOLEAN : SetMode(fn, on)

Spec == Init /\ [][Next]_vars

(***************************************************************************)
(* Properties                                                              *)
(***************************************************************************)
TypeOK ==
    /\ nn \in 1..MaxNodes /\ Len(par) = nn /\ Len(lk) = nn /\ Len(meta) = nn
    /\ DOMAIN ent \subseteq Nodes
    /\ mode \in Modes /\ cfg \in StartModes
    /\ other \in {"absent", "present", "deleted"}

\* every parent of a node is committed (so a write never lands above a committed node's view ...)
Inv_ParentsCommitted == \A n \in Nodes : \A i \in 1..Len(par[n]) : lk[par[n][i]]

\* ... and therefore, outside the exceptions, entries exist only where a write was allowed
Frozen(v) ==
    /\ lk'[v]
    /\ meta'[v] = meta[v]
    /\ Content(v)' = Content(v)

Act_C02_Frozen ==
    [][~last'.exc => \A v \in Nodes : lk[v] => Frozen(v)]_vars

\* a refused request changes nothing at all
Act_RefusedIsStutter ==
    [][(last'.op = "req" /\ last'.out # "pass") => UNCHANGED <<nn, par, lk, ent, meta, other, mode, cfg>>]_vars

\* commit state is permanent even under the exceptions
Act_CommitIsPermanent == [][\A v \in Nodes : lk[v] => lk'[v]]_vars

\* a mode that was switched on and off again leaves the configured gate (no silent full-write)
Inv_ModeIsConfiguredOrSwitched == ~ModeSwitches => mode = cfg

(***************************************************************************)
(* Emission                                                                *)
(***************************************************************************)
\* decision table, printed once (initial state of the first start mode)
EmitTable ==
    (nn = 1 /\ ~lk[1] /\ last.op = "init") =>
        /\ TableClaims
        /\ PrintT(ToJson([table |-> Table]))

=============================================================================
