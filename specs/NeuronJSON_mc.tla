---------------------------- MODULE NeuronJSON_mc ----------------------------
(* Configurations of NeuronJSON: seeds and update sets for the exhaustive     *)
(* decision table (one annotation), the exhaustive coherence check, the       *)
(* simulated histories.                                                       *)
EXTENDS NeuronJSON, Randomization

CONSTANT NRand   \* size of the random update subset offered per step in simulation

SeedCells == {NoCell} \cup {[v |-> v, u |-> 0, t |-> 0] : v \in 1..NumVals}
SeedAnns  == {Absent} \cup {[ex |-> TRUE, fs |-> fs] : fs \in [Fields -> SeedCells]}

\* decision table: every seeded state of annotation 1, the others absent
TableSeeds == {[i \in 1..NumIds |-> IF i = 1 THEN a ELSE Absent] : a \in SeedAnns}
EmptySeeds == {[i \in 1..NumIds |-> Absent]}

PickAll(S) == S
PickOne(S) == IF S = {} THEN {} ELSE RandomSubset(1, S)
AllUpdsAt(k)  == AllUpds
RandUpdsAt(k) == RandomSubset(NRand, AllUpds)

\* defaults for configurations without the respective dimension
NoBranches   == {}
OneBranch    == {1}
TrkChoices   == {{}, {1}}        \* a (re)start tracks branch 1 or not
OnlyUntracked == {{}}
OnlyNoSt     == {NoSt}
AllSt        == [Fields -> 0..3]
NoConstrain  == [d \in 0..NumDocs |-> 0]
NoConv       == [v \in {} |-> 0]
NoAtoms      == [v \in 1..NumVals |-> {}]
NoQueries    == <<>>
NoProjs      == <<>>

=============================================================================
