--------------------------- MODULE ImageVol_cases ---------------------------
(* Evaluation of generated request sequences (module ImageVolCases, written   *)
(* by the harness: RoisDef and Cases, a sequence of request sequences).  TLC  *)
(* checks the claims of C17 along every sequence and prints the projection   *)
(* of every final state: the oracle for the replay on the real code.         *)
EXTENDS ImageVol, ImageVolCases, Json

VARIABLE dummy

AllClaims == \A i \in 1..Len(Cases) : RunClaims(Cases[i])
EmitCases == PrintT(ToJson([i \in 1..Len(Cases) |-> Project(Run(Cases[i]))]))

\* printed once: the read-geometry classes per axis
ASSUME PrintT(ToJson([classes |-> <<AxisClasses(1), AxisClasses(2), AxisClasses(3)>>]))

Init == dummy = 0
Next == UNCHANGED dummy
Spec == Init /\ [][Next]_dummy
=============================================================================
