------------------------------ MODULE Geometry ------------------------------
(***************************************************************************)
(* Run-length sparse volumes and ROI span sets on an integer lattice        *)
(* (property C18, second sentence).                                         *)
(*                                                                         *)
(* The lattice has cells (x, r): x in XMin..XMax, r an index into Rows, a   *)
(* sequence of <<y, z>> pairs ascending in (z, y).  A STATE is a            *)
(* presentation of a voxel set as non-overlapping runs along x:             *)
(*     code[r][x] = 0  empty,  1  first voxel of a run,  2  continues the   *)
(*                                                          run to its left *)
(* so adjacent runs, single-voxel runs and every split of a stretch into    *)
(* runs are distinct states; TLC enumerates all of them.                    *)
(*                                                                         *)
(* The operations are defined on voxel SETS (the meaning the property       *)
(* gives them) and each one is also a transition to the canonical           *)
(* presentation of its result:                                              *)
(*   Normalize            same set, maximal runs, sorted by (z, y, x)       *)
(*   Partition(bs)        the set cut by the block grid (floor division)    *)
(*   Split(S), S subset   set difference                                    *)
(*   FitToBounds(b)       intersection with an optionally open box          *)
(*   Add(A)               union                                             *)
(* The same state read as an ROI (cells = blocks of size RoiBlock, runs =   *)
(* spans [z, y, x0, x1]) answers point membership and masks over a voxel    *)
(* query box.                                                               *)
(*                                                                         *)
(* Emit prints, once per state, the runs and the expected result of every   *)
(* operation (voxel sets as bit masks, bit (r-1)*W + (x-XMin)); the harness *)
(* pushes the runs through the real dvid.RLEs functions / an roi instance   *)
(* and compares.  The Inv_C18_* invariants are the claims, checked on every *)
(* state.                                                                   *)
(***************************************************************************)
EXTENDS Integers, Sequences, FiniteSets, TLC, Json, GeometryPartition

CONSTANTS XMin, XMax,     \* x extent of the lattice
          Rows,           \* sequence of <<y, z>>, ascending in (z, y)
          BlockSizes,     \* sequence of <<bx, by, bz>> used by Partition
          Bounds,         \* sequence of <<minx, maxx, miny, maxy, minz, maxz>>; None = open
          NMasks,         \* how many members of the mask family are used by Split / Add
          RoiBlock,       \* <<bx, by, bz>> block size of the ROI reading
          Query,          \* <<x0, x1, y0, y1, z0, z1>> voxel box of ROI queries (inclusive)
          EmitRoi         \* BOOLEAN: print the ROI expectations

None == 1000000

VARIABLE code
vars == <<code>>

XS == XMin..XMax
NR == Len(Rows)
W  == XMax - XMin + 1
Y(r) == Rows[r][1]
Z(r) == Rows[r][2]
Cells == XS \X (1..NR)

FloorDiv(a, b) == IF a >= 0 THEN a \div b ELSE -((b - 1 - a) \div b)

Valid(c) == \A r \in 1..NR, x \in XS : c[r][x] = 2 => (x > XMin /\ c[r][x - 1] # 0)

Occ(c) == {v \in Cells : c[v[2]][v[1]] # 0}
V == Occ(code)

\* ---- runs of a presentation, in (z, y, x) order: <<x, r, n>> ----
RECURSIVE Ext(_, _, _)
Ext(c, r, x) == IF x < XMax /\ c[r][x + 1] = 2 THEN 1 + Ext(c, r, x + 1) ELSE 0
RECURSIVE RowRuns(_, _, _)
RowRuns(c, r, x) == IF x > XMax THEN <<>>
                    ELSE (IF c[r][x] = 1 THEN << <<x, r, 1 + Ext(c, r, x)>> >> ELSE <<>>) \o RowRuns(c, r, x + 1)
RECURSIVE RunsFrom(_, _)
RunsFrom(c, r) == IF r > NR THEN <<>> ELSE RowRuns(c, r, XMin) \o RunsFrom(c, r + 1)
Runs(c) == RunsFrom(c, 1)

RunVoxels(run) == {<<x, run[2]>> : x \in run[1]..(run[1] + run[3] - 1)}
SeqVoxels(rs) == UNION {RunVoxels(rs[i]) : i \in 1..Len(rs)}

\* the canonical presentation of a voxel set: maximal runs
CanonCode(S) == [r \in 1..NR |-> [x \in XS |->
                   IF <<x, r>> \notin S THEN 0
                   ELSE IF x > XMin /\ <<x - 1, r>> \in S THEN 2 ELSE 1]]
Canon(S) == Runs(CanonCode(S))

\* ---- bit masks for printing voxel sets ----
RECURSIVE MaskFrom(_, _)
MaskFrom(S, i) == IF i = W * NR THEN 0
                  ELSE (IF <<XMin + (i % W), 1 + (i \div W)>> \in S THEN 2 ^ i ELSE 0) + MaskFrom(S, i + 1)
MaskOf(S) == MaskFrom(S, 0)

\* runs in concrete coordinates <<x, y, z, n>>
Conc(rs) == [i \in 1..Len(rs) |-> <<rs[i][1], Y(rs[i][2]), Z(rs[i][2]), rs[i][3]>>]

(***************************************************************************)
(* Operations on voxel sets                                                 *)
(***************************************************************************)
Blk(v, bs) == <<FloorDiv(v[1], bs[1]), FloorDiv(Y(v[2]), bs[2]), FloorDiv(Z(v[2]), bs[3])>>
PartBlocks(S, bs) == {Blk(v, bs) : v \in S}
PartSet(S, bs, b) == {v \in S : Blk(v, bs) = b}

\* a fixed family of masks over the lattice: operands of Split (intersected with the
\* state, so that they are subsets) and of Add (as they are)
MaskPred(k, x, r) ==
    CASE k = 1 -> x % 2 = 0
      [] k = 2 -> x < 0
      [] k = 3 -> r = 1
      [] k = 4 -> x \in {-1, 0}
      [] k = 5 -> TRUE
      [] k = 6 -> (x + r) % 3 = 0
      [] k = 7 -> x >= 1 /\ r = NR
      [] k = 8 -> x = XMin \/ x = XMax
      [] OTHER -> FALSE
MaskSet(k) == {v \in Cells : MaskPred(k, v[1], v[2])}

SplitSet(S, T) == S \ T

Open(b) == b = None
InBox(v, b) == /\ (Open(b[1]) \/ v[1] >= b[1]) /\ (Open(b[2]) \/ v[1] <= b[2])
               /\ (Open(b[3]) \/ Y(v[2]) >= b[3]) /\ (Open(b[4]) \/ Y(v[2]) <= b[4])
               /\ (Open(b[5]) \/ Z(v[2]) >= b[5]) /\ (Open(b[6]) \/ Z(v[2]) <= b[6])
FitSet(S, b) == {v \in S : InBox(v, b)}

AddSet(S, A) == S \cup A

(***************************************************************************)
(* ROI reading: cells are blocks, runs are spans                            *)
(***************************************************************************)
QPoints == (Query[1]..Query[2]) \X (Query[3]..Query[4]) \X (Query[5]..Query[6])

\* membership by looking up the block of the point (floor division)
RowOf(by, bz) == {r \in 1..NR : Rows[r] = <<by, bz>>}
Member(q) == LET bx == FloorDiv(q[1], RoiBlock[1])
                 by == FloorDiv(q[2], RoiBlock[2])
                 bz == FloorDiv(q[3], RoiBlock[3])
             IN  bx \in XS /\ \E r \in RowOf(by, bz) : code[r][bx] # 0

\* membership by the voxel extent of a span [z, y, x0, x1]
InSpan(q, run) == /\ q[1] >= run[1] * RoiBlock[1] /\ q[1] <= (run[1] + run[3]) * RoiBlock[1] - 1
                  /\ q[2] >= Y(run[2]) * RoiBlock[2] /\ q[2] <= (Y(run[2]) + 1) * RoiBlock[2] - 1
                  /\ q[3] >= Z(run[2]) * RoiBlock[3] /\ q[3] <= (Z(run[2]) + 1) * RoiBlock[3] - 1

Spans(c) == LET rs == Runs(c) IN [i \in 1..Len(rs) |-> <<Z(rs[i][2]), Y(rs[i][2]), rs[i][1], rs[i][1] + rs[i][3] - 1>>]

\* The same region posted with OVERLAPPING spans: every span of two or more blocks is followed
\* by a second span that repeats its last block, and one of three or more blocks by a third that
\* repeats its inner blocks.  A region is the union of its spans, so every query must be
\* answered as for Spans(c).
Overlay(c) == LET rs == Runs(c)
                  Extra(run) == (IF run[3] >= 2 THEN << <<Z(run[2]), Y(run[2]), run[1] + run[3] - 1, run[1] + run[3] - 1>> >> ELSE << >>)
                                \o (IF run[3] >= 3 THEN << <<Z(run[2]), Y(run[2]), run[1] + 1, run[1] + run[3] - 2>> >> ELSE << >>)
                  RECURSIVE Extras(_)
                  Extras(i) == IF i > Len(rs) THEN << >> ELSE Extra(rs[i]) \o Extras(i + 1)
              IN  Spans(c) \o Extras(1)
SpanHas(q, sp) == /\ q[1] >= sp[3] * RoiBlock[1] /\ q[1] <= (sp[4] + 1) * RoiBlock[1] - 1
                  /\ q[2] >= sp[2] * RoiBlock[2] /\ q[2] <= (sp[2] + 1) * RoiBlock[2] - 1
                  /\ q[3] >= sp[1] * RoiBlock[3] /\ q[3] <= (sp[1] + 1) * RoiBlock[3] - 1

\* the blocks of the region and their extent in Z (advertised by the instance as MinZ / MaxZ)
RoiBlocks == {<<v[1], Y(v[2]), Z(v[2])>> : v \in V}
ZRange == IF V = {} THEN << >> ELSE <<SetMin({b[3] : b \in RoiBlocks}), SetMax({b[3] : b \in RoiBlocks})>>
\* batch sizes of the partition requests
PartBatch == {1, 2, 3}

(***************************************************************************)
(* Behaviours: every presentation is reachable (Grow); every operation is a *)
(* transition to the canonical presentation of its result.                  *)
(***************************************************************************)
\* Presentations are generated cell by cell in index order (each one along exactly one
\* path from the empty lattice), so that TLC's workers share the states.
Idx(v) == (v[2] - 1) * W + (v[1] - XMin)
LastNZ(c) == LET nz == {Idx(v) : v \in Occ(c)} IN IF nz = {} THEN -1 ELSE CHOOSE m \in nz : \A k \in nz : k <= m

Init == code = [r \in 1..NR |-> [x \in XS |-> 0]]

Grow == \E v \in Cells, d \in {1, 2} :
          /\ Idx(v) > LastNZ(code)
          /\ d = 2 => (v[1] > XMin /\ code[v[2]][v[1] - 1] # 0)
          /\ code' = [code EXCEPT ![v[2]][v[1]] = d]

Normalize   == code' = CanonCode(V)
Split(k)    == code' = CanonCode(SplitSet(V, V \cap MaskSet(k)))
Fit(i)      == code' = CanonCode(FitSet(V, Bounds[i]))
Add(k)      == code' = CanonCode(AddSet(V, MaskSet(k)))

Next == \/ Grow
        \/ Normalize
        \/ \E k \in 1..NMasks : Split(k) \/ Add(k)
        \/ \E i \in 1..Len(Bounds) : Fit(i)
Spec == Init /\ [][Next]_vars

(***************************************************************************)
(* Claims                                                                   *)
(***************************************************************************)
TypeOK == Valid(code)

\* normalisation keeps the voxel set; its runs are sorted and neither overlap nor touch
Inv_C18_Normalize ==
    LET c == Canon(V) IN
      /\ SeqVoxels(c) = V
      /\ SeqVoxels(Runs(code)) = V
      /\ \A i \in 1..(Len(c) - 1) :
           \/ c[i][2] < c[i + 1][2]
           \/ c[i][2] = c[i + 1][2] /\ c[i][1] + c[i][3] < c[i + 1][1]

\* partitioning loses and invents nothing, and every voxel lands in the block that contains it
Inv_C18_Partition ==
    \A j \in 1..Len(BlockSizes) :
      LET bs == BlockSizes[j] IN
        /\ UNION {PartSet(V, bs, b) : b \in PartBlocks(V, bs)} = V
        /\ \A b \in PartBlocks(V, bs) : \A v \in PartSet(V, bs, b) :
             /\ b[1] * bs[1] <= v[1] /\ v[1] < (b[1] + 1) * bs[1]
             /\ b[2] * bs[2] <= Y(v[2]) /\ Y(v[2]) < (b[2] + 1) * bs[2]
             /\ b[3] * bs[3] <= Z(v[2]) /\ Z(v[2]) < (b[3] + 1) * bs[3]
        /\ \A b1, b2 \in PartBlocks(V, bs) : b1 # b2 => PartSet(V, bs, b1) \cap PartSet(V, bs, b2) = {}

\* subtracting a subset and putting it back gives the original, for EVERY subset of small
\* sets and for the mask family otherwise
Inv_C18_Split ==
    LET subs == IF Cardinality(V) <= 5 THEN SUBSET V ELSE {V \cap MaskSet(k) : k \in 1..NMasks} IN
      \A T \in subs : /\ SplitSet(V, T) \cup T = V
                      /\ SplitSet(V, T) \cap T = {}
                      /\ SeqVoxels(Canon(SplitSet(V, T))) = V \ T

\* adding counts exactly the voxels that were not there, and nothing is lost
Inv_C18_Add ==
    \A k \in 1..NMasks :
      /\ Cardinality(AddSet(V, MaskSet(k))) = Cardinality(V) + Cardinality(MaskSet(k) \ V)
      /\ V \subseteq AddSet(V, MaskSet(k)) /\ MaskSet(k) \subseteq AddSet(V, MaskSet(k))

\* clipping keeps exactly the voxels inside the box
Inv_C18_Fit ==
    \A i \in 1..Len(Bounds) :
      /\ FitSet(V, Bounds[i]) \subseteq V
      /\ \A v \in V \ FitSet(V, Bounds[i]) : ~InBox(v, Bounds[i])

\* ROI: looking up the block of a point agrees with the voxel extents of the spans
Inv_C18_Roi ==
    EmitRoi => LET rs == Runs(code) IN \A q \in QPoints : Member(q) <=> \E i \in 1..Len(rs) : InSpan(q, rs[i])

\* ROI posted with overlapping spans: membership by the spans' voxel extents is unchanged
Inv_C18_RoiOverlap ==
    EmitRoi => LET os == Overlay(code) IN \A q \in QPoints : Member(q) <=> \E i \in 1..Len(os) : SpanHas(q, os[i])

\* ROI partition: the intended default partition satisfies the claims for every region of the
\* lattice and every batch size (module GeometryPartition)
Inv_C18_PartitionDesign ==
    EmitRoi => \A k \in PartBatch : PartitionOK(RoiBlocks, GridPartition(RoiBlocks, k))

(***************************************************************************)
(* Printer                                                                  *)
(***************************************************************************)
PartJson(S, bs) == {[b |-> b, m |-> MaskOf(PartSet(S, bs, b))] : b \in PartBlocks(S, bs)}

Emit ==
    PrintT(ToJson(
      [runs  |-> Conc(Runs(code)),
       vm    |-> MaskOf(V),
       canon |-> Conc(Canon(V)),
       part  |-> [j \in 1..Len(BlockSizes) |-> PartJson(V, BlockSizes[j])],
       split |-> [k \in 1..NMasks |-> [s |-> Conc(Canon(V \cap MaskSet(k))), m |-> MaskOf(SplitSet(V, V \cap MaskSet(k)))]],
       fit   |-> [i \in 1..Len(Bounds) |-> MaskOf(FitSet(V, Bounds[i]))],
       add   |-> [k \in 1..NMasks |-> MaskOf(AddSet(V, MaskSet(k)))],
       addn  |-> [k \in 1..NMasks |-> Cardinality(MaskSet(k) \ V)],          \* the count Add returns: voxels not there before
       splitx |-> [k \in 1..NMasks |-> [sub |-> MaskSet(k) \subseteq V, m |-> MaskOf(V \ MaskSet(k))]],  \* Split by an operand that need not be a subset
       spans |-> IF EmitRoi THEN Spans(code) ELSE <<>>,
       ospans |-> IF EmitRoi THEN Overlay(code) ELSE <<>>,
       blocks |-> IF EmitRoi THEN RoiBlocks ELSE {},
       zr    |-> IF EmitRoi THEN ZRange ELSE <<>>,
       members |-> IF EmitRoi THEN {q \in QPoints : Member(q)} ELSE {}]))

\* the operands of Add, printed once (in the empty state)
EmitOperands ==
    V = {} => PrintT(ToJson([operands |-> [k \in 1..NMasks |-> Conc(Canon(MaskSet(k)))]]))
=============================================================================
