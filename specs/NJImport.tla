------------------------------ MODULE NJImport ------------------------------
(***************************************************************************)
(* The `import-kv` command of a neuronjson instance (property C16, RPC     *)
(* path): "node <uuid> <neuronjson> import-kv <keyvalue instance>" copies  *)
(* every value of the keyvalue instance whose key is a body id into the    *)
(* neuronjson instance - into the store and into the in-memory database of *)
(* the head alike.  An annotation is a function from a subset of Fields to *)
(* value ids; Absent is "no annotation".  Import replaces whole            *)
(* annotations (no field merging, no _user/_time stamping).                *)
(*                                                                         *)
(* TLC enumerates every case (state of each id before the import x value   *)
(* of each id in the source), checks the claims below and prints, per      *)
(* case, what every read of the property must answer afterwards; the       *)
(* harness replays each case on the real server: in-memory head == this    *)
(* table == the state rebuilt from the store by a restart.                 *)
(***************************************************************************)
EXTENDS Integers, FiniteSets, TLC, Json

Ids    == 1..2
Fields == {"a", "b"}
Absent == [f \in {} |-> 0]
\* annotations used: value ids 1 (written before the import) and 2 (carried by the source)
Anns(v) == {[f \in S |-> v] : S \in (SUBSET Fields) \ {{}}}
Before == {Absent} \cup Anns(1)
Source == {Absent} \cup Anns(2)

Cases == [before : [Ids -> Before], src : [Ids -> Source]]

Import(b, s) == [i \in Ids |-> IF s[i] # Absent THEN s[i] ELSE b[i]]
Keys(st)     == {i \in Ids : st[i] # Absent}
Count(st, f) == Cardinality({i \in Ids : f \in DOMAIN st[i]})

After(c) == Import(c.before, c.src)

\* importing the same source again changes nothing
Claim_Idempotent == \A c \in Cases : Import(After(c), c.src) = After(c)
\* an id is listed once, and exactly when it carries an annotation
Claim_KeysAreASet == \A c \in Cases : Keys(After(c)) = Keys(c.before) \cup Keys(c.src)
\* the field counts are counts of the result, not sums over the requests
Claim_CountsBounded == \A c \in Cases : \A f \in Fields : Count(After(c), f) <= Cardinality(Ids)
\* what the source does not name is left alone
Claim_OthersUntouched == \A c \in Cases : \A i \in Ids : c.src[i] = Absent => After(c)[i] = c.before[i]

VARIABLE done
Init == done = FALSE
Next == done' = TRUE
Spec == Init /\ [][Next]_done

Row(c) == [before |-> [i \in Ids |-> [present |-> c.before[i] # Absent, fields |-> c.before[i]]],
           src    |-> [i \in Ids |-> [present |-> c.src[i] # Absent, fields |-> c.src[i]]],
           after  |-> [i \in Ids |-> [present |-> After(c)[i] # Absent, fields |-> After(c)[i]]],
           keys   |-> Keys(After(c)),
           counts |-> [f \in Fields |-> Count(After(c), f)]]

Emit ==
    ~done =>
        /\ Claim_Idempotent /\ Claim_KeysAreASet /\ Claim_CountsBounded /\ Claim_OthersUntouched
        /\ PrintT(ToJson([cases |-> {Row(c) : c \in Cases}]))
=============================================================================
