---------------------------- MODULE Labelmap_sim ----------------------------
EXTENDS LabelmapReads, Json

Key == [sv |-> sv, mp |-> mp, nxt |-> nxt]
EmitObs == PrintT(ToJson([k |-> Key, d |-> depth, obs |-> Obs, rd |-> Reads]))

\* Simulation: a history variable carries the behaviour; complete behaviours are printed when
\* the depth bound is reached (TLC evaluates invariants on every generated successor, so each
\* printed history is a behaviour of the specification; they share prefixes).
VARIABLE hist
NextH == Next /\ hist' = Append(hist, [l |-> last', t |-> Key'])
SpecSim == Init /\ hist = <<>> /\ [][NextH]_<<vars, hist>>
EmitHist == (depth = MaxOps) => PrintT(ToJson([hist |-> hist]))
=============================================================================
