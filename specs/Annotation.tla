------------------------------ MODULE Annotation ------------------------------
(***************************************************************************)
(* Point annotations synced with a label volume (property C13).            *)
(*                                                                         *)
(* The one element set is                                                  *)
(*    elems : position -> [kind, tags, rels, prop]                         *)
(* over a small pool of abstract positions 1..P.  Every position is placed *)
(* by the harness at one concrete voxel inside region PosRegion[p] of      *)
(* block PosBlock[p] of the generated label geometry (block borders,       *)
(* negative coordinates, several positions per block, one on background).  *)
(* The label state (sv, mp, nxt) and the label operations are those of     *)
(* module Labelmap.                                                        *)
(*                                                                         *)
(* The design keeps denormalised copies of the elements, modelled here as  *)
(* stored variables that every action rewrites the way the design says:    *)
(*    tagIdx    set of <<tag, element without relationships>>              *)
(*    labelIdx  set of <<body, element without relationships>>             *)
(*    cnt       cnt[body][kind] number of elements (the labelsz instance)  *)
(* Inv_C13 states that the copies always equal the views derived from      *)
(* elems and the label state, and that relationships stay mutual.  The     *)
(* derived views are also the oracle: Obs is what every read endpoint of   *)
(* the real annotation / labelsz instances must return after the action.   *)
(***************************************************************************)
EXTENDS Labelmap

CONSTANTS P,          \* number of abstract positions
          PosRegion,  \* PosRegion[p] region holding position p (generated)
          PosBlock,   \* PosBlock[p] block holding position p (generated)
          NT,         \* tags 1..NT
          KindSeq,    \* sequence of element kind names in use
          NRel,       \* relationship types 1..NRel
          InitMP,     \* initial supervoxel -> body mapping (realised by merges)
          InitElems,  \* initial element set (realised by one POST elements)
          NBox,       \* number of query boxes
          BoxPos,     \* BoxPos[x] positions whose voxel lies inside box x (generated)
          BoxBlocks,  \* BoxBlocks[x] blocks intersecting box x (generated)
          ROIBlocks,  \* blocks of the region of interest (generated)
          MaxL,       \* largest label that can be allocated within MaxOps
          Classes,    \* operation classes in the alphabet (subset of AllClasses; generated)
          DeepClasses, \* classes the exhaustive emission continues with below its first layer
          FreshBlocks,    \* blocks of the label volume that are not ingested when the history starts
          ReloadVariants  \* variants of POST reload a block-level ingest may be followed by

VARIABLES elems, tagIdx, labelIdx, cnt,
          fresh       \* blocks of the label volume never written so far

avars == <<elems, tagIdx, labelIdx, cnt, fresh>>
allvars == <<sv, mp, nxt, depth, last, elems, tagIdx, labelIdx, cnt, fresh>>

AllClasses == {"post1", "pair", "retag", "post3", "delete", "move", "moveonto",
               "merge", "cleave", "splitsv", "split", "renumber",
               "overwrite", "overwrite0", "overwritesv", "ingest",
               "blocks", "blocksall", "restart", "postlabels"}
ASSUME Classes \subseteq AllClasses /\ DeepClasses \subseteq Classes
ASSUME ReloadVariants \subseteq {"plain", "check", "lowmem"} /\ ReloadVariants # {}

Positions == 1..P
Tags == 1..NT
NK == Len(KindSeq)
Kinds == 1..NK
RelTs == 1..NRel
Present == DOMAIN elems
Syn(k) == KindSeq[k] \in {"PostSyn", "PreSyn", "Gap"}
IndexNames == <<"PostSyn", "PreSyn", "Gap", "Note", "AllSyn">>

\* the copy of an element kept in the tag and label indexes (no relationships)
NRof(p, r) == [pos |-> p, kind |-> r.kind, tags |-> r.tags, prop |-> r.prop]
BodyAt(p) == Body(PosRegion[p])

\* relationships are mutual, typed alike in both directions, one per pair, and never dangle
WellFormed(e) ==
    \A p \in DOMAIN e :
       /\ e[p].kind \in Kinds /\ e[p].tags \subseteq Tags
       /\ \A x \in e[p].rels :
            /\ x[1] \in DOMAIN e /\ x[1] # p /\ x[2] \in RelTs
            /\ <<p, x[2]>> \in e[x[1]].rels
            /\ \A y \in e[p].rels : y[1] = x[1] => y = x

(***************************************************************************)
(* Derived views (what the property says each index must contain)          *)
(***************************************************************************)
ByBlock(b) == {p \in Present : PosBlock[p] = b}
ByTag(t) == {p \in Present : t \in elems[p].tags}
ByBody(l) == {p \in Present : BodyAt(p) = l}
InBox(x) == Present \cap BoxPos[x]
InBlocksOfBox(x) == {p \in Present : PosBlock[p] \in BoxBlocks[x]}
InROI == {p \in Present : PosBlock[p] \in ROIBlocks}
CountIn(S, name) ==
    IF name = "AllSyn" THEN Cardinality({p \in S : Syn(elems[p].kind)})
    ELSE Cardinality({p \in S : KindSeq[elems[p].kind] = name})
CountIdx(l, name) == CountIn(ByBody(l), name)
\* the counts of a labelsz instance restricted to the region of interest
CountIdxROI(l, name) == CountIn(ByBody(l) \cap InROI, name)

\* indexes rebuilt from an element function under the current label state (reload)
TagIdxOf(e) == UNION {{<<t, NRof(p, e[p])>> : t \in e[p].tags} : p \in DOMAIN e}
LabelIdxOf(e) == {<<BodyAt(p), NRof(p, e[p])>> : p \in {q \in DOMAIN e : BodyAt(q) # 0}}
CntOf(e) == [l \in 1..MaxL |-> [k \in Kinds |-> Cardinality({p \in DOMAIN e : BodyAt(p) = l /\ e[p].kind = k})]]
DropPos(idx, S) == {x \in idx : x[2].pos \notin S}

(***************************************************************************)
(* Printable forms                                                         *)
(***************************************************************************)
RelSeq(rs) == LET qs == SetToSeq({x[1] : x \in rs})
              IN [i \in 1..Len(qs) |-> [to |-> qs[i], t |-> (CHOOSE x \in rs : x[1] = qs[i])[2]]]
ElemRec(p, r) == [pos |-> p, kind |-> KindSeq[r.kind], tags |-> SetToSeq(r.tags), rels |-> RelSeq(r.rels), prop |-> r.prop]
ElemSeq(e) == LET ps == SetToSeq(DOMAIN e) IN [i \in 1..Len(ps) |-> ElemRec(ps[i], e[ps[i]])]

AInit ==
    /\ sv = InitSV
    /\ mp = InitMP
    /\ nxt = InitMax
    /\ depth = 0
    /\ last = [op |-> "init"]
    /\ elems = InitElems
    /\ tagIdx = TagIdxOf(InitElems)
    /\ labelIdx = LabelIdxOf(InitElems)
    /\ cnt = CntOf(InitElems)
    /\ fresh = FreshBlocks

(***************************************************************************)
(* POST elements: every posted element replaces the element at its         *)
(* position (kind, tags, relationships, properties) or is added.           *)
(***************************************************************************)
Post(E) ==
    LET D == DOMAIN E
        new == [p \in Present \cup D |-> IF p \in D THEN E[p] ELSE elems[p]]
    IN /\ D # {} /\ WellFormed(new)
       /\ elems' = new
       /\ tagIdx' = DropPos(tagIdx, D) \cup TagIdxOf(E)
       /\ labelIdx' = DropPos(labelIdx, D) \cup LabelIdxOf(E)
       /\ cnt' = [l \in 1..MaxL |-> [k \in Kinds |->
                    cnt[l][k] + Cardinality({p \in D : BodyAt(p) = l /\ E[p].kind = k})
                              - Cardinality({p \in D \cap Present : BodyAt(p) = l /\ elems[p].kind = k})]]
       /\ UNCHANGED <<sv, mp, nxt, fresh>>
       /\ last' = [op |-> "post", elems |-> ElemSeq(E)]

\* one element: new, or overwriting (kind and tag changes; relationships kept)
PostOne(p, k, T) ==
    Post((p :> [kind |-> k, tags |-> T,
                rels |-> IF p \in Present THEN elems[p].rels ELSE {},
                prop |-> IF p \in Present THEN (elems[p].prop % 2) + 1 ELSE 1]))

\* two elements in one request: they become (link) or stop being (~link) partners, and they
\* exchange their tag sets - one element gains exactly the tags the other one drops
PostPair(p, q, link) ==
    LET t == ((p + q) % NRel) + 1
        base(x) == IF x \in Present THEN elems[x]
                   ELSE [kind |-> ((x - 1) % NK) + 1, tags |-> {}, rels |-> {}, prop |-> 0]
        other(x) == IF x = p THEN q ELSE p
        newrels(x) == LET keep == {y \in base(x).rels : y[1] # other(x)}
                      IN IF link THEN keep \cup {<<other(x), t>>} ELSE keep
    IN Post([x \in {p, q} |-> [kind |-> base(x).kind, tags |-> base(other(x)).tags,
                               rels |-> newrels(x), prop |-> (base(x).prop % 2) + 1]])

\* two existing elements (possibly in different blocks) get the same tag set in one request:
\* the same tag may be dropped from, or added to, both at once
PostRetag(p, q, T) ==
    /\ p \in Present /\ q \in Present
    /\ Post([x \in {p, q} |-> [elems[x] EXCEPT !.tags = T, !.prop = (@ % 2) + 1]])

(***************************************************************************)
(* DELETE element/<p>: the partners drop their reference                   *)
(***************************************************************************)
Delete(p) ==
    /\ p \in Present
    /\ elems' = [q \in Present \ {p} |-> [elems[q] EXCEPT !.rels = {x \in @ : x[1] # p}]]
    /\ tagIdx' = DropPos(tagIdx, {p})
    /\ labelIdx' = DropPos(labelIdx, {p})
    /\ cnt' = IF BodyAt(p) = 0 THEN cnt ELSE [cnt EXCEPT ![BodyAt(p)][elems[p].kind] = @ - 1]
    /\ UNCHANGED <<sv, mp, nxt, fresh>>
    /\ last' = [op |-> "delete", pos |-> p]

(***************************************************************************)
(* POST move/<p>/<q> onto a free position: within a block, across blocks,  *)
(* onto another body or the background; the partners follow                *)
(***************************************************************************)
Move(p, q) ==
    /\ p \in Present /\ q \in Positions \ Present
    /\ elems' = [x \in (Present \ {p}) \cup {q} |->
                   IF x = q THEN elems[p]
                   ELSE [elems[x] EXCEPT !.rels = {IF y[1] = p THEN <<q, y[2]>> ELSE y : y \in @}]]
    /\ tagIdx' = {IF x[2].pos = p THEN <<x[1], [x[2] EXCEPT !.pos = q]>> ELSE x : x \in tagIdx}
    /\ labelIdx' = DropPos(labelIdx, {p}) \cup
                   (IF BodyAt(q) = 0 THEN {} ELSE {<<BodyAt(q), NRof(q, elems[p])>>})
    /\ cnt' = LET k == elems[p].kind
                  c1 == IF BodyAt(p) = 0 THEN cnt ELSE [cnt EXCEPT ![BodyAt(p)][k] = @ - 1]
              IN IF BodyAt(q) = 0 THEN c1 ELSE [c1 EXCEPT ![BodyAt(q)][k] = @ + 1]
    /\ UNCHANGED <<sv, mp, nxt, fresh>>
    /\ last' = [op |-> "move", from |-> p, to |-> q]

(***************************************************************************)
(* Label operations on the synced volume (actions of Labelmap) and what    *)
(* the sync does to the copies                                             *)
(***************************************************************************)
AMerge(T, M) ==
    /\ Merge(T, M)
    /\ labelIdx' = {IF x[1] \in M THEN <<T, x[2]>> ELSE x : x \in labelIdx}
    /\ cnt' = [l \in 1..MaxL |-> [k \in Kinds |->
                 IF l = T THEN cnt[T][k] + SumOver(M, [m \in M |-> cnt[m][k]])
                 ELSE IF l \in M THEN 0 ELSE cnt[l][k]]]
    /\ UNCHANGED <<elems, tagIdx, fresh>>

ACleave(B, C) ==
    LET moved == {x \in labelIdx : x[1] = B /\ sv[PosRegion[x[2].pos]] \in C}
    IN /\ Cleave(B, C)
       /\ labelIdx' = (labelIdx \ moved) \cup {<<nxt + 1, x[2]>> : x \in moved}
       /\ cnt' = [l \in 1..MaxL |-> [k \in Kinds |->
                    IF l = B THEN cnt[B][k] - Cardinality({x \in moved : x[2].kind = k})
                    ELSE IF l = nxt + 1 THEN Cardinality({x \in moved : x[2].kind = k})
                    ELSE cnt[l][k]]]
       /\ UNCHANGED <<elems, tagIdx, fresh>>

\* the body a voxel gets when label x is written into it (0 background; a supervoxel that is
\* present keeps its body; a label new to the volume is its own body)
BodyOfWritten(x) == IF x = 0 THEN 0 ELSE IF x \in DOMAIN mp THEN mp[x] ELSE x
BlocksOfRegions(WR) == {b \in Blocks : \E r \in WR : NVox[r][b] > 0}
RegionsIn(b) == {r \in Regions : NVox[r][b] > 0}
WholeBlock(b) == \A r \in RegionsIn(b) : \A b2 \in Blocks \ {b} : NVox[r][b2] = 0
Bump(c, l, k, d) == IF l = 0 THEN c ELSE [c EXCEPT ![l][k] = @ + d]

\* POST raw?mutate=true writing label x over the regions WR (a voxel edit): x is a label new to
\* the volume, 0 (erase), or a supervoxel already present (own body or mapped to another one).
\* The elements sitting on the rewritten voxels leave their body for the body of x.  Every block
\* holding one of the regions is re-posted; a block never written before is thereby ingested.
AOverwrite(WR, x) ==
    LET moved == {p \in Present : PosRegion[p] \in WR}
        nb == BodyOfWritten(x)
    IN /\ Overwrite(WR, x)
       /\ x <= MaxL
       /\ labelIdx' = DropPos(labelIdx, moved) \cup
                      (IF nb = 0 THEN {} ELSE {<<nb, NRof(p, elems[p])>> : p \in moved})
       /\ cnt' = [l \in 1..MaxL |-> [k \in Kinds |->
                    cnt[l][k] - Cardinality({p \in moved : BodyAt(p) = l /\ elems[p].kind = k})
                              + (IF l = nb THEN Cardinality({p \in moved : elems[p].kind = k}) ELSE 0)]]
       /\ fresh' = fresh \ BlocksOfRegions(WR)
       /\ UNCHANGED <<elems, tagIdx>>

\* POST raw (no mutate) / POST blocks of a block never written before, all of it with label x:
\* the elements already stored in that block enter the list of the body of x
AIngest(b, x, via) ==
    LET WR == RegionsIn(b)
        nb == BodyOfWritten(x)
        here == {p \in Present : PosBlock[p] = b}
    IN /\ b \in fresh /\ x > 0 /\ x <= MaxL
       /\ sv' = [r \in Regions |-> IF r \in WR THEN x ELSE sv[r]]
       /\ mp' = [s \in ({sv'[r] : r \in Regions} \ {0}) |-> IF s \in DOMAIN mp THEN mp[s] ELSE s]
       /\ nxt' = IF x > nxt THEN x ELSE nxt
       /\ labelIdx' = labelIdx \cup {<<nb, NRof(p, elems[p])>> : p \in here}
       /\ cnt' = [l \in 1..MaxL |-> [k \in Kinds |->
                    cnt[l][k] + (IF l = nb THEN Cardinality({p \in here : elems[p].kind = k}) ELSE 0)]]
       /\ fresh' = fresh \ {b}
       /\ UNCHANGED <<elems, tagIdx>>
       /\ last' = [op |-> "ingest", block |-> b, label |-> x, via |-> via]

\* POST split/<B>: the elements on the split voxels move to the new body
ASplit(B, S) ==
    LET moved == {x \in labelIdx : x[1] = B /\ PosRegion[x[2].pos] \in S}
    IN /\ Split(B, S)
       /\ nxt + 1 <= MaxL
       /\ labelIdx' = (labelIdx \ moved) \cup {<<nxt + 1, x[2]>> : x \in moved}
       /\ cnt' = [l \in 1..MaxL |-> [k \in Kinds |->
                    IF l = B THEN cnt[B][k] - Cardinality({x \in moved : x[2].kind = k})
                    ELSE IF l = nxt + 1 THEN Cardinality({x \in moved : x[2].kind = k})
                    ELSE cnt[l][k]]]
       /\ UNCHANGED <<elems, tagIdx, fresh>>

\* POST renumber: the elements of the body follow it to its new label
ARenumber(old, new) ==
    /\ Renumber(old, new)
    /\ new <= MaxL
    /\ labelIdx' = {IF x[1] = old THEN <<new, x[2]>> ELSE x : x \in labelIdx}
    /\ cnt' = [l \in 1..MaxL |-> [k \in Kinds |->
                 IF l = new THEN cnt[old][k] ELSE IF l = old THEN 0 ELSE cnt[l][k]]]
    /\ UNCHANGED <<elems, tagIdx, fresh>>

\* a supervoxel split moves no voxel to another body
ASplitSV(s, S) == SplitSV(s, S) /\ UNCHANGED avars

(***************************************************************************)
(* POST blocks (the whole content of block b is replaced: elements kept,   *)
(* changed, removed, added) followed by POST reload of the annotation and  *)
(* of the labelsz instance: all copies are rebuilt from the elements       *)
(***************************************************************************)
BlocksReload(b, Keep, Chg, New, variant) ==
    LET InB == {p \in Positions : PosBlock[p] = b}
        Removed == (Present \cap InB) \ (Keep \cup Chg)
        rec(p) == IF p \in Keep THEN elems[p]
                  ELSE IF p \in Chg THEN [kind |-> (elems[p].kind % NK) + 1, tags |-> Tags \ elems[p].tags,
                                          rels |-> elems[p].rels, prop |-> (elems[p].prop % 2) + 1]
                  ELSE [kind |-> (p % NK) + 1, tags |-> {(p % NT) + 1}, rels |-> {}, prop |-> 1]
        new == [p \in ((Present \ InB) \cup Keep \cup Chg \cup New) |-> IF p \in InB THEN rec(p) ELSE elems[p]]
    IN /\ Keep \cup Chg \subseteq Present \cap InB /\ Keep \cap Chg = {} /\ New \subseteq InB \ Present
       /\ Chg \cup New \cup Removed # {}
       /\ WellFormed(new)
       /\ elems' = new
       /\ tagIdx' = TagIdxOf(new)
       /\ labelIdx' = LabelIdxOf(new)
       /\ cnt' = CntOf(new)
       /\ UNCHANGED <<sv, mp, nxt, fresh>>
       /\ last' = [op |-> "blocks", block |-> b, variant |-> variant,
                    elems |-> ElemSeq([p \in (DOMAIN new) \cap InB |-> new[p]])]

\* POST blocks carrying every block that holds elements in one request: one element is dropped (or
\* none, drop = 0), every other one is changed; then reload
BlocksAll(drop, variant) ==
    LET Chg == Present \ {drop}
        rec(p) == [kind |-> (elems[p].kind % NK) + 1, tags |-> Tags \ elems[p].tags,
                   rels |-> elems[p].rels, prop |-> (elems[p].prop % 2) + 1]
        new == [p \in Chg |-> rec(p)]
    IN /\ drop \in Present \cup {0} /\ Chg # {}
       /\ WellFormed(new)
       /\ elems' = new
       /\ tagIdx' = TagIdxOf(new)
       /\ labelIdx' = LabelIdxOf(new)
       /\ cnt' = CntOf(new)
       /\ UNCHANGED <<sv, mp, nxt, fresh>>
       /\ last' = [op |-> "blocksall", variant |-> variant, touched |-> SetToSeq({PosBlock[p] : p \in Present}),
                    elems |-> ElemSeq(new)]

\* POST elements with three elements (several blocks, new and existing ones mixed): an existing
\* element changes kind and flips its tags, a new one is created; relationships are kept
PostMany(D) ==
    Post([x \in D |-> IF x \in Present
                      THEN [kind |-> (elems[x].kind % NK) + 1, tags |-> Tags \ elems[x].tags,
                            rels |-> elems[x].rels, prop |-> (elems[x].prop % 2) + 1]
                      ELSE [kind |-> ((x - 1) % NK) + 1, tags |-> {(x % NT) + 1}, rels |-> {}, prop |-> 1]])

(***************************************************************************)
(* POST move/<p>/<q> onto an occupied position.  The interface does not     *)
(* say what happens; two outcomes keep one element set: the request is      *)
(* refused and nothing changes, or the occupant is replaced (it disappears  *)
(* from every view, its partners drop their reference) by the moved one.    *)
(***************************************************************************)
MoveOnto(p, q, outcome) ==
    /\ p \in Present /\ q \in Present /\ p # q
    /\ last' = [op |-> "moveonto", from |-> p, to |-> q, outcome |-> outcome]
    /\ UNCHANGED <<sv, mp, nxt, fresh>>
    /\ IF outcome = "refused" THEN UNCHANGED <<elems, tagIdx, labelIdx, cnt>>
       ELSE LET r == [elems[p] EXCEPT !.rels = {y \in @ : y[1] # q}]
                new == [x \in Present \ {p} |->
                          IF x = q THEN r
                          ELSE [elems[x] EXCEPT !.rels = {IF y[1] = p THEN <<q, y[2]>> ELSE y : y \in {z \in @ : z[1] # q}}]]
            IN /\ elems' = new
               /\ tagIdx' = DropPos(tagIdx, {p, q}) \cup {<<t, NRof(q, r)>> : t \in r.tags}
               /\ labelIdx' = DropPos(labelIdx, {p, q}) \cup
                              (IF BodyAt(q) = 0 THEN {} ELSE {<<BodyAt(q), NRof(q, r)>>})
               /\ cnt' = Bump(Bump(Bump(cnt, BodyAt(p), elems[p].kind, -1), BodyAt(q), elems[q].kind, -1),
                               BodyAt(q), elems[p].kind, 1)

\* a restart of the server: nothing observable changes (the subscriptions are rebuilt at load and
\* must deliver the label operations that follow)
ARestart == UNCHANGED <<sv, mp, nxt, avars>> /\ last' = [op |-> "restart"]

\* POST labels with the current content of every body's list (low-level ingest of consistent
\* data): nothing changes
APostLabels == UNCHANGED <<sv, mp, nxt, avars>> /\ last' = [op |-> "postlabels"]

ANextC(c) ==
    /\ depth < MaxOps
    /\ depth' = depth + 1
    /\ \/ c = "post1" /\ \E p \in Positions : \E k \in Kinds : \E T \in SUBSET Tags : PostOne(p, k, T)
       \/ c = "pair" /\ \E p \in Positions : \E q \in Positions : p < q /\ \E link \in BOOLEAN : PostPair(p, q, link)
       \/ c = "retag" /\ \E p \in Positions : \E q \in Positions : p < q /\ \E T \in {{}, {1}} : PostRetag(p, q, T)
       \/ c = "post3" /\ \E D \in SUBSET Positions : Cardinality(D) = 3 /\ PostMany(D)
       \/ c = "delete" /\ \E p \in Present : Delete(p)
       \/ c = "move" /\ \E p \in Present : \E q \in Positions \ Present : Move(p, q)
       \/ c = "moveonto" /\ \E p \in Present : \E q \in Present \ {p} : \E o \in {"refused", "replaced"} : MoveOnto(p, q, o)
       \/ c = "merge" /\ \E T \in Bodies : \E m \in Bodies \ {T} : AMerge(T, {m})
       \/ c = "cleave" /\ \E B \in Bodies : \E C \in NonEmptyProperSubsets(SVsOf(B)) : ACleave(B, C)
       \/ c = "splitsv" /\ \E s \in SVs : \E S \in NonEmptyProperSubsets(RegionsOfSV(s)) : ASplitSV(s, S)
       \/ c = "split" /\ \E B \in Bodies : \E S \in NonEmptyProperSubsets(RegionsOf(B)) : ASplit(B, S)
       \/ c = "renumber" /\ \E old \in Bodies : ARenumber(old, nxt + 5)
       \/ c = "overwrite" /\ \E r \in Regions : AOverwrite({r}, nxt + 7)
       \/ c = "overwrite0" /\ \E r \in Regions : AOverwrite({r}, 0)
       \/ c = "overwritesv" /\ \E r \in Regions : \E x \in SVs : AOverwrite({r}, x)
       \/ c = "ingest" /\ \E b \in fresh : \E x \in {nxt + 7} \cup SVs : \E via \in {"raw", "blocks"} : AIngest(b, x, via)
       \/ c = "blocks" /\ \E b \in Blocks : LET ex == {p \in Present : PosBlock[p] = b}
                                                ab == {p \in Positions \ Present : PosBlock[p] = b}
                            IN \E Keep \in SUBSET ex : \E Chg \in SUBSET (ex \ Keep) : \E New \in SUBSET ab :
                                  \E v \in ReloadVariants : BlocksReload(b, Keep, Chg, New, v)
       \/ c = "blocksall" /\ \E drop \in Present \cup {0} : \E v \in ReloadVariants : BlocksAll(drop, v)
       \/ c = "restart" /\ ARestart
       \/ c = "postlabels" /\ APostLabels

ANext == \E c \in Classes : ANextC(c)

ASpec == AInit /\ [][ANext]_allvars

(***************************************************************************)
(* Property C13                                                            *)
(***************************************************************************)
\* the stored tag index is exactly the tag view of the element set
Inv_C13_Tags == tagIdx = TagIdxOf(elems)
\* the stored body index is exactly the body view through the label state, and only bodies own entries
Inv_C13_Labels == labelIdx = LabelIdxOf(elems) /\ \A x \in labelIdx : x[1] \in Bodies
\* the stored counts are the counts computed from the elements
Inv_C13_Counts == cnt = CntOf(elems)
\* relationships stay mutual and never dangle (after move / delete in particular)
Inv_C13_Rels == WellFormed(elems)
\* every view partitions / selects the one element set
Inv_C13_Views ==
    /\ UNION {ByBlock(b) : b \in Blocks} = Present
    /\ \A b1, b2 \in Blocks : b1 # b2 => ByBlock(b1) \cap ByBlock(b2) = {}
    /\ UNION {ByBody(l) : l \in Bodies \cup {0}} = Present
    /\ \A l \in Bodies : CountIdx(l, "AllSyn") <= Cardinality(ByBody(l))
\* a block counts as never written only as long as no voxel of it carries a label
Inv_C13_Fresh == \A b \in fresh : WholeBlock(b) /\ \A r \in RegionsIn(b) : sv[r] = 0
Inv_C13 == Inv_C13_Tags /\ Inv_C13_Labels /\ Inv_C13_Counts /\ Inv_C13_Rels /\ Inv_C13_Views /\ Inv_C13_Fresh

\* only label operations and moves change the body of an element; only element operations change elems
Act_C13_LabelOpsKeepElements == [][last'.op \in {"merge", "cleave", "splitsv", "overwrite", "split", "renumber", "ingest", "restart", "postlabels"}
                                      => elems' = elems /\ tagIdx' = tagIdx]_allvars
Act_C13_SplitKeepsBodies == [][last'.op \in {"splitsv", "restart", "postlabels"} => labelIdx' = labelIdx /\ cnt' = cnt]_allvars

(***************************************************************************)
(* What the harness compares after every transition                        *)
(***************************************************************************)
RECURSIVE RankSeq(_, _)
RankSeq(S, f) ==
    IF S = {} THEN <<>>
    ELSE LET x == CHOOSE y \in S : \A z \in S : f[y] > f[z] \/ (f[y] = f[z] /\ y <= z)
         IN <<[label |-> x, n |-> f[x]]>> \o RankSeq(S \ {x}, f)
Ranked(name) == LET f == [l \in Bodies |-> CountIdx(l, name)] IN RankSeq({l \in Bodies : f[l] > 0}, f)
RankedROI(name) == LET f == [l \in Bodies |-> CountIdxROI(l, name)] IN RankSeq({l \in Bodies : f[l] > 0}, f)
AtLeast(seq, t) == SelectSeq(seq, LAMBDA r : r.n >= t)

AObs ==
    [all |-> ElemSeq(elems),
     byBlock |-> [b \in 1..NB |-> SetToSeq(ByBlock(b))],
     byTag |-> [t \in 1..NT |-> SetToSeq(ByTag(t))],
     bodies |-> [i \in 1..Cardinality(Bodies) |->
                   LET l == SetToSeq(Bodies)[i] IN
                   [label |-> l, pos |-> SetToSeq(ByBody(l)),
                    counts |-> [j \in 1..Len(IndexNames) |-> CountIdx(l, IndexNames[j])],
                    roiCounts |-> [j \in 1..Len(IndexNames) |-> CountIdxROI(l, IndexNames[j])]]],
     ghosts |-> SetToSeq((1..nxt) \ Bodies),
     inBox |-> [x \in 1..NBox |-> SetToSeq(InBox(x))],
     blocksOfBox |-> [x \in 1..NBox |-> SetToSeq(InBlocksOfBox(x))],
     roi |-> SetToSeq(InROI),
     posBody |-> [p \in 1..P |-> BodyAt(p)],
     index |-> [j \in 1..Len(IndexNames) |->
                  [name |-> IndexNames[j], ranked |-> Ranked(IndexNames[j]),
                   atLeast2 |-> AtLeast(Ranked(IndexNames[j]), 2),
                   roiRanked |-> RankedROI(IndexNames[j])]],
     usedBlocks |-> SetToSeq({PosBlock[p] : p \in Present}),
     fresh |-> SetToSeq(fresh)]
=============================================================================
