SPECIFICATION SpecEmit
CONSTANTS
  Labels = {"l1", "l2"}
  Annot = "an"
  Sizes = "sz"
  Other = "kv"
  NoSuch = "nosuch"
VIEW View
INVARIANTS Inv_Typed
PROPERTIES Act_NoNewDangling Act_RejectIsStutter
CHECK_DEADLOCK FALSE
