------------------------------- MODULE DvidKVU -------------------------------
(***************************************************************************)
(* DvidKV plus unversioned key-value instances (gap C01-1) and the          *)
(* <root>:<branch> address of a version (gap C01-3).                        *)
(*                                                                         *)
(* An instance created with versioned=false keeps one entry per key for the *)
(* whole repo: whatever version a request names, it acts at the repo's root *)
(* version.  So a write or deletion is accepted at any version - committed  *)
(* or not (there is nothing a commit could freeze) - and a read returns the *)
(* same at every version of the repo, and nothing of another repo.          *)
(***************************************************************************)
EXTENDS DvidKV

VARIABLE uent      \* uent[k] : function from repo roots to Tomb (0) or a value id > 0

kvuvars == <<nn, par, kids, br, lk, kind, rp, uid, head, dead, last, ent, uent>>

KVUInit == KVInit /\ uent = [k \in Keys |-> <<>>]

\* every request on an unversioned instance is mapped to the root version of the repo
URead(n, k) == IF rp[n] \in DOMAIN uent[k] THEN uent[k][rp[n]] ELSE 0

UPut_Ok(n, k, x) ==
    /\ n \in Live /\ x > 0
    /\ uent' = [uent EXCEPT ![k] = Upd(@, rp[n], x)]
    /\ UNCHANGED <<dagvars, ent>>
    /\ last' = [op |-> "uput", ok |-> TRUE]

UDel_Ok(n, k) ==
    /\ n \in Live
    /\ uent' = [uent EXCEPT ![k] = Upd(@, rp[n], Tomb)]
    /\ UNCHANGED <<dagvars, ent>>
    /\ last' = [op |-> "udel", ok |-> TRUE]

\* refused only for a version that does not exist
UWrite_Rej(n) ==
    /\ n \notin Live
    /\ UNCHANGED <<dagvars, ent, uent>>
    /\ last' = [op |-> "uwrite", ok |-> FALSE]

UGet(n, k, r) ==
    /\ n \in Live
    /\ r = URead(n, k)
    /\ UNCHANGED <<dagvars, ent, uent>>
    /\ last' = [op |-> "uget", ok |-> TRUE]

\* the version the address <root>:<branch> names: the head of that branch as tracked by
\* DvidDAG ("" = master), NoNode if the repo has no such branch
BranchNode(root, b) == IF <<root, b>> \in DOMAIN head THEN head[<<root, b>>] ELSE NoNode

\* C01 / C02 for unversioned data, at the level of the design
UContent(root) == [k \in Keys |-> IF root \in DOMAIN uent[k] THEN uent[k][root] ELSE 0]
\* a step that is not a request on the unversioned instance of a repo leaves its content alone;
\* in particular no commit, branch, merge or request on another repo changes it
Act_C01_UnversionedIsolated ==
    [][\A r \in Roots : (last'.op \notin {"uput", "udel", "init"}) => UContent(r)' = UContent(r)]_kvuvars
=============================================================================
