----------------------------- MODULE ImageSlices -----------------------------
(***************************************************************************)
(* Image volumes written slice by slice (property C17, RPC path).          *)
(*                                                                         *)
(* "node <uuid> <imageblk instance> load <x,y,z> <file> <file> ..." stores *)
(* a stack of XY images: file k is the plane z+k, its pixel (i,j) the      *)
(* voxel (x+i, y+j, z+k).  It is the one write path of imageblk that is    *)
(* not block aligned: planes land inside blocks that hold other voxels,    *)
(* which must be kept.  The model is voxel exact on a small volume:        *)
(*     vol[v][p] = id of the last write that covered voxel p, seen from    *)
(*                 version v (0 = never written = background)              *)
(* A write of id w over box bx at version v replaces exactly the voxels of *)
(* bx at v; a new version starts as a copy of its parent.  Block-aligned   *)
(* POST raw writes (the documented HTTP path) provide the old content.     *)
(*                                                                         *)
(* The harness generates seeded request sequences (Cases), TLC evaluates   *)
(* the expected volume of every version after every sequence and checks    *)
(* the claims below on every prefix; the harness replays the sequences on  *)
(* the real server with a fixed refinement of write ids to voxel values    *)
(* and compares every voxel.                                               *)
(***************************************************************************)
EXTENDS Integers, Sequences, FiniteSets, TLC, Json

CONSTANTS B,      \* <<bx, by, bz>>: block size in voxels
          N,      \* <<nx, ny, nz>>: blocks per axis of the observed volume
          Cases   \* sequence of request sequences

Dim(a)  == N[a] * B[a]
Vox     == (0..Dim(1)-1) \X (0..Dim(2)-1) \X (0..Dim(3)-1)
InBox(p, lo, sz) == \A a \in 1..3 : lo[a] <= p[a] /\ p[a] < lo[a] + sz[a]

\* requests
\*   [k |-> "raw",  v, lo, sz]        POST raw/0_1_2/<sz>/<lo> (lo and sz multiples of the block size)
\*   [k |-> "load", v, lo, sz]        load <lo> with sz[3] files of sz[1] x sz[2] pixels
\*   [k |-> "newver", v]              commit v, create a child of v
IsWrite(op) == op.k \in {"raw", "load"}
Aligned(op) == \A a \in 1..3 : op.lo[a] % B[a] = 0 /\ op.sz[a] % B[a] = 0

Empty == [p \in Vox |-> 0]
InitState == [vol |-> << Empty >>, par |-> <<0>>, nw |-> 0]

Step(s, op) ==
    IF IsWrite(op) THEN
        [s EXCEPT !.nw = s.nw + 1,
                  !.vol[op.v] = [p \in Vox |-> IF InBox(p, op.lo, op.sz) THEN s.nw + 1 ELSE s.vol[op.v][p]]]
    ELSE
        [s EXCEPT !.vol = Append(s.vol, s.vol[op.v]), !.par = Append(s.par, op.v)]

RECURSIVE Run(_, _, _)
Run(s, ops, i) == IF i > Len(ops) THEN s ELSE Run(Step(s, ops[i]), ops, i + 1)
Prefix(ops, n) == SubSeq(ops, 1, n)
After(ops, n) == Run(InitState, Prefix(ops, n), 1)

\* well-formedness of the generated sequences (a bug of the generator is not a verdict)
WellFormed(ops) ==
    \A i \in 1..Len(ops) :
        LET s == After(ops, i - 1) op == ops[i] IN
        /\ op.v \in 1..Len(s.vol)
        /\ IsWrite(op) => /\ \A a \in 1..3 : op.lo[a] >= 0 /\ op.sz[a] >= 1 /\ op.lo[a] + op.sz[a] <= Dim(a)
                          /\ op.k = "raw" => Aligned(op)
                          \* writes go to open versions: a version that has a child is committed
                          /\ \A c \in 1..Len(s.par) : s.par[c] # op.v

\* Claims, checked on every prefix of every sequence
\* a write changes exactly its box, at its version only
Claim_WriteIsItsBox(ops) ==
    \A i \in 1..Len(ops) : IsWrite(ops[i]) =>
        LET s == After(ops, i - 1) t == After(ops, i) op == ops[i] IN
        /\ \A v \in 1..Len(s.vol) : v # op.v => t.vol[v] = s.vol[v]
        /\ \A p \in Vox : t.vol[op.v][p] = (IF InBox(p, op.lo, op.sz) THEN t.nw ELSE s.vol[op.v][p])
\* a slice stack is the same write as the aligned raw write of its box where the box is aligned
Claim_LoadLikeRaw(ops) ==
    \A i \in 1..Len(ops) : (ops[i].k = "load" /\ Aligned(ops[i])) =>
        Step(After(ops, i - 1), ops[i]) = Step(After(ops, i - 1), [ops[i] EXCEPT !.k = "raw"])
\* a new version reads like its parent until it is written
Claim_ChildInherits(ops) ==
    \A i \in 1..Len(ops) : ops[i].k = "newver" =>
        LET t == After(ops, i) IN t.vol[Len(t.vol)] = t.vol[ops[i].v]

Flat(f) == [i \in 1..(Dim(1) * Dim(2) * Dim(3)) |->
              f[<< (i - 1) % Dim(1), ((i - 1) \div Dim(1)) % Dim(2), (i - 1) \div (Dim(1) * Dim(2)) >>]]

VARIABLE c
Init == c = 1
Next == c <= Len(Cases) /\ c' = c + 1
Spec == Init /\ [][Next]_c

Emit ==
    c <= Len(Cases) =>
        LET ops == Cases[c] fin == After(ops, Len(ops)) IN
        /\ Assert(WellFormed(ops), <<"generated sequence is not well formed", c>>)
        /\ Claim_WriteIsItsBox(ops) /\ Claim_LoadLikeRaw(ops) /\ Claim_ChildInherits(ops)
        /\ PrintT(ToJson([case |-> c, nver |-> Len(fin.vol), par |-> fin.par,
                          vols |-> [v \in 1..Len(fin.vol) |-> Flat(fin.vol[v])]]))
=============================================================================
