---------------------------- MODULE LabelBlockCodec ----------------------------
(***************************************************************************)
(* Class table for property C09 (the compressed label block codec is       *)
(* lossless and its views agree).                                          *)
(*                                                                         *)
(* Encoding followed by decoding is the identity on the abstract           *)
(* labelling, so there is no behaviour to explore; what TLC does here is   *)
(*  (a) enumerate the STRUCTURAL CLASSES of label arrays named by the      *)
(*      property's quantifier (one initial state per class),               *)
(*  (b) build the abstract block of each class and evaluate its views      *)
(*      (voxel count per label, foreground palette positions of several    *)
(*      label sets) - the expected results replayed on labels.Block,       *)
(*  (c) check the consistency claims of the views on every class.          *)
(* The harness expands each class into seeded concrete arrays (position of *)
(* the sub-blocks, concrete 64-bit labels, block coordinate, sub-volume    *)
(* offsets) and compares labels.MakeBlock / MakeLabelVolume / Value / ...  *)
(* with the values printed here.                                           *)
(*                                                                         *)
(* A class:                                                                *)
(*   dims   block size in voxels: every shape over {16,32,64} up to MaxDim, *)
(*          some with 24 / 40 / 72 (odd numbers of sub-blocks) and, with   *)
(*          MaxDim 64, the maximal extent 1024 along one axis              *)
(*   k      number of distinct labels of the RICH sub-block (region 1, one *)
(*          whole 8x8x8 sub-block): 1, 2, and both sides of every bit      *)
(*          width boundary up to 512 (9-bit indices)                       *)
(*   lay    how the k labels are laid out in the rich sub-block            *)
(*   zero   label 0 is one of the k labels                                 *)
(*   split  how a second sub-block is split between two labels (regions 2  *)
(*          and 3): halves, single voxel, a run of m voxels, checkerboard, *)
(*          a slab                                                         *)
(*   bg     the rest of the block (regions 4..): the first label of the    *)
(*          rich sub-block again / label 0 / another label / several       *)
(*          labels (one per group of sub-blocks)                           *)
(*   lcls   magnitude class of the concrete labels (harness refinement)    *)
(* plus the two solid classes (one label / label 0 only).                  *)
(* The table is the full product k x lay x zero x bg; dims, split and lcls *)
(* rotate over it (Rot shifts the rotation: more rotations = more pairs).  *)
(***************************************************************************)
EXTENDS LabelBlock, TLC, Json

CONSTANTS MaxDim,     \* 32 (quick) or 64
          RotBase, Rot

VARIABLES cls, stage     \* stage 0 -> 1: the (expensive) evaluation happens at stage 1, spread over TLC's workers

PalSizes == <<1, 2, 3, 4, 5, 8, 9, 16, 17, 31, 32, 33, 63, 64, 65, 127, 128, 129, 255, 256, 257, 511, 512>>
DimSeq == IF MaxDim >= 64
          THEN << <<16,16,16>>, <<32,32,32>>, <<64,64,64>>, <<16,32,64>>, <<64,16,32>>, <<32,64,16>>, <<16,16,32>>,
                  <<32,16,16>>, <<16,64,16>>, <<64,64,16>>, <<16,32,32>>, <<64,32,64>>, <<32,32,16>>, <<16,64,64>>,
                  <<32,64,32>>, <<64,16,16>>, <<16,16,64>>, <<32,16,32>>, <<64,32,32>>, <<16,32,16>>, <<32,32,64>>,
                  <<64,64,32>>, <<32,64,64>>, <<64,16,64>>, <<16,64,32>>, <<64,32,16>>, <<32,16,64>>,
                  <<24,16,16>>, <<24,24,24>>, <<40,24,24>>, <<72,16,24>>, <<1024,16,16>>, <<16,16,1024>> >>
          ELSE << <<16,16,16>>, <<32,32,32>>, <<16,32,16>>, <<32,16,16>>, <<16,16,32>>, <<32,32,16>>, <<16,32,32>>, <<32,16,32>>,
                  <<24,16,16>>, <<24,24,24>> >>

\* split kinds: [scheme code of lblgeom, parameter, voxels of part 0]
Splits == << [s |-> 1, p |-> 0, n |-> 256],   \* halves in x
             [s |-> 2, p |-> 0, n |-> 256],   \* halves in y
             [s |-> 3, p |-> 0, n |-> 256],   \* halves in z
             [s |-> 4, p |-> -1, n |-> 1],    \* one voxel (position chosen by the harness)
             [s |-> 5, p |-> 1, n |-> 1],     \* run of the first m voxels in scan order
             [s |-> 5, p |-> 9, n |-> 9],
             [s |-> 5, p |-> 100, n |-> 100],
             [s |-> 5, p |-> 511, n |-> 511],
             [s |-> 6, p |-> 0, n |-> 256],   \* checkerboard
             [s |-> 9, p |-> 3, n |-> 192] >> \* slab x < 3
BGs == <<"same", "zero", "other", "several">>
LClasses == <<"small", "wide", "top", "mid32">>
NGroups == 5     \* "several": the rest of the sub-blocks in 5 groups (sub-block number mod 5)

Classes ==
    {[k |-> PalSizes[ki], ki |-> ki, lay |-> l, zero |-> z, bgi |-> bi, rot |-> ro, solid |-> FALSE] :
        ki \in 1..Len(PalSizes), l \in 0..2, z \in BOOLEAN, bi \in 1..Len(BGs), ro \in RotBase..(RotBase + Rot - 1)}
    \cup {[k |-> 1, ki |-> 1, lay |-> 0, zero |-> z, bgi |-> 1, rot |-> ro, solid |-> TRUE] :
             z \in BOOLEAN, ro \in RotBase..(RotBase + Rot - 1)}

Mix(c) == c.ki * 7 + c.lay * 3 + c.bgi * 5 + (IF c.zero THEN 11 ELSE 0) + c.rot * 13
DimOf(c) == DimSeq[(Mix(c) % Len(DimSeq)) + 1]
SplitOf(c) == Splits[((c.ki + c.lay * 2 + c.bgi * 3 + c.rot * 7) % Len(Splits)) + 1]
LClassOf(c) == LClasses[((c.ki + c.lay + c.bgi + c.rot) % Len(LClasses)) + 1]

NumSB(d) == (d[1] \div 8) * (d[2] \div 8) * (d[3] \div 8)

\* abstract labels: rich palette = first..first+k-1 (first = 0 if zero), then a, b2, bg labels
First(c) == IF c.zero THEN 0 ELSE 1
RichPal(c) == [i \in 1..c.k |-> First(c) + i - 1]
LabA(c) == First(c) + c.k
LabB(c) == First(c) + c.k + 1
LabBG(c, g) == First(c) + c.k + 1 + g

\* sizes of the groups of the remaining NumSB-2 sub-blocks (rest sub-block i = 0..NumSB-3 goes to group i % NGroups)
GroupSize(d, g) == LET n == NumSB(d) - 2 IN 512 * ((n - g + NGroups) \div NGroups)   \* g in 1..NGroups

BlockOf(c) ==
    LET d == DimOf(c)
        sp == SplitOf(c)
        bg == BGs[c.bgi]
    IN  IF c.solid
        THEN [size |-> <<512, sp.n, 512 - sp.n, 512 * (NumSB(d) - 2)>>, lay |-> <<0, 0, 0, 0>>,
              pal |-> << <<First(c)>>, <<First(c)>>, <<First(c)>>, <<First(c)>> >>]
        ELSE IF bg = "several"
        THEN [size |-> <<512, sp.n, 512 - sp.n>> \o [g \in 1..NGroups |-> GroupSize(d, g)],
              lay |-> <<c.lay, 0, 0>> \o [g \in 1..NGroups |-> 0],
              pal |-> <<RichPal(c), <<LabA(c)>>, <<LabB(c)>> >> \o [g \in 1..NGroups |-> <<LabBG(c, g)>>]]
        ELSE [size |-> <<512, sp.n, 512 - sp.n, 512 * (NumSB(d) - 2)>>, lay |-> <<c.lay, 0, 0, 0>>,
              pal |-> <<RichPal(c), <<LabA(c)>>, <<LabB(c)>>,
                        <<CASE bg = "same" -> RichPal(c)[1] [] bg = "zero" -> 0 [] OTHER -> LabBG(c, 1)>> >>]

\* label sets whose sparse (run-length / binary block) views are replayed
LabelSets(c) ==
    LET b == BlockOf(c)
        nz == LabelsOf(b) \ {0}
        richNZ == {l \in Range(b.pal[1]) : l # 0}
    IN  << {CHOOSE l \in richNZ \cup {LabA(c)} : \A m \in richNZ \cup {LabA(c)} : l <= m},  \* first non-zero label
           {LabA(c)} \cap nz,
           {LabA(c), LabB(c), LabBG(c, 1)} \cap nz,
           nz,
           {First(c) + c.k + 50},                                                           \* absent label
           {l \in richNZ : l % 2 = 0} \cup ({LabB(c)} \cap nz) >>

Init == cls \in Classes /\ stage = 0
Next == stage = 0 /\ stage' = 1 /\ UNCHANGED cls
Spec == Init /\ [][Next]_<<cls, stage>>

\* the claims about the views of the class, and its expected views (one line per class)
ClaimsAndEmit ==
    stage = 1 =>
    LET b == BlockOf(cls)
        ls == LabelSets(cls)
        n == NumLabels(b)
    IN  /\ Volume(b) = DimOf(cls)[1] * DimOf(cls)[2] * DimOf(cls)[3]
        /\ CntConsistent(b.lay[1], b.size[1], Len(b.pal[1]))
        /\ \A r \in Regions(b) : b.size[r] > 0 /\ Len(b.pal[r]) <= b.size[r]
        /\ CountsPartition(b, n)
        /\ \A i \in 1..Len(ls) : ViewClaims(b, ls[i])
        /\ PrintT(ToJson([cls |-> cls, dims |-> DimOf(cls), split |-> SplitOf(cls), lclass |-> LClassOf(cls),
                          bg |-> BGs[cls.bgi], size |-> b.size, lay |-> b.lay, pal |-> b.pal,
                          counts |-> n,
                          sets |-> [i \in 1..Len(ls) |-> [labels |-> ls[i], fg |-> Foreground(b, ls[i])]],
                          weights |-> CornerWeights]))
=============================================================================
