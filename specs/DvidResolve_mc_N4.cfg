SPECIFICATION MCSpec
CONSTANTS
  MaxNodes = 8
  MaxRepos = 1
  MaxParents = 3
  Branches = {}
  UUIDPool = {}
  WithRejects = TRUE
  LastFoundBug = FALSE
  Keys = {"k1", "k2", "k3", "k4"}
  AllowInnerMergeConflict = FALSE
  N = 4
  ExhKeys = {"k1"}
INVARIANTS Inv_C07G EmitResolved
PROPERTIES Act_ResolveClaims Act_ResolveRejIsStutter Act_C02_Frozen
CHECK_DEADLOCK FALSE
