SPECIFICATION TSpec
CONSTANTS
  MaxNodes = 64
  MaxRepos = 64
  MaxParents = 3
  Branches = {"a", "b"}
  UUIDPool = {}
  WithRejects = TRUE
  LastFoundBug = FALSE
  Keys = {"k1", "k2", "k3"}
  AllowInnerMergeConflict = FALSE
INVARIANTS Inv_C07
POSTCONDITION TraceAccepted
CHECK_DEADLOCK FALSE
