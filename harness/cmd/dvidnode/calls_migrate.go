//go:build badger && verif

package main

import (
	"encoding/hex"
	"encoding/json"
	"fmt"
	"os"
	"runtime/debug"
	"time"

	"github.com/janelia-flyem/dvid/datastore"
	"github.com/janelia-flyem/dvid/dvid"
	"github.com/janelia-flyem/dvid/storage"
)

// Package-level entry points of property C19, store migration:
//   migrate.instance  datastore.MigrateInstance ("repo <uuid> migrate <instance> <src> <dst> transmit=...")
//   migrate.batch     datastore.MigrateBatch    ("repo <uuid> migrate-batch <config file>")
//   migrate.dump      the raw key-value pairs of one instance in one store (observation only)
//   migrate.wipe      removes the raw key-value pairs of one instance from one store (harness
//                     housekeeping: lets one destination store take several migrations in turn)

func init() {
	calls["migrate.instance"] = callMigrateInstance
	calls["migrate.batch"] = callMigrateBatch
	calls["migrate.dump"] = callMigrateDump
	calls["migrate.wipe"] = callMigrateWipe
	calls["kv.putdata"] = callKVPutData
}

// callKVPutData is keyvalue.Data.PutData, the entry point behind POST .../key/<key>; it is how a
// value of zero bytes is written (the harness' request channel cannot carry an empty, non-nil body).
func callKVPutData(args json.RawMessage) (interface{}, error) {
	var a struct {
		UUID  string `json:"uuid"`
		Name  string `json:"name"`
		Key   string `json:"key"`
		Value []byte `json:"value"`
	}
	if err := json.Unmarshal(args, &a); err != nil {
		return nil, err
	}
	d, err := datastore.GetDataByUUIDName(dvid.UUID(a.UUID), dvid.InstanceName(a.Name))
	if err != nil {
		return nil, err
	}
	v, err := datastore.VersionFromUUID(dvid.UUID(a.UUID))
	if err != nil {
		return nil, err
	}
	p, ok := d.(interface {
		PutData(ctx storage.Context, keyStr string, value []byte) error
	})
	if !ok {
		return nil, fmt.Errorf("%s has no PutData", a.Name)
	}
	if a.Value == nil {
		a.Value = []byte{}
	}
	return nil, p.PutData(datastore.NewVersionedCtx(d, v), a.Key, a.Value)
}

func callMigrateInstance(args json.RawMessage) (interface{}, error) {
	var a struct {
		UUID      string `json:"uuid"`
		Source    string `json:"source"`
		SrcStore  string `json:"src_store"`
		DstStore  string `json:"dst_store"`
		Transmit  string `json:"transmit"`
		TimeoutMS int    `json:"timeout_ms"`
	}
	if err := json.Unmarshal(args, &a); err != nil {
		return nil, err
	}
	srcStore, err := storage.GetStoreByAlias(storage.Alias(a.SrcStore))
	if err != nil {
		return nil, fmt.Errorf("source store %q: %v", a.SrcStore, err)
	}
	dstStore, err := storage.GetStoreByAlias(storage.Alias(a.DstStore))
	if err != nil {
		return nil, fmt.Errorf("destination store %q: %v", a.DstStore, err)
	}
	c := dvid.NewConfig()
	if a.Transmit != "" {
		c.Set("transmit", a.Transmit)
	}
	out := struct {
		Err   string `json:"err,omitempty"`
		Panic string `json:"panic,omitempty"`
		Done  bool   `json:"done"`
	}{}
	done := make(chan bool, 1)
	func() {
		defer func() {
			if e := recover(); e != nil {
				out.Panic = fmt.Sprintf("%v\n%s", e, debug.Stack())
			}
		}()
		if err := datastore.MigrateInstance(dvid.UUID(a.UUID), dvid.InstanceName(a.Source), srcStore, dstStore, c, done); err != nil {
			out.Err = err.Error()
		}
	}()
	if out.Err != "" || out.Panic != "" {
		return out, nil
	}
	// the copy runs in a goroutine that signals done only when it succeeded
	to := time.Duration(a.TimeoutMS) * time.Millisecond
	if to <= 0 {
		to = 30 * time.Second
	}
	select {
	case <-done:
		out.Done = true
	case <-time.After(to):
		out.Err = "the migration did not report completion (an error inside the asynchronous copy is only logged)"
	}
	return out, nil
}

func callMigrateBatch(args json.RawMessage) (interface{}, error) {
	var a struct {
		UUID   string          `json:"uuid"`
		Config json.RawMessage `json:"config"`
		Dir    string          `json:"dir"` // where the configuration file is written
	}
	if err := json.Unmarshal(args, &a); err != nil {
		return nil, err
	}
	f, err := os.CreateTemp(a.Dir, "migrate-batch-*.json")
	if err != nil {
		return nil, err
	}
	defer os.Remove(f.Name())
	if _, err := f.Write(a.Config); err != nil {
		return nil, err
	}
	f.Close()
	out := struct {
		Err   string `json:"err,omitempty"`
		Panic string `json:"panic,omitempty"`
	}{}
	func() {
		defer func() {
			if e := recover(); e != nil {
				out.Panic = fmt.Sprintf("%v\n%s", e, debug.Stack())
			}
		}()
		if err := datastore.MigrateBatch(dvid.UUID(a.UUID), f.Name()); err != nil {
			out.Err = err.Error()
		}
	}()
	return out, nil
}

type rawEntry struct {
	TKey    string `json:"tkey"` // hex of the type-specific key
	Version uint32 `json:"v"`
	UUID    string `json:"uuid"`
	Tomb    bool   `json:"tomb,omitempty"`
	Val     []byte `json:"val,omitempty"`
}

type rawRanger interface {
	RawRangeQuery(kStart, kEnd storage.Key, keysOnly bool, out chan *storage.KeyValue, cancel <-chan struct{}) error
}

func instanceRaw(store dvid.Store, id dvid.InstanceID, f func(kv *storage.KeyValue)) error {
	db, ok := store.(rawRanger)
	if !ok {
		return fmt.Errorf("store %s has no raw range query", store)
	}
	beg, end := storage.DataInstanceKeyRange(id)
	ch := make(chan *storage.KeyValue, 1000)
	fin := make(chan struct{})
	go func() {
		for kv := range ch {
			if kv == nil {
				break
			}
			f(kv)
		}
		close(fin)
	}()
	err := db.RawRangeQuery(beg, end, false, ch, nil)
	if err != nil {
		ch <- nil
	}
	<-fin
	return err
}

type dumpArgs struct {
	UUID   string `json:"uuid"`
	Source string `json:"source"`
	Store  string `json:"store"`
}

func dumpTarget(args json.RawMessage) (dvid.Store, datastore.DataService, error) {
	var a dumpArgs
	if err := json.Unmarshal(args, &a); err != nil {
		return nil, nil, err
	}
	store, err := storage.GetStoreByAlias(storage.Alias(a.Store))
	if err != nil {
		return nil, nil, fmt.Errorf("store %q: %v", a.Store, err)
	}
	d, err := datastore.GetDataByUUIDName(dvid.UUID(a.UUID), dvid.InstanceName(a.Source))
	if err != nil {
		return nil, nil, err
	}
	return store, d, nil
}

func callMigrateDump(args json.RawMessage) (interface{}, error) {
	store, d, err := dumpTarget(args)
	if err != nil {
		return nil, err
	}
	out := struct {
		Assigned string     `json:"assigned"` // the store the instance currently reads and writes
		ID       uint32     `json:"id"`
		Entries  []rawEntry `json:"entries"`
		Bad      []string   `json:"bad,omitempty"`
	}{ID: uint32(d.InstanceID())}
	if s, err := d.KVStore(); err == nil {
		out.Assigned = fmt.Sprint(s)
	}
	err = instanceRaw(store, d.InstanceID(), func(kv *storage.KeyValue) {
		tk, err1 := storage.TKeyFromKey(kv.K)
		v, err2 := storage.VersionFromDataKey(kv.K)
		if err1 != nil || err2 != nil {
			out.Bad = append(out.Bad, hex.EncodeToString(kv.K))
			return
		}
		e := rawEntry{TKey: hex.EncodeToString(tk), Version: uint32(v), Tomb: kv.K.IsTombstone(), Val: kv.V}
		if u, err := datastore.UUIDFromVersion(v); err == nil {
			e.UUID = string(u)
		}
		out.Entries = append(out.Entries, e)
	})
	if err != nil {
		return nil, err
	}
	return out, nil
}

func callMigrateWipe(args json.RawMessage) (interface{}, error) {
	store, d, err := dumpTarget(args)
	if err != nil {
		return nil, err
	}
	del, ok := store.(interface{ RawDelete(storage.Key) error })
	if !ok {
		return nil, fmt.Errorf("store %s has no raw delete", store)
	}
	var keys []storage.Key
	if err := instanceRaw(store, d.InstanceID(), func(kv *storage.KeyValue) { keys = append(keys, kv.K) }); err != nil {
		return nil, err
	}
	for _, k := range keys {
		if err := del.RawDelete(k); err != nil {
			return nil, err
		}
	}
	return map[string]int{"deleted": len(keys)}, nil
}
