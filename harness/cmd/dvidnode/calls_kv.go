//go:build badger && verif

package main

import (
	"encoding/json"
	"fmt"
	"math/rand"

	"github.com/janelia-flyem/dvid/datastore"
	"github.com/janelia-flyem/dvid/dvid"
	"github.com/janelia-flyem/dvid/storage"
)

func init() {
	calls["kv.best"] = callKVBest
}

// callKVBest presents synthetic per-version key sets to VersionedCtx.GetBestKeyVersion
// and VersionedKeyValue.  For every placement (string of digits, digit k = entry at
// node k: 0 none, 1 value, 2 tombstone) and every query node it returns the index of
// the node whose entry is chosen (0 = none, -1 = error).
func callKVBest(args json.RawMessage) (interface{}, error) {
	var a struct {
		Data       string   `json:"data"`
		UUIDs      []string `json:"uuids"`
		Placements []string `json:"placements"`
		Seed       int64    `json:"seed"`
		Shuffles   int      `json:"shuffles"`
	}
	if err := json.Unmarshal(args, &a); err != nil {
		return nil, err
	}
	if len(a.UUIDs) == 0 {
		return nil, fmt.Errorf("no uuids")
	}
	d, err := datastore.GetDataByUUIDName(dvid.UUID(a.UUIDs[0]), dvid.InstanceName(a.Data))
	if err != nil {
		return nil, err
	}
	vers := make([]dvid.VersionID, len(a.UUIDs))
	v2n := map[dvid.VersionID]int{}
	ctxs := make([]*datastore.VersionedCtx, len(a.UUIDs))
	for i, u := range a.UUIDs {
		v, err := datastore.VersionFromUUID(dvid.UUID(u))
		if err != nil {
			return nil, err
		}
		vers[i] = v
		v2n[v] = i + 1
		ctxs[i] = datastore.NewVersionedCtx(d, v)
	}
	tk := storage.NewTKey(177, []byte("synthetic"))
	rng := rand.New(rand.NewSource(a.Seed))
	out := make([][]int, len(a.Placements))
	for pi, pl := range a.Placements {
		var keys []storage.Key
		for k := 0; k < len(pl) && k < len(ctxs); k++ {
			switch pl[k] {
			case '1':
				keys = append(keys, ctxs[k].ConstructKey(tk))
			case '2':
				keys = append(keys, ctxs[k].TombstoneKey(tk))
			}
		}
		row := make([]int, len(ctxs))
		for q := range ctxs {
			res := 0
			first := true
			for s := 0; s <= a.Shuffles; s++ {
				ks := append([]storage.Key(nil), keys...)
				if s > 0 {
					rng.Shuffle(len(ks), func(i, j int) { ks[i], ks[j] = ks[j], ks[i] })
				}
				r1 := 0
				best, err := ctxs[q].GetBestKeyVersion(ks)
				if err != nil {
					r1 = -1
				} else if best != nil {
					v, err := ctxs[q].VersionFromKey(best)
					if err != nil {
						return nil, err
					}
					r1 = v2n[v]
					if best.IsTombstone() {
						r1 = -2 // a tombstone must never be returned as the best key
					}
				}
				// same through VersionedKeyValue
				kvs := make([]*storage.KeyValue, len(ks))
				for i, k := range ks {
					kvs[i] = &storage.KeyValue{K: k, V: []byte{1}}
				}
				r2 := 0
				kv, err := ctxs[q].VersionedKeyValue(kvs)
				if err != nil {
					r2 = -1
				} else if kv != nil {
					v, err := ctxs[q].VersionFromKey(kv.K)
					if err != nil {
						return nil, err
					}
					r2 = v2n[v]
				}
				if r1 != r2 && !(r1 == 0 && r2 == -1) {
					// GetBestKeyVersion reports a conflict as "no key" (it drops the error);
					// any other disagreement between the two entry points is reported
					r1 = -3
				} else {
					r1 = r2
				}
				if first {
					res = r1
					first = false
				} else if res != r1 {
					res = -4 // depends on the order of the key slice
				}
			}
			row[q] = res
		}
		out[pi] = row
	}
	return out, nil
}
