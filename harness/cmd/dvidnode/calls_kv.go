//go:build badger && verif

package main

import (
	"encoding/json"
	"fmt"
	"math/rand"

	"github.com/janelia-flyem/dvid/datastore"
	"github.com/janelia-flyem/dvid/dvid"
	"github.com/janelia-flyem/dvid/storage"
)

func init() {
	calls["kv.best"] = callKVBest
}

// callKVBest presents synthetic per-version key sets to VersionedCtx.GetBestKeyVersion
// and VersionedKeyValue.  For every placement (string of digits, digit k = entry at
// node k: 0 none, 1 value, 2 tombstone) and every query node it returns the index of
// the node whose entry is chosen (0 = none, -1 = error).
func callKVBest(args json.RawMessage) (interface{}, error) {
	var a struct {
		Data       string   `json:"data"`
		UUIDs      []string `json:"uuids"`
		Placements []string `json:"placements"`
		Seed       int64    `json:"seed"`
		Shuffles   int      `json:"shuffles"`
	}
	if err := json.Unmarshal(args, &a); err != nil {
		return nil, err
	}
	if len(a.UUIDs) == 0 {
		return nil, fmt.Errorf("no uuids")
	}
	d, err := datastore.GetDataByUUIDName(dvid.UUID(a.UUIDs[0]), dvid.InstanceName(a.Data))
	if err != nil {
		return nil, err
	}
	vers := make([]dvid.VersionID, len(a.UUIDs))
	v2n := map[dvid.VersionID]int{}
	ctxs := make([]*datastore.VersionedCtx, len(a.UUIDs))
	for i, u := range a.UUIDs {
		v, err := datastore.VersionFromUUID(dvid.UUID(u))
		if err != nil {
			return nil, err
		}
		vers[i] = v
		v2n[v] = i + 1
		ctxs[i] = datastore.NewVersionedCtx(d, v)
	}
	tk := storage.NewTKey(177, []byte("synthetic"))
	rng := rand.New(rand.NewSource(a.Seed))
	out := make([][]int, len(a.Placements))
	for pi, pl := range a.Placements {
		var keys []storage.Key
		for k := 0; k < len(pl) && k < len(ctxs); k++ {
			switch pl[k] {
			case '1':
				keys = append(keys, ctxs[k].ConstructKey(tk))
			case '2':
				keys = append(keys, ctxs[k].TombstoneKey(tk))
			}
		}
		row := make([]int, len(ctxs))
		for q := range ctxs {
			res := 0
			first := true
			for s := 0; s <= a.Shuffles; s++ {
				ks := append([]storage.Key(nil), keys...)
				if s > 0 {
					rng.Shuffle(len(ks), func(i, j int) { ks[i], ks[j] = ks[j], ks[i] })
				}
				r1 := 0
				best, err := ctxs[q].GetBestKeyVersion(ks)
				if err != nil {
					r1 = -1
				} else if best != nil {
					v, err := ctxs[q].VersionFromKey(best)
					if err != nil {
						return nil, err
					}
					r1 = v2n[v]
					if best.IsTombstone() {
						r1 = -2 // a tombstone must never be returned as the best key
					}
				}
				// same through VersionedKeyValue
				kvs := make([]*storage.KeyValue, len(ks))
				for i, k := range ks {
					kvs[i] = &storage.KeyValue{K: k, V: []byte{1}}
				}
				r2 := 0
				kv, err := ctxs[q].VersionedKeyValue(kvs)
				if err != nil {
					r2 = -1
				} else if kv != nil {
					v, err := ctxs[q].VersionFromKey(kv.K)
					if err != nil {
						return nil, err
					}
					r2 = v2n[v]
				}
				if r1 != r2 && !(r1 == 0 && r2 == -1) {
					// GetBestKeyVersion reports a conflict as "no key" (it drops the error);
					// any other disagreement between the two entry points is reported
					r1 = -3
				} else {
					r1 = r2
				}
				if first {
					res = r1
					first = false
				} else if res != r1 {
					res = -4 // depends on the order of the key slice
				}
			}
			row[q] = res
		}
		out[pi] = row
	}
	return out, nil
}

func init() {
	calls["kv.range"] = callKVRange
	calls["kv.deleterange"] = callKVDeleteRange
}

type kvRangeArgs struct {
	Data string `json:"data"`
	UUID string `json:"uuid"`
	Lo   string `json:"lo"`
	Hi   string `json:"hi"`
	// Whole = "true": the whole key class of the keyvalue datatype instead of [lo, hi]
	Whole string `json:"whole,omitempty"`
	// Raw = "true": a storage.DataContext (Versioned() = false: the store's unversioned scan and plain
	// deletes) at the version instead of a datastore.VersionedCtx; meaningful on an unversioned instance
	Raw string `json:"raw_ctx,omitempty"`
}

func kvCtx(a kvRangeArgs) (storage.Context, storage.OrderedKeyValueDB, storage.TKey, storage.TKey, error) {
	d, err := datastore.GetDataByUUIDName(dvid.UUID(a.UUID), dvid.InstanceName(a.Data))
	if err != nil {
		return nil, nil, nil, nil, err
	}
	v, err := datastore.VersionFromUUID(dvid.UUID(a.UUID))
	if err != nil {
		return nil, nil, nil, nil, err
	}
	db, err := datastore.GetOrderedKeyValueDB(d)
	if err != nil {
		return nil, nil, nil, nil, err
	}
	if !d.Versioned() {
		// as the HTTP layer does for an unversioned instance: everything acts at the root version
		if v, err = datastore.GetRepoRootVersion(v); err != nil {
			return nil, nil, nil, nil, err
		}
	}
	var ctx storage.Context = datastore.NewVersionedCtx(d, v)
	if a.Raw == "true" {
		ctx = storage.NewDataContext(d, v)
	}
	if a.Whole == "true" {
		return ctx, db, storage.MinTKey(kvKeyClass), storage.MaxTKey(kvKeyClass), nil
	}
	// keyvalue datatype TKey: class 177? use the datatype's own constructor semantics: class byte + key + 0
	lo := storage.NewTKey(kvKeyClass, append([]byte(a.Lo), 0))
	hi := storage.NewTKey(kvKeyClass, append([]byte(a.Hi), 0))
	return ctx, db, lo, hi, nil
}

// keyvalue.keyStandard
const kvKeyClass storage.TKeyClass = 177

type kvPair struct {
	K string `json:"k"`
	V string `json:"v"`
}

func decodeKVKey(tk storage.TKey) string {
	b, err := tk.ClassBytes(kvKeyClass)
	if err != nil || len(b) == 0 {
		return "?" + string(tk)
	}
	return string(b[:len(b)-1])
}

// callKVRange runs the four ordered-range entry points of the store on one interval
// and returns what each yields (values deserialized).
func callKVRange(args json.RawMessage) (interface{}, error) {
	var a kvRangeArgs
	if err := json.Unmarshal(args, &a); err != nil {
		return nil, err
	}
	ctx, db, lo, hi, err := kvCtx(a)
	if err != nil {
		return nil, err
	}
	type result struct {
		GetRange    []kvPair `json:"getrange"`
		GetRangeErr string   `json:"getrange_err,omitempty"`
		Keys        []string `json:"keys"`
		KeysErr     string   `json:"keys_err,omitempty"`
		Sent        []string `json:"sent"`
		SentErr     string   `json:"sent_err,omitempty"`
		Proc        []kvPair `json:"proc"`
		ProcErr     string   `json:"proc_err,omitempty"`
	}
	var res result
	tkvs, err := db.GetRange(ctx, lo, hi)
	if err != nil {
		res.GetRangeErr = err.Error()
	}
	for _, tkv := range tkvs {
		val, _, derr := dvid.DeserializeData(tkv.V, true)
		if derr != nil {
			val = []byte("DESERIALIZE-ERROR")
		}
		res.GetRange = append(res.GetRange, kvPair{decodeKVKey(tkv.K), string(val)})
	}
	tks, err := db.KeysInRange(ctx, lo, hi)
	if err != nil {
		res.KeysErr = err.Error()
	}
	for _, tk := range tks {
		res.Keys = append(res.Keys, decodeKVKey(tk))
	}
	ch := make(storage.KeyChan)
	done := make(chan struct{})
	go func() {
		for k := range ch {
			if k == nil {
				break
			}
			tk, err := storage.TKeyFromKey(k)
			if err != nil {
				res.Sent = append(res.Sent, "?")
				continue
			}
			res.Sent = append(res.Sent, decodeKVKey(tk))
		}
		close(done)
	}()
	if err := db.SendKeysInRange(ctx, lo, hi, ch); err != nil {
		res.SentErr = err.Error()
		close(ch)
	}
	<-done
	err = db.ProcessRange(ctx, lo, hi, &storage.ChunkOp{}, func(c *storage.Chunk) error {
		if c == nil || c.TKeyValue == nil {
			return nil
		}
		val, _, derr := dvid.DeserializeData(c.TKeyValue.V, true)
		if derr != nil {
			val = []byte("DESERIALIZE-ERROR")
		}
		res.Proc = append(res.Proc, kvPair{decodeKVKey(c.TKeyValue.K), string(val)})
		return nil
	})
	if err != nil {
		res.ProcErr = err.Error()
	}
	return res, nil
}

func callKVDeleteRange(args json.RawMessage) (interface{}, error) {
	var a kvRangeArgs
	if err := json.Unmarshal(args, &a); err != nil {
		return nil, err
	}
	ctx, db, lo, hi, err := kvCtx(a)
	if err != nil {
		return nil, err
	}
	return nil, db.DeleteRange(ctx, lo, hi)
}

func init() {
	calls["kv.putrange"] = callKVPutRange
}

// callKVPutRange stores the given keys (ascending) through OrderedKeyValueSetter.PutRange, values
// serialized as the keyvalue datatype does.
func callKVPutRange(args json.RawMessage) (interface{}, error) {
	var a struct {
		Data   string   `json:"data"`
		UUID   string   `json:"uuid"`
		Keys   []string `json:"keys"`
		Values []string `json:"values"`
		Raw    string   `json:"raw_ctx,omitempty"`
	}
	if err := json.Unmarshal(args, &a); err != nil {
		return nil, err
	}
	if len(a.Keys) != len(a.Values) {
		return nil, fmt.Errorf("keys and values differ in number")
	}
	ctx, db, _, _, err := kvCtx(kvRangeArgs{Data: a.Data, UUID: a.UUID, Raw: a.Raw})
	if err != nil {
		return nil, err
	}
	d, err := datastore.GetDataByUUIDName(dvid.UUID(a.UUID), dvid.InstanceName(a.Data))
	if err != nil {
		return nil, err
	}
	cd, ok := d.(interface {
		Compression() dvid.Compression
		Checksum() dvid.Checksum
	})
	if !ok {
		return nil, fmt.Errorf("data %q has no compression / checksum settings", a.Data)
	}
	kvs := make([]storage.TKeyValue, len(a.Keys))
	for i := range a.Keys {
		ser, err := dvid.SerializeData([]byte(a.Values[i]), cd.Compression(), cd.Checksum())
		if err != nil {
			return nil, err
		}
		kvs[i] = storage.TKeyValue{K: storage.NewTKey(kvKeyClass, append([]byte(a.Keys[i]), 0)), V: ser}
	}
	return nil, db.PutRange(ctx, kvs)
}

func init() {
	calls["kv.rawput"] = func(args json.RawMessage) (interface{}, error) { return kvRaw(args, "put") }
	calls["kv.rawdel"] = func(args json.RawMessage) (interface{}, error) { return kvRaw(args, "del") }
	calls["kv.rawget"] = func(args json.RawMessage) (interface{}, error) { return kvRaw(args, "get") }
}

// kvRaw: Put / Delete / Get of the store with a storage.DataContext (the unversioned branches:
// a plain entry per key, a deletion removes it).
func kvRaw(args json.RawMessage, op string) (interface{}, error) {
	var a struct {
		Data  string `json:"data"`
		UUID  string `json:"uuid"`
		Key   string `json:"key"`
		Value string `json:"value"`
	}
	if err := json.Unmarshal(args, &a); err != nil {
		return nil, err
	}
	ctx, db, _, _, err := kvCtx(kvRangeArgs{Data: a.Data, UUID: a.UUID, Raw: "true"})
	if err != nil {
		return nil, err
	}
	tk := storage.NewTKey(kvKeyClass, append([]byte(a.Key), 0))
	switch op {
	case "put":
		d, err := datastore.GetDataByUUIDName(dvid.UUID(a.UUID), dvid.InstanceName(a.Data))
		if err != nil {
			return nil, err
		}
		cd, ok := d.(interface {
			Compression() dvid.Compression
			Checksum() dvid.Checksum
		})
		if !ok {
			return nil, fmt.Errorf("data %q has no compression / checksum settings", a.Data)
		}
		ser, err := dvid.SerializeData([]byte(a.Value), cd.Compression(), cd.Checksum())
		if err != nil {
			return nil, err
		}
		return nil, db.Put(ctx, tk, ser)
	case "del":
		return nil, db.Delete(ctx, tk)
	}
	v, err := db.Get(ctx, tk)
	if err != nil {
		return nil, err
	}
	val, _, err := dvid.DeserializeData(v, true)
	if err != nil {
		return nil, err
	}
	return map[string]interface{}{"found": v != nil, "value": string(val)}, nil
}

func init() { calls["kv.stream"] = callKVStream }

// callKVStream: keyvalue.Data.StreamKV, the whole instance at one version as a stream of pairs.
func callKVStream(args json.RawMessage) (interface{}, error) {
	var a kvRangeArgs
	if err := json.Unmarshal(args, &a); err != nil {
		return nil, err
	}
	d, err := datastore.GetDataByUUIDName(dvid.UUID(a.UUID), dvid.InstanceName(a.Data))
	if err != nil {
		return nil, err
	}
	kd, ok := d.(interface {
		StreamKV(v dvid.VersionID) (chan storage.KeyValue, error)
	})
	if !ok {
		return nil, fmt.Errorf("data %q has no StreamKV", a.Data)
	}
	v, err := datastore.VersionFromUUID(dvid.UUID(a.UUID))
	if err != nil {
		return nil, err
	}
	if !d.Versioned() {
		if v, err = datastore.GetRepoRootVersion(v); err != nil {
			return nil, err
		}
	}
	ch, err := kd.StreamKV(v)
	if err != nil {
		return nil, err
	}
	out := []kvPair{}
	for kv := range ch {
		out = append(out, kvPair{string(kv.K), string(kv.V)})
	}
	return out, nil
}
