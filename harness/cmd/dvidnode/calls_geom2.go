//go:build badger && verif

package main

import (
	"encoding/json"
	"fmt"
	"net/http"
	"net/url"
	"sort"

	"github.com/janelia-flyem/dvid/datatype/common/labels"
	"github.com/janelia-flyem/dvid/datatype/common/proto"
	"github.com/janelia-flyem/dvid/dvid"
)

// Package-level entry points of the growth of property C18: dvid.OptionalBounds
// (Adjust / Outside* / BeyondZ / Divide / IsSet and the query-string parser), sets of block
// coordinates (dvid.IZYXSlice Merge / MergeCopy / Delete / Split / FitToBounds / Downres /
// GetBounds, IZYXString Halfres / Downres / VoxelOffset, IndexZYX binary form) and
// labels.Index FitToBounds / GetProcessedBlockIndices.  The calls only run the real code
// and return what it produced; expected values come from TLC (specs/GeometryBounds*.tla,
// specs/GeometrySets.tla) and are compared in cmd/vcheck/c18_sets.go.

func init() {
	calls["geom.bounds"] = callGeomBounds
	calls["geom.sets"] = callGeomSets
	calls["geom.rlesx"] = callGeomRLEsX
}

func optBounds(b [6]*int32) *dvid.OptionalBounds {
	ob := new(dvid.OptionalBounds)
	if b[0] != nil {
		ob.SetMinX(*b[0])
	}
	if b[1] != nil {
		ob.SetMaxX(*b[1])
	}
	if b[2] != nil {
		ob.SetMinY(*b[2])
	}
	if b[3] != nil {
		ob.SetMaxY(*b[3])
	}
	if b[4] != nil {
		ob.SetMinZ(*b[4])
	}
	if b[5] != nil {
		ob.SetMaxZ(*b[5])
	}
	return ob
}

func boundsOut(ob *dvid.OptionalBounds) (out [6]*int32) {
	get := []func() (int32, bool){ob.MinX, ob.MaxX, ob.MinY, ob.MaxY, ob.MinZ, ob.MaxZ}
	for i, f := range get {
		if v, ok := f(); ok {
			w := v
			out[i] = &w
		}
	}
	return
}

type boundsCase struct {
	Box   [6]*int32  `json:"box"`
	BS    [3]int32   `json:"bs"`
	Mn    [3]int32   `json:"mn"`
	Mx    [3]int32   `json:"mx"`
	Pts   [][3]int32 `json:"pts"`
	Query *[6]string `json:"query"` // nil entry semantics: "\x00" = parameter absent
}

type boundsResult struct {
	Panic     string    `json:"panic,omitempty"`
	AdjMin    [3]int32  `json:"adj_min"`
	AdjMax    [3]int32  `json:"adj_max"`
	NilAdjOK  bool      `json:"nil_adj_ok"` // a nil *OptionalBounds leaves the points alone and is outside nothing
	Outside   []bool    `json:"outside"`
	OutX      []bool    `json:"outx"`
	OutY      []bool    `json:"outy"`
	OutZ      []bool    `json:"outz"`
	Beyond    []bool    `json:"beyond"`
	Divide    [6]*int32 `json:"divide"`
	Passes    []bool    `json:"passes"` // !Divide(bs).Outside(block)
	IsSet     bool      `json:"isset"`
	Bounded   [3]bool   `json:"bounded"`
	ParseErr  string    `json:"parse_err,omitempty"`
	ParseBox  [6]*int32 `json:"parse_box"`
	ParsedSet bool      `json:"parsed_set"`
}

var boundsParams = [6]string{"minx", "maxx", "miny", "maxy", "minz", "maxz"}

func runBoundsCase(c *boundsCase) (res boundsResult) {
	defer func() {
		if e := recover(); e != nil {
			res.Panic = fmt.Sprint(e)
		}
	}()
	ob := optBounds(c.Box)
	mn, mx := dvid.Point3d(c.Mn), dvid.Point3d(c.Mx)
	ob.Adjust(&mn, &mx)
	res.AdjMin, res.AdjMax = mn, mx
	var nilB *dvid.OptionalBounds
	mn2, mx2 := dvid.Point3d(c.Mn), dvid.Point3d(c.Mx)
	nilB.Adjust(&mn2, &mx2)
	res.NilAdjOK = mn2 == dvid.Point3d(c.Mn) && mx2 == dvid.Point3d(c.Mx) && !nilB.IsSet() && nilB.Divide(dvid.Point3d(c.BS)) == nil
	div := ob.Divide(dvid.Point3d(c.BS))
	res.Divide = boundsOut(div)
	for _, p := range c.Pts {
		cp := dvid.ChunkPoint3d(p)
		res.Outside = append(res.Outside, ob.Outside(cp))
		res.OutX = append(res.OutX, ob.OutsideX(p[0]))
		res.OutY = append(res.OutY, ob.OutsideY(p[1]))
		res.OutZ = append(res.OutZ, ob.OutsideZ(p[2]))
		res.Beyond = append(res.Beyond, ob.BeyondZ(cp))
		res.Passes = append(res.Passes, !div.Outside(cp))
		if nilB.Outside(cp) || nilB.BeyondZ(cp) || nilB.OutsideX(p[0]) || nilB.OutsideY(p[1]) || nilB.OutsideZ(p[2]) {
			res.NilAdjOK = false
		}
	}
	res.IsSet = ob.IsSet()
	res.Bounded = [3]bool{ob.BoundedX(), ob.BoundedY(), ob.BoundedZ()}
	if c.Query != nil {
		vals := url.Values{}
		for i, s := range c.Query {
			if s != "\x00" {
				vals.Set(boundsParams[i], s)
			}
		}
		vals.Set("other", "17")
		r := &http.Request{Method: "GET", URL: &url.URL{Path: "/api/node/x/y/sparsevol/1", RawQuery: vals.Encode()}}
		pb, err := dvid.OptionalBoundsFromQueryString(r)
		if err != nil {
			res.ParseErr = err.Error()
		} else {
			res.ParseBox = boundsOut(pb)
			res.ParsedSet = pb.IsSet()
		}
	}
	return
}

func callGeomBounds(args json.RawMessage) (interface{}, error) {
	var a struct {
		Cases []boundsCase `json:"cases"`
	}
	if err := json.Unmarshal(args, &a); err != nil {
		return nil, err
	}
	out := make([]boundsResult, len(a.Cases))
	for i := range a.Cases {
		out[i] = runBoundsCase(&a.Cases[i])
	}
	return out, nil
}

// ---- sets of block coordinates ----

type setsStatic struct {
	Cells    [][3]int32   `json:"cells"` // the lattice in key order
	Operands [][][3]int32 `json:"operands"`
	Boxes    [][6]*int32  `json:"boxes"`
	Scales   []uint8      `json:"scales"`
	Chunk    [3]int32     `json:"chunk"`
	Counts   [][2]int     `json:"counts"` // per cell: voxel count of supervoxels 1 and 2 (-1 = no entry)
}

type setsCase struct {
	Cells []int `json:"cells"` // indices into the lattice, ascending
}

type setOut struct {
	Pts [][3]int32 `json:"pts"`
	Err string     `json:"err,omitempty"`
}

type setsResult struct {
	Panic     string       `json:"panic,omitempty"`
	Merge     []setOut     `json:"merge"`
	MergeCopy []setOut     `json:"mergecopy"`
	Delete    []setOut     `json:"delete"`
	Split     []setOut     `json:"split"`
	Fit       []setOut     `json:"fit"`
	Down      []setOut     `json:"down"`
	BoundsMin [3]int32     `json:"bounds_min"`
	BoundsMax [3]int32     `json:"bounds_max"`
	BoundsErr string       `json:"bounds_err,omitempty"`
	Binary    setOut       `json:"binary"`     // IZYXSlice.MarshalBinary / UnmarshalBinary
	IdxFit    []setOut     `json:"idx_fit"`    // labels.Index.FitToBounds per box: the blocks left
	Proc      [][][]setOut `json:"proc"`       // [box][0 = scale 0, 1.. = scales][supervoxel 0..3]
	InputKept bool         `json:"input_kept"` // operations documented as returning copies left the receiver alone
}

func ptsOf(s dvid.IZYXSlice) (out setOut) {
	out.Pts = make([][3]int32, 0, len(s))
	for _, k := range s {
		p, err := k.ToChunkPoint3d()
		if err != nil {
			out.Err = "ToChunkPoint3d: " + err.Error()
			return
		}
		out.Pts = append(out.Pts, [3]int32(p))
	}
	return
}

func sliceOf(pts [][3]int32) dvid.IZYXSlice {
	s := make(dvid.IZYXSlice, len(pts))
	for i, p := range pts {
		s[i] = dvid.ChunkPoint3d(p).ToIZYXString()
	}
	return s
}

func sameSlice(a, b dvid.IZYXSlice) bool {
	if len(a) != len(b) {
		return false
	}
	for i := range a {
		if a[i] != b[i] {
			return false
		}
	}
	return true
}

func guard(out *setOut, f func()) {
	defer func() {
		if e := recover(); e != nil {
			out.Err = fmt.Sprintf("PANIC: %v", e)
		}
	}()
	f()
}

func runSetsCase(st *setsStatic, c *setsCase) (res setsResult) {
	defer func() {
		if e := recover(); e != nil {
			res.Panic = fmt.Sprint(e)
		}
	}()
	var pts [][3]int32
	for _, i := range c.Cells {
		pts = append(pts, st.Cells[i])
	}
	recv := func() dvid.IZYXSlice { return sliceOf(pts) }
	orig := recv()
	res.InputKept = true
	for _, op := range st.Operands {
		o := sliceOf(op)
		var m, mc, d, s setOut
		guard(&m, func() {
			r := recv()
			r.Merge(o)
			m = ptsOf(r)
		})
		guard(&mc, func() {
			r := recv()
			mc = ptsOf(r.MergeCopy(o))
			if !sameSlice(r, orig) {
				res.InputKept = false
			}
		})
		guard(&d, func() {
			r := recv()
			r.Delete(o)
			d = ptsOf(r)
		})
		guard(&s, func() {
			r := recv()
			out, err := r.Split(o)
			s = ptsOf(out)
			if err != nil {
				s.Err = err.Error()
			}
			if !sameSlice(r, orig) {
				res.InputKept = false
			}
		})
		if !sameSlice(o, sliceOf(op)) {
			res.InputKept = false
		}
		res.Merge = append(res.Merge, m)
		res.MergeCopy = append(res.MergeCopy, mc)
		res.Delete = append(res.Delete, d)
		res.Split = append(res.Split, s)
	}
	for _, b := range st.Boxes {
		var f setOut
		guard(&f, func() {
			r := recv()
			out, err := r.FitToBounds(optBounds(b))
			f = ptsOf(out)
			if err != nil {
				f.Err = err.Error()
			}
			if !sameSlice(r, orig) {
				res.InputKept = false
			}
		})
		res.Fit = append(res.Fit, f)
	}
	for _, sc := range st.Scales {
		var d setOut
		guard(&d, func() {
			// the receiver "does not have to be sorted": hand it over in descending order
			r := recv()
			for i, j := 0, len(r)-1; i < j; i, j = i+1, j-1 {
				r[i], r[j] = r[j], r[i]
			}
			out, err := r.Downres(sc)
			d = ptsOf(out)
			if err != nil {
				d.Err = err.Error()
			}
		})
		res.Down = append(res.Down, d)
	}
	mn, mx, err := recv().GetBounds()
	res.BoundsMin, res.BoundsMax = mn, mx
	if err != nil {
		res.BoundsErr = err.Error()
	}
	guard(&res.Binary, func() {
		data, err := recv().MarshalBinary()
		if err != nil {
			res.Binary.Err = err.Error()
			return
		}
		var back dvid.IZYXSlice
		if err := back.UnmarshalBinary(data); err != nil {
			res.Binary.Err = err.Error()
			return
		}
		res.Binary = ptsOf(back)
	})
	// the label index of the state
	mkIdx := func() *labels.Index {
		idx := new(labels.Index)
		idx.Label = 77
		idx.Blocks = make(map[uint64]*proto.SVCount)
		for _, i := range c.Cells {
			p := st.Cells[i]
			svc := &proto.SVCount{Counts: map[uint64]uint32{}}
			for s, n := range st.Counts[i] {
				if n >= 0 {
					svc.Counts[uint64(s+1)] = uint32(n)
				}
			}
			idx.Blocks[labels.EncodeBlockIndex(p[0], p[1], p[2])] = svc
		}
		return idx
	}
	idxBlocks := func(idx *labels.Index) setOut {
		var s dvid.IZYXSlice
		for zyx := range idx.Blocks {
			s = append(s, labels.BlockIndexToIZYXString(zyx))
		}
		sort.Sort(s)
		return ptsOf(s)
	}
	for bi, b := range st.Boxes {
		var f setOut
		guard(&f, func() {
			idx := mkIdx()
			err := idx.FitToBounds(optBounds(b))
			f = idxBlocks(idx)
			if err != nil {
				f.Err = err.Error()
			}
		})
		res.IdxFit = append(res.IdxFit, f)
		perScale := make([][]setOut, 0, len(st.Scales)+1)
		for si := 0; si <= len(st.Scales); si++ {
			var scale uint8
			if si > 0 {
				scale = st.Scales[si-1]
			}
			perSV := make([]setOut, 4)
			for sv := 0; sv < 4; sv++ {
				guard(&perSV[sv], func() {
					bounds := dvid.Bounds{Block: optBounds(b)}
					if !bounds.Block.IsSet() && (bi+si+sv)%2 == 0 {
						bounds.Block = nil
					}
					out, err := mkIdx().GetProcessedBlockIndices(scale, bounds, uint64(sv))
					perSV[sv] = ptsOf(out)
					if err != nil {
						perSV[sv].Err = err.Error()
					}
				})
			}
			perScale = append(perScale, perSV)
		}
		res.Proc = append(res.Proc, perScale)
	}
	return
}

type setsStaticOut struct {
	Offsets [][3]int32   `json:"offsets"` // IZYXString.VoxelOffset(chunk) per cell
	DownPt  [][][3]int32 `json:"downpt"`  // IZYXString.Downres(scale) per cell and scale
	Halfres [][3]int32   `json:"halfres"`
	LE      [][]int      `json:"le"`      // IndexZYX.MarshalBinary per cell
	LEBack  [][3]int32   `json:"le_back"` // ... and UnmarshalBinary of it
	Err     string       `json:"err,omitempty"`
}

func callGeomSets(args json.RawMessage) (interface{}, error) {
	var a struct {
		Static setsStatic `json:"static"`
		Cases  []setsCase `json:"cases"`
	}
	if err := json.Unmarshal(args, &a); err != nil {
		return nil, err
	}
	out := struct {
		Static  setsStaticOut `json:"static"`
		Results []setsResult  `json:"results"`
	}{}
	so := &out.Static
	func() {
		defer func() {
			if e := recover(); e != nil {
				so.Err = fmt.Sprintf("PANIC: %v", e)
			}
		}()
		for _, p := range a.Static.Cells {
			k := dvid.ChunkPoint3d(p).ToIZYXString()
			off, err := k.VoxelOffset(dvid.Point3d(a.Static.Chunk))
			if err != nil {
				so.Err += "VoxelOffset: " + err.Error() + "; "
			}
			so.Offsets = append(so.Offsets, off)
			var ds [][3]int32
			for _, sc := range a.Static.Scales {
				d, err := k.Downres(sc)
				if err != nil {
					so.Err += "Downres: " + err.Error() + "; "
				}
				dp, _ := d.ToChunkPoint3d()
				ds = append(ds, dp)
			}
			so.DownPt = append(so.DownPt, ds)
			h, err := k.Halfres()
			if err != nil {
				so.Err += "Halfres: " + err.Error() + "; "
			}
			hp, _ := h.ToChunkPoint3d()
			so.Halfres = append(so.Halfres, hp)
			if same, _ := k.Downres(0); same != k {
				so.Err += "Downres(0) changed the key; "
			}
			idx := dvid.IndexZYX(p)
			data, err := idx.MarshalBinary()
			if err != nil {
				so.Err += "MarshalBinary: " + err.Error() + "; "
			}
			so.LE = append(so.LE, toInts(data))
			var back dvid.IndexZYX
			if err := back.UnmarshalBinary(data); err != nil {
				so.Err += "UnmarshalBinary: " + err.Error() + "; "
			}
			so.LEBack = append(so.LEBack, back)
			if err := back.UnmarshalBinary(data[:11]); err == nil {
				so.Err += "UnmarshalBinary accepted 11 bytes; "
			}
		}
	}()
	out.Results = make([]setsResult, len(a.Cases))
	for i := range a.Cases {
		out.Results[i] = runSetsCase(&a.Static, &a.Cases[i])
	}
	return out, nil
}

// ---- run-length algebra, additions ----

// callGeomRLEsX: RLEs.Add with its returned count per operand, RLEs.Split with operands that
// are NOT subsets of the receiver, and RLEs.FitToBounds(nil).
func callGeomRLEsX(args json.RawMessage) (interface{}, error) {
	var a struct {
		Cases []struct {
			Runs   []geomRun   `json:"runs"`
			Adds   [][]geomRun `json:"adds"`
			Splits [][]geomRun `json:"splits"`
		} `json:"cases"`
	}
	if err := json.Unmarshal(args, &a); err != nil {
		return nil, err
	}
	type one struct {
		Panic    string      `json:"panic,omitempty"`
		Add      [][]geomRun `json:"add"`
		Added    []int64     `json:"added"`
		Split    [][]geomRun `json:"split"`
		SplitErr []string    `json:"split_err"`
		FitNil   []geomRun   `json:"fit_nil"`
	}
	out := make([]one, len(a.Cases))
	for i, c := range a.Cases {
		func() {
			defer func() {
				if e := recover(); e != nil {
					out[i].Panic = fmt.Sprint(e)
				}
			}()
			for _, ad := range c.Adds {
				recv := toRLEs(c.Runs)
				n := recv.Add(toRLEs(ad))
				out[i].Add = append(out[i].Add, fromRLEs(recv))
				out[i].Added = append(out[i].Added, n)
			}
			for _, s := range c.Splits {
				res, err := toRLEs(c.Runs).Split(toRLEs(s))
				es := ""
				if err != nil {
					es = err.Error()
				}
				out[i].Split = append(out[i].Split, fromRLEs(res))
				out[i].SplitErr = append(out[i].SplitErr, es)
			}
			out[i].FitNil = fromRLEs(toRLEs(c.Runs).FitToBounds(nil))
		}()
	}
	return out, nil
}
