//go:build badger && verif

package main

import (
	"encoding/json"

	"github.com/janelia-flyem/dvid/datastore"
)

// The `repo <uuid> make-master <old-master-branch-name>` and `repo <uuid> hide-branch
// <branch-name>` RPC commands: server/rpc.go handleCommand resolves the UUID argument with
// datastore.MatchingUUID and calls exactly these two functions.
func init() {
	calls["ds.makemaster"] = func(args json.RawMessage) (interface{}, error) {
		var a struct{ UUID, OldMasterName string }
		if err := json.Unmarshal(args, &a); err != nil {
			return nil, err
		}
		uuid, _, err := datastore.MatchingUUID(a.UUID)
		if err != nil {
			return nil, err
		}
		return nil, datastore.MakeMaster(uuid, a.OldMasterName)
	}
	calls["ds.hidebranch"] = func(args json.RawMessage) (interface{}, error) {
		var a struct{ UUID, Branch string }
		if err := json.Unmarshal(args, &a); err != nil {
			return nil, err
		}
		uuid, _, err := datastore.MatchingUUID(a.UUID)
		if err != nil {
			return nil, err
		}
		return nil, datastore.HideBranch(uuid, a.Branch)
	}
	// datastore.MatchingUUID itself (the resolver behind every <uuid> URL segment and RPC argument).
	calls["ds.matchuuid"] = func(args json.RawMessage) (interface{}, error) {
		var a struct{ Str string }
		if err := json.Unmarshal(args, &a); err != nil {
			return nil, err
		}
		uuid, v, err := datastore.MatchingUUID(a.Str)
		if err != nil {
			return nil, err
		}
		return map[string]interface{}{"UUID": string(uuid), "Version": int(v)}, nil
	}
}
