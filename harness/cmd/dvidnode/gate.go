//go:build badger && verif

package main

import (
	"bytes"
	"runtime"
	"strconv"
	"sync"
	"time"
)

const reqIDHeader = "X-Verif-Req"

// GateEvent is one scheduler observation, ordered by Seq (taken under gmu).
type GateEvent struct {
	Seq  uint64 `json:"seq"`
	Req  uint64 `json:"req"`
	Kind string `json:"kind"` // park, release, done, blocked, pass
	Site string `json:"site,omitempty"`
	Arg  uint64 `json:"arg,omitempty"`
}

type gateReq struct {
	id      uint64
	parked  bool
	done    bool
	site    string
	release chan struct{}
}

var (
	gmu     sync.Mutex
	gcond   = sync.NewCond(&gmu)
	gactive bool                 // a gated par is running
	gopen   bool                 // gates are pass-through (end of schedule)
	gbyGo   map[uint64]*gateReq  // goroutine id -> request
	gbyID   map[uint64]*gateReq  // request id -> request
	gevents []GateEvent
	gseq    uint64
	gsites  map[string]bool // if non-nil, only these sites park
)

func goid() uint64 {
	var buf [64]byte
	n := runtime.Stack(buf[:], false)
	// "goroutine 123 [running]:..."
	b := buf[:n]
	b = bytes.TrimPrefix(b, []byte("goroutine "))
	i := bytes.IndexByte(b, ' ')
	if i < 0 {
		return 0
	}
	id, _ := strconv.ParseUint(string(b[:i]), 10, 64)
	return id
}

func gev(req uint64, kind, site string, arg uint64) {
	gseq++
	gevents = append(gevents, GateEvent{Seq: gseq, Req: req, Kind: kind, Site: site, Arg: arg})
}

// gatePoint is installed as dvid.VerifPointFunc.
func gatePoint(site string, arg uint64) {
	gmu.Lock()
	if !gactive {
		gmu.Unlock()
		return
	}
	r := gbyGo[goid()]
	if r == nil {
		gmu.Unlock()
		return
	}
	if gopen || (gsites != nil && !gsites[site]) {
		gev(r.id, "pass", site, arg)
		gmu.Unlock()
		return
	}
	r.parked = true
	r.site = site
	ch := make(chan struct{})
	r.release = ch
	gev(r.id, "park", site, arg)
	gcond.Broadcast()
	gmu.Unlock()
	<-ch
}

func gateBegin(rq Req) {
	gmu.Lock()
	gactive = true
	gopen = false
	gbyGo = map[uint64]*gateReq{}
	gbyID = map[uint64]*gateReq{}
	gevents = nil
	gseq = 0
	gsites = nil
	if len(rq.Args) > 0 {
		// args: list of site names to park at
		var sites []string
		if jsonUnmarshal(rq.Args, &sites) == nil && len(sites) > 0 {
			gsites = map[string]bool{}
			for _, s := range sites {
				gsites[s] = true
			}
		}
	}
	for _, r := range rq.Reqs {
		gbyID[r.ID] = &gateReq{id: r.ID}
	}
	gmu.Unlock()
}

func gateRegister(id uint64) {
	gmu.Lock()
	gbyGo[goid()] = gbyID[id]
	gmu.Unlock()
	// every gated request parks before its first instruction (site "start"; passes through when a
	// site list is given that does not name it), so that the schedule also orders the request entries
	gatePoint("start", id)
}

func gateDone(id uint64) {
	gmu.Lock()
	r := gbyID[id]
	r.done = true
	r.parked = false
	gev(id, "done", "", 0)
	gcond.Broadcast()
	gmu.Unlock()
}

// waitSettled waits (bounded) until pred holds; returns whether it did.
func waitSettled(pred func() bool, d time.Duration) bool {
	deadline := time.Now().Add(d)
	gmu.Lock()
	defer gmu.Unlock()
	for !pred() {
		if time.Now().After(deadline) {
			return false
		}
		// cond with timeout: poll
		gmu.Unlock()
		time.Sleep(200 * time.Microsecond)
		gmu.Lock()
	}
	return true
}

func gateRun(rq Req, wg *sync.WaitGroup) []GateEvent {
	wait := 300 * time.Millisecond
	if rq.WaitMS > 0 {
		wait = time.Duration(rq.WaitMS) * time.Millisecond
	}
	allSettled := func() bool {
		for _, r := range gbyID {
			if !r.parked && !r.done {
				return false
			}
		}
		return true
	}
	// let every request reach its first gate (or finish, or block on a lock)
	waitSettled(allSettled, wait)
	for _, id := range rq.Sched {
		gmu.Lock()
		r := gbyID[id]
		if r == nil || r.done {
			gmu.Unlock()
			continue
		}
		if !r.parked {
			// blocked somewhere (lock held by a parked peer) — note and continue
			gev(id, "blocked", "", 0)
			gmu.Unlock()
			continue
		}
		r.parked = false
		ch := r.release
		r.release = nil
		gev(id, "release", r.site, 0)
		gmu.Unlock()
		close(ch)
		ok := waitSettled(func() bool { return r.parked || r.done }, wait)
		if !ok {
			gmu.Lock()
			gev(id, "blocked", "", 0)
			gmu.Unlock()
		}
		// Releasing r may have unblocked peers that were waiting on a lock: give them a
		// chance to reach their gate as well.
		waitSettled(allSettled, wait/4)
	}
	// end of schedule: open all gates
	gmu.Lock()
	gopen = true
	for _, r := range gbyID {
		if r.parked && r.release != nil {
			r.parked = false
			close(r.release)
			r.release = nil
			gev(r.id, "release", r.site, 0)
		}
	}
	gmu.Unlock()
	wg.Wait()
	gmu.Lock()
	gactive = false
	evs := gevents
	gevents = nil
	gmu.Unlock()
	return evs
}
