//go:build badger && verif

package main

import (
	"bytes"
	"runtime"
	"strconv"
	"strings"
	"sync"
	"time"
)

const reqIDHeader = "X-Verif-Req"

// GateEvent is one scheduler observation, ordered by Seq (taken under gmu).
type GateEvent struct {
	Seq  uint64 `json:"seq"`
	Req  uint64 `json:"req"`
	Kind string `json:"kind"` // park, release, done, blocked, pass
	Site string `json:"site,omitempty"`
	Arg  uint64 `json:"arg,omitempty"`
}

type gateReq struct {
	id      uint64
	parked  bool // at least one goroutine working for this request is parked at a site
	done    bool // the request goroutine has returned
	site    string
	release []chan struct{} // one per parked goroutine (a request can have several: children, asynchronous tail)
	// asynchronous tail (work the request leaves to a goroutine it did not create, e.g. the sync event
	// handler of a subscriber): declared with "@tail:<site>=<id>" / "@taildone:<site>=<id>"
	tailWant bool
	tailDone bool
}

// settled: nothing working for the request can move without the scheduler (parked), or everything
// it started has finished.  A request blocked on a lock is neither (bounded waits handle it).
func (r *gateReq) settled() bool {
	return r.parked || (r.done && (!r.tailWant || r.tailDone))
}

// finished: the request and its declared asynchronous tail are over.
func (r *gateReq) finished() bool {
	return !r.parked && r.done && (!r.tailWant || r.tailDone)
}

var (
	gmu     sync.Mutex
	gcond   = sync.NewCond(&gmu)
	gactive bool                // a gated par is running
	gopen   bool                // gates are pass-through (end of schedule)
	gbyGo   map[uint64]*gateReq // goroutine id -> request
	gbyID   map[uint64]*gateReq // request id -> request
	gevents []GateEvent
	gseq    uint64
	gsites  map[string]bool // if non-nil, only these sites park
	// directives in the site list (entries starting with "@"):
	//   @inherit                 a goroutine created by a goroutine working for request r works for r
	//   @tail:<site>=<id>        any other goroutine arriving at <site> works for request <id>
	//   @tailwant=<id>           request <id> leaves work to a goroutine that outlives it (asynchronous tail)
	//   @taildone:<site>[=<id>]  passing <site> (never parks) ends the asynchronous tail of the request the
	//                            goroutine works for (of request <id> when it works for none)
	//   @coalesce                a request that parks again at the site it was just released from (several
	//                            goroutines of one request passing the same site, e.g. one per block) is
	//                            released again within the same scheduling step
	ginherit  bool
	gcoalesce bool
	gtail     map[string]uint64
	gtaildone map[string]uint64
)

// creatorGoid returns the id of the goroutine that created the calling goroutine (Go >= 1.21
// prints "created by f in goroutine N" at the end of a stack trace), 0 if unknown.
func creatorGoid() uint64 {
	buf := make([]byte, 64<<10)
	n := runtime.Stack(buf, false)
	b := buf[:n]
	i := bytes.LastIndex(b, []byte("\ncreated by "))
	if i < 0 {
		return 0
	}
	line := b[i+1:]
	if j := bytes.IndexByte(line, '\n'); j >= 0 {
		line = line[:j]
	}
	k := bytes.LastIndex(line, []byte(" in goroutine "))
	if k < 0 {
		return 0
	}
	id, _ := strconv.ParseUint(strings.TrimSpace(string(line[k+len(" in goroutine "):])), 10, 64)
	return id
}

// gateResolve finds the request the calling goroutine works for (gmu held).
func gateResolve(site string) *gateReq {
	g := goid()
	if r := gbyGo[g]; r != nil {
		return r
	}
	if ginherit {
		if r := gbyGo[creatorGoid()]; r != nil {
			gbyGo[g] = r
			return r
		}
	}
	if id, ok := gtail[site]; ok {
		if r := gbyID[id]; r != nil {
			gbyGo[g] = r // the handler goroutine keeps working for r until the run ends
			return r
		}
	}
	if id, ok := gtaildone[site]; ok && id != 0 {
		return gbyID[id]
	}
	return nil
}

func goid() uint64 {
	var buf [64]byte
	n := runtime.Stack(buf[:], false)
	// "goroutine 123 [running]:..."
	b := buf[:n]
	b = bytes.TrimPrefix(b, []byte("goroutine "))
	i := bytes.IndexByte(b, ' ')
	if i < 0 {
		return 0
	}
	id, _ := strconv.ParseUint(string(b[:i]), 10, 64)
	return id
}

func gev(req uint64, kind, site string, arg uint64) {
	gseq++
	gevents = append(gevents, GateEvent{Seq: gseq, Req: req, Kind: kind, Site: site, Arg: arg})
}

// gatePoint is installed as dvid.VerifPointFunc.
func gatePoint(site string, arg uint64) {
	gmu.Lock()
	if !gactive {
		gmu.Unlock()
		return
	}
	r := gateResolve(site)
	if r == nil {
		gmu.Unlock()
		return
	}
	if _, ok := gtaildone[site]; ok {
		r.tailDone = true
		gev(r.id, "taildone", site, arg)
		gcond.Broadcast()
		gmu.Unlock()
		return
	}
	if gopen || (gsites != nil && !gsites[site]) {
		gev(r.id, "pass", site, arg)
		gmu.Unlock()
		return
	}
	r.parked = true
	r.site = site
	ch := make(chan struct{})
	r.release = append(r.release, ch)
	gev(r.id, "park", site, arg)
	gcond.Broadcast()
	gmu.Unlock()
	<-ch
}

func gateBegin(rq Req) {
	gmu.Lock()
	gactive = true
	gopen = false
	gbyGo = map[uint64]*gateReq{}
	gbyID = map[uint64]*gateReq{}
	gevents = nil
	gseq = 0
	gsites = nil
	ginherit = false
	gcoalesce = false
	gtail = map[string]uint64{}
	gtaildone = map[string]uint64{}
	for _, r := range rq.Reqs {
		gbyID[r.ID] = &gateReq{id: r.ID}
	}
	if len(rq.Args) > 0 {
		// args: list of site names to park at (and "@" directives)
		var sites []string
		if jsonUnmarshal(rq.Args, &sites) == nil && len(sites) > 0 {
			gsites = map[string]bool{}
			for _, s := range sites {
				switch {
				case s == "@inherit":
					ginherit = true
				case s == "@coalesce":
					gcoalesce = true
				case strings.HasPrefix(s, "@tailwant="):
					id, _ := strconv.ParseUint(s[len("@tailwant="):], 10, 64)
					if r := gbyID[id]; r != nil {
						r.tailWant = true
					}
				case strings.HasPrefix(s, "@tail:") || strings.HasPrefix(s, "@taildone:"):
					kv := strings.SplitN(s[strings.IndexByte(s, ':')+1:], "=", 2)
					var id uint64
					if len(kv) == 2 {
						id, _ = strconv.ParseUint(kv[1], 10, 64)
					}
					if strings.HasPrefix(s, "@tail:") {
						if id == 0 {
							continue
						}
						gtail[kv[0]] = id
					} else {
						gtaildone[kv[0]] = id
					}
					if r := gbyID[id]; r != nil {
						r.tailWant = true
					}
				default:
					gsites[s] = true
				}
			}
		}
	}
	gmu.Unlock()
}

func gateRegister(id uint64) {
	gmu.Lock()
	gbyGo[goid()] = gbyID[id]
	gmu.Unlock()
	// every gated request parks before its first instruction (site "start"; passes through when a
	// site list is given that does not name it), so that the schedule also orders the request entries
	gatePoint("start", id)
}

func gateDone(id uint64) {
	gmu.Lock()
	r := gbyID[id]
	r.done = true
	if len(r.release) == 0 {
		r.parked = false
	}
	gev(id, "done", "", 0)
	gcond.Broadcast()
	gmu.Unlock()
}

// waitSettled waits (bounded) until pred holds; returns whether it did.
func waitSettled(pred func() bool, d time.Duration) bool {
	deadline := time.Now().Add(d)
	gmu.Lock()
	defer gmu.Unlock()
	for !pred() {
		if time.Now().After(deadline) {
			return false
		}
		// cond with timeout: poll
		gmu.Unlock()
		time.Sleep(200 * time.Microsecond)
		gmu.Lock()
	}
	return true
}

func gateRun(rq Req, wg *sync.WaitGroup) []GateEvent {
	wait := 300 * time.Millisecond
	if rq.WaitMS > 0 {
		wait = time.Duration(rq.WaitMS) * time.Millisecond
	}
	allSettled := func() bool {
		for _, r := range gbyID {
			if !r.settled() {
				return false
			}
		}
		return true
	}
	// let every request reach its first gate (or finish, or block on a lock)
	waitSettled(allSettled, wait)
	for _, id := range rq.Sched {
		gmu.Lock()
		r := gbyID[id]
		if r == nil || r.finished() {
			gmu.Unlock()
			continue
		}
		if !r.parked {
			// blocked somewhere (lock held by a parked peer) — note and continue
			gev(id, "blocked", "", 0)
			gmu.Unlock()
			continue
		}
		r.parked = false
		chs := r.release
		r.release = nil
		site := r.site
		gev(id, "release", r.site, 0)
		gmu.Unlock()
		for _, ch := range chs {
			close(ch)
		}
		ok := waitSettled(r.settled, wait)
		for n := 0; gcoalesce && ok && n < 64; n++ {
			gmu.Lock()
			again := r.parked && r.site == site && len(r.release) > 0
			var more []chan struct{}
			if again {
				r.parked = false
				more = r.release
				r.release = nil
				gev(id, "release", r.site, 1)
			}
			gmu.Unlock()
			if !again {
				break
			}
			for _, ch := range more {
				close(ch)
			}
			ok = waitSettled(r.settled, wait)
		}
		if !ok {
			gmu.Lock()
			gev(id, "blocked", "", 0)
			gmu.Unlock()
		}
		// Releasing r may have unblocked peers that were waiting on a lock: give them a
		// chance to reach their gate as well.
		waitSettled(allSettled, wait/4)
	}
	// end of schedule: open all gates
	gmu.Lock()
	gopen = true
	for _, r := range gbyID {
		if r.parked && r.release != nil {
			r.parked = false
			for _, ch := range r.release {
				close(ch)
			}
			r.release = nil
			gev(r.id, "release", r.site, 0)
		}
	}
	gmu.Unlock()
	wg.Wait()
	// asynchronous tails: give them a bounded time to finish (they pass every gate now)
	waitSettled(func() bool {
		for _, r := range gbyID {
			if r.tailWant && !r.tailDone {
				return false
			}
		}
		return true
	}, wait)
	gmu.Lock()
	gactive = false
	evs := gevents
	gevents = nil
	gmu.Unlock()
	return evs
}
