//go:build badger && verif

package main

import (
	"encoding/json"
	"sync"

	"github.com/janelia-flyem/dvid/datastore"
	"github.com/janelia-flyem/dvid/dvid"
)

// mgr.par runs a batch of sub-requests concurrently, like op "par" without gates, but a
// sub-request may be an "http" request or a "call" (repo / instance administration has no HTTP
// route).  All goroutines are started first and released together.
func init() {
	calls["mgr.par"] = func(args json.RawMessage) (interface{}, error) {
		var reqs []Req
		if err := json.Unmarshal(args, &reqs); err != nil {
			return nil, err
		}
		resps := make([]Resp, len(reqs))
		start := make(chan struct{})
		var ready, done sync.WaitGroup
		for i := range reqs {
			ready.Add(1)
			done.Add(1)
			go func(i int) {
				defer done.Done()
				ready.Done()
				<-start
				if reqs[i].Op == "call" {
					resps[i] = doCall(reqs[i])
				} else {
					resps[i] = doHTTP(reqs[i])
				}
			}(i)
		}
		ready.Wait()
		close(start)
		done.Wait()
		return resps, nil
	}
	// mgr.mutids allocates N mutation ids of the repo of a data instance (what every mutating
	// request of labelmap / imageblk does once) and returns the first and the last one.
	calls["mgr.mutids"] = func(args json.RawMessage) (interface{}, error) {
		var a struct {
			UUID, Name string
			N          int
		}
		if err := json.Unmarshal(args, &a); err != nil {
			return nil, err
		}
		uuid, _, err := datastore.MatchingUUID(a.UUID)
		if err != nil {
			return nil, err
		}
		d, err := datastore.GetDataByUUIDName(uuid, dvid.InstanceName(a.Name))
		if err != nil {
			return nil, err
		}
		var first, last uint64
		for i := 0; i < a.N; i++ {
			last = d.NewMutationID()
			if i == 0 {
				first = last
			}
		}
		return map[string]uint64{"first": first, "last": last}, nil
	}
}
