//go:build badger && verif

package main

import (
	"crypto/sha1"
	"encoding/base64"
	"encoding/hex"
	"encoding/json"
	"fmt"

	"github.com/janelia-flyem/dvid/dvid"
	"github.com/janelia-flyem/dvid/storage"

	"verifharness/internal/crashkv"
)

func init() {
	calls["log.append"] = callLogAppend
	calls["log.read"] = callLogRead
	calls["crash.armtorn"] = callArmTorn
}

// callArmTorn arms the crash engine n writes from now; when that write is a log append of a
// crash-wrapped log, only the first `torn` bytes of the framed record reach the file.
func callArmTorn(args json.RawMessage) (interface{}, error) {
	var a struct {
		N    uint64 `json:"n"`
		Torn int    `json:"torn"`
	}
	if err := json.Unmarshal(args, &a); err != nil {
		return nil, err
	}
	crashkv.ArmTorn(a.N, a.Torn)
	return crashkv.Count(), nil
}

type logArgs struct {
	Store   string `json:"store"`
	Data    string `json:"data"`
	Version string `json:"version"`
	Type    uint16 `json:"type"`
	Payload string `json:"payload"` // base64
}

func callLogAppend(args json.RawMessage) (interface{}, error) {
	var a logArgs
	if err := json.Unmarshal(args, &a); err != nil {
		return nil, err
	}
	st, err := storage.GetStoreByAlias(storage.Alias(a.Store))
	if err != nil {
		return nil, err
	}
	wl, ok := st.(storage.WriteLog)
	if !ok {
		return nil, fmt.Errorf("store %s is not a WriteLog", a.Store)
	}
	p, err := base64.StdEncoding.DecodeString(a.Payload)
	if err != nil {
		return nil, err
	}
	if err := wl.Append(dvid.UUID(a.Data), dvid.UUID(a.Version), storage.LogMessage{EntryType: a.Type, Data: p}); err != nil {
		return nil, err
	}
	return nil, wl.CloseLog(dvid.UUID(a.Data), dvid.UUID(a.Version))
}

type logRec struct {
	Type uint16 `json:"type"`
	Len  int    `json:"len"`
	Sha  string `json:"sha"`
}

func recOf(m storage.LogMessage) logRec {
	h := sha1.Sum(m.Data)
	return logRec{Type: m.EntryType, Len: len(m.Data), Sha: hex.EncodeToString(h[:])}
}

// callLogRead reads a log through ReadAll and StreamAll, each guarded separately so a
// panic in one is reported for that entry point.
func callLogRead(args json.RawMessage) (interface{}, error) {
	var a logArgs
	if err := json.Unmarshal(args, &a); err != nil {
		return nil, err
	}
	st, err := storage.GetStoreByAlias(storage.Alias(a.Store))
	if err != nil {
		return nil, err
	}
	rl, ok := st.(storage.ReadLog)
	if !ok {
		return nil, fmt.Errorf("store %s is not a ReadLog", a.Store)
	}
	type res struct {
		ReadAll    []logRec `json:"readall"`
		ReadAllErr string   `json:"readall_err,omitempty"`
		Stream     []logRec `json:"stream"`
		StreamErr  string   `json:"stream_err,omitempty"`
	}
	var r res
	func() {
		defer func() {
			if e := recover(); e != nil {
				r.ReadAllErr = fmt.Sprintf("PANIC: %v", e)
			}
		}()
		msgs, err := rl.ReadAll(dvid.UUID(a.Data), dvid.UUID(a.Version))
		if err != nil {
			r.ReadAllErr = err.Error()
		}
		for _, m := range msgs {
			r.ReadAll = append(r.ReadAll, recOf(m))
		}
	}()
	func() {
		ch := make(chan storage.LogMessage, 1000)
		done := make(chan struct{})
		go func() {
			for m := range ch {
				r.Stream = append(r.Stream, recOf(m))
			}
			close(done)
		}()
		func() {
			defer func() {
				if e := recover(); e != nil {
					r.StreamErr = fmt.Sprintf("PANIC: %v", e)
					// StreamAll defers close(ch); nothing more to do
				}
			}()
			if err := rl.StreamAll(dvid.UUID(a.Data), dvid.UUID(a.Version), ch); err != nil {
				r.StreamErr = err.Error()
			}
		}()
		<-done
	}()
	return r, nil
}
