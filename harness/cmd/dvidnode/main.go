//go:build badger && verif

// dvidnode is the server-under-test process of the verification harness.  It
// performs DVID's real start-up sequence (cmd/dvid DoServe) on a TOML file, then
// executes ndjson commands from stdin and answers on a duplicate of stdout.
package main

import (
	"bufio"
	"bytes"
	"encoding/base64"
	"encoding/json"
	"fmt"
	"io"
	"net/http"
	"net/http/httptest"
	"os"
	"sync"
	"syscall"
	"time"

	"github.com/janelia-flyem/dvid/datastore"
	"github.com/janelia-flyem/dvid/dvid"
	"github.com/janelia-flyem/dvid/server"
	"github.com/janelia-flyem/dvid/storage"

	_ "github.com/janelia-flyem/dvid/datatype/annotation"
	_ "github.com/janelia-flyem/dvid/datatype/googlevoxels"
	_ "github.com/janelia-flyem/dvid/datatype/imageblk"
	_ "github.com/janelia-flyem/dvid/datatype/imagetile"
	_ "github.com/janelia-flyem/dvid/datatype/keyvalue"
	_ "github.com/janelia-flyem/dvid/datatype/labelarray"
	_ "github.com/janelia-flyem/dvid/datatype/labelblk"
	_ "github.com/janelia-flyem/dvid/datatype/labelmap"
	_ "github.com/janelia-flyem/dvid/datatype/labelsz"
	_ "github.com/janelia-flyem/dvid/datatype/labelvol"
	_ "github.com/janelia-flyem/dvid/datatype/multichan16"
	_ "github.com/janelia-flyem/dvid/datatype/neuronjson"
	_ "github.com/janelia-flyem/dvid/datatype/roi"
	_ "github.com/janelia-flyem/dvid/datatype/tarsupervoxels"

	_ "github.com/janelia-flyem/dvid/storage/badger"
	_ "github.com/janelia-flyem/dvid/storage/filelog"

	"verifharness/internal/crashkv"
)

// Req is one protocol command.
type Req struct {
	ID     uint64          `json:"id"`
	Op     string          `json:"op"`
	Method string          `json:"method,omitempty"`
	URL    string          `json:"url,omitempty"`
	Body   string          `json:"body,omitempty"` // base64
	Reqs   []Req           `json:"reqs,omitempty"` // for par
	Fn     string          `json:"fn,omitempty"`   // for call
	Args   json.RawMessage `json:"args,omitempty"`
	N      uint64          `json:"n,omitempty"`
	After  bool            `json:"after,omitempty"`
	On     bool            `json:"on,omitempty"`
	Sched  []uint64        `json:"sched,omitempty"` // gate schedule: order of request ids released at gates
	Gated  bool            `json:"gated,omitempty"`
	WaitMS int             `json:"wait_ms,omitempty"`
}

// Resp is one protocol answer.
type Resp struct {
	ID     uint64          `json:"id"`
	Status int             `json:"status,omitempty"`
	Body   string          `json:"body,omitempty"` // base64
	CType  string          `json:"ctype,omitempty"`
	Err    string          `json:"err,omitempty"`
	Resps  []Resp          `json:"resps,omitempty"`
	Result json.RawMessage `json:"result,omitempty"`
	N      uint64          `json:"n,omitempty"`
	Gates  []GateEvent     `json:"gates,omitempty"`
	// Panic: the server's "Panic detected on request" report found inside a body whose status is
	// below 500 (the handler had started its answer before it panicked)
	Panic string `json:"panic,omitempty"`
}

// panicInBody returns the server's panic report when it was appended to an answer that had
// already been started (the recovery middleware cannot change the status any more).
func panicInBody(code int, body []byte) string {
	if code >= 500 {
		return ""
	}
	i := bytes.Index(body, []byte("Panic detected on request"))
	if i < 0 {
		return ""
	}
	e := i + 400
	if e > len(body) {
		e = len(body)
	}
	return string(body[i:e])
}

func fatal(format string, args ...interface{}) {
	fmt.Fprintf(os.Stderr, "dvidnode fatal: "+format+"\n", args...)
	os.Exit(3)
}

func main() {
	if len(os.Args) < 2 {
		fatal("usage: dvidnode <config.toml>")
	}
	// The goji logger and some dvid messages go to stdout: keep a private copy of fd 1
	// for the protocol and point fd 1 at stderr.
	protoFd, err := syscall.Dup(1)
	if err != nil {
		fatal("dup: %v", err)
	}
	if err := syscall.Dup2(2, 1); err != nil {
		fatal("dup2: %v", err)
	}
	out := bufio.NewWriterSize(os.NewFile(uintptr(protoFd), "proto"), 1<<20)

	dvid.VerifPointFunc = gatePoint
	// crash injection armed from the environment (needed to crash during start-up/recovery)
	if ca := os.Getenv("VERIF_CRASH_AT"); ca != "" {
		var n uint64
		fmt.Sscan(ca, &n)
		crashkv.ArmAbsolute(n, os.Getenv("VERIF_CRASH_AFTER") == "1")
	}
	if os.Getenv("VERIF_WTRACE") == "1" {
		crashkv.SetTracing(true)
	}
	if os.Getenv("DVIDNODE_VERBOSE") == "" {
		dvid.SetLogMode(dvid.ErrorMode)
	}

	// --- the start-up sequence of cmd/dvid DoServe ---
	if err := server.LoadConfig(os.Args[1]); err != nil {
		fatal("LoadConfig: %v", err)
	}
	if err := server.Initialize(); err != nil {
		fatal("server.Initialize: %v", err)
	}
	backend, err := server.InitBackend()
	if err != nil {
		fatal("InitBackend: %v", err)
	}
	datatypes := make(map[dvid.TypeString]struct{})
	for _, t := range datastore.Compiled {
		datatypes[t.GetTypeName()] = struct{}{}
	}
	initMetadata, err := storage.Initialize(dvid.Config{}, backend, datatypes)
	if err != nil {
		fatal("storage.Initialize: %v", err)
	}
	if err := datastore.Initialize(initMetadata, server.DatastoreConfig()); err != nil {
		fatal("datastore.Initialize: %v", err)
	}

	enc := json.NewEncoder(out)
	send := func(r Resp) {
		if err := enc.Encode(r); err != nil {
			fatal("encode: %v", err)
		}
		out.Flush()
	}
	send(Resp{ID: 0, Status: 1, N: crashkv.Count()}) // ready

	in := bufio.NewReaderSize(os.Stdin, 1<<20)
	dec := json.NewDecoder(in)
	for {
		var rq Req
		if err := dec.Decode(&rq); err != nil {
			if err == io.EOF {
				// driver went away: clean shutdown
				datastore.Shutdown()
				storage.Shutdown()
				return
			}
			fatal("decode: %v", err)
		}
		switch rq.Op {
		case "http":
			send(doHTTP(rq))
		case "par":
			send(doPar(rq))
		case "idle":
			send(doIdle(rq))
		case "call":
			send(doCall(rq))
		case "arm":
			crashkv.Arm(rq.N, rq.After)
			send(Resp{ID: rq.ID, N: crashkv.Count()})
		case "disarm":
			crashkv.Disarm()
			send(Resp{ID: rq.ID, N: crashkv.Count()})
		case "count":
			send(Resp{ID: rq.ID, N: crashkv.Count()})
		case "wtrace":
			if rq.On {
				crashkv.SetTracing(true)
				send(Resp{ID: rq.ID})
			} else {
				t := crashkv.TakeTrace()
				b, _ := json.Marshal(t)
				send(Resp{ID: rq.ID, Result: b})
			}
		case "stop":
			datastore.Shutdown()
			storage.Shutdown()
			send(Resp{ID: rq.ID})
			return
		default:
			send(Resp{ID: rq.ID, Err: "unknown op " + rq.Op})
		}
	}
}

func doHTTP(rq Req) Resp {
	var body io.Reader
	if rq.Body != "" {
		b, err := base64.StdEncoding.DecodeString(rq.Body)
		if err != nil {
			return Resp{ID: rq.ID, Err: "bad body: " + err.Error()}
		}
		body = bytes.NewReader(b)
	}
	hr, err := http.NewRequest(rq.Method, rq.URL, body)
	if err != nil {
		return Resp{ID: rq.ID, Err: "bad request: " + err.Error()}
	}
	hr.Header.Set(reqIDHeader, fmt.Sprint(rq.ID))
	w := httptest.NewRecorder()
	func() {
		// A panic that escapes the middleware is what C20 looks for: report it, do not hide it.
		defer func() {
			if e := recover(); e != nil {
				w.Code = 599
				w.Body = bytes.NewBufferString(fmt.Sprintf("ESCAPED PANIC: %v", e))
			}
		}()
		server.ServeSingleHTTP(w, hr)
	}()
	return Resp{ID: rq.ID, Status: w.Code, Body: base64.StdEncoding.EncodeToString(w.Body.Bytes()), CType: w.Header().Get("Content-Type"),
		Panic: panicInBody(w.Code, w.Body.Bytes())}
}

func doPar(rq Req) Resp {
	resps := make([]Resp, len(rq.Reqs))
	var wg sync.WaitGroup
	if rq.Gated {
		gateBegin(rq)
	}
	for i := range rq.Reqs {
		wg.Add(1)
		go func(i int) {
			defer wg.Done()
			if rq.Gated {
				gateRegister(rq.Reqs[i].ID)
			}
			resps[i] = doHTTP(rq.Reqs[i])
			if rq.Gated {
				gateDone(rq.Reqs[i].ID)
			}
		}(i)
	}
	var evs []GateEvent
	if rq.Gated {
		evs = gateRun(rq, &wg)
	} else {
		wg.Wait()
	}
	return Resp{ID: rq.ID, Resps: resps, Gates: evs}
}

type syncer interface{ SyncPending() bool }

func isLabelsz(d datastore.DataService) bool { return d.TypeName() == "labelsz" }
type updater interface{ Updating() bool }
type scaleUpdater interface{ AnyScaleUpdating() bool }

type instRef struct {
	UUID string `json:"uuid"`
	Name string `json:"name"`
}

func allInstances() []instRef {
	b, err := datastore.MarshalJSON()
	if err != nil {
		return nil
	}
	var repos map[string]struct {
		Root          string
		DataInstances map[string]json.RawMessage
	}
	if err := json.Unmarshal(b, &repos); err != nil {
		return nil
	}
	var out []instRef
	for _, r := range repos {
		for name := range r.DataInstances {
			out = append(out, instRef{UUID: r.Root, Name: name})
		}
	}
	return out
}

// doIdle waits until every named (or every) instance reports no pending sync
// events and no running update, evaluated stably twice in a row.
func doIdle(rq Req) Resp {
	var refs []instRef
	if len(rq.Args) > 0 {
		json.Unmarshal(rq.Args, &refs)
	}
	if len(refs) == 0 {
		refs = allInstances()
	}
	var ds []datastore.DataService
	for _, r := range refs {
		d, err := datastore.GetDataByUUIDName(dvid.UUID(r.UUID), dvid.InstanceName(r.Name))
		if err == nil {
			ds = append(ds, d)
		}
	}
	busy := func() bool {
		for _, d := range ds {
			// (labelsz has its own queue test; the embedded datastore.Data one reads the repo's subscription table
			// without its lock, which races with an asynchronous instance deletion: use the locked variant)
			if isLabelsz(d) {
				if s, ok := d.(syncer); ok && s.SyncPending() {
					return true
				}
			} else if datastore.VerifSyncPending(d) {
				return true
			}
			if u, ok := d.(updater); ok && u.Updating() {
				return true
			}
			if u, ok := d.(scaleUpdater); ok && u.AnyScaleUpdating() {
				return true
			}
		}
		return false
	}
	deadline := time.Now().Add(60 * time.Second)
	if rq.WaitMS > 0 {
		deadline = time.Now().Add(time.Duration(rq.WaitMS) * time.Millisecond)
	}
	sleep := 200 * time.Microsecond
	quiet := 0
	for quiet < 3 {
		if busy() {
			quiet = 0
		} else {
			quiet++
		}
		if time.Now().After(deadline) {
			return Resp{ID: rq.ID, Err: "idle timeout"}
		}
		time.Sleep(sleep)
		if sleep < 5*time.Millisecond {
			sleep *= 2
		}
	}
	return Resp{ID: rq.ID}
}
