//go:build badger && verif

package main

// Growth of the label block calls (properties C09, C10): sparse views with non-empty
// dvid.Bounds, ReplaceLabel probes (getNumVoxels), blocks re-serialized with sub-block label
// counts of 0, points outside the block, presentations of split run-lengths.  As in
// calls_labels.go nothing here computes an expected value of an operation: the bounds (box,
// blocks that pass, voxel cuts) come from TLC, the reference is the block's own decoded volume.

import (
	"encoding/binary"
	"fmt"

	"github.com/janelia-flyem/dvid/datatype/common/labels"
	"github.com/janelia-flyem/dvid/dvid"

	lg "verifharness/internal/lblgeom"
)

func mkBounds(bc *lg.BoundsCase, size dvid.Point3d) dvid.Bounds {
	ob := optBounds(bc.Box)
	return dvid.Bounds{Voxel: ob, Block: ob.Divide(size), Exact: bc.Exact}
}

// inCut reports whether voxel i of block bi lies inside the cut of that block.
func (x *lblCtx) inCut(bc *lg.BoundsCase, bi, i int) bool {
	nx, ny := int(x.size[0]), int(x.size[1])
	vx := x.offset[0] + int32(bi)*x.size[0] + int32(i%nx)
	vy := x.offset[1] + int32((i/nx)%ny)
	vz := x.offset[2] + int32(i/(nx*ny))
	mn, mx := bc.CutMin[bi], bc.CutMax[bi]
	return vx >= mn[0] && vx <= mx[0] && vy >= mn[1] && vy <= mx[1] && vz >= mn[2] && vz <= mx[2]
}

// judge compares the voxel sets of one bounded output with the decoded volume:
// exact: set = foreground inside the cut of the passing blocks; otherwise
// foreground inside the cut  <=  set  <=  foreground of the passing blocks.
func (x *lblCtx) judge(sets [][]bool, dec []uint64, lbls labels.Set, bc *lg.BoundsCase, exact bool, err error, detail string) (r lg.BoundRes) {
	if err != nil {
		r.Err = err.Error()
		return
	}
	if detail != "" {
		r.Detail = detail
		return
	}
	r.OK = true
	for bi := range sets {
		for i, in := range sets[bi] {
			if in {
				r.Voxels++
			}
			_, fg := lbls[dec[i]]
			must := fg && bc.Pass[bi] && x.inCut(bc, bi, i)
			may := fg && bc.Pass[bi]
			if exact {
				may = must
			}
			if (must && !in) || (in && !may) {
				if r.OK {
					nx, ny := int(x.size[0]), int(x.size[1])
					r.Detail = fmt.Sprintf("block %d voxel (%d,%d,%d) label %d: in output %v, in label set %v, block passes the screen %v, inside the cut %v",
						bi, i%nx, (i/nx)%ny, i/(nx*ny), dec[i], in, fg, bc.Pass[bi], bc.Pass[bi] && x.inCut(bc, bi, i))
				}
				r.OK = false
			}
		}
	}
	return
}

func (x *lblCtx) bounded(b *labels.Block, dec []uint64, set []uint64, bc *lg.BoundsCase) (bo lg.BoundObs) {
	lbls := make(labels.Set)
	for _, l := range set {
		lbls[l] = struct{}{}
	}
	var main uint64
	if len(set) > 0 {
		main = set[0]
	}
	var blocks []*labels.PositionedBlock
	for i := 0; i < bc.NB; i++ {
		if bc.Pass[i] {
			blocks = append(blocks, x.pb(b, int32(i)))
		}
	}
	bounds := mkBounds(bc, x.size)
	data, err := runOutput(blocks, func(op *labels.OutputOp) { labels.WriteRLEs(lbls, op, bounds) })
	s, d := x.rleSets(data, bc.NB)
	bo.RLE = x.judge(s, dec, lbls, bc, bc.Exact, err, d)
	data, err = runOutput(blocks, func(op *labels.OutputOp) { labels.WriteBinaryBlocks(main, lbls, op, bounds) })
	s, d = x.binSets(data, bc.NB)
	bo.Bin = x.judge(s, dec, lbls, bc, false, err, d)
	return
}

func (x *lblCtx) probe(b *labels.Block, t, n uint64, withDecoded bool) (po lg.ProbeObs) {
	defer func() {
		if e := recover(); e != nil {
			po.Panic = fmt.Sprint(e)
		}
	}()
	rep, size, err := b.ReplaceLabel(t, n)
	if err != nil {
		po.Err = err.Error()
		return
	}
	po.Replaced = size
	if withDecoded {
		p := x.project(decode(rep))
		po.Decoded = &p
	}
	return
}

// outPoints: points outside the block read as 0 (documented for Value and GetPointLabels),
// and do not disturb the points inside that share the call.
func (x *lblCtx) outPoints(b *labels.Block, dec []uint64) (ok bool, detail string) {
	nx, ny, nz := x.size[0], x.size[1], x.size[2]
	out := []dvid.Point3d{{-1, 0, 0}, {nx, 0, 0}, {0, ny, 0}, {0, 0, nz}, {nx + 7, 3, 3}, {3, -8, 3}, {3, 3, -1}, {nx, ny, nz},
		{nx, ny - 1, nz - 1}, {nx - 1, ny, nz - 1}, {nx - 1, ny - 1, nz}, {-8, -8, -8}, {nx + 8, 1, 1}, {1, ny + 8, 1}, {2 * nx, 0, 0}, {0, 2 * ny, 0}}
	in := []dvid.Point3d{{0, 0, 0}, {nx - 1, ny - 1, nz - 1}, {nx - 1, 0, 0}, {0, ny - 1, 0}, {x.rng.Int31n(nx), x.rng.Int31n(ny), x.rng.Int31n(nz)}}
	ok = true
	for _, p := range out {
		if v := b.Value(p); v != 0 {
			ok = false
			detail = fmt.Sprintf("Value%v outside the block = %d", p, v)
		}
	}
	var pts []dvid.Point3d
	var want []uint64
	for i := range out {
		pts = append(pts, out[i])
		want = append(want, 0)
		q := in[i%len(in)]
		pts = append(pts, q)
		want = append(want, dec[int(q[2])*int(nx)*int(ny)+int(q[1])*int(nx)+int(q[0])])
	}
	res := b.GetPointLabels(pts)
	if len(res) != len(pts) {
		return false, fmt.Sprintf("GetPointLabels returned %d labels for %d points", len(res), len(pts))
	}
	for i := range pts {
		if res[i] != want[i] && ok {
			ok = false
			detail = fmt.Sprintf("GetPointLabels%v = %d, expected %d (0 outside the block)", pts[i], res[i], want[i])
		}
	}
	// only outside points
	res = b.GetPointLabels(out)
	for i := range res {
		if res[i] != 0 && ok {
			ok = false
			detail = fmt.Sprintf("GetPointLabels%v (all points outside) = %d", out[i], res[i])
		}
	}
	return
}

// holeBytes rewrites the serialization of b: the given sub-blocks (single-label, holding label
// 0) get a label count of 0 and lose their label index.
func holeBytes(b *labels.Block, holes []int) ([]byte, error) {
	data, _ := b.MarshalBinary()
	if len(b.Labels) < 2 {
		return nil, fmt.Errorf("solid block")
	}
	nsb := len(b.NumSBLabels)
	pos := 16 + 8*len(b.Labels)
	isHole := map[int]bool{}
	for _, h := range holes {
		if h < 0 || h >= nsb || b.NumSBLabels[h] != 1 {
			return nil, fmt.Errorf("sub-block %d is not a single-label sub-block", h)
		}
		isHole[h] = true
	}
	out := append([]byte(nil), data[:pos]...)
	counts := make([]byte, 2*nsb)
	copy(counts, data[pos:pos+2*nsb])
	var idx []byte
	ipos := pos + 2*nsb
	for q := 0; q < nsb; q++ {
		n := int(b.NumSBLabels[q])
		if isHole[q] {
			if b.Labels[b.SBIndices[(ipos-pos-2*nsb)/4]] != 0 {
				return nil, fmt.Errorf("sub-block %d does not hold label 0", q)
			}
			binary.LittleEndian.PutUint16(counts[2*q:], 0)
		} else {
			idx = append(idx, data[ipos:ipos+4*n]...)
		}
		ipos += 4 * n
	}
	out = append(out, counts...)
	out = append(out, idx...)
	out = append(out, data[ipos:]...)
	return out, nil
}

func (x *lblCtx) hole(b *labels.Block, arr []uint64, holes []int) (ho *lg.HoleObs) {
	ho = &lg.HoleObs{}
	defer func() {
		if e := recover(); e != nil {
			ho.Panic = fmt.Sprint(e)
		}
	}()
	data, err := holeBytes(b, holes)
	if err != nil {
		ho.Err = err.Error()
		return
	}
	hb := new(labels.Block)
	if err := hb.UnmarshalBinary(data); err != nil {
		ho.Refused = err.Error()
		return
	}
	for _, h := range holes {
		if hb.NumSBLabels[h] != 0 {
			ho.Err = "the re-parsed block does not have a zero label count"
			return
		}
	}
	dec := decode(hb)
	ho.DecodeOK = len(dec) == len(arr)
	for i := range arr {
		if ho.DecodeOK && dec[i] != arr[i] {
			ho.DecodeOK = false
			ho.Detail = fmt.Sprintf("MakeLabelVolume: voxel %d is %d, the array has %d", i, dec[i], arr[i])
		}
	}
	// the views against the ARRAY (the labelling the block stands for)
	c := *x.c
	ho.Views = x.views(hb, arr, nil, nil, c.AllPoints, false)
	x.growthViews(hb, arr, ho.Views)
	return
}

// growthViews adds the growth observations to v.
func (x *lblCtx) growthViews(b *labels.Block, dec []uint64, v *lg.Views) {
	c := x.c
	for _, s := range c.Sets {
		var row []lg.BoundObs
		for i := range c.Bounds {
			row = append(row, x.bounded(b, dec, s, &c.Bounds[i]))
		}
		if len(c.Bounds) > 0 {
			v.Bounded = append(v.Bounded, row)
		}
	}
	for i, p := range c.Probes {
		v.Probes = append(v.Probes, x.probe(b, p[0], p[1], i == 0))
	}
	if c.OutPoints {
		v.OutRun = true
		var d string
		v.OutOK, d = x.outPoints(b, dec)
		if d != "" && v.Detail == "" {
			v.Detail = d
		}
	}
}

// growth is called by runCase after the regular codec views.
func (x *lblCtx) growth(b *labels.Block, dec, arr []uint64, obs *lg.CaseObs) {
	if obs.Views != nil {
		x.growthViews(b, dec, obs.Views)
	}
	if len(x.c.Holes) > 0 {
		obs.Hole = x.hole(b, arr, x.c.Holes)
	}
}

// presentRLEs re-presents maximal runs: 1 = every run of length >= 2 broken into adjacent
// pieces at seeded cuts, 2 = single voxels.
func (x *lblCtx) presentRLEs(rles dvid.RLEs, pres int) dvid.RLEs {
	if pres == 0 {
		return rles
	}
	var out dvid.RLEs
	for _, r := range rles {
		p, n := r.StartPt(), r.Length()
		for n > 0 {
			k := int32(1)
			if pres == 1 && n > 1 {
				k = 1 + x.rng.Int31n(n)
			}
			out = append(out, dvid.NewRLE(p, k))
			p[0] += k
			n -= k
		}
	}
	x.rng.Shuffle(len(out), func(i, j int) { out[i], out[j] = out[j], out[i] })
	return out
}
