//go:build badger && verif

package main

import (
	"crypto/sha1"
	"encoding/base64"
	"encoding/json"
	"fmt"
	"os"
	"path/filepath"
	"strings"
	"sync"
	"time"

	"github.com/janelia-flyem/dvid/datastore"
	"github.com/janelia-flyem/dvid/dvid"
	dvidrpc "github.com/janelia-flyem/dvid/rpc"
	_ "github.com/janelia-flyem/dvid/server" // registers "server.Command" -> handleCommand in the dispatcher
	"github.com/valyala/gorpc"
)

// The RPC command path (server/rpc.go handleCommand and every datatype's DoRPC).
//
// handleCommand is unexported; the exported way in is the one the `dvid` command line
// uses: a gorpc client calling "server.Command" on a gorpc server whose handler is
// rpc.Dispatcher().NewHandlerFunc() (rpc.StartServer).  This file starts exactly that
// server - same dispatcher, same handler function, same gob encoding of
// datastore.Request / datastore.Response - on a unix socket private to this process
// (rpc.StartServer insists on a TCP address, and a TCP port picked by the harness could
// be taken by a concurrently running node), and speaks to it like server.SendRPC does.
func init() {
	calls["rpc"] = callRPC
}

var (
	rpcOnce   sync.Once
	rpcErr    error
	rpcClient *gorpc.Client
	rpcDC     *gorpc.DispatcherClient
	rpcDir    string
	rpcMu     sync.Mutex
)

func rpcStart() {
	base := filepath.Dir(os.Args[1])
	rpcDir = filepath.Join(base, "rpcfiles")
	if err := os.MkdirAll(rpcDir, 0755); err != nil {
		rpcErr = err
		return
	}
	// commands such as dump, version-changes and flatten-mutations write files at paths the
	// client names: relative ones stay inside the scratch directory
	if err := os.Chdir(rpcDir); err != nil {
		rpcErr = err
		return
	}
	sock := filepath.Join(base, "rpc.sock")
	if len(sock) > 100 {
		// sun_path is limited to 108 bytes
		h := sha1.Sum([]byte(sock))
		sock = filepath.Join(os.TempDir(), fmt.Sprintf("dvrpc-%d-%x.sock", os.Getpid(), h[:4]))
	}
	os.Remove(sock)
	gorpc.SetErrorLogger(dvid.Errorf)
	s := gorpc.NewUnixServer(sock, dvidrpc.Dispatcher().NewHandlerFunc())
	if err := s.Start(); err != nil {
		rpcErr = fmt.Errorf("rpc server start on %s: %v", sock, err)
		return
	}
	c := gorpc.NewUnixClient(sock)
	c.RequestTimeout = 120 * time.Second
	c.Start()
	rpcClient = c
	rpcDC = dvidrpc.Dispatcher().NewFuncClient(c)
}

type rpcArgs struct {
	Cmd   []string          // the command line; "{file:NAME}" inside an argument is replaced by the path of Files[NAME], "{dir}" by the scratch directory
	Input string            // base64: what `dvid -stdin` would read
	Files map[string]string // name -> base64 content, written to the scratch directory before the call
}

type rpcResult struct {
	Text   string `json:"text"`
	Output string `json:"output"` // base64
	Err    string `json:"err"`    // error answered by the server ("" = accepted)
	Panic  bool   `json:"panic"`  // the handler panicked (recovered by gorpc's serve loop)
	Cmd    string `json:"cmd"`
}

func callRPC(args json.RawMessage) (interface{}, error) {
	var a rpcArgs
	if err := json.Unmarshal(args, &a); err != nil {
		return nil, err
	}
	rpcOnce.Do(rpcStart)
	if rpcErr != nil {
		return nil, rpcErr
	}
	rpcMu.Lock()
	defer rpcMu.Unlock()
	for name, b64 := range a.Files {
		b, err := base64.StdEncoding.DecodeString(b64)
		if err != nil {
			return nil, fmt.Errorf("file %s: %v", name, err)
		}
		p := filepath.Join(rpcDir, filepath.Base(name))
		if err := os.WriteFile(p, b, 0644); err != nil {
			return nil, err
		}
	}
	cmd := make(dvid.Command, len(a.Cmd))
	for i, s := range a.Cmd {
		s = strings.ReplaceAll(s, "{dir}", rpcDir)
		for {
			j := strings.Index(s, "{file:")
			if j < 0 {
				break
			}
			k := strings.Index(s[j:], "}")
			if k < 0 {
				break
			}
			s = s[:j] + filepath.Join(rpcDir, filepath.Base(s[j+6:j+k])) + s[j+k+1:]
		}
		cmd[i] = s
	}
	req := datastore.Request{Command: cmd}
	if a.Input != "" {
		b, err := base64.StdEncoding.DecodeString(a.Input)
		if err != nil {
			return nil, fmt.Errorf("input: %v", err)
		}
		req.Input = b
	}
	res := rpcResult{Cmd: cmd.String()}
	resp, err := rpcDC.Call("server.Command", req)
	if err != nil {
		res.Err = err.Error()
		if ce, ok := err.(*gorpc.ClientError); ok && (ce.Timeout || ce.Connection || ce.Overflow) {
			return nil, fmt.Errorf("rpc transport: %v", err)
		}
		if strings.Contains(res.Err, "Panic occured") {
			res.Panic = true
		}
		return res, nil
	}
	reply, ok := resp.(*datastore.Response)
	if !ok {
		if resp == nil {
			return res, nil
		}
		return nil, fmt.Errorf("bad response type %T", resp)
	}
	res.Text = reply.Text
	res.Output = base64.StdEncoding.EncodeToString(reply.Output)
	return res, nil
}
