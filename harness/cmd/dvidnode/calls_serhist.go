//go:build badger && verif

package main

import (
	"bytes"
	"encoding/json"
	"fmt"
	"math/rand"

	"github.com/janelia-flyem/dvid/dvid"
)

// ser.history: call sequences of specs/EnvelopeHistory.tla against dvid.SerializeData /
// dvid.DeserializeData.  The returned slices themselves are held (not copied) and compared
// with what they were when returned after every later call.

func init() { calls["ser.history"] = callSerHistory }

type serHistCall struct {
	Op   string `json:"op"` // ser | deser | deserraw
	Comp string `json:"comp"`
}

type serHeld struct {
	id   int
	what string
	got  []byte // the slice the real code returned
	want []byte // private copy taken when it was returned
}

func callSerHistory(args json.RawMessage) (interface{}, error) {
	var a struct {
		Seqs [][]serHistCall `json:"seqs"`
		Seed int64           `json:"seed"`
	}
	if err := json.Unmarshal(args, &a); err != nil {
		return nil, err
	}
	comps := map[string]dvid.CompressionFormat{"none": dvid.Uncompressed, "snappy": dvid.Snappy, "lz4": dvid.LZ4, "gzip": dvid.Gzip}
	type bad struct {
		Seq    int    `json:"seq"`
		After  int    `json:"after_call"`
		Held   int    `json:"held_call"`
		What   string `json:"what"`
		Detail string `json:"detail"`
	}
	out := struct {
		Calls int   `json:"calls"`
		Bad   []bad `json:"bad"`
	}{}
	rng := rand.New(rand.NewSource(a.Seed))
	for si, seq := range a.Seqs {
		var held []serHeld
		for ci, c := range seq {
			cf, ok := comps[c.Comp]
			if !ok {
				return nil, fmt.Errorf("unknown compression %q", c.Comp)
			}
			comp, err := dvid.NewCompression(cf, dvid.DefaultCompression)
			if err != nil {
				return nil, err
			}
			// compressible payloads of similar but distinct sizes and contents
			n := 600 + rng.Intn(600)
			payload := make([]byte, n)
			fill := byte(1 + rng.Intn(250))
			for i := range payload {
				payload[i] = fill + byte(i%3)
			}
			var h serHeld
			var callErr string
			func() {
				defer func() {
					if e := recover(); e != nil {
						callErr = fmt.Sprint("panic: ", e)
					}
				}()
				env, err := dvid.SerializeData(payload, comp, dvid.CRC32)
				if err != nil {
					callErr = err.Error()
					return
				}
				switch c.Op {
				case "ser":
					h = serHeld{id: ci + 1, what: "serialized value", got: env}
				case "deser", "deserraw":
					mine := append([]byte(nil), env...) // the caller's own bytes go in
					data, _, err := dvid.DeserializeData(mine, c.Op == "deser")
					if err != nil {
						callErr = err.Error()
						return
					}
					h = serHeld{id: ci + 1, what: "deserialized payload", got: data}
					if c.Op == "deser" && !bytes.Equal(data, payload) {
						callErr = "round trip differs"
					}
				}
			}()
			out.Calls++
			if callErr != "" {
				out.Bad = append(out.Bad, bad{si, ci + 1, ci + 1, c.Op + "/" + c.Comp, callErr})
				break
			}
			h.want = append([]byte(nil), h.got...)
			held = append(held, h)
			for _, x := range held {
				if !bytes.Equal(x.got, x.want) {
					d := 0
					for d < len(x.got) && d < len(x.want) && x.got[d] == x.want[d] {
						d++
					}
					out.Bad = append(out.Bad, bad{si, ci + 1, x.id, x.what,
						fmt.Sprintf("the %s returned by call %d changed after call %d (%s/%s): first difference at byte %d of %d", x.what, x.id, ci+1, c.Op, c.Comp, d, len(x.want))})
				}
			}
			if len(out.Bad) > 20 {
				return out, nil
			}
		}
	}
	return out, nil
}
