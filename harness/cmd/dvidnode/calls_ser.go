//go:build badger && verif

package main

import (
	"bytes"
	"encoding/base64"
	"encoding/json"
	"fmt"
	"math/rand"

	"github.com/janelia-flyem/dvid/dvid"
)

// Package-level entry points of the serialization envelope (property C15):
// dvid.SerializeData, dvid.SerializePrecompressedData, dvid.DeserializeData.

func init() {
	calls["ser.damage"] = callSerDamage
	calls["ser.raw"] = callSerRaw
}

// serPayload describes a payload: literal bytes, or a generator for large ones
// (so that megabytes need not travel through the pipe).
type serPayload struct {
	B64  string `json:"b64,omitempty"`
	Gen  string `json:"gen,omitempty"` // "random" | "zeros" | "pattern" | "mixed"
	Seed int64  `json:"seed,omitempty"`
	Len  int    `json:"len,omitempty"`
}

func (p serPayload) bytes() ([]byte, error) {
	if p.Gen == "" {
		return base64.StdEncoding.DecodeString(p.B64)
	}
	b := make([]byte, p.Len)
	rng := rand.New(rand.NewSource(p.Seed))
	switch p.Gen {
	case "random":
		rng.Read(b)
	case "zeros":
	case "pattern":
		pat := make([]byte, 1+rng.Intn(23))
		rng.Read(pat)
		for i := range b {
			b[i] = pat[i%len(pat)]
		}
	case "mixed": // alternating incompressible and constant stretches
		for off := 0; off < len(b); {
			n := 1 + rng.Intn(8192)
			if off+n > len(b) {
				n = len(b) - off
			}
			if rng.Intn(2) == 0 {
				rng.Read(b[off : off+n])
			} else {
				v := byte(rng.Intn(256))
				for i := off; i < off+n; i++ {
					b[i] = v
				}
			}
			off += n
		}
	default:
		return nil, fmt.Errorf("unknown generator %q", p.Gen)
	}
	return b, nil
}

// serObs is what one DeserializeData call did.
type serObs struct {
	Panic     string `json:"panic,omitempty"`
	Err       string `json:"err,omitempty"`
	Len       int    `json:"len"`
	Fmt       uint8  `json:"fmt"`
	IsPayload bool   `json:"is_payload"`
	IsBody    bool   `json:"is_body"`
	// GobSkipped (ser.obj only): the envelope returned altered bytes without an error; they were not offered to gob
	GobSkipped bool `json:"gob_skipped,omitempty"`
}

func observeDeser(s []byte, uncompress bool, payload, body []byte) (o serObs) {
	defer func() {
		if e := recover(); e != nil {
			o = serObs{Panic: fmt.Sprint(e)}
		}
	}()
	data, format, err := dvid.DeserializeData(s, uncompress)
	if err != nil {
		o.Err = err.Error()
		if o.Err == "" {
			o.Err = "(empty error text)"
		}
		return
	}
	o.Len = len(data)
	o.Fmt = uint8(format)
	o.IsPayload = payload != nil && bytes.Equal(data, payload)
	o.IsBody = body != nil && bytes.Equal(data, body)
	return
}

type serDamage struct {
	Kind string `json:"kind"` // "none" | "xor" (Val = mask to xor into byte Pos) | "cut" (keep Pos bytes)
	Pos  int    `json:"pos"`
	Val  uint8  `json:"val"`
	Unc  bool   `json:"unc"`
}

// callSerDamage serializes one payload with one format, applies each damage to a copy
// of the serialized value and reports what DeserializeData did with it.
func callSerDamage(args json.RawMessage) (interface{}, error) {
	var a struct {
		Payload  serPayload  `json:"payload"`
		Comp     uint8       `json:"comp"`
		Level    int8        `json:"level"`
		Checksum uint8       `json:"checksum"`
		Damages  []serDamage `json:"damages"`
		WantEnv  bool        `json:"want_env"`
	}
	if err := json.Unmarshal(args, &a); err != nil {
		return nil, err
	}
	payload, err := a.Payload.bytes()
	if err != nil {
		return nil, err
	}
	comp, err := dvid.NewCompression(dvid.CompressionFormat(a.Comp), dvid.CompressionLevel(a.Level))
	if err != nil {
		return nil, fmt.Errorf("NewCompression: %v", err)
	}
	type result struct {
		SerPanic  string   `json:"ser_panic,omitempty"`
		SerErr    string   `json:"ser_err,omitempty"`
		EnvLen    int      `json:"env_len"`
		Env       string   `json:"env,omitempty"`
		Body      string   `json:"body,omitempty"`
		FmtByte   int      `json:"fmt_byte"`
		Rewrapped bool     `json:"rewrapped"` // SerializePrecompressedData(stored body) deserializes to the payload
		Obs       []serObs `json:"obs"`
	}
	var res result
	res.FmtByte = -1
	var env []byte
	func() {
		defer func() {
			if e := recover(); e != nil {
				res.SerPanic = fmt.Sprint(e)
			}
		}()
		env, err = dvid.SerializeData(payload, comp, dvid.Checksum(a.Checksum))
		if err != nil {
			res.SerErr = err.Error()
		}
	}()
	if res.SerPanic != "" || res.SerErr != "" {
		return res, nil
	}
	res.EnvLen = len(env)
	if len(env) > 0 {
		res.FmtByte = int(env[0])
	}
	if a.WantEnv && len(env) <= 4096 {
		res.Env = base64.StdEncoding.EncodeToString(env)
	}
	// the stored body, obtained from the real code itself (deserialize without decompression)
	var body []byte
	func() {
		defer func() { recover() }()
		b, _, err := dvid.DeserializeData(env, false)
		if err == nil {
			body = b
			// second serialization path: wrap the already compressed body again
			re, err := dvid.SerializePrecompressedData(b, comp, dvid.Checksum(a.Checksum))
			if err == nil {
				back, _, err := dvid.DeserializeData(re, true)
				res.Rewrapped = err == nil && bytes.Equal(back, payload)
			}
		}
	}()
	if body == nil {
		body = []byte{}
	}
	if a.WantEnv && len(body) <= 4096 {
		res.Body = base64.StdEncoding.EncodeToString(body)
	}
	res.Obs = make([]serObs, len(a.Damages))
	buf := make([]byte, len(env))
	for i, d := range a.Damages {
		s, err := applySerDamage(env, buf, d)
		if err != nil {
			return nil, err
		}
		res.Obs[i] = observeDeser(s, d.Unc, payload, body)
	}
	return res, nil
}

// callSerRaw offers arbitrary byte strings to DeserializeData.
func callSerRaw(args json.RawMessage) (interface{}, error) {
	var a struct {
		Inputs []string `json:"inputs"` // base64
		Unc    []bool   `json:"unc"`
	}
	if err := json.Unmarshal(args, &a); err != nil {
		return nil, err
	}
	out := make([]serObs, len(a.Inputs))
	for i, in := range a.Inputs {
		s, err := base64.StdEncoding.DecodeString(in)
		if err != nil {
			return nil, err
		}
		out[i] = observeDeser(s[:len(s):len(s)], a.Unc[i], nil, nil)
	}
	return out, nil
}

// applySerDamage returns a damaged copy of a serialized value (buf = scratch of len(env)).
func applySerDamage(env, buf []byte, d serDamage) ([]byte, error) {
	switch d.Kind {
	case "none":
		return env, nil
	case "xor":
		if d.Pos < 0 || d.Pos >= len(env) || d.Val == 0 {
			return nil, fmt.Errorf("bad xor damage %+v for %d-byte value", d, len(env))
		}
		copy(buf, env)
		buf[d.Pos] ^= d.Val
		return buf, nil
	case "cut":
		if d.Pos < 0 || d.Pos >= len(env) {
			return nil, fmt.Errorf("bad cut %+v for %d-byte value", d, len(env))
		}
		s := make([]byte, d.Pos) // own backing array, capacity = length: nothing readable beyond the cut
		copy(s, env[:d.Pos])
		return s[:d.Pos:d.Pos], nil
	case "append": // Pos extra bytes behind the value: zeros when Val = 0, seeded bytes otherwise
		if d.Pos <= 0 {
			return nil, fmt.Errorf("bad append %+v", d)
		}
		s := make([]byte, len(env)+d.Pos)
		copy(s, env)
		if d.Val != 0 {
			rand.New(rand.NewSource(int64(d.Val)*7919 + int64(d.Pos))).Read(s[len(env):])
		}
		return s[:len(s):len(s)], nil
	}
	return nil, fmt.Errorf("unknown damage kind %q", d.Kind)
}
