//go:build badger && verif

package main

import (
	"encoding/json"
	"fmt"

	"github.com/janelia-flyem/dvid/datastore"
	"github.com/janelia-flyem/dvid/datatype/imageblk"
	"github.com/janelia-flyem/dvid/dvid"
	"github.com/janelia-flyem/dvid/storage"
)

func init() {
	calls["imageblk.transfer"] = callImageblkTransfer
	calls["imageblk.extents"] = callImageblkExtents
	calls["imageblk.load"] = callImageblkLoad
}

// callImageblkLoad is the file ingest behind the RPC command `node <uuid> <data> load <offset>
// <files>` (Data.DoRPC "load" starts Data.LoadImages in a goroutine and only logs its error):
// LoadImages is called directly so that the caller knows when the ingest is done and how it
// ended.  The files are XY images readable by the server, one per Z slice.
func callImageblkLoad(args json.RawMessage) (interface{}, error) {
	var a struct {
		Data   string   `json:"data"`
		UUID   string   `json:"uuid"`
		Offset [3]int32 `json:"offset"`
		Files  []string `json:"files"`
	}
	if err := json.Unmarshal(args, &a); err != nil {
		return nil, err
	}
	d, err := imageblkData(a.UUID, a.Data)
	if err != nil {
		return nil, err
	}
	v, err := datastore.VersionFromUUID(dvid.UUID(a.UUID))
	if err != nil {
		return nil, err
	}
	if err := d.LoadImages(v, dvid.Point3d{a.Offset[0], a.Offset[1], a.Offset[2]}, a.Files); err != nil {
		return map[string]interface{}{"err": err.Error()}, nil
	}
	return map[string]interface{}{"err": ""}, nil
}

func imageblkData(uuid, name string) (*imageblk.Data, error) {
	ds, err := datastore.GetDataByUUIDName(dvid.UUID(uuid), dvid.InstanceName(name))
	if err != nil {
		return nil, err
	}
	// all voxel types (uint8blk ... rgba8blk) are *imageblk.Data with different Values
	d, ok := ds.(*imageblk.Data)
	if !ok {
		return nil, fmt.Errorf("%s is not an imageblk instance (%T)", name, ds)
	}
	return d, nil
}

// callImageblkTransfer drives the block <-> request buffer transfer of imageblk directly:
// Voxels.ReadBlock (block -> zeroed request buffer) and Voxels.WriteBlock (request buffer ->
// zeroed block) for a list of geometries relative to one block.
func callImageblkTransfer(args json.RawMessage) (interface{}, error) {
	var a struct {
		Data      string   `json:"data"`
		UUID      string   `json:"uuid"`
		BlockSize [3]int32 `json:"bs"`
		Block     [3]int32 `json:"block"`
		BlockData []byte   `json:"blockdata"` // content of the block for reads
		Geoms     []struct {
			Shape  string   `json:"shape"` // xy, xz, yz, vol
			Offset [3]int32 `json:"offset"`
			Size   [3]int32 `json:"size"`
			Vox    []byte   `json:"vox,omitempty"` // request buffer content for writes
		} `json:"geoms"`
	}
	if err := json.Unmarshal(args, &a); err != nil {
		return nil, err
	}
	d, err := imageblkData(a.UUID, a.Data)
	if err != nil {
		return nil, err
	}
	bs := dvid.Point3d{a.BlockSize[0], a.BlockSize[1], a.BlockSize[2]}
	idx := dvid.IndexZYX{a.Block[0], a.Block[1], a.Block[2]}
	tk := imageblk.NewTKey(&idx)
	bpv := int(d.Properties.Values.BytesPerElement())
	nblock := int(bs[0]) * int(bs[1]) * int(bs[2]) * bpv
	if len(a.BlockData) != nblock {
		return nil, fmt.Errorf("block data has %d bytes, want %d", len(a.BlockData), nblock)
	}
	type res struct {
		Read  []byte `json:"read,omitempty"`
		Block []byte `json:"block,omitempty"`
		Err   string `json:"err,omitempty"`
	}
	out := make([]res, len(a.Geoms))
	for i, g := range a.Geoms {
		func() {
			defer func() {
				if e := recover(); e != nil {
					out[i].Err = fmt.Sprintf("PANIC: %v", e)
				}
			}()
			off := dvid.Point3d{g.Offset[0], g.Offset[1], g.Offset[2]}
			var geom dvid.Geometry
			var err error
			switch g.Shape {
			case "xy":
				geom, err = dvid.NewOrthogSlice(dvid.XY, off, dvid.Point2d{g.Size[0], g.Size[1]})
			case "xz":
				geom, err = dvid.NewOrthogSlice(dvid.XZ, off, dvid.Point2d{g.Size[0], g.Size[2]})
			case "yz":
				geom, err = dvid.NewOrthogSlice(dvid.YZ, off, dvid.Point2d{g.Size[1], g.Size[2]})
			case "vol":
				geom = dvid.NewSubvolume(off, dvid.Point3d{g.Size[0], g.Size[1], g.Size[2]})
			default:
				err = fmt.Errorf("unknown shape %q", g.Shape)
			}
			if err != nil {
				out[i].Err = err.Error()
				return
			}
			// read: block -> fresh request buffer
			vox, err := d.NewVoxels(geom, nil)
			if err != nil {
				out[i].Err = err.Error()
				return
			}
			blk := &storage.TKeyValue{K: tk, V: append([]byte(nil), a.BlockData...)}
			if err := vox.ReadBlock(blk, bs, 0); err != nil {
				out[i].Err = "ReadBlock: " + err.Error()
				return
			}
			out[i].Read = vox.Data()
			// write: request buffer -> zeroed block
			if len(g.Vox) > 0 {
				wv, err := d.NewVoxels(geom, g.Vox)
				if err != nil {
					out[i].Err = err.Error()
					return
				}
				wb := &storage.TKeyValue{K: tk, V: make([]byte, nblock)}
				if err := wv.WriteBlock(wb, bs); err != nil {
					out[i].Err = "WriteBlock: " + err.Error()
					return
				}
				out[i].Block = wb.V
			}
		}()
	}
	return out, nil
}

// callImageblkExtents returns Data.GetExtents at a version (the extent-tracking mechanism
// behind info / metadata).
func callImageblkExtents(args json.RawMessage) (interface{}, error) {
	var a struct {
		Data string `json:"data"`
		UUID string `json:"uuid"`
	}
	if err := json.Unmarshal(args, &a); err != nil {
		return nil, err
	}
	d, err := imageblkData(a.UUID, a.Data)
	if err != nil {
		return nil, err
	}
	v, err := datastore.VersionFromUUID(dvid.UUID(a.UUID))
	if err != nil {
		return nil, err
	}
	ext, err := d.GetExtents(datastore.NewVersionedCtx(d, v))
	if err != nil {
		return nil, err
	}
	pt := func(p dvid.Point) []int32 {
		if p == nil {
			return nil
		}
		out := make([]int32, p.NumDims())
		for i := range out {
			out[i] = p.Value(uint8(i))
		}
		return out
	}
	return map[string]interface{}{"min": pt(ext.MinPoint), "max": pt(ext.MaxPoint)}, nil
}
