//go:build badger && verif

package main

import (
	"bytes"
	"encoding/base64"
	"encoding/hex"
	"encoding/json"
	"fmt"
	"math/rand"
	"reflect"
	"sync"

	"github.com/janelia-flyem/dvid/datastore"
	"github.com/janelia-flyem/dvid/dvid"
	"github.com/janelia-flyem/dvid/storage"
)

// Second pair of operations of the envelope (property C15): dvid.Serialize / dvid.Deserialize,
// the gob OBJECT envelope; and raw access to STORED values (metadata and data keys) so that a
// check can plant a damaged envelope where a user of the envelope will read it.

func init() {
	calls["ser.obj"] = callSerObj
	calls["ser.rawput"] = callSerRawPut
	calls["ser.metaget"] = callSerMetaGet
	calls["ser.metaput"] = callSerMetaPut
}

// Object classes of specs/Envelope.tla (ObjClasses).
type serFlat struct {
	A int64
	B uint32
	C string
	D float64
	E bool
	F []int32
}

type serNested struct {
	Name string
	M    map[string][]uint64
	L    []serFlat
	P    *serFlat
	Q    map[uint32]string
}

type serBytes struct {
	ID   uint64
	Blob []byte
	Tags []string
}

func mkFlat(rng *rand.Rand) serFlat {
	f := serFlat{A: rng.Int63() - rng.Int63(), B: 1 + rng.Uint32()/2, C: fmt.Sprintf("s%x", rng.Int63()), D: rng.NormFloat64() + 0.5, E: true}
	for i, n := 0, 1+rng.Intn(6); i < n; i++ {
		f.F = append(f.F, int32(rng.Int31())-1<<30)
	}
	return f
}

// serObject returns an object of the class and a fresh zero value to decode into.
func serObject(class string, seed int64) (obj interface{}, fresh func() interface{}, err error) {
	rng := rand.New(rand.NewSource(seed))
	switch class {
	case "flat":
		f := mkFlat(rng)
		return &f, func() interface{} { return new(serFlat) }, nil
	case "nested":
		n := serNested{Name: fmt.Sprintf("n%d", rng.Intn(1000)), M: map[string][]uint64{}, Q: map[uint32]string{}}
		for i, k := 0, 1+rng.Intn(5); i < k; i++ {
			var l []uint64
			for j, m := 0, 1+rng.Intn(8); j < m; j++ {
				l = append(l, 1+rng.Uint64()>>uint(rng.Intn(60)))
			}
			n.M[fmt.Sprintf("k%d", i)] = l
			n.Q[uint32(i+1)] = fmt.Sprintf("v%x", rng.Int31())
			n.L = append(n.L, mkFlat(rng))
		}
		p := mkFlat(rng)
		n.P = &p
		return &n, func() interface{} { return new(serNested) }, nil
	case "bytes":
		b := serBytes{ID: 1 + rng.Uint64()>>1, Blob: make([]byte, 1+rng.Intn(3000)), Tags: []string{"a", fmt.Sprint(rng.Intn(99))}}
		if rng.Intn(2) == 0 {
			rng.Read(b.Blob)
		} else {
			for i := range b.Blob {
				b.Blob[i] = byte(1 + i%7)
			}
		}
		return &b, func() interface{} { return new(serBytes) }, nil
	}
	return nil, nil, fmt.Errorf("unknown object class %q", class)
}

var (
	serObjMu  sync.Mutex
	serObjKey string
	serObjEnv []byte
)

// callSerObj serializes one object with dvid.Serialize, applies each damage to a copy of the
// serialized value and reports what dvid.Deserialize into a fresh object did with it
// (IsPayload = no error and the decoded object equals the original).
func callSerObj(args json.RawMessage) (interface{}, error) {
	var a struct {
		Class    string      `json:"class"`
		Seed     int64       `json:"seed"`
		Comp     uint8       `json:"comp"`
		Level    int8        `json:"level"`
		Checksum uint8       `json:"checksum"`
		Damages  []serDamage `json:"damages"`
		WantEnv  bool        `json:"want_env"`
	}
	if err := json.Unmarshal(args, &a); err != nil {
		return nil, err
	}
	obj, fresh, err := serObject(a.Class, a.Seed)
	if err != nil {
		return nil, err
	}
	comp, err := dvid.NewCompression(dvid.CompressionFormat(a.Comp), dvid.CompressionLevel(a.Level))
	if err != nil {
		return nil, fmt.Errorf("NewCompression: %v", err)
	}
	type result struct {
		SerPanic  string   `json:"ser_panic,omitempty"`
		SerErr    string   `json:"ser_err,omitempty"`
		EnvLen    int      `json:"env_len"`
		Env       string   `json:"env,omitempty"`
		FmtByte   int      `json:"fmt_byte"`
		Rewrapped bool     `json:"rewrapped"`
		Obs       []serObs `json:"obs"`
	}
	res := result{FmtByte: -1, Rewrapped: true}
	// gob writes maps in iteration order, so two serializations of one object differ (and so do their
	// compressed lengths): the probing call and the damaging call must see the same bytes
	cacheKey := fmt.Sprintf("%s|%d|%d|%d|%d", a.Class, a.Seed, a.Comp, a.Level, a.Checksum)
	var env []byte
	serObjMu.Lock()
	if serObjKey == cacheKey {
		env = serObjEnv
	}
	serObjMu.Unlock()
	if env == nil {
		func() {
			defer func() {
				if e := recover(); e != nil {
					res.SerPanic = fmt.Sprint(e)
				}
			}()
			env, err = dvid.Serialize(obj, comp, dvid.Checksum(a.Checksum))
			if err != nil {
				res.SerErr = err.Error()
			}
		}()
		serObjMu.Lock()
		serObjKey, serObjEnv = cacheKey, env
		serObjMu.Unlock()
	}
	if res.SerPanic != "" || res.SerErr != "" {
		return res, nil
	}
	res.EnvLen = len(env)
	if len(env) > 0 {
		res.FmtByte = int(env[0])
	}
	if a.WantEnv && len(env) <= 4096 {
		res.Env = base64.StdEncoding.EncodeToString(env)
	}
	res.Obs = make([]serObs, len(a.Damages))
	buf := make([]byte, len(env))
	gobBytes, _, err := dvid.DeserializeData(env, true)
	if err != nil {
		return nil, fmt.Errorf("undamaged value does not deserialize: %v", err)
	}
	for i, d := range a.Damages {
		s, err := applySerDamage(env, buf, d)
		if err != nil {
			return nil, err
		}
		res.Obs[i] = func() (o serObs) {
			defer func() {
				if e := recover(); e != nil {
					o = serObs{Panic: fmt.Sprint(e)}
				}
			}()
			// encoding/gob is documented as not hardened against adversarial input: an altered element
			// count makes it allocate without bound (reflect.MakeMapWithSize: "fatal error: runtime: out
			// of memory", which no recover catches and which endangers the machine).  When the envelope
			// hands on bytes other than the original gob bytes without an error, the observation stops
			// there: no error, not the payload.
			if data, _, derr := dvid.DeserializeData(s, true); derr == nil && len(data) > 0 && !bytes.Equal(data, gobBytes) {
				o.Len = len(data)
				o.GobSkipped = true
				return
			}
			got := fresh()
			if err := dvid.Deserialize(s, got); err != nil {
				o.Err = err.Error()
				if o.Err == "" {
					o.Err = "(empty error text)"
				}
				return
			}
			o.IsPayload = reflect.DeepEqual(got, obj)
			return
		}()
	}
	return res, nil
}

// callSerRawPut stores raw bytes (no serialization) as the value of a type-specific key of a data
// instance at a version, through the store API with the versioned context the datatype itself uses.
func callSerRawPut(args json.RawMessage) (interface{}, error) {
	var a struct {
		Data  string `json:"data"`
		UUID  string `json:"uuid"`
		TKey  string `json:"tkey"`  // hex
		Value string `json:"value"` // base64
	}
	if err := json.Unmarshal(args, &a); err != nil {
		return nil, err
	}
	d, err := datastore.GetDataByUUIDName(dvid.UUID(a.UUID), dvid.InstanceName(a.Data))
	if err != nil {
		return nil, err
	}
	v, err := datastore.VersionFromUUID(dvid.UUID(a.UUID))
	if err != nil {
		return nil, err
	}
	db, err := datastore.GetOrderedKeyValueDB(d)
	if err != nil {
		return nil, err
	}
	tk, err := hex.DecodeString(a.TKey)
	if err != nil {
		return nil, err
	}
	val, err := base64.StdEncoding.DecodeString(a.Value)
	if err != nil {
		return nil, err
	}
	return nil, db.Put(datastore.NewVersionedCtx(d, v), storage.TKey(tk), val)
}

// datastore.repoKey (the key class of the stored repo blobs; unexported there)
const serRepoKeyClass storage.TKeyClass = 4

// callSerMetaGet returns the stored repo blobs of the metadata store.
func callSerMetaGet(args json.RawMessage) (interface{}, error) {
	db, err := storage.MetaDataKVStore()
	if err != nil {
		return nil, err
	}
	var ctx storage.MetadataContext
	kvs, err := db.GetRange(ctx, storage.MinTKey(serRepoKeyClass), storage.MaxTKey(serRepoKeyClass))
	if err != nil {
		return nil, err
	}
	type ent struct {
		TKey  string `json:"tkey"`
		Value []byte `json:"value"`
	}
	out := []ent{}
	for _, kv := range kvs {
		out = append(out, ent{hex.EncodeToString(kv.K), kv.V})
	}
	return out, nil
}

// callSerMetaPut overwrites a metadata value with raw bytes.
func callSerMetaPut(args json.RawMessage) (interface{}, error) {
	var a struct {
		TKey  string `json:"tkey"`
		Value []byte `json:"value"`
	}
	if err := json.Unmarshal(args, &a); err != nil {
		return nil, err
	}
	db, err := storage.MetaDataKVStore()
	if err != nil {
		return nil, err
	}
	tk, err := hex.DecodeString(a.TKey)
	if err != nil {
		return nil, err
	}
	var ctx storage.MetadataContext
	return nil, db.Put(ctx, storage.TKey(tk), a.Value)
}
