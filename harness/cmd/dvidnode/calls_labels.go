//go:build badger && verif

package main

// Package-level entry points of datatype/common/labels (properties C09, C10):
// MakeBlock / MakeLabelVolume / MarshalBinary / SubvolumeToBlock, the views Value /
// GetPointLabels / CalcNumLabels / WriteLabelVolume / WriteRLEs / WriteBinaryBlocks and the
// operations MergeLabels / ReplaceLabel(s) / Split* / Downres*.
//
// The calls refine abstract cases (regions with palettes, see internal/lblgeom and
// specs/LabelBlock.tla) into voxel arrays, run the real code and return what it produced,
// projected back onto the regions; voxel-level agreement of the views with the block's own
// decoded volume is established here with plain reference loops.  No expected value of an
// operation is computed here: those come from TLC and are compared in cmd/vcheck.

import (
	"bytes"
	"encoding/binary"
	"encoding/json"
	"fmt"
	"math/rand"
	"sort"
	"time"
	_ "unsafe" // go:linkname

	"github.com/janelia-flyem/dvid/datatype/common/labels"
	"github.com/janelia-flyem/dvid/dvid"

	lg "verifharness/internal/lblgeom"
)

func init() {
	calls["labels.run"] = callLabelsRun
	calls["labels.downres"] = callLabelsDownres
}

// splitFast is the alternative (unexported, currently unused) split path named by C10.
//
//go:linkname splitFast github.com/janelia-flyem/dvid/datatype/common/labels.PositionedBlock.splitFast
func splitFast(pb labels.PositionedBlock, op labels.SplitOp) (split *labels.Block, keptSize, splitSize uint64, err error)

type lblCtx struct {
	c      *lg.Case
	size   dvid.Point3d
	nvox   int
	region []int32
	pos    []int32
	palLen []int
	sizes  []int
	bcoord dvid.ChunkPoint3d
	offset dvid.Point3d
	rng    *rand.Rand
}

func u64bytes(a []uint64) []byte { return dvid.AliasUint64ToByte(a) }

func decode(b *labels.Block) []uint64 {
	bs, _ := b.MakeLabelVolume()
	out := make([]uint64, len(bs)/8)
	for i := range out {
		out[i] = binary.LittleEndian.Uint64(bs[i*8:])
	}
	return out
}

func (x *lblCtx) project(arr []uint64) lg.Proj {
	p := lg.Proj{Uniform: true}
	p.Atoms = make([][]uint64, len(x.palLen))
	seen := make([][]bool, len(x.palLen))
	for r, k := range x.palLen {
		p.Atoms[r] = make([]uint64, k)
		seen[r] = make([]bool, k)
	}
	for i, v := range arr {
		r, q := x.region[i]-1, x.pos[i]
		if !seen[r][q] {
			seen[r][q] = true
			p.Atoms[r][q] = v
		} else if p.Atoms[r][q] != v && p.Uniform {
			p.Uniform = false
			p.Bad = fmt.Sprintf("region %d palette position %d holds %d and %d (voxel %d)", r+1, q, p.Atoms[r][q], v, i)
		}
	}
	return p
}

func (x *lblCtx) projectMask(set []bool) [][]int {
	out := make([][]int, len(x.palLen))
	cnt := make([][]int, len(x.palLen))
	tot := make([][]int, len(x.palLen))
	for r, k := range x.palLen {
		out[r] = make([]int, k)
		cnt[r] = make([]int, k)
		tot[r] = make([]int, k)
	}
	for i, in := range set {
		r, q := x.region[i]-1, x.pos[i]
		tot[r][q]++
		if in {
			cnt[r][q]++
		}
	}
	for r := range out {
		for q := range out[r] {
			switch {
			case cnt[r][q] == 0:
				out[r][q] = 0
			case cnt[r][q] == tot[r][q]:
				out[r][q] = 1
			default:
				out[r][q] = 2
			}
		}
	}
	return out
}

func (x *lblCtx) pb(b *labels.Block, dx int32) *labels.PositionedBlock {
	c := x.bcoord
	c[0] += dx
	return &labels.PositionedBlock{Block: *b, BCoord: c.ToIZYXString()}
}

// runOutput feeds blocks to an output function (WriteRLEs / WriteBinaryBlocks), guarding
// against panics in the writer goroutine.
func runOutput(blocks []*labels.PositionedBlock, f func(op *labels.OutputOp)) (out []byte, err error) {
	var buf bytes.Buffer
	op := labels.NewOutputOp(&buf)
	pch := make(chan interface{}, 1)
	done := make(chan error, 1)
	go func() {
		defer func() {
			if e := recover(); e != nil {
				pch <- e
			}
		}()
		f(op)
	}()
	go func() {
		for _, b := range blocks {
			op.Process(b)
		}
		done <- op.Finish()
	}()
	select {
	case e := <-pch:
		return nil, fmt.Errorf("PANIC: %v", e)
	case err := <-done:
		return buf.Bytes(), err
	case <-time.After(60 * time.Second):
		return nil, fmt.Errorf("TIMEOUT: output did not finish within 60 s")
	}
}

// voxel sets of nb x-adjacent blocks from the run-length output
func (x *lblCtx) rleSets(data []byte, nb int) (sets [][]bool, detail string) {
	sets = make([][]bool, nb)
	for i := range sets {
		sets[i] = make([]bool, x.nvox)
	}
	if len(data)%16 != 0 {
		return sets, fmt.Sprintf("run-length output of %d bytes is not a multiple of 16", len(data))
	}
	nx, ny, nz := int(x.size[0]), int(x.size[1]), int(x.size[2])
	for p := 0; p < len(data); p += 16 {
		sx := int(int32(binary.LittleEndian.Uint32(data[p:]))) - int(x.offset[0])
		sy := int(int32(binary.LittleEndian.Uint32(data[p+4:]))) - int(x.offset[1])
		sz := int(int32(binary.LittleEndian.Uint32(data[p+8:]))) - int(x.offset[2])
		n := int(int32(binary.LittleEndian.Uint32(data[p+12:])))
		if n <= 0 && detail == "" {
			detail = fmt.Sprintf("run %d has length %d", p/16, n)
		}
		for k := 0; k < n; k++ {
			vx := sx + k
			if vx < 0 || vx >= nx*nb || sy < 0 || sy >= ny || sz < 0 || sz >= nz {
				if detail == "" {
					detail = fmt.Sprintf("run %d (start %d,%d,%d len %d, block-relative) leaves the block(s)", p/16, sx, sy, sz, n)
				}
				continue
			}
			bi, lx := vx/nx, vx%nx
			i := sz*nx*ny + sy*nx + lx
			if sets[bi][i] && detail == "" {
				detail = fmt.Sprintf("voxel (%d,%d,%d) of block %d is covered by two runs", lx, sy, sz, bi)
			}
			sets[bi][i] = true
		}
	}
	return sets, detail
}

func (x *lblCtx) binSets(data []byte, nb int) (sets [][]bool, detail string) {
	sets = make([][]bool, nb)
	for i := range sets {
		sets[i] = make([]bool, x.nvox)
	}
	if len(data) == 0 {
		return sets, ""
	}
	bbs, err := labels.ReceiveBinaryBlocks(bytes.NewReader(data))
	if err != nil {
		return sets, "ReceiveBinaryBlocks: " + err.Error()
	}
	seen := make([]bool, nb)
	for _, bb := range bbs {
		if !bb.Size.Equals(x.size) {
			return sets, fmt.Sprintf("binary block of size %s", bb.Size)
		}
		bi := -1
		for k := 0; k < nb; k++ {
			if bb.Offset[0] == x.offset[0]+int32(k)*x.size[0] && bb.Offset[1] == x.offset[1] && bb.Offset[2] == x.offset[2] {
				bi = k
			}
		}
		if bi < 0 {
			return sets, fmt.Sprintf("binary block at unexpected offset %s", bb.Offset)
		}
		if seen[bi] {
			return sets, fmt.Sprintf("two binary blocks at offset %s", bb.Offset)
		}
		seen[bi] = true
		copy(sets[bi], bb.Voxels)
	}
	return sets, ""
}

func (x *lblCtx) mask(set []bool, dec []uint64, lbls labels.Set, err error, detail string) lg.Mask {
	m := lg.Mask{Atoms: x.projectMask(set), OK: true, Detail: detail}
	if err != nil {
		m.Err = err.Error()
		m.OK = false
		return m
	}
	if detail != "" {
		m.OK = false
		return m
	}
	for i, v := range dec {
		_, want := lbls[v]
		if set[i] != want {
			m.OK = false
			m.Detail = fmt.Sprintf("voxel %d (label %d): in sparse output %v, in label set %v", i, v, set[i], want)
			break
		}
	}
	return m
}

func (x *lblCtx) sparse(b *labels.Block, dec []uint64, set []uint64, pair bool) lg.SetObs {
	lbls := make(labels.Set)
	for _, l := range set {
		lbls[l] = struct{}{}
	}
	var so lg.SetObs
	var main uint64
	if len(set) > 0 {
		main = set[0]
	}
	one := []*labels.PositionedBlock{x.pb(b, 0)}
	data, err := runOutput(one, func(op *labels.OutputOp) { labels.WriteRLEs(lbls, op, dvid.Bounds{}) })
	s, d := x.rleSets(data, 1)
	so.RLE = x.mask(s[0], dec, lbls, err, d)
	data, err = runOutput(one, func(op *labels.OutputOp) { labels.WriteBinaryBlocks(main, lbls, op, dvid.Bounds{}) })
	s, d = x.binSets(data, 1)
	so.Bin = x.mask(s[0], dec, lbls, err, d)
	if pair {
		two := []*labels.PositionedBlock{x.pb(b, 0), x.pb(b, 1)}
		data, err = runOutput(two, func(op *labels.OutputOp) { labels.WriteRLEs(lbls, op, dvid.Bounds{}) })
		s, d = x.rleSets(data, 2)
		m := x.mask(s[0], dec, lbls, err, d)
		if m.OK {
			m = x.mask(s[1], dec, lbls, err, d)
		}
		so.PairRLE = &m
		data, err = runOutput(two, func(op *labels.OutputOp) { labels.WriteBinaryBlocks(main, lbls, op, dvid.Bounds{}) })
		s, d = x.binSets(data, 2)
		m2 := x.mask(s[0], dec, lbls, err, d)
		if m2.OK {
			m2 = x.mask(s[1], dec, lbls, err, d)
		}
		so.PairBin = &m2
	}
	return so
}

func countsOf(arr []uint64) map[uint64]int64 {
	m := map[uint64]int64{}
	for _, v := range arr {
		if v != 0 {
			m[v]++
		}
	}
	return m
}

// views runs the view functions of b and compares them with dec = decode(b).
func (x *lblCtx) views(b *labels.Block, dec []uint64, prev *labels.Block, prevDec []uint64, allPoints, pair bool) *lg.Views {
	v := &lg.Views{NumLabelsOK: true, DeltaOK: true, ValueOK: true, PointsOK: true, StreamOK: true, MarshalOK: true}
	note := func(s string) {
		if v.Detail == "" {
			v.Detail = s
		}
	}
	// CalcNumLabels
	ref := countsOf(dec)
	got := b.CalcNumLabels(nil)
	for l, n := range got {
		if n != 0 {
			v.NumLabels = append(v.NumLabels, [2]uint64{l, uint64(n)})
		}
		if int64(n) != ref[l] {
			v.NumLabelsOK = false
			note(fmt.Sprintf("CalcNumLabels: label %d has %d voxels, decoded volume has %d", l, n, ref[l]))
		}
	}
	for l, n := range ref {
		if int64(got[l]) != n {
			v.NumLabelsOK = false
			note(fmt.Sprintf("CalcNumLabels: label %d has %d voxels, decoded volume has %d", l, got[l], n))
		}
	}
	sort.Slice(v.NumLabels, func(i, j int) bool { return v.NumLabels[i][0] < v.NumLabels[j][0] })
	if prev != nil {
		pref := countsOf(prevDec)
		delta := b.CalcNumLabels(prev)
		keys := map[uint64]bool{}
		for l := range delta {
			keys[l] = true
		}
		for l := range ref {
			keys[l] = true
		}
		for l := range pref {
			keys[l] = true
		}
		for l := range keys {
			if int64(delta[l]) != ref[l]-pref[l] {
				v.DeltaOK = false
				note(fmt.Sprintf("CalcNumLabels(prev): label %d delta %d, decoded volumes give %d", l, delta[l], ref[l]-pref[l]))
				break
			}
		}
	}
	// Value and GetPointLabels
	nx, ny := int(x.size[0]), int(x.size[1])
	var idx []int
	if allPoints {
		idx = x.rng.Perm(x.nvox)
	} else {
		n := 600
		if n > x.nvox {
			n = x.nvox
		}
		idx = make([]int, 0, n+16)
		for k := 0; k < n; k++ {
			idx = append(idx, x.rng.Intn(x.nvox))
		}
		idx = append(idx, 0, x.nvox-1, nx-1, nx*ny-1, nx*ny, x.nvox-nx)
	}
	v.NPoints = len(idx)
	pts := make([]dvid.Point3d, len(idx))
	for k, i := range idx {
		pts[k] = dvid.Point3d{int32(i % nx), int32((i / nx) % ny), int32(i / (nx * ny))}
		if val := b.Value(pts[k]); val != dec[i] {
			v.ValueOK = false
			note(fmt.Sprintf("Value%v = %d, decoded volume has %d", pts[k], val, dec[i]))
		}
	}
	for lo := 0; lo < len(pts); {
		hi := lo + 1 + x.rng.Intn(4000)
		if hi > len(pts) {
			hi = len(pts)
		}
		res := b.GetPointLabels(pts[lo:hi])
		if len(res) != hi-lo {
			v.PointsOK = false
			note(fmt.Sprintf("GetPointLabels returned %d labels for %d points", len(res), hi-lo))
		} else {
			for k := lo; k < hi; k++ {
				if res[k-lo] != dec[idx[k]] {
					v.PointsOK = false
					note(fmt.Sprintf("GetPointLabels%v = %d, decoded volume has %d", pts[k], res[k-lo], dec[idx[k]]))
					break
				}
			}
		}
		lo = hi
	}
	// WriteLabelVolume
	var sb bytes.Buffer
	if err := b.WriteLabelVolume(&sb); err != nil {
		v.StreamOK = false
		note("WriteLabelVolume: " + err.Error())
	} else if !bytes.Equal(sb.Bytes(), u64bytes(dec)) {
		v.StreamOK = false
		note("WriteLabelVolume differs from MakeLabelVolume")
	}
	// MarshalBinary / UnmarshalBinary
	data, err := b.MarshalBinary()
	if err != nil {
		v.MarshalOK = false
		note("MarshalBinary: " + err.Error())
	} else {
		cp := append([]byte(nil), data...)
		var b2 labels.Block
		if err := b2.UnmarshalBinary(cp); err != nil {
			v.MarshalOK = false
			note("UnmarshalBinary: " + err.Error())
		} else {
			d2 := decode(&b2)
			data2, _ := b2.MarshalBinary()
			if !b2.Size.Equals(b.Size) || len(d2) != len(dec) {
				v.MarshalOK = false
				note(fmt.Sprintf("re-parsed block has size %s", b2.Size))
			} else {
				for i := range dec {
					if d2[i] != dec[i] {
						v.MarshalOK = false
						note(fmt.Sprintf("re-parsed block: voxel %d is %d, was %d", i, d2[i], dec[i]))
						break
					}
				}
				if !bytes.Equal(data, data2) {
					v.MarshalOK = false
					note("re-parsed block marshals to different bytes")
				}
			}
		}
	}
	for _, s := range x.c.Sets {
		v.Sets = append(v.Sets, x.sparse(b, dec, s, pair))
	}
	return v
}

// rlesOf returns the voxels of the region set S as maximal x-runs in DVID coordinates, shuffled.
func (x *lblCtx) rlesOf(S []int) dvid.RLEs {
	in := map[int32]bool{}
	for _, r := range S {
		in[int32(r)] = true
	}
	nx, ny, nz := int(x.size[0]), int(x.size[1]), int(x.size[2])
	var rles dvid.RLEs
	for z := 0; z < nz; z++ {
		for y := 0; y < ny; y++ {
			base := z*nx*ny + y*nx
			for i := 0; i < nx; {
				if !in[x.region[base+i]] {
					i++
					continue
				}
				j := i
				for j < nx && in[x.region[base+j]] {
					j++
				}
				rles = append(rles, dvid.NewRLE(dvid.Point3d{x.offset[0] + int32(i), x.offset[1] + int32(y), x.offset[2] + int32(z)}, int32(j-i)))
				i = j
			}
		}
	}
	x.rng.Shuffle(len(rles), func(i, j int) { rles[i], rles[j] = rles[j], rles[i] })
	return x.presentRLEs(rles, x.c.RLEPres) // broken into adjacent runs / single voxels when asked (calls_labels2.go)
}

func statsOf(m map[uint64]labels.SVSplitCount) []lg.Stat {
	var out []lg.Stat
	for l, c := range m {
		out = append(out, lg.Stat{Label: l, Split: c.Split, Remain: c.Remain, Voxels: uint64(c.Voxels)})
	}
	sort.Slice(out, func(i, j int) bool { return out[i].Label < out[j].Label })
	return out
}

func allocator(start uint64) func() (uint64, error) {
	next := start
	return func() (uint64, error) {
		next++
		return next - 1, nil
	}
}

func failingAllocator(start uint64, failAt int) func() (uint64, error) {
	next, calls := start, 0
	return func() (uint64, error) {
		calls++
		if calls >= failAt {
			return 0, fmt.Errorf("verif: label allocation refused (call %d)", calls)
		}
		next++
		return next - 1, nil
	}
}

func preMap(pre [][3]uint64) *labels.SVSplitMap {
	m := new(labels.SVSplitMap)
	if len(pre) > 0 {
		m.Splits = map[uint64]labels.SVSplit{}
		for _, p := range pre {
			m.Splits[p[0]] = labels.SVSplit{Split: p[1], Remain: p[2]}
		}
	}
	return m
}

// step applies one operation to cur and returns the new block (cur itself if the operation returned none).
func (x *lblCtx) step(cur *labels.Block, curDec []uint64, st *lg.Step, last bool) (next *labels.Block, so lg.StepObs) {
	next = cur
	defer func() {
		if e := recover(); e != nil {
			so.Panic = fmt.Sprint(e)
			next = nil
		}
	}()
	if st.Marshal {
		data, _ := cur.MarshalBinary()
		nb := new(labels.Block)
		if err := nb.UnmarshalBinary(append([]byte(nil), data...)); err != nil {
			so.Err = "UnmarshalBinary between steps: " + err.Error()
			return nil, so
		}
		cur = nb
		next = nb
	}
	var res *labels.Block
	var err error
	switch st.Op {
	case "merge":
		set := make(labels.Set)
		for _, l := range st.M {
			set[l] = struct{}{}
		}
		res, err = cur.MergeLabels(labels.MergeOp{Target: st.T, Merged: set})
	case "replace":
		res, so.Replaced, err = cur.ReplaceLabel(st.T, st.N)
	case "replacelabels":
		m := map[uint64]uint64{}
		for _, p := range st.Map {
			m[p[0]] = p[1]
		}
		res, so.ReplacedAny, err = cur.ReplaceLabels(m)
	case "split":
		op := labels.SplitOp{Target: st.T, NewLabel: st.N, RLEs: x.rlesOf(st.S)}
		res, so.Kept, so.Split, err = x.pb(cur, 0).Split(op)
		if x.c.Fast {
			x.fast(cur, op, res, &so)
		}
	case "splitsv":
		key := x.bcoord.ToIZYXString()
		if st.NoKey {
			// the run-lengths belong to the neighbouring block: this block has no entry in op.Split
			other := x.bcoord
			other[0]++
			key = other.ToIZYXString()
		}
		op := labels.SplitSupervoxelOp{Supervoxel: st.T, SplitSupervoxel: st.N, RemainSupervoxel: st.M[0],
			Split: dvid.BlockRLEs{key: x.rlesOf(st.S)}}
		res, so.Kept, so.Split, err = x.pb(cur, 0).SplitSupervoxel(op)
	case "splitsvs":
		m := map[uint64]labels.SVSplit{}
		for _, p := range st.SVMap {
			m[p[0]] = labels.SVSplit{Split: p[1], Remain: p[2]}
		}
		res, err = x.pb(cur, 0).SplitSupervoxels(x.rlesOf(st.S), m)
	case "dosplit":
		rles := x.rlesOf(st.S)
		if st.FailAt > 0 {
			_, e1 := x.pb(cur, 0).SplitStats(rles, preMap(st.SVMap), failingAllocator(st.Fresh0, st.FailAt))
			blk, _, e2 := x.pb(cur, 0).DoSplitWithStats(labels.SplitOp{RLEs: rles}, preMap(st.SVMap), failingAllocator(st.Fresh0, st.FailAt))
			so.AllocFailed = e1 != nil && e2 != nil && blk == nil
			if !so.AllocFailed {
				so.Err = fmt.Sprintf("allocator failing at call %d: SplitStats error %v, DoSplitWithStats error %v, block returned %v", st.FailAt, e1, e2, blk != nil)
				return nil, so
			}
			so.Nil = true
			dec := decode(cur)
			so.Decoded = x.project(dec)
			return cur, so
		}
		only, err2 := x.pb(cur, 0).SplitStats(rles, preMap(st.SVMap), allocator(st.Fresh0))
		if err2 != nil {
			so.Err = "SplitStats: " + err2.Error()
			return nil, so
		}
		so.StatsOnly = statsOf(only)
		var cnt map[uint64]labels.SVSplitCount
		res, cnt, err = x.pb(cur, 0).DoSplitWithStats(labels.SplitOp{RLEs: rles}, preMap(st.SVMap), allocator(st.Fresh0))
		so.Stats = statsOf(cnt)
	default:
		so.Err = "unknown op " + st.Op
		return nil, so
	}
	if err != nil {
		so.Err = err.Error()
		return nil, so
	}
	if res == nil {
		so.Nil = true
		res = cur
	}
	dec := decode(res)
	so.Decoded = x.project(dec)
	if x.c.StepViews && (last || !x.c.LastOnly) {
		so.Views = x.views(res, dec, cur, curDec, false, false)
	}
	return res, so
}

// fast runs splitFast side by side with the regular split.
func (x *lblCtx) fast(cur *labels.Block, op labels.SplitOp, res *labels.Block, so *lg.StepObs) {
	so.FastRun = true
	defer func() {
		if e := recover(); e != nil {
			so.FastPanic = fmt.Sprint(e)
		}
	}()
	fres, fk, fs, err := splitFast(*x.pb(cur, 0), op)
	if err != nil {
		so.FastErr = err.Error()
		return
	}
	so.FastNil = fres == nil
	if (fres == nil) != (res == nil) {
		so.FastDiff = fmt.Sprintf("regular path returned block: %v, fast path returned block: %v", res != nil, fres != nil)
		return
	}
	if fk != so.Kept || fs != so.Split {
		so.FastDiff = fmt.Sprintf("fast path kept/split = %d/%d, regular path %d/%d", fk, fs, so.Kept, so.Split)
		return
	}
	if res != nil {
		a, b := decode(res), decode(fres)
		for i := range a {
			if a[i] != b[i] {
				so.FastDiff = fmt.Sprintf("voxel %d: regular path %d, fast path %d", i, a[i], b[i])
				return
			}
		}
	}
	so.FastSame = true
}

func expandCase(g *lg.Geometry, pal [][]uint64, lay []int) (arr []uint64, region, pos []int32, palLen []int, err error) {
	if err = g.Validate(); err != nil {
		return
	}
	palLen = make([]int, len(pal))
	for r, p := range pal {
		palLen[r] = len(p)
	}
	if lay == nil {
		lay = make([]int, len(pal))
	}
	if region, pos, err = g.Atoms(palLen, lay); err != nil {
		return
	}
	arr = make([]uint64, len(region))
	for i := range arr {
		arr[i] = pal[region[i]-1][pos[i]]
	}
	return
}

func runCase(c *lg.Case) (obs lg.CaseObs) {
	obs.ID = c.ID
	defer func() {
		if e := recover(); e != nil {
			obs.Panic = fmt.Sprint(e)
		}
	}()
	arr, region, pos, palLen, err := expandCase(&c.Geom, c.Pal, c.Lay)
	if err != nil {
		obs.Err = err.Error()
		return
	}
	x := &lblCtx{c: c, size: dvid.Point3d{int32(c.Geom.Size[0]), int32(c.Geom.Size[1]), int32(c.Geom.Size[2])},
		nvox: len(arr), region: region, pos: pos, palLen: palLen, sizes: c.Geom.RegionSizes(),
		bcoord: dvid.ChunkPoint3d{c.BCoord[0], c.BCoord[1], c.BCoord[2]}, rng: rand.New(rand.NewSource(c.Seed))}
	x.offset = dvid.Point3d{c.BCoord[0] * x.size[0], c.BCoord[1] * x.size[1], c.BCoord[2] * x.size[2]}
	obs.Sizes = x.sizes
	input := append([]uint64(nil), arr...)
	b, err := labels.MakeBlock(u64bytes(input), x.size)
	if err != nil {
		obs.MakeErr = err.Error()
		return
	}
	for i := range arr {
		if input[i] != arr[i] {
			obs.Detail = "MakeBlock modified its input array"
			return
		}
	}
	bs, sz := b.MakeLabelVolume()
	obs.RoundTrip = sz.Equals(x.size) && bytes.Equal(bs, u64bytes(arr))
	dec := decode(b)
	if !obs.RoundTrip {
		obs.Detail = fmt.Sprintf("decoded size %s", sz)
		for i := range arr {
			if i < len(dec) && dec[i] != arr[i] {
				obs.Detail = fmt.Sprintf("voxel %d: array has %d, decoded volume has %d", i, arr[i], dec[i])
				break
			}
		}
	}
	obs.Decoded = x.project(dec)
	if c.Codec {
		obs.Views = x.views(b, dec, nil, nil, c.AllPoints, c.Pair)
		for _, off := range c.SubvolOffs {
			obs.Subvols = append(obs.Subvols, x.subvol(arr, off))
		}
		x.growth(b, dec, arr, &obs) // bounded sparse views, ReplaceLabel probes, zero-count sub-blocks, outside points (calls_labels2.go)
	}
	cur, curDec := b, dec
	for i := range c.Steps {
		next, so := x.step(cur, curDec, &c.Steps[i], i == len(c.Steps)-1)
		obs.Steps = append(obs.Steps, so)
		if next == nil {
			break
		}
		if next != cur {
			cur = next
			curDec = decode(cur)
		}
	}
	return
}

// subvol embeds the array as block off of a 2x2x2 grid of blocks filled with other labels
// and converts that block back with SubvolumeToBlock.
func (x *lblCtx) subvol(arr []uint64, off [3]int32) (so lg.SubvolObs) {
	so.Off = off
	defer func() {
		if e := recover(); e != nil {
			so.Err = fmt.Sprintf("PANIC: %v", e)
		}
	}()
	nx, ny, nz := int(x.size[0]), int(x.size[1]), int(x.size[2])
	vx, vy, vz := 2*nx, 2*ny, 2*nz
	vol := make([]uint64, vx*vy*vz)
	for i := range vol {
		vol[i] = 0xABCD000000000000 + uint64(x.rng.Intn(7))
	}
	for z := 0; z < nz; z++ {
		for y := 0; y < ny; y++ {
			dst := (int(off[2])*nz+z)*vx*vy + (int(off[1])*ny+y)*vx + int(off[0])*nx
			copy(vol[dst:dst+nx], arr[z*nx*ny+y*nx:z*nx*ny+y*nx+nx])
		}
	}
	start := dvid.Point3d{x.offset[0] - off[0]*x.size[0], x.offset[1] - off[1]*x.size[1], x.offset[2] - off[2]*x.size[2]}
	sv := dvid.NewSubvolume(start, dvid.Point3d{int32(vx), int32(vy), int32(vz)})
	idx := dvid.IndexZYX(x.bcoord)
	b, err := labels.SubvolumeToBlock(sv, u64bytes(vol), idx, x.size)
	if err != nil {
		so.Err = err.Error()
		return
	}
	dec := decode(b)
	so.Equal = len(dec) == len(arr)
	for i := range arr {
		if so.Equal && dec[i] != arr[i] {
			so.Equal = false
		}
	}
	return
}

func callLabelsRun(args json.RawMessage) (interface{}, error) {
	var a struct {
		Cases []lg.Case `json:"cases"`
	}
	if err := json.Unmarshal(args, &a); err != nil {
		return nil, err
	}
	out := make([]lg.CaseObs, len(a.Cases))
	for i := range a.Cases {
		out[i] = runCase(&a.Cases[i])
	}
	return out, nil
}

// ---- down-sampling

func runDownres(c *lg.DownresCase) (obs lg.DownresObs) {
	obs.ID = c.ID
	size := dvid.Point3d{int32(c.Size[0]), int32(c.Size[1]), int32(c.Size[2])}
	nx, ny, nz := c.Size[0], c.Size[1], c.Size[2]
	gx, gy := nx/8, ny/8
	nsb := gx * gy * (nz / 8)
	// hi-res octants
	var octs [8]*labels.Block
	var octArr [8][]uint64
	type octGeo struct {
		sbs []lg.SB
	}
	var geos [8]octGeo
	for o := 0; o < 8; o++ {
		oc := &c.Oct[o]
		switch oc.Kind {
		case 1:
			if oc.Made {
				arr := make([]uint64, nx*ny*nz)
				for i := range arr {
					arr[i] = oc.Label
				}
				b, err := labels.MakeBlock(u64bytes(arr), size)
				if err != nil {
					obs.Err = err.Error()
					return
				}
				octs[o] = b
			} else {
				octs[o] = labels.MakeSolidBlock(oc.Label, size)
			}
		case 2:
			arr, _, _, _, err := expandCase(oc.Geom, oc.Pal, nil)
			if err != nil || oc.Geom.Size != c.Size {
				obs.Err = fmt.Sprintf("octant %d: %v", o, err)
				return
			}
			b, err := labels.MakeBlock(u64bytes(append([]uint64(nil), arr...)), size)
			if err != nil {
				obs.Err = err.Error()
				return
			}
			octs[o] = b
			octArr[o] = arr
			geos[o].sbs = oc.Geom.SBs
		}
	}
	parr, _, _, _, err := expandCase(&c.Prev, c.PrevPal, nil)
	if err != nil || c.Prev.Size != c.Size {
		obs.Err = fmt.Sprintf("prev: %v", err)
		return
	}
	// vote site of every lower-resolution voxel: [octant][hi-res sub-block][site]
	nsites := make([][]int, 8)
	for o := 0; o < 8; o++ {
		nsites[o] = make([]int, nsb)
		for q := 0; q < nsb; q++ {
			nsites[o][q] = 1
			if c.Oct[o].Kind == 2 && geos[o].sbs[q].Scheme == lg.HC {
				nsites[o][q] = 2
			}
		}
	}
	type site struct{ o, q, g int }
	siteOf := make([]site, nx*ny*nz)
	for Z := 0; Z < nz; Z++ {
		for Y := 0; Y < ny; Y++ {
			for X := 0; X < nx; X++ {
				ox, oy, oz := 2*X/nx, 2*Y/ny, 2*Z/nz
				o := oz*4 + oy*2 + ox
				hx, hy, hz := 2*X-ox*nx, 2*Y-oy*ny, 2*Z-oz*nz
				q := (hz/8)*gx*gy + (hy/8)*gx + hx/8
				g := 0
				if nsites[o][q] == 2 {
					sb := geos[o].sbs[q]
					part := lg.PartOf(sb.Scheme, sb.Param, hx%8, hy%8, hz%8)
					g = part / lg.CornerClasses(sb.Param%16)
				}
				siteOf[Z*nx*ny+Y*nx+X] = site{o, q, g}
			}
		}
	}
	projectSites := func(p *lg.DownresPath, arr []uint64) {
		p.Uniform = true
		p.Sites = make([][][]uint64, 8)
		seen := make([][][]bool, 8)
		for o := 0; o < 8; o++ {
			p.Sites[o] = make([][]uint64, nsb)
			seen[o] = make([][]bool, nsb)
			for q := 0; q < nsb; q++ {
				p.Sites[o][q] = make([]uint64, nsites[o][q])
				seen[o][q] = make([]bool, nsites[o][q])
			}
		}
		for i, v := range arr {
			s := siteOf[i]
			if !seen[s.o][s.q][s.g] {
				seen[s.o][s.q][s.g] = true
				p.Sites[s.o][s.q][s.g] = v
			} else if p.Sites[s.o][s.q][s.g] != v && p.Uniform {
				p.Uniform = false
				p.Bad = fmt.Sprintf("site octant %d sub-block %d group %d holds %d and %d (lores voxel %d)", s.o, s.q, s.g, p.Sites[s.o][s.q][s.g], v, i)
			}
		}
	}
	mkPrev := func() (*labels.Block, error) {
		if c.PrevSolid {
			return labels.MakeSolidBlock(c.PrevPal[0][0], size), nil
		}
		return labels.MakeBlock(u64bytes(append([]uint64(nil), parr...)), size)
	}
	blockPath := func(name string, f func(b *labels.Block) error) {
		p := lg.DownresPath{Name: name, Run: true}
		defer func() {
			if e := recover(); e != nil {
				p.Panic = fmt.Sprint(e)
			}
			obs.Paths = append(obs.Paths, p)
		}()
		b, err := mkPrev()
		if err != nil {
			p.Err = "prev: " + err.Error()
			return
		}
		if err := f(b); err != nil {
			p.Err = err.Error()
			return
		}
		if !b.Size.Equals(size) {
			p.Err = fmt.Sprintf("result has size %s", b.Size)
			return
		}
		projectSites(&p, decode(b))
	}
	blockPath("Downres", func(b *labels.Block) error { return b.Downres(octs) })
	blockPath("DownresSlow", func(b *labels.Block) error { return b.DownresSlow(octs) })
	all := true
	for o := 0; o < 8; o++ {
		if octs[o] == nil {
			all = false
		}
	}
	if all {
		// array domain: assemble the 2x volume from the decoded octants and down-sample it
		p := lg.DownresPath{Name: "DownresLabels", Run: true}
		func() {
			defer func() {
				if e := recover(); e != nil {
					p.Panic = fmt.Sprint(e)
				}
			}()
			hx, hy, hz := 2*nx, 2*ny, 2*nz
			hi := make([]uint64, hx*hy*hz)
			for o := 0; o < 8; o++ {
				d := decode(octs[o])
				ox, oy, oz := o%2, (o/2)%2, o/4
				for z := 0; z < nz; z++ {
					for y := 0; y < ny; y++ {
						dst := (oz*nz+z)*hx*hy + (oy*ny+y)*hx + ox*nx
						copy(hi[dst:dst+nx], d[z*nx*ny+y*nx:z*nx*ny+y*nx+nx])
					}
				}
			}
			lo, err := labels.DownresLabels(u64bytes(hi), dvid.Point3d{int32(hx), int32(hy), int32(hz)})
			if err != nil {
				p.Err = err.Error()
				return
			}
			if len(lo) != nx*ny*nz*8 {
				p.Err = fmt.Sprintf("DownresLabels returned %d bytes", len(lo))
				return
			}
			arr := make([]uint64, nx*ny*nz)
			for i := range arr {
				arr[i] = binary.LittleEndian.Uint64(lo[i*8:])
			}
			projectSites(&p, arr)
		}()
		obs.Paths = append(obs.Paths, p)
	}
	if c.Fast {
		blockPath("DownresFast", func(b *labels.Block) error { return b.DownresFast(octs) })
	}
	return
}

func callLabelsDownres(args json.RawMessage) (interface{}, error) {
	var a struct {
		Cases []lg.DownresCase `json:"cases"`
	}
	if err := json.Unmarshal(args, &a); err != nil {
		return nil, err
	}
	out := make([]lg.DownresObs, len(a.Cases))
	for i := range a.Cases {
		func() {
			defer func() {
				if e := recover(); e != nil {
					out[i].ID = a.Cases[i].ID
					out[i].Err = fmt.Sprintf("PANIC outside the code under test: %v", e)
				}
			}()
			out[i] = runDownres(&a.Cases[i])
		}()
	}
	return out, nil
}
