//go:build badger && verif

package main

// Package-level entry point for property C11: labelmap.ChangeLabelIndex (the index delta
// applied by voxel writes from background goroutines, which no HTTP request runs in its
// own goroutine) called concurrently on one label under the gate scheduler of gate.go.

import (
	"encoding/base64"
	"encoding/json"
	"fmt"
	"sync"

	"github.com/janelia-flyem/dvid/datastore"
	"github.com/janelia-flyem/dvid/datatype/common/labels"
	"github.com/janelia-flyem/dvid/datatype/labelmap"
	"github.com/janelia-flyem/dvid/dvid"
)

func init() {
	calls["conc.changeLabelIndex"] = callConcChangeLabelIndex
}

type concDelta struct {
	Block [3]int32 `json:"block"`
	SV    uint64   `json:"sv"`
	N     int32    `json:"n"`
}

type concCLIArgs struct {
	UUID   string      `json:"uuid"`
	Name   string      `json:"name"`
	Label  uint64      `json:"label"`
	Deltas []concDelta `json:"deltas"` // one concurrent caller per delta; caller ids are 1..len
	Sched  []uint64    `json:"sched"`
	Sites  []string    `json:"sites"`
	WaitMS int         `json:"wait_ms"`
}

type concCLIResult struct {
	Errs  []string    `json:"errs"`
	Gates []GateEvent `json:"gates"`
}

func callConcChangeLabelIndex(raw json.RawMessage) (interface{}, error) {
	var a concCLIArgs
	if err := json.Unmarshal(raw, &a); err != nil {
		return nil, err
	}
	d, err := datastore.GetDataByUUIDName(dvid.UUID(a.UUID), dvid.InstanceName(a.Name))
	if err != nil {
		return nil, err
	}
	v, err := datastore.VersionFromUUID(dvid.UUID(a.UUID))
	if err != nil {
		return nil, err
	}
	rq := Req{Sched: a.Sched, WaitMS: a.WaitMS}
	for i := range a.Deltas {
		rq.Reqs = append(rq.Reqs, Req{ID: uint64(i + 1)})
	}
	if len(a.Sites) > 0 {
		rq.Args, _ = json.Marshal(a.Sites)
	}
	res := concCLIResult{Errs: make([]string, len(a.Deltas))}
	gateBegin(rq)
	var wg sync.WaitGroup
	for i := range a.Deltas {
		wg.Add(1)
		go func(i int) {
			defer wg.Done()
			id := uint64(i + 1)
			defer gateDone(id)
			defer func() {
				if e := recover(); e != nil {
					res.Errs[i] = fmt.Sprintf("PANIC: %v", e)
				}
			}()
			gateRegister(id) // parks at site "start"
			dl := a.Deltas[i]
			izyx := dvid.ChunkPoint3d{dl.Block[0], dl.Block[1], dl.Block[2]}.ToIZYXString()
			sc := labels.SupervoxelChanges{dl.SV: {izyx: dl.N}}
			if err := labelmap.ChangeLabelIndex(d, v, a.Label, sc); err != nil {
				res.Errs[i] = err.Error()
			}
		}(i)
	}
	res.Gates = gateRun(rq, &wg)
	return res, nil
}

// conc.mix: HTTP requests and package-level labelmap.ChangeLabelIndex calls (the index delta a
// mutating voxel write applies from a background goroutine) run concurrently under the gate
// scheduler — template "mcli" of Concurrency.tla (body mutation || asynchronous index delta).
type concPart struct {
	Kind   string     `json:"kind"` // "http" | "cli"
	Method string     `json:"method,omitempty"`
	URL    string     `json:"url,omitempty"`
	Body   string     `json:"body,omitempty"` // base64
	UUID   string     `json:"uuid,omitempty"`
	Name   string     `json:"name,omitempty"`
	Label  uint64     `json:"label,omitempty"`
	Delta  concDelta  `json:"delta,omitempty"`
	Seq    []concPart `json:"seq,omitempty"`
}

type concMixArgs struct {
	Parts  []concPart `json:"parts"`
	Sched  []uint64   `json:"sched"`
	Sites  []string   `json:"sites"`
	WaitMS int        `json:"wait_ms"`
}

type concMixResult struct {
	Resps []Resp      `json:"resps"`
	Gates []GateEvent `json:"gates"`
}

func init() { calls["conc.mix"] = callConcMix }

func callConcMix(raw json.RawMessage) (interface{}, error) {
	var a concMixArgs
	if err := json.Unmarshal(raw, &a); err != nil {
		return nil, err
	}
	rq := Req{Sched: a.Sched, WaitMS: a.WaitMS}
	for i := range a.Parts {
		rq.Reqs = append(rq.Reqs, Req{ID: uint64(i + 1)})
	}
	if len(a.Sites) > 0 {
		rq.Args, _ = json.Marshal(a.Sites)
	}
	res := concMixResult{Resps: make([]Resp, len(a.Parts))}
	gateBegin(rq)
	var wg sync.WaitGroup
	for i := range a.Parts {
		wg.Add(1)
		go func(i int) {
			defer wg.Done()
			id := uint64(i + 1)
			defer gateDone(id)
			defer func() {
				if e := recover(); e != nil {
					res.Resps[i] = Resp{ID: id, Status: 599, Err: fmt.Sprintf("PANIC: %v", e)}
				}
			}()
			gateRegister(id)
			p := a.Parts[i]
			switch p.Kind {
			case "http":
				res.Resps[i] = doHTTP(Req{ID: id, Method: p.Method, URL: p.URL, Body: p.Body})
			case "cli":
				d, err := datastore.GetDataByUUIDName(dvid.UUID(p.UUID), dvid.InstanceName(p.Name))
				if err != nil {
					res.Resps[i] = Resp{ID: id, Status: 500, Err: err.Error()}
					return
				}
				v, err := datastore.VersionFromUUID(dvid.UUID(p.UUID))
				if err != nil {
					res.Resps[i] = Resp{ID: id, Status: 500, Err: err.Error()}
					return
				}
				izyx := dvid.ChunkPoint3d{p.Delta.Block[0], p.Delta.Block[1], p.Delta.Block[2]}.ToIZYXString()
				sc := labels.SupervoxelChanges{p.Delta.SV: {izyx: p.Delta.N}}
				if err := labelmap.ChangeLabelIndex(d, v, p.Label, sc); err != nil {
					res.Resps[i] = Resp{ID: id, Status: 400, Err: err.Error()}
				} else {
					res.Resps[i] = Resp{ID: id, Status: 200}
				}
			case "seq":
				// several HTTP requests issued one after the other by one participant; the answer is the
				// JSON list of the individual answers
				var out []Resp
				for _, q := range p.Seq {
					out = append(out, doHTTP(Req{ID: id, Method: q.Method, URL: q.URL, Body: q.Body}))
				}
				b, _ := json.Marshal(out)
				res.Resps[i] = Resp{ID: id, Status: 200, Body: base64.StdEncoding.EncodeToString(b)}
			default:
				res.Resps[i] = Resp{ID: id, Status: 500, Err: "unknown participant kind " + p.Kind}
			}
		}(i)
	}
	res.Gates = gateRun(rq, &wg)
	return res, nil
}
