//go:build badger && verif

package main

import (
	"bytes"
	"encoding/binary"
	"encoding/json"
	"fmt"
	"sort"
	"strconv"

	"github.com/janelia-flyem/dvid/datatype/common/labels"
	"github.com/janelia-flyem/dvid/datatype/roi"
	"github.com/janelia-flyem/dvid/dvid"
)

// Package-level entry points of property C18: block-coordinate keys
// (dvid.IndexZYX / ChunkPoint3d / IZYXString), the packed block index of label
// indices, the dvid.RLEs algebra and roi.VoxelBoundsInside.

func init() {
	calls["geom.keys"] = callGeomKeys
	calls["geom.packed"] = callGeomPacked
	calls["geom.packedsweep"] = callGeomPackedSweep
	calls["geom.rles"] = callGeomRLEs
	calls["geom.roiinside"] = callGeomRoiInside
}

func toInts(b []byte) []int {
	out := make([]int, len(b))
	for i, x := range b {
		out[i] = int(x)
	}
	return out
}

// callGeomKeys encodes block coordinates through every key codec entry point, decodes
// them again through every decoder and sorts the keys the way DVID does.
func callGeomKeys(args json.RawMessage) (interface{}, error) {
	var a struct {
		Points [][3]int32 `json:"points"`
	}
	if err := json.Unmarshal(args, &a); err != nil {
		return nil, err
	}
	type one struct {
		Key     []int      `json:"key"`     // IndexZYX.Bytes()
		Same    bool       `json:"same"`    // the other encoders give the same bytes
		Decoded [][3]int32 `json:"decoded"` // through each decoder
		DecErr  string     `json:"dec_err,omitempty"`
		Pretty  string     `json:"pretty"`
	}
	out := struct {
		Keys  []one `json:"keys"`
		Order []int `json:"order"` // indices of the points after sort.Sort(dvid.IZYXSlice)
	}{}
	strs := make(dvid.IZYXSlice, len(a.Points))
	for i, p := range a.Points {
		idx := dvid.IndexZYX{p[0], p[1], p[2]}
		k := idx.Bytes()
		var o one
		o.Key = toInts(k)
		cp := dvid.ChunkPoint3d{p[0], p[1], p[2]}
		s1 := idx.ToIZYXString()
		s2 := cp.ToIZYXString()
		k3 := dvid.Point3d{p[0], p[1], p[2]}.ToZYXBytes()
		o.Same = string(s1) == string(k) && string(s2) == string(k) && bytes.Equal(k3, k)
		strs[i] = s1
		// decoders
		var d1 dvid.IndexZYX
		if err := d1.IndexFromBytes(k); err != nil {
			o.DecErr += "IndexFromBytes: " + err.Error() + "; "
		}
		o.Decoded = append(o.Decoded, [3]int32{d1[0], d1[1], d1[2]})
		x, y, z, err := s1.Unpack()
		if err != nil {
			o.DecErr += "Unpack: " + err.Error() + "; "
		}
		o.Decoded = append(o.Decoded, [3]int32{x, y, z})
		c3, err := s1.ToChunkPoint3d()
		if err != nil {
			o.DecErr += "ToChunkPoint3d: " + err.Error() + "; "
		}
		o.Decoded = append(o.Decoded, [3]int32{c3[0], c3[1], c3[2]})
		d4, err := s1.IndexZYX()
		if err != nil {
			o.DecErr += "IndexZYX: " + err.Error() + "; "
		}
		o.Decoded = append(o.Decoded, [3]int32{d4[0], d4[1], d4[2]})
		var p5 dvid.Point3d
		if err := p5.FromZYXBytes(k); err != nil {
			o.DecErr += "FromZYXBytes: " + err.Error() + "; "
		}
		o.Decoded = append(o.Decoded, [3]int32{p5[0], p5[1], p5[2]})
		o.Pretty = s1.String()
		out.Keys = append(out.Keys, o)
	}
	// DVID's own ordering of block keys
	type tagged struct {
		s dvid.IZYXString
		i int
	}
	order := make([]int, len(strs))
	for i := range order {
		order[i] = i
	}
	sorted := make(dvid.IZYXSlice, len(strs))
	copy(sorted, strs)
	sort.Sort(sorted)
	// map back (stable for equal keys)
	used := make([]bool, len(strs))
	out.Order = make([]int, 0, len(strs))
	pos := map[dvid.IZYXString][]int{}
	for i, s := range strs {
		pos[s] = append(pos[s], i)
	}
	for _, s := range sorted {
		l := pos[s]
		for _, i := range l {
			if !used[i] {
				used[i] = true
				out.Order = append(out.Order, i)
				break
			}
		}
	}
	return out, nil
}

// callGeomPacked runs the packed block index codec.
func callGeomPacked(args json.RawMessage) (interface{}, error) {
	var a struct {
		Points [][3]int32 `json:"points"`
	}
	if err := json.Unmarshal(args, &a); err != nil {
		return nil, err
	}
	type one struct {
		Packed    string   `json:"packed"` // decimal uint64
		Decoded   [3]int32 `json:"decoded"`
		Key       []int    `json:"key"`      // BlockIndexToIZYXString
		FromKey   string   `json:"from_key"` // IZYXStringToBlockIndex(key of the point)
		FromKeyEr string   `json:"from_key_err,omitempty"`
	}
	out := make([]one, len(a.Points))
	for i, p := range a.Points {
		zyx := labels.EncodeBlockIndex(p[0], p[1], p[2])
		x, y, z := labels.DecodeBlockIndex(zyx)
		o := one{Packed: strconv.FormatUint(zyx, 10), Decoded: [3]int32{x, y, z}}
		o.Key = toInts([]byte(labels.BlockIndexToIZYXString(zyx)))
		back, err := labels.IZYXStringToBlockIndex(dvid.ChunkPoint3d{p[0], p[1], p[2]}.ToIZYXString())
		if err != nil {
			o.FromKeyEr = err.Error()
		}
		o.FromKey = strconv.FormatUint(back, 10)
		out[i] = o
	}
	return out, nil
}

// callGeomPackedSweep evaluates decode(encode(c)) = c on the real code for every c with
// |c| < 2^20 on each axis (the other two axes held at the given values).
func callGeomPackedSweep(args json.RawMessage) (interface{}, error) {
	var a struct {
		Others [][2]int32 `json:"others"`
	}
	if err := json.Unmarshal(args, &a); err != nil {
		return nil, err
	}
	const lim = 1 << 20
	var n int64
	var bad [][]int32
	seen := func(p, q [3]int32) {
		n++
		if p != q && len(bad) < 5 {
			bad = append(bad, []int32{p[0], p[1], p[2], q[0], q[1], q[2]})
		}
	}
	for _, o := range a.Others {
		for c := int32(1 - lim); c < lim; c++ {
			for axis := 0; axis < 3; axis++ {
				var p [3]int32
				switch axis {
				case 0:
					p = [3]int32{c, o[0], o[1]}
				case 1:
					p = [3]int32{o[0], c, o[1]}
				default:
					p = [3]int32{o[0], o[1], c}
				}
				x, y, z := labels.DecodeBlockIndex(labels.EncodeBlockIndex(p[0], p[1], p[2]))
				seen(p, [3]int32{x, y, z})
			}
		}
	}
	return map[string]interface{}{"evaluated": n, "mismatches": bad}, nil
}

// ---- run-length algebra ----

type geomRun [4]int32 // x, y, z, length

func toRLEs(rs []geomRun) dvid.RLEs {
	out := make(dvid.RLEs, len(rs))
	for i, r := range rs {
		out[i] = dvid.NewRLE(dvid.Point3d{r[0], r[1], r[2]}, r[3])
	}
	return out
}

func fromRLEs(rles dvid.RLEs) []geomRun {
	out := make([]geomRun, len(rles))
	for i, r := range rles {
		p := r.StartPt()
		out[i] = geomRun{p[0], p[1], p[2], r.Length()}
	}
	return out
}

type geomBounds [6]*int32 // minx, maxx, miny, maxy, minz, maxz (null = open)

type geomCase struct {
	Runs       []geomRun    `json:"runs"`
	BlockSizes [][3]int32   `json:"block_sizes"`
	Splits     [][]geomRun  `json:"splits"`
	Bounds     []geomBounds `json:"bounds"`
	Adds       [][]geomRun  `json:"adds"`
}

type geomBlock struct {
	Block [3]int32  `json:"block"`
	Runs  []geomRun `json:"runs"`
}

type geomResult struct {
	Panic     string        `json:"panic,omitempty"`
	Norm      []geomRun     `json:"norm"`
	Part      [][]geomBlock `json:"part"`
	PartErr   []string      `json:"part_err"`
	Split     [][]geomRun   `json:"split"`
	SplitErr  []string      `json:"split_err"`
	Fit       [][]geomRun   `json:"fit"`
	Add       [][]geomRun   `json:"add"`
	Added     []int64       `json:"added"`
	Marshal   []geomRun     `json:"marshal"` // UnmarshalBinary(MarshalBinary(runs))
	MarshalEr string        `json:"marshal_err,omitempty"`
	Read      []geomRun     `json:"read"` // ReadRLEs over the sparse-volume stream built with RLE.WriteTo
	ReadErr   string        `json:"read_err,omitempty"`
	Single    []geomRun     `json:"single"`     // RLE.MarshalBinary / UnmarshalBinary one by one
	NumVoxels uint64        `json:"num_voxels"` // RLEs.Stats
	NumRuns   int32         `json:"num_runs"`
}

func runGeomCase(c geomCase) (res geomResult) {
	defer func() {
		if e := recover(); e != nil {
			res.Panic = fmt.Sprint(e)
		}
	}()
	res.Norm = fromRLEs(toRLEs(c.Runs).Normalize())
	for _, bs := range c.BlockSizes {
		brles, err := toRLEs(c.Runs).Partition(dvid.Point3d{bs[0], bs[1], bs[2]})
		es := ""
		var blocks []geomBlock
		if err != nil {
			es = err.Error()
		} else {
			for k, rles := range brles {
				x, y, z, err := k.Unpack()
				if err != nil {
					es = "block key: " + err.Error()
					break
				}
				blocks = append(blocks, geomBlock{Block: [3]int32{x, y, z}, Runs: fromRLEs(rles)})
			}
		}
		res.Part = append(res.Part, blocks)
		res.PartErr = append(res.PartErr, es)
	}
	for _, s := range c.Splits {
		out, err := toRLEs(c.Runs).Split(toRLEs(s))
		es := ""
		if err != nil {
			es = err.Error()
		}
		res.Split = append(res.Split, fromRLEs(out))
		res.SplitErr = append(res.SplitErr, es)
	}
	for _, b := range c.Bounds {
		var ob dvid.OptionalBounds
		if b[0] != nil {
			ob.SetMinX(*b[0])
		}
		if b[1] != nil {
			ob.SetMaxX(*b[1])
		}
		if b[2] != nil {
			ob.SetMinY(*b[2])
		}
		if b[3] != nil {
			ob.SetMaxY(*b[3])
		}
		if b[4] != nil {
			ob.SetMinZ(*b[4])
		}
		if b[5] != nil {
			ob.SetMaxZ(*b[5])
		}
		res.Fit = append(res.Fit, fromRLEs(toRLEs(c.Runs).FitToBounds(&ob)))
	}
	for _, ad := range c.Adds {
		recv := toRLEs(c.Runs)
		n := recv.Add(toRLEs(ad))
		res.Add = append(res.Add, fromRLEs(recv))
		res.Added = append(res.Added, n)
	}
	// binary forms
	rles := toRLEs(c.Runs)
	b, err := rles.MarshalBinary()
	if err != nil {
		res.MarshalEr = "MarshalBinary: " + err.Error()
	} else {
		var back dvid.RLEs
		if err := back.UnmarshalBinary(b); err != nil {
			res.MarshalEr = "UnmarshalBinary: " + err.Error()
		}
		res.Marshal = fromRLEs(back)
	}
	// the sparse-volume stream: 8 header bytes, uint32 #spans, spans written by RLE.WriteTo
	var buf bytes.Buffer
	buf.Write([]byte{dvid.EncodingBinary, 3, 0, 0, 0, 0, 0, 0})
	binary.Write(&buf, binary.LittleEndian, uint32(len(rles)))
	for _, r := range rles {
		if _, err := r.WriteTo(&buf); err != nil {
			res.ReadErr = "WriteTo: " + err.Error()
		}
	}
	rd, err := dvid.ReadRLEs(&buf)
	if err != nil {
		res.ReadErr = "ReadRLEs: " + err.Error()
	}
	res.Read = fromRLEs(rd)
	for _, r := range rles {
		b, err := r.MarshalBinary()
		var one dvid.RLE
		if err == nil {
			err = one.UnmarshalBinary(b)
		}
		if err != nil {
			res.MarshalEr += " RLE: " + err.Error()
		}
		res.Single = append(res.Single, fromRLEs(dvid.RLEs{one})...)
	}
	res.NumVoxels, res.NumRuns = rles.Stats()
	return
}

func callGeomRLEs(args json.RawMessage) (interface{}, error) {
	var a struct {
		Cases []geomCase `json:"cases"`
	}
	if err := json.Unmarshal(args, &a); err != nil {
		return nil, err
	}
	out := make([]geomResult, len(a.Cases))
	for i, c := range a.Cases {
		out[i] = runGeomCase(c)
	}
	return out, nil
}

// callGeomRoiInside evaluates roi.VoxelBoundsInside for voxel boxes against spans.
func callGeomRoiInside(args json.RawMessage) (interface{}, error) {
	var a struct {
		Spans     []dvid.Span `json:"spans"`
		BlockSize [3]int32    `json:"block_size"`
		Boxes     [][6]int32  `json:"boxes"` // x0, x1, y0, y1, z0, z1 inclusive
	}
	if err := json.Unmarshal(args, &a); err != nil {
		return nil, err
	}
	out := make([]int, len(a.Boxes))
	for i, b := range a.Boxes {
		e := dvid.Extents3d{MinPoint: dvid.Point3d{b[0], b[2], b[4]}, MaxPoint: dvid.Point3d{b[1], b[3], b[5]}}
		func() {
			defer func() {
				if e := recover(); e != nil {
					out[i] = -2
				}
			}()
			in, err := roi.VoxelBoundsInside(e, dvid.Point3d{a.BlockSize[0], a.BlockSize[1], a.BlockSize[2]}, a.Spans)
			switch {
			case err != nil:
				out[i] = -1
			case in:
				out[i] = 1
			}
		}()
	}
	return out, nil
}
