//go:build badger && verif

package main

import (
	"encoding/json"
	"fmt"
	"runtime/debug"

	"github.com/janelia-flyem/dvid/datastore"
	"github.com/janelia-flyem/dvid/dvid"
)

// Package-level entry point of property C19: datastore.CopyInstance, which the
// "repo <uuid> copy <source> <target> [settings]" command calls.

func init() {
	calls["copy.instance"] = callCopyInstance
}

func callCopyInstance(args json.RawMessage) (interface{}, error) {
	var a struct {
		UUID   string            `json:"uuid"`
		Source string            `json:"source"`
		Target string            `json:"target"`
		Config map[string]string `json:"config"`
	}
	if err := json.Unmarshal(args, &a); err != nil {
		return nil, err
	}
	c := dvid.NewConfig()
	for k, v := range a.Config {
		c.Set(k, v)
	}
	out := struct {
		Err      string `json:"err,omitempty"`
		Panic    string `json:"panic,omitempty"`
		SrcStore string `json:"src_store"`
		DstStore string `json:"dst_store"`
		SrcID    uint32 `json:"src_id"`
		DstID    uint32 `json:"dst_id"`
	}{}
	func() {
		// a panic is part of the observation (with its stack), not a harness failure
		defer func() {
			if e := recover(); e != nil {
				out.Panic = fmt.Sprintf("%v\n%s", e, debug.Stack())
			}
		}()
		if err := datastore.CopyInstance(dvid.UUID(a.UUID), dvid.InstanceName(a.Source), dvid.InstanceName(a.Target), c); err != nil {
			out.Err = err.Error()
		}
	}()
	if d, err := datastore.GetDataByUUIDName(dvid.UUID(a.UUID), dvid.InstanceName(a.Source)); err == nil {
		if s, err := d.KVStore(); err == nil {
			out.SrcStore = fmt.Sprint(s)
		}
		out.SrcID = uint32(d.InstanceID())
	}
	if d, err := datastore.GetDataByUUIDName(dvid.UUID(a.UUID), dvid.InstanceName(a.Target)); err == nil {
		if s, err := d.KVStore(); err == nil {
			out.DstStore = fmt.Sprint(s)
		}
		out.DstID = uint32(d.InstanceID())
	}
	return out, nil
}
