//go:build badger && verif

package main

// Entry points for the hostile driver (C20):
//   - an address-space limit for the server-under-test (VERIF_RLIMIT_AS_MB), so that a
//     request that makes the server allocate without bound kills this process, not the machine;
//   - c20.reads: a batch of HTTP reads answered with status + digest (bodies of large binary
//     answers stay in the process);
//   - c20.settle: waits until the goroutines a request left behind have finished or parked.

import (
	"bytes"
	"crypto/sha1"
	"encoding/base64"
	"encoding/hex"
	"encoding/json"
	"fmt"
	"io"
	"net/http"
	"net/http/httptest"
	"os"
	"regexp"
	"runtime"
	"runtime/debug"
	"strconv"
	"strings"
	"syscall"
	"time"

	"github.com/janelia-flyem/dvid/server"
)

func init() {
	if v := os.Getenv("VERIF_RLIMIT_AS_MB"); v != "" {
		if mb, err := strconv.ParseUint(v, 10, 64); err == nil && mb > 0 {
			lim := syscall.Rlimit{Cur: mb << 20, Max: mb << 20}
			syscall.Setrlimit(syscall.RLIMIT_AS, &lim)
		}
	}
	calls["c20.http"] = callC20HTTP
	calls["c20.reads"] = callC20Reads
	calls["c20.settle"] = callC20Settle
}

type c20Read struct {
	Method string `json:"method"`
	URL    string `json:"url"`
	Body   string `json:"body,omitempty"` // base64
}

// c20DoHTTP delivers one request the way net/http's server does: the body of a server
// request is never nil (http.NoBody when nothing was sent).
func c20DoHTTP(rd c20Read) (status int, body []byte, errStr string) {
	var rb io.Reader = http.NoBody
	if rd.Body != "" {
		b, err := base64.StdEncoding.DecodeString(rd.Body)
		if err != nil {
			return 0, nil, "bad body: " + err.Error()
		}
		rb = bytes.NewReader(b)
	}
	hr, err := http.NewRequest(rd.Method, rd.URL, rb)
	if err != nil {
		return 0, nil, "bad request: " + err.Error()
	}
	if rd.Body == "" {
		hr.Body = http.NoBody
	}
	w := httptest.NewRecorder()
	func() {
		// a panic that escapes the server's own recovery middleware is reported, not hidden
		defer func() {
			if e := recover(); e != nil {
				w.Code = 599
				w.Body = bytes.NewBufferString(fmt.Sprintf("ESCAPED PANIC: %v", e))
			}
		}()
		server.ServeSingleHTTP(w, hr)
	}()
	code := w.Code
	// a panic recovered after the handler had started its answer cannot change the status any
	// more: the server's "Panic detected" report is then found inside a 2xx body
	if panicInBody(code, w.Body.Bytes()) != "" {
		code = 598
	}
	return code, w.Body.Bytes(), ""
}

func callC20HTTP(args json.RawMessage) (interface{}, error) {
	var rd c20Read
	if err := json.Unmarshal(args, &rd); err != nil {
		return nil, err
	}
	st, b, e := c20DoHTTP(rd)
	if len(b) > 1<<16 {
		b = b[:1<<16]
	}
	return map[string]interface{}{"status": st, "body": base64.StdEncoding.EncodeToString(b), "err": e}, nil
}

type c20ReadResult struct {
	Status int    `json:"status"`
	Len    int    `json:"len"`
	Digest string `json:"digest"`
	Body   string `json:"body,omitempty"` // base64, only when small
	Micros int64  `json:"us"`
}

func callC20Reads(args json.RawMessage) (interface{}, error) {
	var a struct {
		Reads []c20Read `json:"reads"`
		Max   int       `json:"max"`
	}
	if err := json.Unmarshal(args, &a); err != nil {
		return nil, err
	}
	out := make([]c20ReadResult, len(a.Reads))
	for i, rd := range a.Reads {
		t0 := time.Now()
		st, b, _ := c20DoHTTP(rd)
		h := sha1.Sum(b)
		out[i] = c20ReadResult{Status: st, Len: len(b), Digest: hex.EncodeToString(h[:10]), Micros: time.Since(t0).Microseconds()}
		if len(b) <= a.Max || st != 200 {
			if len(b) > 4096 && st != 200 {
				b = b[:4096]
			}
			out[i].Body = base64.StdEncoding.EncodeToString(b)
		}
	}
	return out, nil
}

var goroutineHdr = regexp.MustCompile(`^goroutine \d+ \[([^\],]+)`)

// busyGoroutines counts goroutines that run DVID datatype / datastore / storage code and
// are not parked (running, runnable, sleeping, in a syscall or waiting for I/O or a lock).
func busyGoroutines() (busy int, total int, sample string) {
	busy, total, sample, _, _ = busyGoroutinesX()
	return
}

var goroutineID = regexp.MustCompile(`^goroutine (\d+) `)

// busyGoroutinesX also reports how many of the busy goroutines wait for a lock or a wait group
// (nothing of the request's work is running when all of them do) and the ids of the busy ones.
func busyGoroutinesX() (busy int, total int, sample string, blocked int, ids []string) {
	buf := make([]byte, 1<<20)
	for {
		n := runtime.Stack(buf, true)
		if n < len(buf) {
			buf = buf[:n]
			break
		}
		buf = make([]byte, 2*len(buf))
	}
	self := true
	for _, g := range bytes.Split(buf, []byte("\n\n")) {
		if self { // the first one is the caller
			self = false
			total++
			continue
		}
		total++
		m := goroutineHdr.FindSubmatch(g)
		if m == nil {
			continue
		}
		state := string(m[1])
		switch state {
		case "running", "runnable", "sleep", "syscall", "IO wait", "semacquire", "sync.Mutex.Lock", "sync.RWMutex.Lock", "sync.RWMutex.RLock", "sync.WaitGroup.Wait":
		default:
			continue
		}
		s := string(g)
		if !strings.Contains(s, "janelia-flyem/dvid/datatype/") && !strings.Contains(s, "janelia-flyem/dvid/datastore.") {
			continue
		}
		// long-lived service loops that sleep between rounds are not request work
		if strings.Contains(s, "time.Sleep") && state == "sleep" {
			continue
		}
		busy++
		switch state {
		case "semacquire", "sync.Mutex.Lock", "sync.RWMutex.Lock", "sync.RWMutex.RLock", "sync.WaitGroup.Wait":
			blocked++
		}
		if m := goroutineID.FindStringSubmatch(s); m != nil {
			ids = append(ids, m[1])
		}
		if sample == "" {
			if len(s) > 1500 {
				s = s[:1500]
			}
			sample = s
		}
	}
	return
}

// callC20Settle waits (bounded) until no request work is running and the number of
// goroutines is stable.
func callC20Settle(args json.RawMessage) (interface{}, error) {
	var a struct {
		WaitMS int `json:"wait_ms"`
	}
	json.Unmarshal(args, &a)
	if a.WaitMS == 0 {
		a.WaitMS = 2000
	}
	deadline := time.Now().Add(time.Duration(a.WaitMS) * time.Millisecond)
	sleep := 200 * time.Microsecond
	last := -1
	stable := 0
	var busy, total, blocked int
	var sample string
	var ids []string
	for {
		runtime.Gosched()
		busy, total, sample, blocked, ids = busyGoroutinesX()
		if busy == 0 && total == last {
			stable++
		} else {
			stable = 0
		}
		last = total
		if stable >= 2 || time.Now().After(deadline) {
			break
		}
		time.Sleep(sleep)
		if sleep < 20*time.Millisecond {
			sleep *= 2
		}
	}
	var ms runtime.MemStats
	runtime.ReadMemStats(&ms)
	if ms.HeapInuse > 512<<20 {
		// garbage of a large answer is returned before the next request, so that the address-space
		// limit is reached by what one request holds, not by what several have left uncollected
		debug.FreeOSMemory()
		runtime.ReadMemStats(&ms)
	}
	return map[string]interface{}{"busy": busy, "goroutines": total, "settled": stable >= 2, "sample": sample,
		"all_blocked": busy > 0 && blocked == busy, "busy_ids": strings.Join(ids, ","),
		"heap_inuse_mb": ms.HeapInuse >> 20, "heap_sys_mb": ms.HeapSys >> 20}, nil
}
