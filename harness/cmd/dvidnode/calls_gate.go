//go:build badger && verif

package main

import (
	"encoding/json"
	"fmt"
	"reflect"
	"sort"

	"github.com/janelia-flyem/dvid/datastore"
	"github.com/janelia-flyem/dvid/dvid"
	"github.com/janelia-flyem/dvid/server"
)

// Entry points for property C02 (mutation gate, server mode switches).
func init() {
	calls["gate.types"] = callGateTypes
	calls["gate.instance"] = callGateInstance
	calls["gate.ismutation"] = callGateIsMutation
	calls["gate.deleteinstance"] = callGateDeleteInstance
	calls["gate.setmode"] = callGateSetMode
}

// callGateTypes lists the datatypes compiled into this server.
func callGateTypes(args json.RawMessage) (interface{}, error) {
	type tinfo struct {
		Name string `json:"name"`
		URL  string `json:"url"`
		Pkg  string `json:"pkg"`
	}
	var out []tinfo
	for url, t := range datastore.Compiled {
		rt := reflect.TypeOf(t)
		for rt.Kind() == reflect.Ptr {
			rt = rt.Elem()
		}
		out = append(out, tinfo{Name: string(t.GetTypeName()), URL: string(url), Pkg: rt.PkgPath()})
	}
	sort.Slice(out, func(i, j int) bool { return out[i].Name < out[j].Name })
	return out, nil
}

// declaringType walks embedded fields to the type that declares method name itself.
func declaringType(rt reflect.Type, name string) reflect.Type {
	for rt.Kind() == reflect.Ptr {
		rt = rt.Elem()
	}
	if rt.Kind() != reflect.Struct {
		return rt
	}
	for i := 0; i < rt.NumField(); i++ {
		f := rt.Field(i)
		if !f.Anonymous {
			continue
		}
		ft := f.Type
		pt := ft
		if pt.Kind() != reflect.Ptr {
			pt = reflect.PtrTo(ft)
		}
		if _, ok := pt.MethodByName(name); ok {
			return declaringType(ft, name)
		}
	}
	return rt
}

// callGateInstance describes one data instance: its Go type, the package that declares
// the ServeHTTP and IsMutationRequest it runs, and whether it is versioned.
func callGateInstance(args json.RawMessage) (interface{}, error) {
	var a struct{ UUID, Name string }
	if err := json.Unmarshal(args, &a); err != nil {
		return nil, err
	}
	d, err := datastore.GetDataByUUIDName(dvid.UUID(a.UUID), dvid.InstanceName(a.Name))
	if err != nil {
		return nil, err
	}
	rt := reflect.TypeOf(d)
	sh := declaringType(rt, "ServeHTTP")
	im := declaringType(rt, "IsMutationRequest")
	for rt.Kind() == reflect.Ptr {
		rt = rt.Elem()
	}
	return map[string]interface{}{
		"type": string(d.TypeName()), "gotype": rt.PkgPath() + "." + rt.Name(),
		"servehttp_pkg": sh.PkgPath(), "servehttp_type": sh.Name(),
		"ismutation_pkg": im.PkgPath(), "versioned": d.Versioned(), "datauuid": string(d.DataUUID()),
	}, nil
}

// callGateIsMutation evaluates DataService.IsMutationRequest(method, keyword) of an instance.
func callGateIsMutation(args json.RawMessage) (interface{}, error) {
	var a struct {
		UUID, Name string
		Pairs      [][2]string
	}
	if err := json.Unmarshal(args, &a); err != nil {
		return nil, err
	}
	d, err := datastore.GetDataByUUIDName(dvid.UUID(a.UUID), dvid.InstanceName(a.Name))
	if err != nil {
		return nil, err
	}
	out := make([]bool, len(a.Pairs))
	for i, p := range a.Pairs {
		out[i] = d.IsMutationRequest(p[0], p[1])
	}
	return out, nil
}

// callGateDeleteInstance is the "repo <uuid> delete <name>" command (no HTTP route).
func callGateDeleteInstance(args json.RawMessage) (interface{}, error) {
	var a struct{ UUID, Name string }
	if err := json.Unmarshal(args, &a); err != nil {
		return nil, err
	}
	if err := datastore.DeleteDataByName(dvid.UUID(a.UUID), dvid.InstanceName(a.Name), ""); err != nil {
		return nil, err
	}
	return "ok", nil
}

// callGateSetMode calls the server's run-time mode switches (used by the transfer-data
// command and by cmd/dvid): {"fn":"readonly"|"fullwrite","on":bool}.
func callGateSetMode(args json.RawMessage) (interface{}, error) {
	var a struct {
		Fn string
		On bool
	}
	if err := json.Unmarshal(args, &a); err != nil {
		return nil, err
	}
	switch a.Fn {
	case "readonly":
		server.SetReadOnly(a.On)
	case "fullwrite":
		server.SetFullWrite(a.On)
	default:
		return nil, fmt.Errorf("unknown mode switch %q", a.Fn)
	}
	return "ok", nil
}
