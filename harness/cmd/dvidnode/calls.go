//go:build badger && verif

package main

import (
	"encoding/json"
	"fmt"
)

func jsonUnmarshal(b []byte, v interface{}) error { return json.Unmarshal(b, v) }

// calls is the registry of package-level entry points reachable through op "call".
// Each file calls_*.go adds its own in init().
var calls = map[string]func(args json.RawMessage) (interface{}, error){}

func doCall(rq Req) (resp Resp) {
	resp.ID = rq.ID
	f, ok := calls[rq.Fn]
	if !ok {
		resp.Err = "unknown call " + rq.Fn
		return
	}
	defer func() {
		if e := recover(); e != nil {
			resp.Err = fmt.Sprintf("PANIC: %v", e)
			resp.Status = 599
		}
	}()
	res, err := f(rq.Args)
	if err != nil {
		resp.Err = err.Error()
		return
	}
	b, err := json.Marshal(res)
	if err != nil {
		resp.Err = "marshal result: " + err.Error()
		return
	}
	resp.Result = b
	return
}
