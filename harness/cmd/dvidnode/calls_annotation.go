//go:build badger && verif

package main

import (
	"encoding/json"
	"fmt"
	"reflect"

	"github.com/janelia-flyem/dvid/datastore"
	"github.com/janelia-flyem/dvid/datatype/annotation"
	"github.com/janelia-flyem/dvid/datatype/labelsz"
	"github.com/janelia-flyem/dvid/dvid"
)

func init() {
	calls["annotation.reloading"] = callAnnotationReloading
}

// callAnnotationReloading reports whether a reload (annotation.RecreateDenormalizations /
// labelsz.ReloadData) of the named instance is still running.  Both run in goroutines that
// no idle predicate of the repository covers; the flags they keep (annotation.Data.
// denormOngoing, labelsz.Data.uninitialized) are unexported and are read here only to know
// when the next request may be sent (POSTs are refused while a reload runs).
func callAnnotationReloading(args json.RawMessage) (interface{}, error) {
	var a struct {
		UUID string `json:"uuid"`
		Name string `json:"name"`
	}
	if err := json.Unmarshal(args, &a); err != nil {
		return nil, err
	}
	d, err := datastore.GetDataByUUIDName(dvid.UUID(a.UUID), dvid.InstanceName(a.Name))
	if err != nil {
		return nil, err
	}
	field := ""
	switch d.(type) {
	case *annotation.Data:
		field = "denormOngoing"
	case *labelsz.Data:
		field = "uninitialized"
	default:
		return nil, fmt.Errorf("instance %q is neither annotation nor labelsz", a.Name)
	}
	f := reflect.ValueOf(d).Elem().FieldByName(field)
	if !f.IsValid() || f.Kind() != reflect.Bool {
		return nil, fmt.Errorf("field %s not found in %T", field, d)
	}
	busy := f.Bool()
	if u, ok := d.(interface{ Updating() bool }); ok && u.Updating() {
		busy = true
	}
	return map[string]bool{"reloading": busy}, nil
}
