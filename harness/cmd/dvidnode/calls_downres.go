//go:build badger && verif

package main

// Entry point for property C14: the instance's own idle predicate sampled while one mutating
// request runs (the predicates downres.BlockOnUpdating polls have no HTTP route).

import (
	"bytes"
	"encoding/base64"
	"encoding/json"
	"fmt"
	"net/http"
	"net/http/httptest"
	"runtime"
	"sync/atomic"

	"github.com/janelia-flyem/dvid/datastore"
	"github.com/janelia-flyem/dvid/dvid"
	"github.com/janelia-flyem/dvid/server"
)

func init() {
	calls["lm.idleprobe"] = callIdleProbe
}

type scaleProber interface {
	ScaleUpdating(scale uint8) bool
	AnyScaleUpdating() bool
}

// callIdleProbe issues one HTTP request and, until it is answered, samples
//   s1 = ScaleUpdating(max); idle = !Updating() && !AnyScaleUpdating(); s2 = ScaleUpdating(max).
// With a single request in flight the counter of the last level goes 0 -> 1 -> 0 once, so s1 and
// s2 mean the last level was being updated throughout the sample.
func callIdleProbe(args json.RawMessage) (interface{}, error) {
	var a struct {
		UUID string `json:"uuid"`
		Name string `json:"name"`
		URL  string `json:"url"`
		Body string `json:"body"`
		Max  int    `json:"max"`
	}
	if err := json.Unmarshal(args, &a); err != nil {
		return nil, err
	}
	d, err := datastore.GetDataByUUIDName(dvid.UUID(a.UUID), dvid.InstanceName(a.Name))
	if err != nil {
		return nil, err
	}
	sp, ok := d.(scaleProber)
	if !ok {
		return nil, fmt.Errorf("%s is not a down-sampling instance", a.Name)
	}
	up, _ := d.(updater)
	body, err := base64.StdEncoding.DecodeString(a.Body)
	if err != nil {
		return nil, err
	}
	hr, err := http.NewRequest("POST", a.URL, bytes.NewReader(body))
	if err != nil {
		return nil, err
	}
	w := httptest.NewRecorder()
	var done int32
	go func() {
		defer atomic.StoreInt32(&done, 1)
		server.ServeSingleHTTP(w, hr)
	}()
	var samples, lastBusy, idleWhileBusy int
	for atomic.LoadInt32(&done) == 0 {
		samples++
		if a.Max >= 1 {
			s1 := sp.ScaleUpdating(uint8(a.Max))
			idle := !(up != nil && up.Updating()) && !sp.AnyScaleUpdating()
			s2 := sp.ScaleUpdating(uint8(a.Max))
			if s1 && s2 {
				lastBusy++
				if idle {
					idleWhileBusy++
				}
			}
		}
		runtime.Gosched()
	}
	return map[string]int{"status": w.Code, "samples": samples, "last_busy": lastBusy, "idle_while_busy": idleWhileBusy}, nil
}
