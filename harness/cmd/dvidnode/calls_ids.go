//go:build badger && verif

package main

import (
	"encoding/json"

	"github.com/janelia-flyem/dvid/datastore"
	"github.com/janelia-flyem/dvid/dvid"
)

func init() { calls["ds.instanceid"] = callInstanceID }

// callInstanceID returns the local instance id of a data instance.
func callInstanceID(args json.RawMessage) (interface{}, error) {
	var a struct{ UUID, Name string }
	if err := json.Unmarshal(args, &a); err != nil {
		return nil, err
	}
	d, err := datastore.GetDataByUUIDName(dvid.UUID(a.UUID), dvid.InstanceName(a.Name))
	if err != nil {
		return nil, err
	}
	return uint32(d.InstanceID()), nil
}
