//go:build badger && verif

package main

import (
	"encoding/json"

	"github.com/janelia-flyem/dvid/datastore"
	"github.com/janelia-flyem/dvid/dvid"
)

// Repo / instance administration that has no HTTP route (the `repos delete`, `repo <uuid>
// rename` and `repo <uuid> delete` RPC commands call exactly these functions).
func init() {
	calls["ds.deleterepo"] = func(args json.RawMessage) (interface{}, error) {
		var a struct{ UUID, Passcode string }
		if err := json.Unmarshal(args, &a); err != nil {
			return nil, err
		}
		uuid, _, err := datastore.MatchingUUID(a.UUID)
		if err != nil {
			return nil, err
		}
		return nil, datastore.DeleteRepo(uuid, a.Passcode)
	}
	calls["ds.rename"] = func(args json.RawMessage) (interface{}, error) {
		var a struct{ UUID, Old, New, Passcode string }
		if err := json.Unmarshal(args, &a); err != nil {
			return nil, err
		}
		uuid, _, err := datastore.MatchingUUID(a.UUID)
		if err != nil {
			return nil, err
		}
		return nil, datastore.RenameData(uuid, dvid.InstanceName(a.Old), dvid.InstanceName(a.New), a.Passcode)
	}
	calls["ds.deletedata"] = func(args json.RawMessage) (interface{}, error) {
		var a struct{ UUID, Name, Passcode string }
		if err := json.Unmarshal(args, &a); err != nil {
			return nil, err
		}
		uuid, _, err := datastore.MatchingUUID(a.UUID)
		if err != nil {
			return nil, err
		}
		return nil, datastore.DeleteDataByName(uuid, dvid.InstanceName(a.Name), a.Passcode)
	}
}
