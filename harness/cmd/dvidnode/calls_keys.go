//go:build badger && verif

package main

import (
	"strconv"
	_ "unsafe" // go:linkname

	"bytes"
	"encoding/binary"
	"encoding/hex"
	"encoding/json"
	"fmt"

	"github.com/janelia-flyem/dvid/datastore"
	"github.com/janelia-flyem/dvid/datatype/annotation"
	"github.com/janelia-flyem/dvid/datatype/imageblk"
	"github.com/janelia-flyem/dvid/datatype/imagetile"
	"github.com/janelia-flyem/dvid/datatype/labelsz"
	"github.com/janelia-flyem/dvid/datatype/tarsupervoxels"
	"github.com/janelia-flyem/dvid/datatype/keyvalue"
	"github.com/janelia-flyem/dvid/datatype/labelmap"
	"github.com/janelia-flyem/dvid/datatype/neuronjson"
	"github.com/janelia-flyem/dvid/dvid"
	"github.com/janelia-flyem/dvid/storage"
)

// Package-level entry points of property C06: the key functions of
// storage.DataContext / datastore.VersionedCtx and the datatypes' TKey constructors
// (keys.table), the same keys in a real store read back through RawRangeQuery and
// removed through DeleteDataInstance / DeleteAll (keys.store), a raw dump of the data key
// space (keys.dump), and datastore.DeleteDataByName (inst.delete).

func init() {
	calls["keys.table"] = callKeysTable
	calls["keys.store"] = callKeysStore
	calls["keys.dump"] = callKeysDump
	calls["inst.delete"] = callInstDelete
}

// callInstDelete is what the "repo <uuid> delete <name>" command does (there is no HTTP route).
func callInstDelete(args json.RawMessage) (interface{}, error) {
	var a struct {
		UUID string `json:"uuid"`
		Name string `json:"name"`
	}
	if err := json.Unmarshal(args, &a); err != nil {
		return nil, err
	}
	return nil, datastore.DeleteDataByName(dvid.UUID(a.UUID), dvid.InstanceName(a.Name), "")
}

// stubData is a dvid.Data that carries only what the key functions use: the instance id
// (any 32-bit value), a name and the store.  Every other method of the embedded nil
// interface would panic, which the call wrapper reports.
type stubData struct {
	dvid.Data
	id    dvid.InstanceID
	store dvid.Store
}

func (s *stubData) InstanceID() dvid.InstanceID { return s.id }
func (s *stubData) DataName() dvid.InstanceName {
	return dvid.InstanceName(fmt.Sprintf("stub%d", uint32(s.id)))
}
func (s *stubData) TypeName() dvid.TypeString    { return "stub" }
func (s *stubData) KVStore() (dvid.Store, error) { return s.store, nil }
func (s *stubData) Versioned() bool              { return true }

// keySpec is one datum key, given as the arguments of the datatype's constructor.
type keySpec struct {
	Cls string   `json:"cls"`
	S   []int    `json:"s,omitempty"`  // string bytes
	L   []int    `json:"l,omitempty"`  // four 16-bit limbs of a uint64
	P   [][2]int `json:"p,omitempty"`  // x, y, z each as <<hi (signed), lo>>
	Sc  int      `json:"sc,omitempty"` // labelmap scale
	C   int      `json:"c,omitempty"`  // class for mintk / maxtk
	U   []int    `json:"u,omitempty"`  // a uint32 as <<hi, lo>>
	A   []int    `json:"a,omitempty"`  // plane axes
	E   []int    `json:"e,omitempty"`  // extension bytes
	M   []int    `json:"m,omitempty"`  // a second uint64 as limbs
}

func bytesOf(a []int) string {
	b := make([]byte, len(a))
	for i, x := range a {
		b[i] = byte(x)
	}
	return string(b)
}

func u64Of(limbs []int) uint64 {
	var u uint64
	for _, l := range limbs {
		u = u<<16 | uint64(uint16(l))
	}
	return u
}

func (k keySpec) u32() uint32 {
	if len(k.U) != 2 {
		return 0
	}
	return uint32(k.U[0])<<16 | uint32(uint16(k.U[1]))
}

//go:linkname newMutcacheKey github.com/janelia-flyem/dvid/datatype/labelmap.newMutcacheKey
func newMutcacheKey(label, mutID uint64) storage.TKey


func (k keySpec) str() string {
	b := make([]byte, len(k.S))
	for i, x := range k.S {
		b[i] = byte(x)
	}
	return string(b)
}

func (k keySpec) u64() uint64 {
	var u uint64
	for _, l := range k.L {
		u = u<<16 | uint64(uint16(l))
	}
	return u
}

func (k keySpec) pt() (dvid.ChunkPoint3d, error) {
	if len(k.P) != 3 {
		return dvid.ChunkPoint3d{}, fmt.Errorf("bad point %v", k.P)
	}
	var p dvid.ChunkPoint3d
	for i := 0; i < 3; i++ {
		p[i] = int32(int64(k.P[i][0])*65536 + int64(k.P[i][1]))
	}
	return p, nil
}

func (k keySpec) tkey() (storage.TKey, error) {
	switch k.Cls {
	case "kv":
		return keyvalue.NewTKey(k.str())
	case "nj":
		return neuronjson.NewTKey(k.str())
	case "anntag":
		return annotation.NewTagTKey(annotation.Tag(k.str()))
	case "annlabel":
		return annotation.NewLabelTKey(k.u64()), nil
	case "annblock":
		p, err := k.pt()
		return annotation.NewBlockTKey(p), err
	case "imgblock":
		p, err := k.pt()
		idx := dvid.IndexZYX(p)
		return imageblk.NewTKey(&idx), err
	case "lmblock":
		p, err := k.pt()
		idx := dvid.IndexZYX(p)
		return labelmap.NewBlockTKey(uint8(k.Sc), &idx), err
	case "lmindex":
		return labelmap.NewLabelIndexTKey(k.u64()), nil
	case "szsl":
		return labelsz.NewTypeSizeLabelTKey(labelsz.IndexType(k.C), k.u32(), k.u64()), nil
	case "sztl":
		return labelsz.NewTypeLabelTKey(labelsz.IndexType(k.C), k.u64()), nil
	case "tile":
		p, err := k.pt()
		if err != nil {
			return nil, err
		}
		var plane dvid.DataShape
		switch fmt.Sprint(k.A) {
		case "[0 1]":
			plane = dvid.XY
		case "[0 2]":
			plane = dvid.XZ
		case "[1 2]":
			plane = dvid.YZ
		default:
			return nil, fmt.Errorf("bad plane %v", k.A)
		}
		return imagetile.NewTKey(p, plane, imagetile.Scaling(k.Sc))
	case "tarsv":
		sv, err := strconv.ParseUint(k.str(), 10, 64)
		if err != nil {
			return nil, err
		}
		return tarsupervoxels.NewTKey(sv, bytesOf(k.E))
	case "lmaff":
		return labelmap.NewAffinitiesTKey(k.u64()), nil
	case "lmmut":
		return newMutcacheKey(k.u64(), u64Of(k.M)), nil
	case "plain":
		switch k.C {
		case 180:
			return neuronjson.NewSchemaTKey()
		case 181:
			return neuronjson.NewSchemaBatchTKey()
		case 182:
			return neuronjson.NewJSONSchemaTKey()
		case 24:
			return imageblk.MetaTKey(), nil
		}
		return nil, fmt.Errorf("no constructor for the payload-less key of class %d", k.C)
	case "mintk":
		return storage.MinTKey(storage.TKeyClass(k.C)), nil
	case "maxtk":
		return storage.MaxTKey(storage.TKeyClass(k.C)), nil
	}
	return nil, fmt.Errorf("unknown key class %q", k.Cls)
}

type keyTableArgs struct {
	IDs  []uint32  `json:"ids"`
	TKs  []keySpec `json:"tks"`
	Vers []uint32  `json:"vers"`
	Clis []uint32  `json:"clis"`
}

// one full key with everything the decoders say about it
type keyOut struct {
	Key      string   `json:"key"`                // hex
	Variants []string `json:"variants,omitempty"` // names of constructors that gave other bytes
	Inst     uint32   `json:"inst"`
	Ver      uint32   `json:"ver"`
	Cli      uint32   `json:"cli"`
	TKey     string   `json:"tkey"`
	Tomb     bool     `json:"tomb"`
	DecErr   string   `json:"dec_err,omitempty"`
}

type keyTableOut struct {
	TKeys []string    `json:"tkeys"`
	Keys  [][]keyOut  `json:"keys"` // [datum][j]
	MinV  []string    `json:"minv"`
	MaxV  []string    `json:"maxv"`
	Range [][2]string `json:"range"` // per id: DataContext.KeyRange
	Errs  []string    `json:"errs,omitempty"`
}

// buildKey constructs the key of (id, tk, v, c, tomb) through the exported functions and
// reports every other construction path that disagrees.
func buildKey(d *stubData, tk storage.TKey, v dvid.VersionID, c dvid.ClientID, tomb bool, otherID dvid.InstanceID, otherV dvid.VersionID) (storage.Key, []string) {
	var variants []string
	ctx := storage.NewDataContext(d, v)
	vctx := datastore.NewVersionedCtx(d, v)
	octx := storage.NewDataContext(d, otherV)
	other := &stubData{id: otherID}
	var k0 storage.Key
	if tomb {
		k0 = ctx.TombstoneKey(tk)
	} else {
		k0 = ctx.ConstructKey(tk)
	}
	alt := map[string]storage.Key{}
	if tomb {
		alt["VersionedCtx.TombstoneKey"] = vctx.TombstoneKey(tk)
		alt["TombstoneKeyVersion"] = octx.TombstoneKeyVersion(tk, v)
	} else {
		alt["VersionedCtx.ConstructKey"] = vctx.ConstructKey(tk)
		alt["ConstructKeyVersion"] = octx.ConstructKeyVersion(tk, v)
		unv, verPart, err := ctx.SplitKey(tk)
		if err == nil {
			alt["SplitKey+MergeKey"] = storage.MergeKey(unv, verPart)
		} else {
			variants = append(variants, "SplitKey: "+err.Error())
		}
	}
	// keys of another instance / version re-addressed
	mk := func(dd *stubData, vv dvid.VersionID) storage.Key {
		cc := storage.NewDataContext(dd, vv)
		if tomb {
			return cc.TombstoneKey(tk)
		}
		return cc.ConstructKey(tk)
	}
	k1 := mk(other, otherV)
	if err := storage.UpdateDataKey(k1, d.id, v, 0); err != nil {
		variants = append(variants, "UpdateDataKey: "+err.Error())
	}
	alt["UpdateDataKey"] = k1
	k2 := mk(other, v)
	if err := storage.ChangeDataKeyInstance(k2, d.id); err != nil {
		variants = append(variants, "ChangeDataKeyInstance: "+err.Error())
	}
	alt["ChangeDataKeyInstance"] = k2
	k3 := mk(other, v)
	if err := ctx.UpdateInstance(k3); err != nil {
		variants = append(variants, "UpdateInstance: "+err.Error())
	}
	alt["DataContext.UpdateInstance"] = k3
	k4 := mk(d, otherV)
	if err := storage.ChangeDataKeyVersion(k4, v); err != nil {
		variants = append(variants, "ChangeDataKeyVersion: "+err.Error())
	}
	alt["ChangeDataKeyVersion"] = k4
	for name, k := range alt {
		if !bytes.Equal(k, k0) {
			variants = append(variants, name+"="+hex.EncodeToString(k))
		}
	}
	// the client id is only reachable through UpdateDataKey
	k := append(storage.Key(nil), k0...)
	if c != 0 {
		k = mk(other, otherV)
		if err := storage.UpdateDataKey(k, d.id, v, c); err != nil {
			variants = append(variants, "UpdateDataKey(client): "+err.Error())
		}
	}
	// bounds agree between the context types
	return k, variants
}

func decodeKey(k storage.Key, o *keyOut) {
	ctx := storage.NewDataContext(&stubData{id: 12345}, 77) // "any DataContext is sufficient as receiver"
	i, v, c, err := storage.DataKeyToLocalIDs(k)
	if err != nil {
		o.DecErr += "DataKeyToLocalIDs: " + err.Error() + "; "
	}
	o.Inst, o.Ver, o.Cli = uint32(i), uint32(v), uint32(c)
	tk, err := storage.TKeyFromKey(k)
	if err != nil {
		o.DecErr += "TKeyFromKey: " + err.Error() + "; "
	}
	o.TKey = hex.EncodeToString(tk)
	o.Tomb = k.IsTombstone()
	if !k.IsDataKey() {
		o.DecErr += "IsDataKey false; "
	}
	if k.IsMetadataKey() || k.IsBlobKey() {
		o.DecErr += "classified as metadata/blob key; "
	}
	if v2, err := ctx.VersionFromKey(k); err != nil || v2 != v {
		o.DecErr += fmt.Sprintf("VersionFromKey=%d,%v; ", v2, err)
	}
	if v3, err := storage.VersionFromDataKey(k); err != nil || v3 != v {
		o.DecErr += fmt.Sprintf("VersionFromDataKey=%d,%v; ", v3, err)
	}
	if c2, err := ctx.ClientFromKey(k); err != nil || c2 != c {
		o.DecErr += fmt.Sprintf("ClientFromKey=%d,%v; ", c2, err)
	}
	if i2, err := ctx.InstanceFromKey(k); err != nil || i2 != i {
		o.DecErr += fmt.Sprintf("InstanceFromKey=%d,%v; ", i2, err)
	}
	unv, ver, err := storage.SplitKey(k)
	if err != nil || !bytes.Equal(storage.MergeKey(unv, ver), k) {
		o.DecErr += "SplitKey/MergeKey do not recompose the key; "
	}
}

func callKeysTable(args json.RawMessage) (interface{}, error) {
	var a keyTableArgs
	if err := json.Unmarshal(args, &a); err != nil {
		return nil, err
	}
	var out keyTableOut
	tks := make([]storage.TKey, len(a.TKs))
	for t, sp := range a.TKs {
		tk, err := sp.tkey()
		if err != nil {
			return nil, fmt.Errorf("tkey %d: %v", t, err)
		}
		tks[t] = tk
		out.TKeys = append(out.TKeys, hex.EncodeToString(tk))
	}
	for ii, id := range a.IDs {
		d := &stubData{id: dvid.InstanceID(id)}
		otherID := dvid.InstanceID(a.IDs[(ii+1)%len(a.IDs)])
		ctx := storage.NewDataContext(d, 5)
		lo, hi := ctx.KeyRange()
		out.Range = append(out.Range, [2]string{hex.EncodeToString(lo), hex.EncodeToString(hi)})
		lo2, hi2 := storage.DataInstanceKeyRange(d.id)
		lo3, hi3 := datastore.NewVersionedCtx(d, 9).KeyRange()
		if !bytes.Equal(lo, lo2) || !bytes.Equal(hi, hi2) || !bytes.Equal(lo, lo3) || !bytes.Equal(hi, hi3) {
			out.Errs = append(out.Errs, fmt.Sprintf("id %d: KeyRange %x..%x, DataInstanceKeyRange %x..%x, VersionedCtx.KeyRange %x..%x", id, lo, hi, lo2, hi2, lo3, hi3))
		}
		for _, tk := range tks {
			var row []keyOut
			for vi, v := range a.Vers {
				otherV := dvid.VersionID(a.Vers[(vi+1)%len(a.Vers)])
				for _, c := range a.Clis {
					for m := 0; m < 2; m++ {
						k, variants := buildKey(d, tk, dvid.VersionID(v), dvid.ClientID(c), m == 1, otherID, otherV)
						o := keyOut{Key: hex.EncodeToString(k), Variants: variants}
						decodeKey(k, &o)
						row = append(row, o)
					}
				}
			}
			out.Keys = append(out.Keys, row)
			vctx := datastore.NewVersionedCtx(d, 3)
			mn, err1 := vctx.MinVersionKey(tk)
			mx, err2 := vctx.MaxVersionKey(tk)
			mx2, err3 := storage.MaxVersionDataKey(d.id, tk)
			if err1 != nil || err2 != nil || err3 != nil || !bytes.Equal(mx, mx2) {
				out.Errs = append(out.Errs, fmt.Sprintf("id %d tkey %x: version bounds %v %v %v %x %x", id, tk, err1, err2, err3, mx, mx2))
			}
			if len(row) > 0 {
				k, _ := hex.DecodeString(row[0].Key)
				if mx3 := storage.MaxVersionDataKeyFromKey(k); !bytes.Equal(mx3, mx) {
					out.Errs = append(out.Errs, fmt.Sprintf("id %d tkey %x: MaxVersionDataKeyFromKey %x, MaxVersionKey %x", id, tk, mx3, mx))
				}
			}
			out.MinV = append(out.MinV, hex.EncodeToString(mn))
			out.MaxV = append(out.MaxV, hex.EncodeToString(mx))
		}
	}
	return out, nil
}

// rawScan returns the values (flat key indices) of the keys RawRangeQuery yields.
func rawScan(db storage.OrderedKeyValueDB, lo, hi storage.Key) ([]int, error) {
	ch := make(chan *storage.KeyValue, 100)
	var out []int
	done := make(chan struct{})
	go func() {
		defer close(done)
		for kv := range ch {
			if kv == nil {
				return
			}
			if len(kv.V) == 4 {
				out = append(out, int(binary.BigEndian.Uint32(kv.V)))
			} else {
				out = append(out, -1)
			}
		}
	}()
	err := db.RawRangeQuery(lo, hi, false, ch, nil)
	if err != nil {
		close(ch)
	}
	<-done
	return out, err
}

type keyStoreOut struct {
	Order     []int   `json:"order"`     // whole data key space
	InstScan  [][]int `json:"instscan"`  // per id: RawRangeQuery(KeyRange())
	DatumScan [][]int `json:"datumscan"` // per datum: RawRangeQuery(MinVersionKey, MaxVersionKey)
	// what is left after deleting instance ii (the store is refilled before each deletion)
	AfterDeleteInstance [][]int  `json:"after_delete_instance"` // storage.DeleteDataInstance
	AfterDeleteAll      [][]int  `json:"after_delete_all"`      // store.DeleteAll(VersionedCtx)
	Errs                []string `json:"errs,omitempty"`
}

// callKeysStore writes every key of the table (built as in keys.table) into the node's
// store with its flat index as value and reads it back through the raw scans.
func callKeysStore(args json.RawMessage) (interface{}, error) {
	var a keyTableArgs
	if err := json.Unmarshal(args, &a); err != nil {
		return nil, err
	}
	db, err := storage.DefaultOrderedKVDB()
	if err != nil {
		return nil, err
	}
	store, err := storage.DefaultKVStore()
	if err != nil {
		return nil, err
	}
	type rawPutter interface {
		RawPut(storage.Key, []byte) error
	}
	rp, ok := db.(rawPutter)
	if !ok {
		return nil, fmt.Errorf("store has no RawPut")
	}
	tks := make([]storage.TKey, len(a.TKs))
	for t, sp := range a.TKs {
		if tks[t], err = sp.tkey(); err != nil {
			return nil, err
		}
	}
	var all []storage.Key
	for ii, id := range a.IDs {
		d := &stubData{id: dvid.InstanceID(id)}
		otherID := dvid.InstanceID(a.IDs[(ii+1)%len(a.IDs)])
		for _, tk := range tks {
			for vi, v := range a.Vers {
				otherV := dvid.VersionID(a.Vers[(vi+1)%len(a.Vers)])
				for _, c := range a.Clis {
					for m := 0; m < 2; m++ {
						k, _ := buildKey(d, tk, dvid.VersionID(v), dvid.ClientID(c), m == 1, otherID, otherV)
						all = append(all, k)
					}
				}
			}
		}
	}
	fill := func() error {
		for f, k := range all {
			var v [4]byte
			binary.BigEndian.PutUint32(v[:], uint32(f+1))
			if err := rp.RawPut(k, v[:]); err != nil {
				return err
			}
		}
		return nil
	}
	var out keyStoreOut
	if err := fill(); err != nil {
		return nil, err
	}
	dataLo, dataHi := storage.Key{1}, storage.Key{2}
	if out.Order, err = rawScan(db, dataLo, dataHi); err != nil {
		return nil, err
	}
	for _, id := range a.IDs {
		d := &stubData{id: dvid.InstanceID(id), store: store}
		lo, hi := storage.NewDataContext(d, 1).KeyRange()
		sc, err := rawScan(db, lo, hi)
		if err != nil {
			out.Errs = append(out.Errs, err.Error())
		}
		out.InstScan = append(out.InstScan, sc)
		vctx := datastore.NewVersionedCtx(d, 1)
		for _, tk := range tks {
			mn, _ := vctx.MinVersionKey(tk)
			mx, _ := vctx.MaxVersionKey(tk)
			sc, err := rawScan(db, mn, mx)
			if err != nil {
				out.Errs = append(out.Errs, err.Error())
			}
			out.DatumScan = append(out.DatumScan, sc)
		}
	}
	for pass := 0; pass < 2; pass++ {
		for _, id := range a.IDs {
			if err := fill(); err != nil {
				return nil, err
			}
			d := &stubData{id: dvid.InstanceID(id), store: store}
			if pass == 0 {
				err = storage.DeleteDataInstance(d)
			} else {
				err = db.DeleteAll(datastore.NewVersionedCtx(d, 1))
			}
			if err != nil {
				out.Errs = append(out.Errs, fmt.Sprintf("delete instance %d (pass %d): %v", id, pass, err))
			}
			rest, err := rawScan(db, dataLo, dataHi)
			if err != nil {
				out.Errs = append(out.Errs, err.Error())
			}
			if pass == 0 {
				out.AfterDeleteInstance = append(out.AfterDeleteInstance, rest)
			} else {
				out.AfterDeleteAll = append(out.AfterDeleteAll, rest)
			}
		}
	}
	return out, nil
}

// callKeysDump lists every key of the data key space of the default store (hex).
func callKeysDump(args json.RawMessage) (interface{}, error) {
	db, err := storage.DefaultOrderedKVDB()
	if err != nil {
		return nil, err
	}
	ch := make(chan *storage.KeyValue, 100)
	var out []string
	done := make(chan struct{})
	go func() {
		defer close(done)
		for kv := range ch {
			if kv == nil {
				return
			}
			out = append(out, hex.EncodeToString(kv.K))
		}
	}()
	if err := db.RawRangeQuery(storage.Key{1}, storage.Key{2}, true, ch, nil); err != nil {
		close(ch)
		<-done
		return nil, err
	}
	<-done
	if out == nil {
		out = []string{}
	}
	return out, nil
}

func init() { calls["keys.tkeys"] = callKeysTKeys }

// callKeysTKeys lists the distinct datum keys (hex) stored for one data instance.
func callKeysTKeys(args json.RawMessage) (interface{}, error) {
	var a struct{ UUID, Name string }
	if err := json.Unmarshal(args, &a); err != nil {
		return nil, err
	}
	d, err := datastore.GetDataByUUIDName(dvid.UUID(a.UUID), dvid.InstanceName(a.Name))
	if err != nil {
		return nil, err
	}
	db, err := datastore.GetOrderedKeyValueDB(d)
	if err != nil {
		return nil, err
	}
	lo, hi := storage.DataInstanceKeyRange(d.InstanceID())
	ch := make(chan *storage.KeyValue, 100)
	out := []string{}
	seen := map[string]bool{}
	done := make(chan struct{})
	go func() {
		defer close(done)
		for kv := range ch {
			if kv == nil {
				return
			}
			tk, err := storage.TKeyFromKey(kv.K)
			h := hex.EncodeToString(tk)
			if err != nil {
				h = "?" + hex.EncodeToString(kv.K)
			}
			if !seen[h] {
				seen[h] = true
				out = append(out, h)
			}
		}
	}()
	if err := db.RawRangeQuery(lo, hi, true, ch, nil); err != nil {
		close(ch)
		<-done
		return nil, err
	}
	<-done
	return out, nil
}

func init() {
	calls["inst.deletebyuuid"] = func(args json.RawMessage) (interface{}, error) {
		var a struct {
			DataUUID string `json:"datauuid"`
		}
		if err := json.Unmarshal(args, &a); err != nil {
			return nil, err
		}
		return nil, datastore.DeleteDataByDataUUID(dvid.UUID(a.DataUUID), "")
	}
}
