package main

// C08-13: renumber onto a label that was in use before needs a history of three requests (its supervoxel split
// away, its body renumbered, then another body renamed to it), which the quick tier's exhaustive layouts do not
// reach.  TLC explores LabelmapGrowth to depth 3 from a layout with two supervoxels and the harness replays, of that
// state graph, the shortest history to each "onto" transition (a seeded sample) plus the transition itself, as a chain
// of versions with the full read set after every step.

import (
	"fmt"
	"math/rand"
	"sync/atomic"
	"time"

	"verifharness/internal/ev"
	"verifharness/internal/lmm"
)

func lmOntoPaths(c *Ctx, run, run12 *ev.Run, g *lmm.Geom, edges *int64) (int, int64, int64) {
	initSV := []uint64{5, 5, 5, 6, 6, 0}
	lmGrowth = true
	gr, s, t := lmExplore(c, g, initSV, 3, 3, nil, nil, false)
	lmGrowth = false
	var onto []int
	for ei, e := range gr.edges {
		if e.L.Op == "renumber" && e.L.Onto {
			onto = append(onto, ei)
		}
	}
	if len(onto) == 0 {
		infra("LabelmapGrowth: no renumber onto a formerly used label within depth 3")
	}
	rng := rand.New(rand.NewSource(c.Seed*131 + 7))
	rng.Shuffle(len(onto), func(i, j int) { onto[i], onto[j] = onto[j], onto[i] })
	if n := c.pick(6, 60); len(onto) > n {
		onto = onto[:n]
	}
	parallel(len(onto), 8, func(_, i int) {
		last := gr.edges[onto[i]]
		// BFS-tree history of the source state
		var hist []lmEdge
		for st := gr.states[last.S.Canon()]; st.parent >= 0; {
			e := gr.edges[st.parent]
			hist = append([]lmEdge{e}, hist...)
			st = gr.states[e.S.Canon()]
		}
		hist = append(hist, last)
		w := &lmWorker{c: c, run: run, run12: run12, gr: gr, g: g, initSV: initSV, gname: "small6/R(renumber onto a former label)", w: i, nw: 1,
			cfg: map[string]string{}, edges: edges, restarts: new(int64)}
		cur, lab := w.start()
		defer c.DropNode(w.n)
		var path []lmm.Op
		for si, e := range hist {
			cur = w.branch(cur)
			status, probs, err := w.in.Apply(cur, e.L, lab)
			must(err, "apply "+e.L.Op)
			atomic.AddInt64(edges, 1)
			lmCountOp(e.L)
			path = append(path, e.L)
			run.Eval(fmt.Sprintf("onto|%d|%d", onto[i], si))
			for _, p := range probs {
				run12.Violation("c12", c08Divergence{Kind: "identifier", Geometry: w.gname, InitSV: initSV, Path: path, Op: e.L, Diffs: []string{p}})
			}
			if status != 200 {
				run.Violation("c08", c08Divergence{Kind: "valid-operation-refused", Geometry: w.gname, InitSV: initSV, Path: path, Op: e.L, Status: status, Labels: lab.ToReal, LogTail: w.n.StderrTail(1200)})
				return
			}
			must(w.in.Idle(), "idle")
			d, err := w.in.Compare(cur, e.Obs, lab, lmm.Full)
			must(err, "compare")
			if len(d) > 0 {
				if len(d) > 12 {
					d = d[:12]
				}
				run.Violation("c08", c08Divergence{Kind: "state-mismatch-after-operation", Geometry: w.gname, InitSV: initSV, Path: path, Op: e.L, Diffs: d, Labels: lab.ToReal, LogTail: w.n.StderrTail(1200)})
				return
			}
			w.commit(cur)
			if si == len(hist)-1 && i%3 == 0 {
				// the renamed body after a restart (the mapping is rebuilt from the log)
				must(w.n.Restart(i%2 == 0), "restart")
				time.Sleep(time.Millisecond)
				d, err := w.in.Compare(cur, e.Obs, lab, lmm.Full)
				must(err, "compare after restart")
				if len(d) > 0 {
					run.Violation("c08", c08Divergence{Kind: "state-differs-after-restart", Geometry: w.gname, InitSV: initSV, Path: path, Op: e.L, Diffs: d, Labels: lab.ToReal})
				}
			}
		}
	})
	return len(onto), s, t
}
