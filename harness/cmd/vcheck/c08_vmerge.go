package main

// C08-6: labelmap reads at a version that merges two sibling versions (POST repo/merge,
// "conflict-free").  The expected state comes from TLC's state graph of Labelmap.tla: for a
// state S with two outgoing transitions a : S -> A and b : S -> B that touch disjoint bodies
// and commute in the graph (A -b-> M and B -a-> M reach the same state M), the version that
// merges the versions holding A and B must read as M: every datum (label index, mapping,
// block) was changed by at most one parent, which is KVRead's rule for a merge node.

import (
	"encoding/json"
	"fmt"
	"sync/atomic"

	"verifharness/internal/ev"
	"verifharness/internal/lmm"
)

func lmFootprint(op lmm.Op) map[uint64]bool {
	f := map[uint64]bool{}
	switch op.Op {
	case "merge":
		f[op.Target] = true
		for _, m := range op.Merged {
			f[m] = true
		}
	case "cleave":
		f[op.Body] = true
		f[op.New] = true
	default:
		return nil
	}
	return f
}

func lmSameOp(a, b lmm.Op) bool {
	x, _ := json.Marshal(a)
	y, _ := json.Marshal(b)
	return string(x) == string(y)
}

// lmVersionMerges replays commuting pairs of transitions on sibling versions and compares
// the merge node with the state TLC reaches by applying both.
func lmVersionMerges(c *Ctx, run, run12 *ev.Run, g *lmm.Geom, edges *int64) (pairs, restarts int64, states, trans int64) {
	// S = six supervoxels, 4 and 5 already agglomerated into body 3 (a body with three supervoxels,
	// so that cleaves exist next to merges of the other bodies)
	initSV := []uint64{1, 2, 3, 4, 5, 6}
	g = lmm.NewGeom(c.Seed, true)
	g.InitMap = map[uint64]uint64{1: 1, 2: 2, 3: 3, 4: 3, 5: 3, 6: 6}
	prep := lmm.Op{Op: "merge", Target: 3, Merged: []uint64{4, 5}}
	gr, s, t := lmExplore(c, g, initSV, 2, 2, nil, nil, false)
	sk := gr.init
	S := gr.states[sk]
	type pair struct{ a, b, m int } // edge indices: S-a->A, S-b->B, A-b->M
	var ps []pair
	for _, ai := range S.out {
		a := gr.edges[ai]
		fa := lmFootprint(a.L)
		if a.L.Op != "merge" || fa == nil {
			continue
		}
		for _, bi := range S.out {
			b := gr.edges[bi]
			fb := lmFootprint(b.L)
			if fb == nil || bi == ai || (b.L.Op == "merge" && bi < ai) {
				continue
			}
			disjoint := true
			for l := range fb {
				if fa[l] {
					disjoint = false
				}
			}
			if !disjoint {
				continue
			}
			// the graph must commute: A -b-> M and B -a-> M
			A, B := gr.states[a.T.Canon()], gr.states[b.T.Canon()]
			if A == nil || B == nil {
				continue
			}
			mi := -1
			for _, xi := range A.out {
				if lmSameOp(gr.edges[xi].L, b.L) {
					mi = xi
				}
			}
			if mi < 0 {
				continue
			}
			ok := false
			for _, xi := range B.out {
				if lmSameOp(gr.edges[xi].L, a.L) && gr.edges[xi].T.Canon() == gr.edges[mi].T.Canon() {
					ok = true
				}
			}
			if ok {
				ps = append(ps, pair{ai, bi, mi})
			}
		}
	}
	if len(ps) == 0 {
		infra("version merge: no commuting pair of transitions with disjoint bodies in the state graph")
	}
	max := c.pick(10, 60)
	if len(ps) > max {
		c.Rng.Shuffle(len(ps), func(i, j int) { ps[i], ps[j] = ps[j], ps[i] })
		ps = ps[:max]
	}
	nw := 4
	parallel(nw, nw, func(_, wi int) {
		w := &lmWorker{c: c, run: run, run12: run12, gr: gr, g: g, initSV: initSV, gname: "small6/M(version-merge)", w: wi, nw: nw,
			cfg: map[string]string{}, edges: edges, restarts: new(int64)}
		w.preOps = []lmm.Op{prep}
		vs, lab := w.start() // ingests, merges {4,5} into 3, compares with S and commits
		root := vs
		defer c.DropNode(w.n)
		for pi, p := range ps {
			if pi%nw != wi {
				continue
			}
			a, b, m := gr.edges[p.a], gr.edges[p.b], gr.edges[p.m]
			va, vb := w.branch(vs), w.branch(vs)
			la, lb := lab.Clone(), lab.Clone()
			if st, _, err := w.in.Apply(va, a.L, la); err != nil || st != 200 {
				must(err, "apply a")
				w.report("valid-operation-refused", sk, a.L, st, nil, la, run)
				continue
			}
			if st, _, err := w.in.Apply(vb, b.L, lb); err != nil || st != 200 {
				must(err, "apply b")
				w.report("valid-operation-refused", sk, b.L, st, nil, lb, run)
				continue
			}
			must(w.in.Idle(), "idle")
			w.commit(va)
			w.commit(vb)
			parents := []string{va, vb}
			if pi%2 == 1 {
				parents = []string{vb, va}
			}
			body, _ := json.Marshal(map[string]interface{}{"mergeType": "conflict-free", "parents": parents, "note": "version merge"})
			r, err := w.n.HTTP("POST", "/api/repo/"+root+"/merge", body)
			must(err, "repo merge")
			var o struct{ Child string }
			json.Unmarshal(r.Bytes(), &o)
			if r.Status != 200 || o.Child == "" {
				infra("version merge refused: %d %s", r.Status, r.Bytes())
			}
			lm := la.Clone()
			for sp, re := range lb.ToReal {
				lm.Bind(sp, re)
			}
			atomic.AddInt64(&pairs, 1)
			atomic.AddInt64(edges, 1)
			run.Eval(fmt.Sprintf("vmerge|%d|%d|%v", p.a, p.b, pi%2))
			if pi == 0 {
				run.Sample(map[string]interface{}{"layout": w.gname, "initial_agglomeration": g.InitMap, "sibling_a": a.L, "sibling_b": b.L, "merge_parents_order": parents,
					"expected_state_at_merge_node": m.T})
			}
			d, err := w.in.Compare(o.Child, m.Obs, lm, lmm.Full)
			must(err, "compare merge node")
			kind := "merge-node-differs-from-both-operations-applied"
			if len(d) == 0 && pi%3 == 0 {
				// after a restart the mappings of both parents are rebuilt from their logs
				must(w.n.Restart(pi%2 == 0), "restart")
				d, err = w.in.Compare(o.Child, m.Obs, lm, lmm.Full)
				must(err, "compare merge node after restart")
				kind = "merge-node-differs-after-restart"
				atomic.AddInt64(&restarts, 1)
			}
			if len(d) > 0 {
				if len(d) > 12 {
					d = d[:12]
				}
				run.Violation("c08", c08Divergence{Kind: kind, Geometry: w.gname, InitSV: initSV,
					Path: []lmm.Op{prep}, Op: lmm.Op{Op: "version-merge of [" + a.L.Op + "] and [" + b.L.Op + "]", Target: a.L.Target, Merged: a.L.Merged, Body: b.L.Body, SVs: b.L.SVs, New: b.L.New},
					Diffs: append([]string{fmt.Sprintf("parents in order %v: first = %s, second = %s", map[bool]string{false: "a,b", true: "b,a"}[pi%2 == 1], a.L.Op, b.L.Op)}, d...), Labels: lm.ToReal})
			}
		}
	})
	return pairs, restarts, s, t
}
