package main

import (
	"bytes"
	"encoding/json"
	"fmt"
	"math/rand"

	"verifharness/internal/ev"
	"verifharness/internal/node"
)

// Part C of C17: Voxels.ReadBlock / Voxels.WriteBlock (datatype/imageblk/read.go, write.go)
// called directly.  For one block at a seeded (possibly negative) block coordinate and an
// anisotropic block size, geometries of all four shapes (3-D, XY, XZ, YZ) whose per-axis
// interval is drawn from every structural class relative to the block (starts before / at the
// first / inside / at the last voxel of the block; ends inside / at the last voxel / after
// the block; single voxel) are read and written.  Expected: a voxel of the geometry inside the
// block carries the block's voxel (f), every other voxel of the request buffer stays zero; a
// written block carries the geometry's voxels where they overlap and zero elsewhere.

type ivGeom struct {
	Shape  string `json:"shape"`
	Offset [3]int `json:"offset"`
	Size   [3]int `json:"size"`
	Vox    []byte `json:"vox,omitempty"`
	class  string
}

// axisIntervals lists (start, size, class) for one axis of a block [b0, b0+n).
func axisIntervals(rng *rand.Rand, b0, n int) [][3]interface{} {
	starts := map[string][]int{"before": {b0 - 1 - rng.Intn(3)}, "first": {b0}, "inside": {b0 + 1 + rng.Intn(n-2)}, "last": {b0 + n - 1}}
	var out [][3]interface{}
	for sc, ss := range starts {
		for _, st := range ss {
			ends := map[string]int{"inside": -1, "last": b0 + n - 1, "after": b0 + n + rng.Intn(3), "single": st}
			if st < b0+n-2 {
				lo := st + 1
				if lo < b0 {
					lo = b0
				}
				ends["inside"] = lo + rng.Intn(b0+n-1-lo)
			}
			for ec, en := range ends {
				if en < st || en < b0 { // must be an interval that intersects the block
					continue
				}
				if ec == "inside" && en >= b0+n-1 {
					continue
				}
				out = append(out, [3]interface{}{st, en - st + 1, sc + "-" + ec})
			}
		}
	}
	return out
}

func ivTransferSweep(c *Ctx, run *ev.Run, rng *rand.Rand) (int64, int) {
	n := c.StartNode(node.Config{NoLog: true})
	defer c.DropNode(n)
	r, err := n.HTTP("POST", "/api/repos", []byte(`{"alias":"c17c","description":"c17c"}`))
	must(err, "new repo")
	var out struct{ Root string }
	if r.Status != 200 || json.Unmarshal(r.Bytes(), &out) != nil {
		infra("new repo: %d", r.Status)
	}
	var total int64
	distinct := map[string]bool{}
	rounds := c.pick(2, 12)
	for _, t := range ivTypes {
		body, _ := json.Marshal(map[string]string{"typename": t.Name, "dataname": "t" + t.Name})
		if r, err := n.HTTP("POST", "/api/repo/"+out.Root+"/instance", body); err != nil || r.Status != 200 {
			infra("new instance %s: %v %d", t.Name, err, r.Status)
		}
		for round := 0; round < rounds; round++ {
			bsList := [][3]int{{5, 3, 4}, {4, 6, 3}, {8, 4, 6}, {3, 7, 5}}
			bs := bsList[rng.Intn(len(bsList))]
			block := [3]int{rng.Intn(5) - 3, rng.Intn(5) - 3, rng.Intn(5) - 3}
			bind := ivBind{Type: t.Name, BPV: t.BPV, BS: bs, Seed: rng.Uint64()}
			boff := [3]int{block[0] * bs[0], block[1] * bs[1], block[2] * bs[2]}
			blockData := bind.writeData(1, boff, bs)
			var ivs [3][][3]interface{}
			for a := 0; a < 3; a++ {
				ivs[a] = axisIntervals(rng, boff[a], bs[a])
			}
			var geoms []ivGeom
			add := func(shape string, pick [3]int, fixed int) {
				g := ivGeom{Shape: shape}
				cls := shape
				for a := 0; a < 3; a++ {
					if a == fixed {
						g.Offset[a] = boff[a] + rng.Intn(bs[a])
						g.Size[a] = 1
						cls += "|fixed"
						continue
					}
					iv := ivs[a][pick[a]]
					g.Offset[a], g.Size[a] = iv[0].(int), iv[1].(int)
					cls += "|" + iv[2].(string)
				}
				g.class = cls
				g.Vox = bind.writeData(2, g.Offset, g.Size)
				geoms = append(geoms, g)
			}
			// 3-D: all pairs of classes on two axes with a seeded class on the third; 2-D: all pairs
			for i := range ivs[0] {
				for j := range ivs[1] {
					add("vol", [3]int{i, j, rng.Intn(len(ivs[2]))}, -1)
					add("xy", [3]int{i, j, 0}, 2)
				}
				for k := range ivs[2] {
					add("vol", [3]int{i, rng.Intn(len(ivs[1])), k}, -1)
					add("xz", [3]int{i, 0, k}, 1)
				}
			}
			for j := range ivs[1] {
				for k := range ivs[2] {
					add("vol", [3]int{rng.Intn(len(ivs[0])), j, k}, -1)
					add("yz", [3]int{0, j, k}, 0)
				}
			}
			var res []struct {
				Read  []byte `json:"read"`
				Block []byte `json:"block"`
				Err   string `json:"err"`
			}
			err := n.Call("imageblk.transfer", map[string]interface{}{"data": "t" + t.Name, "uuid": out.Root, "bs": bs, "block": block, "blockdata": blockData, "geoms": geoms}, &res)
			must(err, "imageblk.transfer")
			if len(res) != len(geoms) {
				infra("imageblk.transfer returned %d results for %d geometries", len(res), len(geoms))
			}
			for i, g := range geoms {
				total++
				distinct[t.Name+"|"+g.class] = true
				run.Eval("transfer|" + t.Name + "|" + g.class)
				report := func(kind, detail string, want, got []byte) {
					run.Violation("c17", ivDivergence{Kind: kind, Part: "C", Bind: bind, Request: fmt.Sprintf("imageblk.transfer %s offset %v size %v on block %v (block size %v)", g.Shape, g.Offset, g.Size, block, bs),
						Detail: detail + "; class " + g.class, Expected: hexs(want), Observed: hexs(got)})
				}
				if res[i].Err != "" {
					report("transfer-error", res[i].Err, nil, nil)
					continue
				}
				// expected read buffer
				inBlock := func(x, y, z int) bool {
					return x >= boff[0] && x < boff[0]+bs[0] && y >= boff[1] && y < boff[1]+bs[1] && z >= boff[2] && z < boff[2]+bs[2]
				}
				want := make([]byte, len(g.Vox))
				k := 0
				for z := 0; z < g.Size[2]; z++ {
					for y := 0; y < g.Size[1]; y++ {
						for x := 0; x < g.Size[0]; x++ {
							X, Y, Z := g.Offset[0]+x, g.Offset[1]+y, g.Offset[2]+z
							if inBlock(X, Y, Z) {
								bind.ivVoxel(want[k:k+t.BPV], 1, X, Y, Z)
							}
							k += t.BPV
						}
					}
				}
				if !bytes.Equal(want, res[i].Read) {
					report("transfer-read", firstDiff(want, res[i].Read, t.BPV, g.Offset, g.Size), want, res[i].Read)
					continue
				}
				// expected written block
				wantB := make([]byte, len(blockData))
				k = 0
				for z := 0; z < bs[2]; z++ {
					for y := 0; y < bs[1]; y++ {
						for x := 0; x < bs[0]; x++ {
							X, Y, Z := boff[0]+x, boff[1]+y, boff[2]+z
							if X >= g.Offset[0] && X < g.Offset[0]+g.Size[0] && Y >= g.Offset[1] && Y < g.Offset[1]+g.Size[1] && Z >= g.Offset[2] && Z < g.Offset[2]+g.Size[2] {
								bind.ivVoxel(wantB[k:k+t.BPV], 2, X, Y, Z)
							}
							k += t.BPV
						}
					}
				}
				if !bytes.Equal(wantB, res[i].Block) {
					report("transfer-write", firstDiff(wantB, res[i].Block, t.BPV, boff, bs), wantB, res[i].Block)
				}
			}
		}
	}
	return total, len(distinct)
}
