package main

import (
	"encoding/json"
	"fmt"
	"math/rand"
	"sort"
	"sync/atomic"
	"time"

	"verifharness/internal/dagm"
	"verifharness/internal/ev"
	"verifharness/internal/node"
	"verifharness/internal/tlc"
)

func init() { checks["C07"] = checkC07 }

type dagEdge struct {
	S dagm.State `json:"s"`
	L dagm.Op    `json:"l"`
	T dagm.State `json:"t"`
}

type dagRejLine struct {
	S   dagm.State `json:"s"`
	Rej []dagm.Op  `json:"rej"`
}

// dagGraph is the accepted-transition graph emitted by TLC.
type dagGraph struct {
	states map[string]*dagStateInfo
	order  []string // BFS discovery order
	edges  []dagEdge
}

type dagStateInfo struct {
	st     dagm.State
	parent string   // key of BFS-tree parent ("" for init)
	via    dagm.Op  // op from parent
	depth  int
	out    []int // indices into edges
	rej    []dagm.Op
}

func (g *dagGraph) path(key string) []dagm.Op {
	var rev []dagm.Op
	for k := key; ; {
		si := g.states[k]
		if si.parent == "" && si.depth == 0 {
			break
		}
		rev = append(rev, si.via)
		k = si.parent
	}
	for i, j := 0, len(rev)-1; i < j; i, j = i+1, j-1 {
		rev[i], rev[j] = rev[j], rev[i]
	}
	return rev
}

func dagConstants(maxNodes, maxRepos, maxParents int, rejects bool) string {
	return fmt.Sprintf("CONSTANTS\n  MaxNodes = %d\n  MaxRepos = %d\n  MaxParents = %d\n  Branches = {\"a\", \"b\"}\n  UUIDPool = {\"ua\"}\n  WithRejects = %s\n",
		maxNodes, maxRepos, maxParents, map[bool]string{true: "TRUE", false: "FALSE"}[rejects])
}

// emitDagGraph runs TLC to print every accepted transition of the bounded model.
func emitDagGraph(c *Ctx, maxNodes, maxRepos, maxParents int) (*dagGraph, *tlc.Result) {
	cfg := "SPECIFICATION SpecEmit\n" + dagConstants(maxNodes, maxRepos, maxParents, false) + "VIEW View\nCHECK_DEADLOCK FALSE\n"
	r := c.MustModelCheck(tlc.Opts{Module: "DvidDAG_mc", Config: "gen_emit.cfg", Workers: 1,
		Files: map[string][]byte{"gen_emit.cfg": []byte(cfg)}, Timeout: 20 * time.Minute})
	g := &dagGraph{states: map[string]*dagStateInfo{}}
	seenEdge := map[string]bool{}
	PrintedJSON(r.Output, func(raw []byte) {
		var e dagEdge
		if err := json.Unmarshal(raw, &e); err != nil || e.L.Op == "" {
			return
		}
		sk, tk := e.S.Key(), e.T.Key()
		ek := sk + "#" + e.L.Key()
		if seenEdge[ek] {
			return
		}
		seenEdge[ek] = true
		if _, ok := g.states[sk]; !ok {
			if e.S.NN != 0 {
				infra("edge from undiscovered non-initial state (TLC output order)")
			}
			g.states[sk] = &dagStateInfo{st: e.S}
			g.order = append(g.order, sk)
		}
		if _, ok := g.states[tk]; !ok {
			g.states[tk] = &dagStateInfo{st: e.T, parent: sk, via: e.L, depth: g.states[sk].depth + 1}
			g.order = append(g.order, tk)
		}
		g.edges = append(g.edges, e)
		g.states[sk].out = append(g.states[sk].out, len(g.edges)-1)
	})
	if len(g.edges) == 0 {
		infra("TLC emitted no transitions:\n%s", r.Tail(2000))
	}
	return g, r
}

func emitDagRejects(c *Ctx, g *dagGraph, maxNodes, maxRepos, maxParents int) int {
	cfg := "SPECIFICATION Spec\n" + dagConstants(maxNodes, maxRepos, maxParents, true) + "VIEW View\nINVARIANTS EmitRejects\nCHECK_DEADLOCK FALSE\n"
	r := c.MustModelCheck(tlc.Opts{Module: "DvidDAG_mc", Config: "gen_rej.cfg", Workers: 1,
		Files: map[string][]byte{"gen_rej.cfg": []byte(cfg)}, Timeout: 20 * time.Minute})
	n := 0
	PrintedJSON(r.Output, func(raw []byte) {
		var l dagRejLine
		if err := json.Unmarshal(raw, &l); err != nil {
			return
		}
		si, ok := g.states[l.S.Key()]
		if !ok || l.S.NN >= maxNodes {
			return // at the node bound "refused" would be an artefact of the bound
		}
		if si.rej == nil {
			si.rej = l.Rej
			n += len(l.Rej)
		}
	})
	return n
}

type c07Divergence struct {
	Kind     string      `json:"kind"`
	Path     []dagm.Op   `json:"path"`
	Op       dagm.Op     `json:"op"`
	Expected interface{} `json:"expected"`
	Diffs    []string    `json:"diffs"`
	Script   []dagm.Step `json:"script"`
}

// dagWorker owns one node process and recycles it.
type dagWorker struct {
	c      *Ctx
	n      *node.Node
	cases  int
	every  int
	cfg    node.Config
}

func (w *dagWorker) sess() *dagm.Sess {
	if w.n == nil || w.cases >= w.every || !w.n.Alive() {
		if w.n != nil {
			w.c.DropNode(w.n)
		}
		w.n = w.c.StartNode(w.cfg)
		w.cases = 0
	}
	w.cases++
	return dagm.NewSess(w.n)
}

func (w *dagWorker) close() {
	if w.n != nil {
		w.c.DropNode(w.n)
		w.n = nil
	}
}

// buildState replays path on a fresh session; returns an error string if the server
// refuses a request the specification accepts.
func buildState(s *dagm.Sess, path []dagm.Op) (string, error) {
	for i, op := range path {
		ok, status, err := s.Apply(op)
		if err != nil {
			return "", err
		}
		if !ok {
			return fmt.Sprintf("step %d (%s) refused with status %d though the specification accepts it", i+1, op.Key(), status), nil
		}
	}
	return "", nil
}

func headDiffs(s *dagm.Sess, want dagm.State) ([]string, error) {
	var d []string
	wantHead := map[string]int{}
	for _, h := range want.Heads {
		wantHead[fmt.Sprintf("%d:%s", h.Root, h.Branch)] = h.Node
	}
	roots := []int{}
	deadRoot := map[int]bool{}
	for _, r := range want.Dead {
		deadRoot[r] = true
	}
	for i, k := range want.Kind {
		if k == "root" && !deadRoot[i+1] {
			roots = append(roots, i+1)
		}
	}
	names := map[string]bool{"": true, "a": true, "b": true}
	for _, b := range want.Br {
		names[b] = true
	}
	var nl []string
	for b := range names {
		nl = append(nl, b)
	}
	sort.Strings(nl)
	for _, root := range roots {
		for _, b := range nl {
			got, err := s.HeadOf(root, b)
			if err != nil {
				return nil, err
			}
			w := wantHead[fmt.Sprintf("%d:%s", root, b)]
			if got != w {
				d = append(d, fmt.Sprintf("head of n%d:%q: spec n%d, server n%d", root, b, w, got))
			}
			if b != "" && w != 0 {
				bv, st, err := s.BranchVersions(root, b)
				if err != nil {
					return nil, err
				}
				if st != 200 || len(bv) == 0 || bv[0] != w {
					d = append(d, fmt.Sprintf("branch-versions n%d/%q: spec leaf n%d, server %v (status %d)", root, b, w, bv, st))
				}
			}
		}
	}
	return d, nil
}

// compareState projects the server and compares with the specification state.
func compareState(s *dagm.Sess, want dagm.State, heads bool) ([]string, error) {
	ob, err := s.Project()
	if err != nil {
		return nil, err
	}
	d := dagm.Diff(want, ob)
	if heads {
		hd, err := headDiffs(s, want)
		if err != nil {
			return nil, err
		}
		d = append(d, hd...)
	}
	return d, nil
}


// replayDagGraph replays every accepted edge and every refused request of one emitted graph.
func replayDagGraph(c *Ctx, run *ev.Run, g *dagGraph, nAccepted, nRejected, nStates *int64) {
	workers := 16
	ws := make([]*dagWorker, workers)
	for i := range ws {
		ws[i] = &dagWorker{c: c, every: 150, cfg: node.Config{}}
	}
	defer func() {
		for _, w := range ws {
			w.close()
		}
	}()
	report := func(d c07Divergence) {
		run.Violation("c07", d)
	}
	// items: one per state (source check + all refused requests + each accepted edge)
	keys := g.order
	// thorough: refused requests are replayed on every state that has them; accepted edges on all.
	parallel(len(keys), workers, func(wi, ki int) {
		w := ws[wi]
		key := keys[ki]
		si := g.states[key]
		path := g.path(key)
		// (a) refused requests at this state
		var sPoison *dagm.Sess
		if len(si.rej) > 0 {
			s := w.sess()
			if msg, err := buildState(s, path); err != nil {
				must(err, "build state")
			} else if msg != "" {
				report(c07Divergence{Kind: "accepted-request-refused", Path: path, Diffs: []string{msg}, Script: s.Script})
				return
			}
			d, err := compareState(s, si.st, true)
			must(err, "project")
			if len(d) > 0 {
				report(c07Divergence{Kind: "state-mismatch-after-path", Path: path, Expected: si.st, Diffs: d, Script: s.Script})
				return
			}
			rej := si.rej
			if c.thorough() && len(rej) > 30 {
				// thorough explores 4-node states: a seeded sample of the refused requests per state
				r2 := rand.New(rand.NewSource(c.Seed + int64(ki)))
				r2.Shuffle(len(rej), func(i, j int) { rej[i], rej[j] = rej[j], rej[i] })
				rej = rej[:30]
			}
			for _, op := range rej {
				if op.Op == "merge" && si.st.NN == 0 {
					continue
				}
				ok, status, err := s.Apply(op)
				must(err, "apply refused op")
				d, err := compareState(s, si.st, true)
				must(err, "project")
				run.Eval("rej|" + op.Op + "|" + key[:0] + fmt.Sprint(ki) + "|" + op.Key())
				bad := false
				neutral := map[string]bool{"note": true, "log": true, "repolog": true, "newinstance": true, "renameinstance": true, "deleteinstance": true}[op.Op]
				if ok && !neutral {
					// Apply registered a new node; the specification refuses this request
					bad = true
					d = append([]string{fmt.Sprintf("request %s accepted (status 200) though the specification refuses it", op.Key())}, d...)
				} else if status >= 500 {
					bad = true
					d = append([]string{fmt.Sprintf("request %s answered %d", op.Key(), status)}, d...)
				}
				if bad || len(d) > 0 {
					report(c07Divergence{Kind: "refused-request-changed-state", Path: path, Op: op, Expected: si.st, Diffs: d, Script: s.Script})
					// rebuild the state and continue with the remaining requests
					s = w.sess()
					if msg, err := buildState(s, path); err != nil || msg != "" {
						return
					}
				}
				atomic.AddInt64(nRejected, 1)
			}
			sPoison = s
		}
		// (a') the refused requests must not have poisoned later ones: in the session that has just
		// seen all refused requests of this state, an accepted request of the state (preferably one
		// with a caller-assigned UUID, which a refusal must not have burnt) still has to work
		if len(si.rej) > 0 && len(si.out) > 0 && sPoison != nil {
			pick := si.out[0]
			for _, ei := range si.out {
				if g.edges[ei].L.UUID != "" && g.edges[ei].L.UUID != "auto" || g.edges[ei].L.Tag != "" {
					pick = ei
					break
				}
			}
			e := g.edges[pick]
			ok, status, err := sPoison.Apply(e.L)
			must(err, "apply after refusals")
			if !ok {
				report(c07Divergence{Kind: "accepted-request-refused-after-refused-requests", Path: path, Op: e.L,
					Diffs: []string{fmt.Sprintf("status %d: a request the specification accepts in this state is refused once the state's refused requests have been sent", status)}, Script: sPoison.Script})
			} else {
				d, err := compareState(sPoison, e.T, true)
				must(err, "project")
				if len(d) > 0 {
					report(c07Divergence{Kind: "state-mismatch-after-refused-then-accepted-request", Path: path, Op: e.L, Expected: e.T, Diffs: d, Script: sPoison.Script})
				}
			}
		}
		// (b) accepted edges (thorough tier on the big one-repo graph: the edges of a seeded third
		// of the deepest states; everything else completely)
		if c.thorough() && len(g.states) > 200000 && si.st.NN >= 4 && (ki+int(c.Seed))%3 != 0 {
			atomic.AddInt64(nStates, 1)
			return
		}
		// quick tier: the out-edges of a seeded half of the deepest states (every state with fewer nodes completely;
		// the thorough tier and the other seeds cover the rest)
		if !c.thorough() && si.st.NN >= 3 && (ki+int(c.Seed))%2 != 0 {
			atomic.AddInt64(nStates, 1)
			return
		}
		for _, ei := range si.out {
			e := g.edges[ei]
			s := w.sess()
			if msg, err := buildState(s, path); err != nil {
				must(err, "build state")
			} else if msg != "" {
				report(c07Divergence{Kind: "accepted-request-refused", Path: path, Diffs: []string{msg}, Script: s.Script})
				return
			}
			ok, status, err := s.Apply(e.L)
			must(err, "apply")
			if !ok {
				report(c07Divergence{Kind: "accepted-request-refused", Path: path, Op: e.L,
					Diffs: []string{fmt.Sprintf("status %d", status)}, Script: s.Script})
				continue
			}
			d, err := compareState(s, e.T, true)
			must(err, "project")
			run.Eval("acc|" + fmt.Sprint(ki) + "|" + e.L.Key())
			if len(d) > 0 {
				report(c07Divergence{Kind: "state-mismatch-after-accepted-request", Path: path, Op: e.L, Expected: e.T, Diffs: d, Script: s.Script})
			}
			if atomic.AddInt64(nAccepted, 1)%2000 == 1 {
				run.Sample(map[string]interface{}{"path": path, "request": e.L, "expected_state": e.T})
			}
		}
		atomic.AddInt64(nStates, 1)
	})
}

func checkC07(c *Ctx) int {
	run := ev.NewRun("C07", c.Tier, "model_checking")
	t0 := time.Now()
	mcNodes := c.pick(4, 5)
	oddRun := startOddMC(c) // third round: Inv_C07X over NextX, joined in c07Odd (c07_args.go)
	// 1. model-check the intended design (with refused requests as stuttering transitions)
	mcCfg := "SPECIFICATION Spec\n" + dagConstants(mcNodes, 2, 3, true) +
		"VIEW View\nINVARIANTS Inv_C07\nPROPERTIES Act_C07_RejectIsStutter Act_Monotone\nCHECK_DEADLOCK FALSE\n"
	mc := c.MustModelCheck(tlc.Opts{Module: "DvidDAG_mc", Config: "gen_mc.cfg",
		Files: map[string][]byte{"gen_mc.cfg": []byte(mcCfg)}, Timeout: 30 * time.Minute})
	run.Set("states", mc.Distinct)
	run.Set("transitions", mc.Generated)
	run.Set("tlc_model", fmt.Sprintf("DvidDAG MaxNodes=%d MaxRepos=2 MaxParents=3 Branches={a,b} UUIDPool={ua} rejects=on; Inv_C07, Act_C07_RejectIsStutter, Act_Monotone", mcNodes))

	// 2. transition cover of the accepted graphs, and refused requests per state.  Two graphs:
	// one repo with more nodes (branching/merging depth) and two repos with fewer nodes
	// (repo deletion, foreign-repo parents, UUID reuse across repos).
	type gcfg struct{ nodes, repos, rejNodes int }
	cfgs := []gcfg{{c.pick(4, 5), 1, c.pick(0, 4)}, {c.pick(3, 4), 2, c.pick(3, 4)}}
	var nAccepted, nRejected, nStates, nOdd int64
	var descr []string
	for _, gc := range cfgs {
		g, _ := emitDagGraph(c, gc.nodes, gc.repos, 3)
		nrej := 0
		if gc.rejNodes > 0 {
			nrej = emitDagRejects(c, g, gc.rejNodes, gc.repos, 3)
		}
		descr = append(descr, fmt.Sprintf("MaxNodes=%d MaxRepos=%d -> %d states, %d accepted edges; refused requests on states with < %d nodes: %d", gc.nodes, gc.repos, len(g.states), len(g.edges), gc.rejNodes, nrej))
		replayDagGraph(c, run, g, &nAccepted, &nRejected, &nStates)
		replayDagRPC(c, run, g, &nAccepted, &nRejected) // the same requests as commands of the RPC path (c07_rpc.go)
		if gc.nodes == 4 && gc.repos == 1 {
			nOdd = c07Odd(c, run, g, 4, 1, oddRun) // third round: odd arguments, refused requests at merge states, server-wide projection (c07_args.go)
		}
	}
	if nOdd == 0 {
		gx, _ := emitDagGraph(c, 4, 1, 3)
		nOdd = c07Odd(c, run, gx, 4, 1, oddRun)
	}
	run.Set("replay_graph", descr)
	nTr, nEv := runKVTraces(c, run, c.pick(60, 400), c.pick(50, 80), c.pick(12, 16), false, "")
	run.Set("random_traces_validated_by_tlc", nTr)
	run.Set("random_trace_events", nEv)
	// second round: make-master / hide-branch / addressing, resolve, sync wiring (c07_growth.go)
	nGrowth := c07Growth(c, run)
	run.Set("traces_validated_against_impl", nAccepted+nRejected+int64(nTr)+nGrowth+nOdd)
	run.Set("accepted_edges_replayed", nAccepted)
	run.Set("refused_requests_replayed", nRejected)
	run.Set("rule", "one case = one transition of the TLC state graph (accepted request) or one refused request of the argument domain at a reachable state, replayed on the real server with the projected DAG, heads and identifier maps compared before and after; distinct = distinct (state, request)")
	run.Assume = []string{"TLC bounded model (see tlc_model)", "Badger store; single process; ServeSingleHTTP path"}
	fmt.Printf("C07: tlc %d states; replayed %d accepted edges, %d refused requests over %d states in %.1fs; violations=%d\n",
		mc.Distinct, nAccepted, nRejected, nStates, since(t0), run.Violations())
	checkMgrTraces(c, run) // internal events of the repo manager validated against DvidMgrTrace (c07_mgrtrace.go)
	return run.Finish()
}
